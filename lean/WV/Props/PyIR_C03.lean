import WV.Proofs.PyIR_C03

/-!
Translation validation of method BODIES, C03 part: for every method of `Mailbox`, `Order`, `Send`, `Receive`
and the data-bearing ones of `Boss` that the C03 model gives semantics to, the PyIR interpreter run on the body
that `tools/extract.py::extract_pyir` generated from the working tree (`WV.Gen.PyIR`) agrees with the model's
hand-written output semantics: final data state (through the `Rel…` heap relations), the ordered list of
collaborator calls with their arguments, and the exception.

Hypotheses are of two kinds only: `Rel… h m` (the heap holds the model state `m`, i.e. the attributes have the
types the constructor gives them) and facts about arguments that the code itself asserts (`isinstance`) or that
its callers guarantee — the latter are named in the docstring of each theorem together with the caller.

All theorems hold for every amount of fuel above a small constant (`fuel + k`): fuel sufficiency is part of
each statement, including the loops (`_drain`, `drain`, the strict-order `while` loops), for all lengths.
-/
namespace WV.Props.PyIRC03
open WV WV.Gen WV.PyIR WV.C03 WV.Gen.PyIR WV.Proofs.PyIRC03

/-- every method the translator was asked for and could not express in the IR, with the construct: local-set
    building, Deferreds / ClientService, nested functions, a bare `raise`, `**kwargs` parameters.  None of them
    carries C03 data. -/
theorem all_translated : WV.Gen.PyIR.untranslatable.map (·.1) =
    ["Input._get_nameplate_completions", "Input.notify_wordlist_waiters", "Input.record_wordlist",
     "RendezvousConnector._initial_connection_failed", "RendezvousConnector._response_handle_nameplates",
     "RendezvousConnector._tx", "RendezvousConnector.stop", "RendezvousConnector.ws_close",
     "RendezvousConnector.ws_open"] := by decide

/-- the per-class method tables and `body` name the same generated definitions -/
theorem body_is_table :
    body "Mailbox.N_release_and_accept" = tbl_Mailbox "N_release_and_accept" ∧
    body "Mailbox.dequeue" = tbl_Mailbox "dequeue" ∧ body "Mailbox.queue" = tbl_Mailbox "queue" ∧
    body "Mailbox._drain" = tbl_Mailbox "_drain" ∧ body "Mailbox.rx_message" = tbl_Mailbox "rx_message" ∧
    body "Order.drain" = tbl_Order "drain" ∧ body "Order.queue" = tbl_Order "queue" ∧
    body "Send.drain" = tbl_Send "drain" ∧ body "Send._encrypt_and_send" = tbl_Send "_encrypt_and_send" ∧
    body "Receive.got_message" = tbl_Receive "got_message" ∧
    body "Boss.S_send" = tbl_Boss "S_send" ∧ body "Boss.W_received" = tbl_Boss "W_received" ∧
    body "Boss.D_received_dilate" = tbl_Boss "D_received_dilate" ∧ body "Boss.got_message" = tbl_Boss "got_message" :=
  ⟨rfl, rfl, rfl, rfl, rfl, rfl, rfl, rfl, rfl, rfl, rfl, rfl, rfl, rfl⟩

/-! ## Mailbox -/

macro "mbox_rel" : tactic => `(tactic| (constructor <;> simp [get_set, encPending, truthy_str, truthy_none, *]))

set_option hygiene false in
macro "mbox_open" R:ident : tactic =>
  `(tactic| obtain ⟨hs, ⟨mbv, hmb, hmbt, hmbk⟩, hmood, hpend, hproc, ⟨vN, hN⟩, ⟨vRC, hRC⟩, ⟨vO, hO⟩, ⟨vT, hT⟩⟩ := $R)

/-- `record_mailbox(mailbox)`.  Caller: `Nameplate.M_got_mailbox` with the id from the server's `claimed`
    response; the model's `mailbox := true` is the truthiness of that id, so it must be non-empty (a conformant
    server never allocates the empty id; with `""` the code would fail `assert self._mailbox` later). -/
theorem mailbox_record_mailbox (C : Crypto) (myside : String) (fuel : Nat) (h : Store) (m : MboxD)
    (R : RelMbox myside h m) (mb : String) (hne : mb ≠ "") :
    AgreeM myside (exec (fuel + 1) (envC C) tbl_Mailbox "record_mailbox" [.str mb] h)
      (mboxOut .record_mailbox .mailbox m) := by
  mbox_open R
  pyir_eval [tbl_Mailbox, m_Mailbox_record_mailbox, mboxOut, AgreeM, envC]
  mbox_rel

theorem mailbox_RC_tx_open (C : Crypto) (myside : String) (fuel : Nat) (h : Store) (m : MboxD)
    (R : RelMbox myside h m) :
    AgreeM myside (exec (fuel + 1) (envC C) tbl_Mailbox "RC_tx_open" [] h) (mboxOut .RC_tx_open .none m) := by
  mbox_open R
  cases hm : m.mailbox <;> rw [hm] at hmbt <;>
  pyir_eval [tbl_Mailbox, m_Mailbox_RC_tx_open, mboxOut, AgreeM, envC, hmb, hmbt, hRC, hm, absMCall, Err.name]
  <;> mbox_rel

/-- `queue(phase, body)`: the argument types are the ones the body asserts -/
theorem mailbox_queue (C : Crypto) (myside : String) (fuel : Nat) (h : Store) (m : MboxD) (R : RelMbox myside h m)
    (p : String) (b : Bytes) :
    AgreeM myside (exec (fuel + 1) (envC C) tbl_Mailbox "queue" [.str p, .bytes b] h)
      (mboxOut .queue (.add p b) m) := by
  mbox_open R
  pyir_eval [tbl_Mailbox, m_Mailbox_queue, hpend, encPending, dictSet_enc keyEnc_str, mboxOut, AgreeM, envC]
  mbox_rel

/-- the call `tx_add(phase, body)` of one `_drain` iteration -/
def gTxAdd : Val → Call
  | .tuple [p, b] => ⟨"_RC", "tx_add", [p, b]⟩
  | _ => ⟨"", "", []⟩

/-- `drain()` = `_drain()`: every pending message, in insertion order, for every length of `_pending_outbound` -/
theorem mailbox_drain (C : Crypto) (myside : String) (fuel : Nat) (h : Store) (m : MboxD) (R : RelMbox myside h m) :
    AgreeM myside (exec (fuel + 2) (envC C) tbl_Mailbox "drain" [] h) (mboxOut .drain .none m) := by
  mbox_open R
  pyir_eval [tbl_Mailbox, m_Mailbox_drain, m_Mailbox__drain, hpend, encPending, encDict, mboxOut, AgreeM, envC, drainEffs]
  rw [forLoop_calls h gTxAdd]
  · simp [gTxAdd, absMCall, Function.comp_def]
    mbox_rel
  · intro v hv L cs
    simp only [List.mem_map] at hv
    obtain ⟨e, he, rfl⟩ := hv
    pyir_eval [hRC, patLocals, gTxAdd]

/-- `record_mailbox_and_RC_tx_open_and_drain(mailbox)`; non-empty id as for `record_mailbox` -/
theorem mailbox_record_mailbox_and_RC_tx_open_and_drain (C : Crypto) (myside : String) (fuel : Nat) (h : Store)
    (m : MboxD) (R : RelMbox myside h m) (mb : String) (hne : mb ≠ "") :
    AgreeM myside (exec (fuel + 2) (envC C) tbl_Mailbox "record_mailbox_and_RC_tx_open_and_drain" [.str mb] h)
      (mboxOut .record_mailbox_and_RC_tx_open_and_drain .mailbox m) := by
  mbox_open R
  pyir_eval [tbl_Mailbox, m_Mailbox_record_mailbox_and_RC_tx_open_and_drain, m_Mailbox__drain, hpend, hRC, encPending,
    encDict, mboxOut, AgreeM, envC, drainEffs]
  rw [forLoop_calls (h.set "_mailbox" (.str mb)) gTxAdd]
  · simp [gTxAdd, absMCall, Function.comp_def]
    mbox_rel
  · intro v hv L cs
    simp only [List.mem_map] at hv
    obtain ⟨e, he, rfl⟩ := hv
    pyir_eval [hRC, patLocals, gTxAdd]

theorem mailbox_RC_tx_add (C : Crypto) (myside : String) (fuel : Nat) (h : Store) (m : MboxD) (R : RelMbox myside h m)
    (p : String) (b : Bytes) :
    AgreeM myside (exec (fuel + 1) (envC C) tbl_Mailbox "RC_tx_add" [.str p, .bytes b] h)
      (mboxOut .RC_tx_add (.add p b) m) := by
  mbox_open R
  pyir_eval [tbl_Mailbox, m_Mailbox_RC_tx_add, hRC, mboxOut, AgreeM, envC, absMCall]
  mbox_rel

/-- `N_release_and_accept(side, phase, body)`: release first, then the per-phase dedup.  Argument types: asserted by
    `rx_message`, the only caller of `rx_message_theirs`. -/
theorem mailbox_N_release_and_accept (C : Crypto) (myside : String) (fuel : Nat) (h : Store) (m : MboxD)
    (R : RelMbox myside h m) (s p : String) (b : Bytes) :
    AgreeM myside (exec (fuel + 1) (envC C) tbl_Mailbox "N_release_and_accept" [.str s, .str p, .bytes b] h)
      (mboxOut .N_release_and_accept (.theirs s p b) m) := by
  mbox_open R
  by_cases hp : p ∈ m.processed <;>
  pyir_eval [tbl_Mailbox, m_Mailbox_N_release_and_accept, hproc, hN, hO, memKeys_enc keyEnc_str, mboxOut, acceptPhase,
    AgreeM, envC, hp, absMCall]
  <;> mbox_rel

/-- the ORDER of the two effects inside the dedup branch: when `Order.got_message` fails (an exception anywhere down
    the receive path: `cMboxRx` keeps the updated Mailbox state `m'` in that case), the phase is already recorded in
    `_processed` — a replayed copy of the message is not processed a second time.  (With `add` after the call the
    final state and the calls of a normal run are the same; only this theorem tells the two apart.) -/
theorem mailbox_N_release_and_accept_when_Order_fails (C : Crypto) (myside : String) (fuel : Nat) (h : Store)
    (m : MboxD) (R : RelMbox myside h m) (s p : String) (b : Bytes) (hp : p ∉ m.processed) (c : String) :
    let o := exec (fuel + 1) (envCR C (fun k => if k = 1 then some c else none)) tbl_Mailbox "N_release_and_accept"
      [.str s, .str p, .bytes b] h
    RelMbox myside o.heap (mboxOut .N_release_and_accept (.theirs s p b) m).1 ∧
      o.calls.map absMCall = [some .release, some (.toOrder s p b)] ∧ o.exc = some c := by
  mbox_open R
  pyir_eval [tbl_Mailbox, m_Mailbox_N_release_and_accept, hproc, hN, hO, memKeys_enc keyEnc_str, mboxOut, acceptPhase,
    envCR, envC, hp, absMCall]
  mbox_rel

/-- `RC_tx_close()`.  `self._mood` is never the empty string: `Terminator.close(mood)` is only called by the Boss's
    `close_*` outputs with the literals "happy" / "lonely" / "scary" / "errory" / "unwelcome". -/
theorem mailbox_RC_tx_close (C : Crypto) (myside : String) (fuel : Nat) (h : Store) (m : MboxD)
    (R : RelMbox myside h m) (hmd : ∀ md, m.mood = some md → md ≠ "") :
    AgreeM myside (exec (fuel + 2) (envC C) tbl_Mailbox "RC_tx_close" [] h) (mboxOut .RC_tx_close .none m) := by
  mbox_open R
  cases hm : m.mood with
  | none =>
    rw [hm] at hmood
    pyir_eval [tbl_Mailbox, m_Mailbox_RC_tx_close, mboxOut, AgreeM, envC, hmood, hm, Err.name]
    mbox_rel
  | some md =>
    rw [hm] at hmood
    have := hmd md hm
    pyir_eval [tbl_Mailbox, m_Mailbox_RC_tx_close, m_Mailbox__RC_tx_close, mboxOut, AgreeM, envC, hmood, hm, hRC, hmb,
      this, absMCall]
    mbox_rel

/-- `dequeue(phase, body)`: `pop(phase, None)` — an echo for a phase that is not pending is not an error -/
theorem mailbox_dequeue (C : Crypto) (myside : String) (fuel : Nat) (h : Store) (m : MboxD) (R : RelMbox myside h m)
    (p : String) (b : Bytes) :
    AgreeM myside (exec (fuel + 1) (envC C) tbl_Mailbox "dequeue" [.str p, .bytes b] h)
      (mboxOut .dequeue (.ours p b) m) := by
  mbox_open R
  pyir_eval [tbl_Mailbox, m_Mailbox_dequeue, hpend, encPending, dictDel_enc keyEnc_str, dictGet_enc keyEnc_str,
    mboxOut, AgreeM, envC]
  mbox_rel

theorem mailbox_record_mood (C : Crypto) (myside : String) (fuel : Nat) (h : Store) (m : MboxD)
    (R : RelMbox myside h m) (md : String) :
    AgreeM myside (exec (fuel + 1) (envC C) tbl_Mailbox "record_mood" [.str md] h)
      (mboxOut .record_mood (.mood md) m) := by
  mbox_open R
  pyir_eval [tbl_Mailbox, m_Mailbox_record_mood, mboxOut, AgreeM, envC]
  mbox_rel

theorem mailbox_record_mood_and_RC_tx_close (C : Crypto) (myside : String) (fuel : Nat) (h : Store) (m : MboxD)
    (R : RelMbox myside h m) (md : String) :
    AgreeM myside (exec (fuel + 2) (envC C) tbl_Mailbox "record_mood_and_RC_tx_close" [.str md] h)
      (mboxOut .record_mood_and_RC_tx_close (.mood md) m) := by
  mbox_open R
  pyir_eval [tbl_Mailbox, m_Mailbox_record_mood_and_RC_tx_close, m_Mailbox__RC_tx_close, mboxOut, AgreeM, envC, hRC,
    hmb, absMCall]
  mbox_rel

theorem mailbox_ignore_mood_and_T_mailbox_done (C : Crypto) (myside : String) (fuel : Nat) (h : Store) (m : MboxD)
    (R : RelMbox myside h m) (md : String) :
    AgreeM myside (exec (fuel + 1) (envC C) tbl_Mailbox "ignore_mood_and_T_mailbox_done" [.str md] h)
      (mboxOut .ignore_mood_and_T_mailbox_done (.mood md) m) := by
  mbox_open R
  pyir_eval [tbl_Mailbox, m_Mailbox_ignore_mood_and_T_mailbox_done, mboxOut, AgreeM, envC, hT, absMCall]
  mbox_rel

theorem mailbox_T_mailbox_done (C : Crypto) (myside : String) (fuel : Nat) (h : Store) (m : MboxD)
    (R : RelMbox myside h m) :
    AgreeM myside (exec (fuel + 1) (envC C) tbl_Mailbox "T_mailbox_done" [] h)
      (mboxOut .T_mailbox_done .none m) := by
  mbox_open R
  pyir_eval [tbl_Mailbox, m_Mailbox_T_mailbox_done, mboxOut, AgreeM, envC, hT, absMCall]
  mbox_rel

/-- `rx_message(side, phase, body)`: the split on `side == self._side` is the model's `mboxRx`; the body feeds
    exactly one Automat input back into the machine, with these arguments, and changes nothing itself.
    Argument types: asserted by the body. -/
theorem mailbox_rx_message (C : Crypto) (myside : String) (fuel : Nat) (h : Store) (m : MboxD)
    (R : RelMbox myside h m) (s p : String) (b : Bytes) :
    let o := exec (fuel + 1) (envC C) tbl_Mailbox "rx_message" [.str s, .str p, .bytes b] h
    ∃ i a, o.calls.map absMInput = [some (i, a)] ∧ mboxRx myside m s p b = mboxStep m i a ∧
      o.heap = h ∧ o.exc = none := by
  mbox_open R
  by_cases hside : s = myside
  · refine ⟨.rx_message_ours, .ours p b, ?_⟩
    pyir_eval [tbl_Mailbox, m_Mailbox_rx_message, envC, hs, hside, absMInput, mboxRx]
  · refine ⟨.rx_message_theirs, .theirs s p b, ?_⟩
    pyir_eval [tbl_Mailbox, m_Mailbox_rx_message, envC, hs, hside, absMInput, mboxRx]

/-! non-vacuity: a concrete Mailbox heap in the relation, and concrete runs of the generated bodies -/

def demoMbox : MboxD :=
  { st := .S2B, mailbox := true, mood := none, pending := [("0", [1, 2]), ("1", [3])], processed := ["pake", "version"] }

def demoMboxHeap : Store :=
  [("_side", .str "aa"), ("_mailbox", .str "mb1"),
   ("_pending_outbound", .dict [(.str "0", .bytes [1, 2]), (.str "1", .bytes [3])]),
   ("_processed", .set [.str "pake", .str "version"]),
   ("_N", .obj "Nameplate" []), ("_RC", .obj "RendezvousConnector" []), ("_O", .obj "Order" []), ("_T", .obj "Terminator" [])]

example : RelMbox "aa" demoMboxHeap demoMbox := by
  constructor <;> simp [demoMboxHeap, demoMbox, Store.get, encPending, encDict, truthy_str]

example : (exec 2 (envC toyCrypto) tbl_Mailbox "drain" [] demoMboxHeap).calls.map absMCall
    = [some (.txAdd "0" [1, 2]), some (.txAdd "1" [3])] := by decide

example : (exec 1 (envC toyCrypto) tbl_Mailbox "N_release_and_accept" [.str "bb", .str "0", .bytes [9]] demoMboxHeap).calls.map absMCall
    = [some .release, some (.toOrder "bb" "0" [9])] := by decide
example : (exec 1 (envC toyCrypto) tbl_Mailbox "N_release_and_accept" [.str "bb", .str "pake", .bytes [9]] demoMboxHeap).calls.map absMCall
    = [some .release] := by decide


/-! ## Order -/

macro "order_rel" : tactic => `(tactic| (constructor <;> simp [get_set, enc3, *]))

set_option hygiene false in
macro "order_open" R:ident : tactic => `(tactic| obtain ⟨hq, ⟨vK, hK⟩, ⟨vR, hR⟩⟩ := $R)

/-- `queue(side, phase, body)`: `append`, at the end; argument types asserted by the body -/
theorem order_queue (C : Crypto) (fuel : Nat) (h : Store) (s : OrderD) (R : RelOrder h s) (sd p : String) (b : Bytes) :
    AgreeO (exec (fuel + 1) (envC C) tbl_Order "queue" [.str sd, .str p, .bytes b] h)
      (orderOut .queue (sd, p, b) s) := by
  order_open R
  pyir_eval [tbl_Order, m_Order_queue, orderOut, AgreeO, envC, hq]
  order_rel

/-- `notify_key`.  Argument types here and in `deliver` / `drain`: asserted by `Order.got_message`, the only caller of
    the two inputs -/
theorem order_notify_key (C : Crypto) (fuel : Nat) (h : Store) (s : OrderD) (R : RelOrder h s) (sd p : String) (b : Bytes) :
    AgreeO (exec (fuel + 1) (envC C) tbl_Order "notify_key" [.str sd, .str p, .bytes b] h)
      (orderOut .notify_key (sd, p, b) s) := by
  order_open R
  pyir_eval [tbl_Order, m_Order_notify_key, orderOut, AgreeO, envC, hK, absOCall]
  order_rel

theorem order_deliver (C : Crypto) (fuel : Nat) (h : Store) (s : OrderD) (R : RelOrder h s) (sd p : String) (b : Bytes) :
    AgreeO (exec (fuel + 2) (envC C) tbl_Order "deliver" [.str sd, .str p, .bytes b] h)
      (orderOut .deliver (sd, p, b) s) := by
  order_open R
  pyir_eval [tbl_Order, m_Order_deliver, m_Order__deliver, orderOut, AgreeO, envC, hR, absOCall]
  order_rel

/-- `drain`: every queued message to Receive in arrival order, then the queue is emptied — for every queue length -/
theorem order_drain (C : Crypto) (fuel : Nat) (h : Store) (s : OrderD) (R : RelOrder h s) (sd p : String) (b : Bytes) :
    AgreeO (exec (fuel + 2) (envC C) tbl_Order "drain" [.str sd, .str p, .bytes b] h)
      (orderOut .drain (sd, p, b) s) := by
  order_open R
  pyir_eval [tbl_Order, m_Order_drain, orderOut, AgreeO, envC, hq]
  rw [forLoop_calls h gDeliver]
  · pyir_eval [hq, gDeliver, absOCall, Function.comp_def, enc3]
    order_rel
  · intro v hv L cs
    simp only [List.mem_map] at hv
    obtain ⟨e, he, rfl⟩ := hv
    pyir_eval [tbl_Order, m_Order__deliver, hR, patLocals, gDeliver, enc3]

/-- `drain` when Receive fails on the `k`-th queued message: the messages before it were delivered, the queue is
    NOT emptied (`self._queue[:] = []` comes after the loop) — what `cOrder` restores in the model -/
theorem order_drain_abort (C : Crypto) (fuel : Nat) (h : Store) (s : OrderD) (R : RelOrder h s) (sd p : String)
    (b : Bytes) (pre : List (String × String × Bytes)) (x : String × String × Bytes)
    (post : List (String × String × Bytes)) (hqueue : s.queue = pre ++ x :: post) (c : String) :
    let o := exec (fuel + 2) (envCR C (fun k => if k = pre.length then some c else none)) tbl_Order "drain"
      [.str sd, .str p, .bytes b] h
    RelOrder o.heap s ∧ o.calls.map absOCall = ((pre ++ [x]).map fun m => some (.rGotMessage m.1 m.2.1 m.2.2)) ∧
      o.exc = some c := by
  order_open R
  rw [hqueue] at hq
  pyir_eval [tbl_Order, m_Order_drain, envCR, envC, hq]
  rw [forLoop_calls_abort h gDeliver c pre.length]
  · pyir_eval [gDeliver, absOCall, Function.comp_def, enc3]
    constructor <;> simp [hqueue, enc3, *]
  · intro v hv L cs hlt
    simp only [List.mem_map] at hv
    obtain ⟨e, he, rfl⟩ := hv
    pyir_eval [tbl_Order, m_Order__deliver, hR, patLocals, gDeliver, enc3, Nat.ne_of_lt hlt]
  · intro L cs hlen
    pyir_eval [tbl_Order, m_Order__deliver, hR, patLocals, gDeliver, enc3, hlen]
  · simp

/-- `got_message(side, phase, body)`: `phase == "pake"` picks the input; one input, nothing else -/
theorem order_got_message (C : Crypto) (fuel : Nat) (h : Store) (s : OrderD) (R : RelOrder h s) (sd p : String) (b : Bytes) :
    let o := exec (fuel + 1) (envC C) tbl_Order "got_message" [.str sd, .str p, .bytes b] h
    o.calls.map absOInput = [some (if p = "pake" then .got_pake else .got_non_pake, (sd, p, b))] ∧
      o.heap = h ∧ o.exc = none := by
  by_cases hp : p = "pake" <;> pyir_eval [tbl_Order, m_Order_got_message, envC, hp, absOInput]

end WV.Props.PyIRC03
