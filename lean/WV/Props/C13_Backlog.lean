import WV.Model.C13

/-!
C13 — the backlog of OPENs waiting for a later `listen()` is unbounded.

`WV.C13.appendAt` appends to a plain list and `WV.Props.C13.listen_connects_all_pending` /
`open_exactly_once` quantify over pending queues of ANY length; that is the code only as long as
`SubchannelDemultiplex._pending_opens` is `defaultdict(deque)` — a `deque(maxlen=…)` would silently
evict the oldest pending OPEN (never connected, never refused).  The flag is extracted by
`tools/extract.py` (`ast`) from `SubchannelDemultiplex.__init__` on every run.
-/
namespace WV.Props.C13
open WV.Gen

theorem pending_backlog_unbounded : Flags.pending_opens_unbounded = true := rfl

end WV.Props.C13
