import WV.Proofs.PyIR_Dil

/-!
Translation validation of method BODIES, C10 part (Dilation ARQ): for the `Outbound` / `Inbound` methods that the
C10 model gives semantics to, the PyIR interpreter run on the body that `tools/extract.py::extract_pyir_dil`
generated from the working tree (`WV.Gen.PyIRDil`) agrees with the model.
-/
namespace WV.Props.PyIRC10
open WV WV.PyIR WV.C10 WV.Gen.PyIRDil WV.Proofs.PyIRC03 WV.Proofs.PyIRDil

set_option hygiene false in
macro "out_open" R:ident : tactic =>
  `(tactic| obtain ⟨hq, hu, hn, ⟨cv, hcv, hck⟩, hp, hall, hpp, hup⟩ := $R)

set_option hygiene false in
macro "out_rel" : tactic => `(tactic| (refine ⟨?_, ?_, ?_, ⟨cv, ?_, by simpa using hck⟩, ?_, ?_, ?_, ?_⟩ <;> simp [get_set, *]))

theorem outbound_handle_ack (fuel : Nat) (h : Store) (s : Side) (R : RelOut h s) (resp : Nat)
    (hf : s.queue.length + s.unsent.length + 2 ≤ fuel) :
    let o := exec fuel (envD noRe) tbl_Outbound "handle_ack" [.int resp] h
    RelOut o.heap (handleAck s resp) ∧ o.calls = [] ∧ o.exc = none := by
  obtain ⟨f, rfl⟩ : ∃ f, fuel = f + 1 := ⟨fuel - 1, by omega⟩
  dil_eval [tbl_Outbound, m_Outbound_handle_ack, envD]
  generalize hw : whileLoop _ _ _ _ = w
  refine whileLoop_dropWhile (fun h' q => RelOut h' { s with queue := q }) (fun r => decide (r.seqnum ≤ resp)) hw
    s.queue ?hcond ?hbody ?hI ?hF ?cont
  case hcond =>
    intro h' q cs hI
    out_open hI
    simp only at hq
    cases q with
    | nil => dil_eval [hq]
    | cons x r => dil_eval [hq, encRec]
  case hbody =>
    intro h' x r cs hI hP
    out_open hI
    simp only at hq
    dil_eval [hq]
    out_rel
  case hI => exact R
  case hF => omega
  case cont =>
    intro h1 hI1 hw1
    subst hw1
    dil_eval []
    generalize hw2 : whileLoop _ _ _ _ = w2
    refine whileLoop_dropWhile (fun h' q => RelOut h' { s with queue := s.queue.dropWhile (fun r => decide (r.seqnum ≤ resp)), unsent := q })
      (fun r => decide (r.seqnum ≤ resp)) hw2 s.unsent ?hcond ?hbody ?hI ?hF ?cont
    case hcond =>
      intro h' q cs hI
      out_open hI
      simp only at hu
      cases q with
      | nil => dil_eval [hu]
      | cons x r => dil_eval [hu, encRec]
    case hbody =>
      intro h' x r cs hI hP
      out_open hI
      simp only at hu
      dil_eval [hu]
      out_rel
    case hI => exact hI1
    case hF => omega
    case cont =>
      intro h2 hI2 hw2'
      subst hw2'
      dil_eval [handleAck]
      exact hI2

/-! ## pins -/

/-- every method of the Dilation data path the translator was asked for is in the subset, except the generator-based
    `PullToPush.startStreaming`; a rewrite that leaves the subset breaks this theorem -/
theorem all_translated : WV.Gen.PyIRDil.untranslatable.map (·.1) = ["PullToPush.startStreaming"] := by decide

theorem translated_pin : WV.Gen.PyIRDil.translated =
    ["Outbound._check_invariants", "Outbound._get_next_unpaused_producer", "Outbound.build_record", "Outbound.handle_ack",
     "Outbound.pauseProducing", "Outbound.queue_and_send_record", "Outbound.resumeProducing", "Outbound.send_if_connected",
     "Outbound.stopProducing", "Outbound.stop_using_connection", "Outbound.subchannel_closed",
     "Outbound.subchannel_registerProducer", "Outbound.subchannel_unregisterProducer", "Outbound.use_connection",
     "Inbound.handle_close", "Inbound.handle_data", "Inbound.handle_open", "Inbound.is_record_old",
     "Inbound.stop_using_connection", "Inbound.subchannel_closed", "Inbound.subchannel_local_open",
     "Inbound.subchannel_pauseProducing", "Inbound.subchannel_resumeProducing", "Inbound.subchannel_stopProducing",
     "Inbound.update_ack_watermark", "Inbound.use_connection", "PullToPush.pauseProducing", "PullToPush.resumeProducing",
     "PullToPush.stopProducing", "PullToPush.stopStreaming"] := by decide

/-- `seqnum` is field 0 of exactly the three numbered record classes (what `encRec`, `fieldAt … 0` and the
    `hasattr` of `envD` rely on) -/
theorem seqnum_is_field_zero :
    (WV.Gen.PyIRDil.recordFields.filter (fun c => c.2.contains "seqnum")).map (fun c => (c.1, c.2.head?)) =
      [("Close", some "seqnum"), ("Data", some "seqnum"), ("Open", some "seqnum")] := by decide

/-! ## Outbound: building and sending -/

/-- `build_record(record_type, *args)`: the record gets the counter's value *before* the increment.  `record_type` is one
    of the three numbered classes (`Manager._queue_and_send` is only called with `Open`/`Data`/`Close`). -/
theorem outbound_build_record (fuel : Nat) (h : Store) (s : Side) (R : RelOut h s) (b : Body) :
    let o := exec (fuel + 1) (envD noRe) tbl_Outbound "build_record"
      [.obj "type" [.str (bodyCls b)], .tuple (bodyRest b)] h
    RelOut o.heap { s with next := s.next + 1 } ∧ o.ret = encRec ⟨s.next, b⟩ ∧ o.calls = [] ∧ o.exc = none := by
  out_open R
  dil_eval [tbl_Outbound, m_Outbound_build_record, envD, hn, encRec, bodyCls_numbered, bodyCls_numbered']
  out_rel

/-- what the sends of a method add to the fake connection's `out` -/
def SentIs (calls : List Call) (before after : List Wire) : Prop :=
  ∃ ws, after = before ++ ws ∧ calls.map absDCall = ws.map fun w => some (.send w)

/-- `pauseProducing()` with no registered producer -/
theorem outbound_pauseProducing (fuel : Nat) (h : Store) (s : Side) (R : RelOut h s) :
    let o := exec (fuel + 1) (envD noRe) tbl_Outbound "pauseProducing" [] h
    RelOut o.heap (pauseProducing s) ∧ o.calls = [] ∧ o.exc = none := by
  out_open R
  cases hps : s.paused <;> rw [hps] at hp <;>
    dil_eval [tbl_Outbound, m_Outbound_pauseProducing, envD, hp, hall, pauseProducing, hps] <;> out_rel

macro "out_relv" v:term : tactic =>
  `(tactic| (refine ⟨?_, ?_, ?_, ⟨$v, ?_, ?_⟩, ?_, ?_, ?_, ?_⟩ <;> simp [get_set, *]))

theorem outbound_queue_and_send_record (fuel : Nat) (re : Nat → List (String × List Val)) (h : Store) (s : Side)
    (R : RelOut h s) (r : Rec) (hE : EnvOk re 0 s.budget) :
    let o := exec (fuel + 2) (envD re) tbl_Outbound "queue_and_send_record" [encRec r] h
    RelOut o.heap (queueAndSend s r) ∧ SentIs o.calls s.out (queueAndSend s r).out ∧ o.exc = none := by
  out_open R
  have hre := hE.here
  rcases hck with ⟨rfl, hc⟩ | ⟨c, i, rfl, hc⟩
  · dil_eval [tbl_Outbound, m_Outbound_queue_and_send_record, envD, hq, hcv, hc, queueAndSend, SentIs]
    out_relv .none
  · cases hun : s.unsent with
    | cons x rest =>
      rw [hun] at hu
      dil_eval [tbl_Outbound, m_Outbound_queue_and_send_record, envD, hq, hcv, hc, hu, queueAndSend, SentIs, hun]
      out_relv (.ref c i)
    | nil =>
      rw [hun] at hu
      by_cases hb : s.budget = 1
      · rw [if_pos hb] at hre
        cases hps : s.paused <;> rw [hps] at hp <;>
          dil_eval [tbl_Outbound, m_Outbound_queue_and_send_record, m_Outbound_pauseProducing, envD, hq, hcv, hc, hu,
            queueAndSend, SentIs, hun, hre, ppCall, connSend, hb, pauseProducing, hp, hps, hall, absDCall_send]
        all_goals out_relv (.ref c i)
      · rw [if_neg hb] at hre
        dil_eval [tbl_Outbound, m_Outbound_queue_and_send_record, envD, hq, hcv, hc, hu, queueAndSend, SentIs, hun, hre,
          connSend, hb, absDCall_send]
        out_relv (.ref c i)

/-- the ORDER inside `queue_and_send_record`: when `send_record` itself fails, the record is already in
    `_outbound_queue` (it will be replayed on the next connection).  With the `append` after the send, the final state
    and calls of a normal run are the same; only this theorem tells the two apart. -/
theorem outbound_queue_and_send_record_queued_before_send (fuel : Nat) (h : Store) (s : Side) (R : RelOut h s) (r : Rec)
    (hc : s.conn = true) (hun : s.unsent = []) (c : String) :
    let o := exec (fuel + 2) { envD noRe with raises := fun k => if k = 0 then some c else none } tbl_Outbound
      "queue_and_send_record" [encRec r] h
    RelOut o.heap { s with queue := s.queue ++ [r] } ∧ o.calls.map absDCall = [some (.send (.msg r))] ∧ o.exc = some c := by
  out_open R
  rcases hck with ⟨rfl, hc'⟩ | ⟨cc, i, rfl, _⟩
  · rw [hc] at hc'; cases hc'
  · rw [hun] at hu
    dil_eval [tbl_Outbound, m_Outbound_queue_and_send_record, envD, hq, hcv, hu, absDCall_send]
    out_relv (.ref cc i)

/-- `send_if_connected(r)` for an `Ack` (what `Manager.send_ack` passes): written if connected, dropped otherwise, never
    queued; the isinstance assertion accepts it -/
theorem outbound_send_if_connected (fuel : Nat) (re : Nat → List (String × List Val)) (h : Store) (s : Side)
    (R : RelOut h s) (n : Nat) (hE : EnvOk re 0 s.budget) :
    let o := exec (fuel + 2) (envD re) tbl_Outbound "send_if_connected" [encWire (.ack n)] h
    RelOut o.heap (sendIfConnected s (.ack n)) ∧ SentIs o.calls s.out (sendIfConnected s (.ack n)).out ∧ o.exc = none := by
  out_open R
  have hre := hE.here
  rcases hck with ⟨rfl, hc⟩ | ⟨c, i, rfl, hc⟩
  · dil_eval [tbl_Outbound, m_Outbound_send_if_connected, envD, hcv, hc, sendIfConnected, SentIs, encWire]
    out_relv .none
  · by_cases hb : s.budget = 1
    · rw [if_pos hb] at hre
      cases hps : s.paused <;> rw [hps] at hp <;>
        dil_eval [tbl_Outbound, m_Outbound_send_if_connected, m_Outbound_pauseProducing, envD, hcv, hc,
          sendIfConnected, SentIs, hre, ppCall, connSend, hb, pauseProducing, hp, hps, hall, encWire, absDCall, decWire]
      all_goals out_relv (.ref c i)
    · rw [if_neg hb] at hre
      dil_eval [tbl_Outbound, m_Outbound_send_if_connected, envD, hcv, hc, sendIfConnected, SentIs, hre,
        connSend, hb, encWire, absDCall, decWire]
      out_relv (.ref c i)

/-- a numbered record is refused by `send_if_connected` (its assertion) -/
theorem outbound_send_if_connected_refuses_numbered (fuel : Nat) (h : Store) (s : Side) (R : RelOut h s) (r : Rec) :
    let o := exec (fuel + 1) (envD noRe) tbl_Outbound "send_if_connected" [encRec r] h
    o.heap = h ∧ o.calls = [] ∧ o.exc = some "AssertionError" := by
  dil_eval [tbl_Outbound, m_Outbound_send_if_connected, envD, encRec, bodyCls_not_control, bodyCls_not_control']

/-- `stop_using_connection()` -/
theorem outbound_stop_using_connection (fuel : Nat) (h : Store) (s : Side) (R : RelOut h s) :
    let o := exec (fuel + 2) (envD noRe) tbl_Outbound "stop_using_connection" [] h
    match stopUsingConnection s with
    | .ok s' => RelOut o.heap s' ∧ o.calls.map absDCall = [some .tUnreg] ∧ o.exc = none
    | .error e => RelOut o.heap s ∧ o.calls = [] ∧ o.exc = some e.name := by
  out_open R
  rcases hck with ⟨rfl, hc⟩ | ⟨c, i, rfl, hc⟩
  · dil_eval [tbl_Outbound, m_Outbound_stop_using_connection, envD, hcv, hc, stopUsingConnection, Err.name]
    out_relv .none
  · cases hps : s.paused <;> rw [hps] at hp <;>
      dil_eval [tbl_Outbound, m_Outbound_stop_using_connection, m_Outbound_pauseProducing, envD, hcv, hc, hu,
        stopUsingConnection, pauseProducing, hp, hps, hall, absDCall, noRe]
    all_goals out_relv .none

/-- the call `send_record(r)` as recorded -/
def mkSend (r : Rec) : Call := ⟨"_connection", "send_record", [encRec r]⟩

/-- `resumeProducing()` with no registered producer, as a sibling call from any point of a run (`cs` = the calls
    recorded so far): the `_queued_unsent` drain, every length, every `budget` -/
theorem resumeProducing_callM (f : Nat) (re : Nat → List (String × List Val)) (h : Store) (s : Side)
    (R : RelOut h s) (hc : s.conn = true ∨ s.unsent = []) (cs : List Call) (hE : EnvOk re cs.length s.budget)
    (hf : s.unsent.length + 1 ≤ f) :
    ∃ (h' : Store) (sent : List Rec), callM (envD re) tbl_Outbound (f + 3) "resumeProducing" [] h cs = (h', cs ++ sent.map mkSend, .ok .none) ∧
      RelOut h' (resumeProducing s) ∧ (resumeProducing s).out = s.out ++ sent.map Wire.msg := by
  have R' := R
  out_open R
  cases hps : s.paused with
  | false =>
    rw [hps] at hp
    refine ⟨h, [], ?_⟩
    dil_eval [tbl_Outbound, m_Outbound_resumeProducing, envD, hp, resumeProducing, hps]
    exact R'
  | true =>
    rw [hps] at hp
    dil_eval [tbl_Outbound, m_Outbound_resumeProducing, envD, hp, resumeProducing, hps]
    generalize hw : whileLoopBC _ _ _ _ = w
    refine whileLoopBC_drain re hw { s with paused := false } s.unsent ?hcond ?hsend ?hend ?hI ?hconn ?hE ?hF ?cont
    case hcond =>
      intro h' s' rest L cs hI
      out_open hI
      simp only at hp
      dil_eval [hp]
    case hsend =>
      intro h' s' r rest L cs hI hps' hconn' hre
      out_open hI
      simp only at hu hp hall hpp hup hq hn
      rw [hps'] at hp
      rcases hck with ⟨rfl, hc'⟩ | ⟨c, i, rfl, hc'⟩
      · simp only at hc'; rw [hconn'] at hc'; cases hc'
      · by_cases hb : s'.budget = 1
        · rw [if_pos hb] at hre
          dil_eval [tbl_Outbound, m_Outbound_pauseProducing, hu, hcv, hre, ppCall, hp, hall, connSend, hb, pauseProducing, hps']
          out_relv (.ref c i)
        · rw [if_neg hb] at hre
          dil_eval [hu, hcv, hre, connSend, hb]
          out_relv (.ref c i)
    case hend =>
      intro h' s' L cs hI hps'
      out_open hI
      simp only at hu hp hall hpp hup hq hn
      dil_eval [tbl_Outbound, m_Outbound__get_next_unpaused_producer, m_Outbound__check_invariants, hu, hall, hpp, hup,
        allHashable, allNotIn, allIn, notInOf]
    case hI => refine ⟨?_, ?_, ?_, ⟨cv, ?_, hck⟩, ?_, ?_, ?_, ?_⟩ <;> simp [get_set, *]
    case hconn =>
      intro hne
      rcases hc with hc | hc
      · exact hc
      · exact absurd hc hne
    case hE => simpa using hE
    case hF => omega
    case cont =>
      intro h' L' sent hR ho hw'
      subst hw'
      refine ⟨h', sent, ?_⟩
      dil_eval [ho, mkSend]
      exact hR

/-- `resumeProducing()` as called by the transport -/
theorem outbound_resumeProducing (fuel : Nat) (re : Nat → List (String × List Val)) (h : Store) (s : Side)
    (R : RelOut h s) (hc : s.conn = true ∨ s.unsent = []) (hE : EnvOk re 0 s.budget) (hf : s.unsent.length + 4 ≤ fuel) :
    let o := exec fuel (envD re) tbl_Outbound "resumeProducing" [] h
    RelOut o.heap (resumeProducing s) ∧ SentIs o.calls s.out (resumeProducing s).out ∧ o.exc = none := by
  obtain ⟨f, rfl⟩ : ∃ f, fuel = f + 3 := ⟨fuel - 3, by omega⟩
  obtain ⟨h', sent, e, hR, ho⟩ := resumeProducing_callM f re h s R hc [] (by simpa using hE) (by omega)
  simp only [exec, e]
  refine ⟨hR, ⟨sent.map Wire.msg, ho, ?_⟩, ?_⟩ <;> simp [mkSend, absDCall_send, Function.comp_def]

/-- `use_connection(c)`: the connection is recorded, everything not yet acked is queued for replay in its original
    order (`extend`), the transport gets us as its producer, then the replay runs (as far as the transport's `budget`
    lets it).  Error path (`assert not self._queued_unsent`): `_connection` is already set when the assertion fails. -/
theorem outbound_use_connection (fuel : Nat) (re : Nat → List (String × List Val)) (h : Store) (s : Side)
    (R : RelOut h s) (budget : Nat) (i : Nat) (h0 : re 0 = []) (hE : EnvOk re 1 budget) (hf : s.queue.length + 5 ≤ fuel) :
    let o := exec fuel (envD re) tbl_Outbound "use_connection" [.ref "Connection" i] h
    match useConnection s budget with
    | .ok s' => RelOut o.heap s' ∧ o.calls.map absDCall = some .tReg :: s'.out.map (fun w => some (.send w)) ∧ o.exc = none
    | .error e => RelOut o.heap { s with conn := true } ∧ o.calls = [] ∧ o.exc = some e.name := by
  obtain ⟨f, rfl⟩ : ∃ f, fuel = f + 4 := ⟨fuel - 4, by omega⟩
  out_open R
  cases hun : s.unsent with
  | cons x rest =>
    rw [hun] at hu
    dil_eval [tbl_Outbound, m_Outbound_use_connection, envD, hu, useConnection, hun, Err.name]
    out_relv (.ref "Connection" i)
  | nil =>
    rw [hun] at hu
    have R1 : RelOut (((h.set "_connection" (.ref "Connection" i)).set "_queued_unsent" (.list (s.queue.map encRec))))
        { s with conn := true, out := [], budget := budget, unsent := s.queue } := by
      out_relv (.ref "Connection" i)
    obtain ⟨h', sent, e, hR, ho⟩ := resumeProducing_callM f re _ _ R1 (Or.inl rfl)
      [⟨"$v", "transport.registerProducer", [.ref "Connection" i, .obj "self" [], .bool true]⟩]
      (by simpa using hE) (by simp only; omega)
    rw [exec, callM]
    dil_eval_nc [tbl_Outbound, m_Outbound_use_connection, hu, hq, useConnection, hun, h0, envD_reenter, envD_raises, e, ho,
      mkSend, absDCall_send, absDCall, Function.comp_def]
    exact ⟨hR, fun a _ => decWire_encRec a⟩


/-! ## Inbound: the watermark -/

/-- `is_record_old(r)`: `r.seqnum <= self._highest_inbound_acked` (the watermark starts at -1), nothing else -/
theorem inbound_is_record_old (fuel : Nat) (h : Store) (s : Side) (R : RelInb h s) (r : Rec) :
    let o := exec (fuel + 1) (envD noRe) tbl_Inbound "is_record_old" [encRec r] h
    o.ret = .bool (isRecordOld s r) ∧ o.heap = h ∧ o.calls = [] ∧ o.exc = none := by
  obtain ⟨hh⟩ := R
  by_cases hle : (r.seqnum : Int) ≤ s.high <;>
    simp [exec, callM, execB, execS, andThen, withVal, evalE, readAttr, readVar, bindParams, valLe, valField, encRec,
      tbl_Inbound, m_Inbound_is_record_old, hh, toInt_ofInt, toInt_int, Store.get, Store.set, bind, Res.bind, pure,
      truthy_bool, isRecordOld, hle]

/-- `update_ack_watermark(seqnum)`: `max`, nothing else -/
theorem inbound_update_ack_watermark (fuel : Nat) (h : Store) (s : Side) (R : RelInb h s) (n : Nat) :
    let o := exec (fuel + 1) (envD noRe) tbl_Inbound "update_ack_watermark" [.int n] h
    RelInb o.heap (updateAckWatermark s n) ∧ o.calls = [] ∧ o.exc = none := by
  obtain ⟨hh⟩ := R
  simp [exec, callM, execB, execS, andThen, withVal, evalE, readAttr, readVar, bindParams, valMax,
    tbl_Inbound, m_Inbound_update_ack_watermark, hh, toInt_ofInt, toInt_int, Store.get, Store.set, bind, Res.bind, pure,
    updateAckWatermark, St.setAttr]
  constructor
  simp only [get_set_same]
  by_cases hle : s.high ≤ (n : Int)
  · simp [hle, Int.max_def]
  · simp [hle, Int.max_def]


/-! ## non-vacuity: a concrete Outbound heap in the relation, and concrete runs of the generated bodies -/

def r0 : Rec := ⟨0, .opn 1 [112]⟩
def r1 : Rec := ⟨1, .data 1 [1, 2, 3]⟩
def r2 : Rec := ⟨2, .close 1⟩

def demoSide : Side := { Side.init with queue := [r0, r1, r2], next := 3 }

def demoOutHeap : Store :=
  [("_outbound_queue", .list [encRec r0, encRec r1, encRec r2]), ("_queued_unsent", .list []),
   ("_next_outbound_seqnum", .int 3), ("_connection", .none), ("_paused", .bool true),
   ("_all_producers", .list []), ("_paused_producers", .set []), ("_unpaused_producers", .set []),
   ("_subchannel_producers", .dict [])]

example : RelOut demoOutHeap demoSide := by
  refine ⟨?_, ?_, ?_, ⟨.none, ?_, ?_⟩, ?_, ?_, ?_, ?_⟩ <;> simp [demoOutHeap, demoSide, Side.init, Store.get]

def seqnumsOf : Option Val → List Val
  | some (.list vs) => vs.map fun v => match v with | .obj _ (n :: _) => n | _ => .none
  | _ => []

def isInts : List Val → List Nat → Bool
  | [], [] => true
  | .int a :: r, b :: r' => a == b && isInts r r'
  | _, _ => false

/-- a new connection with budget 2: registered, the two oldest records replayed in order, then the transport pauses us
    from inside the second `send_record`; the third stays in `_queued_unsent` -/
def demoUse : Outcome :=
  exec 10 (envD (fun k => if k = 2 then ppCall else [])) tbl_Outbound "use_connection" [.ref "Connection" 7] demoOutHeap

example : let o := demoUse
    o.calls.map absDCall = [some .tReg, some (.send (.msg r0)), some (.send (.msg r1))] ∧
      isInts (seqnumsOf (o.heap.get "_queued_unsent")) [2] = true ∧ o.exc = none := by decide

/-- `handle_ack(1)` retires seqnums 0 and 1 -/
example : let o := exec 10 (envD noRe) tbl_Outbound "handle_ack" [.int 1] demoOutHeap
    isInts (seqnumsOf (o.heap.get "_outbound_queue")) [2] = true ∧ o.exc = none := by decide

/-- the initial watermark -1: seqnum 0 is not old; after `update_ack_watermark(0)` it is -/
example : (exec 3 (envD noRe) tbl_Inbound "is_record_old" [encRec r0] [("_highest_inbound_acked", .nint 0)]).ret.truthy = false := by
  decide
def demoInbHeap1 : Store :=
  (exec 3 (envD noRe) tbl_Inbound "update_ack_watermark" [.int 0] [("_highest_inbound_acked", .nint 0)]).heap
example : (exec 3 (envD noRe) tbl_Inbound "is_record_old" [encRec r0] demoInbHeap1).ret.truthy = true := by decide

end WV.Props.PyIRC10
