import WV.Model.C06
import WV.Gen.C06

/-!
C06 — two `Connection` objects have no mutable object in common.

The process model (`WV.C06.pstep`) is the product of per-connection states, and `links_independent` /
`link_projection` / `every_link_prefix` are theorems about that product.  It is the code's behaviour only if the real
objects are a product too.  `WV.Props.Common.instances_do_not_share_state` reads the class bodies for containers built
once and mutated through `self`; this is the dynamic counterpart for `transit.Connection`: on every run the translator
builds two `Connection` objects for two different transfers (two owners, two transit keys), lets both finish
negotiation, and lists every attribute — set on the instance, or found on a wormhole class — through which both reach
one and the same mutable object (a queue created in the class body or as a default argument, record boxes or buffers
handed out from a module-level cache, …).  The list has to be empty.
-/
namespace WV.Props.C06
open WV WV.C06

/-- **connection objects share nothing** (as regenerated from /repo) -/
theorem connection_objects_share_nothing : Gen.C06.shared_between_connections = [] := by decide

end WV.Props.C06
