import WV.Gen.Flags

/-!
C01 — `to_bytes` is NFC followed by *strict* UTF-8.

The model `WV.C01` takes `util.to_bytes(u)` to be `utf8enc (nfc u)`: strict UTF-8, which raises
UnicodeEncodeError on a `str` holding an unpaired surrogate and is injective everywhere else
(`WV.Props.C01.utf8enc_defined_iff`, `utf8_strict_injective`).  That the code is this function is a
fact about the source, extracted from the working tree by `tools/extract.py`:

* the whole body of `util.to_bytes(u)` is `return unicodedata.normalize("NFC", u).encode("utf-8")` — the
  `.encode` call has no `errors=` argument (or the explicit `"strict"`): no error handler that would fold
  an unencodable string onto the bytes of another one (`"replace"`, `"ignore"`, `"backslashreplace"`, …);
  `unicodedata` is the standard module; `_key` and `wormhole` use this very function;
* `_DelegatedWormhole.derive_key` and `_DeferredWormhole.derive_key` hand `to_bytes(purpose)` — the bare,
  never re-bound parameter — to `_key.derive_key(self._key, ·, length)` and return its result.

(That `build_pake` feeds `to_bytes(code)` and `to_bytes(self._appid)` to SPAKE2 is `glue_is_transparent`.)
-/
namespace WV.Props.C01
open WV.Gen

/-- **to_bytes_is_strict** -/
theorem to_bytes_is_strict :
    Flags.to_bytes_is_nfc_then_strict_utf8 = true ∧ Flags.derive_key_feeds_to_bytes_purpose = true := by decide

end WV.Props.C01
