import WV.Proofs.PyIRL2

/-!
Translation validation of method BODIES, C12 part (Dilation L2: framing / encryption / encoding): for the methods of
`_Framer`, `_Record`, `DilatedConnectionProtocol` and the record codec that the C12 model gives semantics to, the PyIR
interpreter run on the body that `tools/extract.py::extract_pyir_l2` generated from the working tree
(`WV.Gen.PyIRL2`) agrees with the model: final state, ordered calls with arguments, exception.
-/
namespace WV.Props.PyIRL2C12
open WV WV.PyIR WV.C12 WV.Gen WV.Gen.PyIRL2 WV.Proofs.PyIRC03 WV.Proofs.PyIRDil WV.Proofs.C12 WV.Proofs.PyIRL2

/-! ## `_Framer`: the parsers -/

/-- `parse_frame` = `parseFrame`: `None` (nothing consumed) until a whole length-prefixed frame is buffered, then the
    frame body as a `Frame` token and exactly `4 + length` bytes consumed -/
theorem framer_parse_frame (fuel : Nat) (rz : Nat → Option String) (h : Store) (buf : Bytes)
    (hb : h.get "_buffer" = some (.bytes buf)) :
    let o := exec (fuel + 1) (envF rz) tbl_Framer "parse_frame" [] h
    o.calls = [] ∧ o.exc = none ∧
      match parseFrame buf with
      | none => o.ret = .none ∧ o.heap = h
      | some (f, rest) => o.ret = encTok (.frame f) ∧ o.heap = h.set "_buffer" (.bytes rest) := by
  by_cases h4 : buf.length < 4
  · have h4I : ((buf.length : Nat) : Int) < 4 := by omega     -- the same fact as `>=` / `<=` on ints reads it
    l2_eval [tbl_Framer, m_Framer_parse_frame, envF, hb, h4, h4I, parseFrame]
  · obtain ⟨n, hn⟩ := fromBe4_take4 h4
    have h4I : (4 : Int) ≤ ((buf.length : Nat) : Int) := by omega
    by_cases hl : buf.length < 4 + n <;>
      l2_eval [tbl_Framer, m_Framer_parse_frame, envF, hb, parseFrame, h4, h4I, hn, hl, drop_take_add, encTok]

/-- `_get_expected(name, expected)` = `getExpected`: consumed / wait / `Disconnect` (after a log line) -/
theorem framer_get_expected (fuel : Nat) (h : Store) (buf expected : Bytes) (name : String)
    (hb : h.get "_buffer" = some (.bytes buf)) :
    let o := exec (fuel + 1) (envF noRz) tbl_Framer "_get_expected" [.str name, .bytes expected] h
    match getExpected buf expected with
    | .ok (b, rest) => o.ret = .bool b ∧ o.heap = (if b then h.set "_buffer" (.bytes rest) else h) ∧ o.exc = none ∧ o.calls = []
    | .error e => o.exc = some e.name ∧ o.heap = h ∧ o.calls = [⟨"log", "msg", [.str ""]⟩] := by
  by_cases h1 : expected.isPrefixOf buf = true
  · l2_eval [tbl_Framer, m_Framer__get_expected, envF, noRz, hb, getExpected, h1]
  · by_cases h2 : buf.isPrefixOf expected = true
    · l2_eval [tbl_Framer, m_Framer__get_expected, envF, noRz, hb, getExpected, h1, h2]
    · by_cases h3 : (10 : Nat) ∈ buf
      · l2_eval [tbl_Framer, m_Framer__get_expected, envF, noRz, hb, getExpected, h1, h2, h3, Err.name]
      · by_cases h4 : expected.length ≤ buf.length <;>
          l2_eval [tbl_Framer, m_Framer__get_expected, envF, noRz, hb, getExpected, h1, h2, h3, h4, Err.name]

/-- `parse_prologue`: `Prologue()` once the whole inbound prologue is buffered (and consumed), else `None`, or `Disconnect` -/
theorem framer_parse_prologue (fuel : Nat) (h : Store) (buf pro : Bytes)
    (hb : h.get "_buffer" = some (.bytes buf)) (hp : h.get "_inbound_prologue" = some (.bytes pro)) :
    let o := exec (fuel + 2) (envF noRz) tbl_Framer "parse_prologue" [] h
    match getExpected buf pro with
    | .ok (true, rest) => o.ret = encTok .prologue ∧ o.heap = h.set "_buffer" (.bytes rest) ∧ o.exc = none ∧ o.calls = []
    | .ok (false, _) => o.ret = .none ∧ o.heap = h ∧ o.exc = none ∧ o.calls = []
    | .error e => o.exc = some e.name ∧ o.heap = h := by
  by_cases h1 : pro.isPrefixOf buf = true
  · l2_eval [tbl_Framer, m_Framer__get_expected, m_Framer_parse_prologue, envF, noRz, hb, hp, getExpected, h1, encTok]
  · by_cases h2 : buf.isPrefixOf pro = true
    · l2_eval [tbl_Framer, m_Framer__get_expected, m_Framer_parse_prologue, envF, noRz, hb, hp, getExpected, h1, h2]
    · by_cases h3 : (10 : Nat) ∈ buf
      · l2_eval [tbl_Framer, m_Framer__get_expected, m_Framer_parse_prologue, envF, noRz, hb, hp, getExpected, h1, h2, h3, Err.name]
      · by_cases h4 : pro.length ≤ buf.length <;>
          l2_eval [tbl_Framer, m_Framer__get_expected, m_Framer_parse_prologue, envF, noRz, hb, hp, getExpected, h1, h2, h3, h4, Err.name]

/-- `parse_relay_ok`: the same against `_expected_relay_handshake` -/
theorem framer_parse_relay_ok (fuel : Nat) (h : Store) (buf ex : Bytes)
    (hb : h.get "_buffer" = some (.bytes buf)) (hp : h.get "_expected_relay_handshake" = some (.bytes ex)) :
    let o := exec (fuel + 2) (envF noRz) tbl_Framer "parse_relay_ok" [] h
    match getExpected buf ex with
    | .ok (true, rest) => o.ret = encTok .relayOK ∧ o.heap = h.set "_buffer" (.bytes rest) ∧ o.exc = none ∧ o.calls = []
    | .ok (false, _) => o.ret = .none ∧ o.heap = h ∧ o.exc = none ∧ o.calls = []
    | .error e => o.exc = some e.name ∧ o.heap = h := by
  by_cases h1 : ex.isPrefixOf buf = true
  · l2_eval [tbl_Framer, m_Framer__get_expected, m_Framer_parse_relay_ok, envF, noRz, hb, hp, getExpected, h1, encTok]
  · by_cases h2 : buf.isPrefixOf ex = true
    · l2_eval [tbl_Framer, m_Framer__get_expected, m_Framer_parse_relay_ok, envF, noRz, hb, hp, getExpected, h1, h2]
    · by_cases h3 : (10 : Nat) ∈ buf
      · l2_eval [tbl_Framer, m_Framer__get_expected, m_Framer_parse_relay_ok, envF, noRz, hb, hp, getExpected, h1, h2, h3, Err.name]
      · by_cases h4 : ex.length ≤ buf.length <;>
          l2_eval [tbl_Framer, m_Framer__get_expected, m_Framer_parse_relay_ok, envF, noRz, hb, hp, getExpected, h1, h2, h3, h4, Err.name]

/-! ## `_Framer`: the writers -/

/-- `send_frame(frame)` = `frameBytes`: ONE `transport.write` of the be4 length followed by the body; `ValueError` from
    `to_be4` (nothing written) for a body of 2**32 bytes or more; `AssertionError` before the prologue was received -/
theorem framer_send_frame (fuel : Nat) (h : Store) (body : Bytes) (csf : Bool)
    (hc : h.get "_can_send_frames" = some (.bool csf)) (ht : h.get "_transport" = some (.ref "transport" 0)) :
    let o := exec (fuel + 1) (envF noRz) tbl_Framer "send_frame" [.bytes body] h
    o.heap = h ∧
      if csf then
        (match frameBytes body with
         | some fr => o.calls = [⟨"_transport", "write", [.bytes fr]⟩] ∧ o.exc = none
         | none => o.calls = [] ∧ o.exc = some "ValueError")
      else o.calls = [] ∧ o.exc = some "AssertionError" := by
  cases csf with
  | false => l2_eval [tbl_Framer, m_Framer_send_frame, envF, noRz, hc, ht]
  | true =>
    cases hbe : toBe4 body.length <;>
      l2_eval [tbl_Framer, m_Framer_send_frame, envF, noRz, hc, ht, frameBytes, hbe]

/-- the write of `send_frame` is made AFTER the assertion and carries the length prefix first: when the transport itself
    fails, the exception is the transport's -/
theorem framer_send_frame_when_write_fails (fuel : Nat) (h : Store) (body fr : Bytes) (c : String)
    (hc : h.get "_can_send_frames" = some (.bool true)) (ht : h.get "_transport" = some (.ref "transport" 0))
    (hf : frameBytes body = some fr) :
    let o := exec (fuel + 1) (envF fun k => if k = 0 then some c else none) tbl_Framer "send_frame" [.bytes body] h
    o.heap = h ∧ o.calls = [⟨"_transport", "write", [.bytes fr]⟩] ∧ o.exc = some c := by
  cases hbe : toBe4 body.length with
  | none => simp [frameBytes, hbe] at hf
  | some l =>
    simp [frameBytes, hbe] at hf
    subst hf
    l2_eval [tbl_Framer, m_Framer_send_frame, envF, hc, ht, hbe]

/-- `can_send_frames`: the flag `send_frame` asserts -/
theorem framer_can_send_frames (fuel : Nat) (h : Store) :
    let o := exec (fuel + 1) (envF noRz) tbl_Framer "can_send_frames" [] h
    o.heap = h.set "_can_send_frames" (.bool true) ∧ o.calls = [] ∧ o.exc = none := by
  l2_eval [tbl_Framer, m_Framer_can_send_frames]

/-- `send_prologue`: the outbound prologue, unframed -/
theorem framer_send_prologue (fuel : Nat) (h : Store) (op : Bytes)
    (ho : h.get "_outbound_prologue" = some (.bytes op)) (ht : h.get "_transport" = some (.ref "transport" 0)) :
    let o := exec (fuel + 1) (envF noRz) tbl_Framer "send_prologue" [] h
    o.heap = h ∧ o.calls = [⟨"_transport", "write", [.bytes op]⟩] ∧ o.exc = none := by
  l2_eval [tbl_Framer, m_Framer_send_prologue, envF, noRz, ho, ht]

/-- `store_relay_handshake`: what is sent to the relay, and the reply that is expected: `b"ok\n"` = `relayOkBytes` -/
theorem framer_store_relay_handshake (fuel : Nat) (h : Store) (rh : Bytes) :
    let o := exec (fuel + 1) (envF noRz) tbl_Framer "store_relay_handshake" [.bytes rh] h
    o.heap = (h.set "_outbound_relay_handshake" (.bytes rh)).set "_expected_relay_handshake" (.bytes relayOkBytes) ∧
      o.calls = [] ∧ o.exc = none := by
  l2_eval [tbl_Framer, m_Framer_store_relay_handshake, relayOkBytes]

/-- `send_relay_handshake` -/
theorem framer_send_relay_handshake (fuel : Nat) (h : Store) (rh : Bytes)
    (ho : h.get "_outbound_relay_handshake" = some (.bytes rh)) (ht : h.get "_transport" = some (.ref "transport" 0)) :
    let o := exec (fuel + 1) (envF noRz) tbl_Framer "send_relay_handshake" [] h
    o.heap = h ∧ o.calls = [⟨"_transport", "write", [.bytes rh]⟩] ∧ o.exc = none := by
  l2_eval [tbl_Framer, m_Framer_send_relay_handshake, envF, noRz, ho, ht]

/-! ## `_Framer.add_and_parse`: the buffer + parser loop -/

/-- `add_and_parse(data)` — `self._buffer += data`, then `while True:` { `token = self.parse()` dispatched through the
    GENERATED Automat table to the parser of the current state; `RelayOK` → `got_relay_ok()`; `Prologue` →
    `got_prologue()` and yield; `Frame` → yield; anything else → `break` } — equals the model's `addAndParse`
    (= `pump … collect` run to completion) for EVERY buffer and chunk: final machine state and unparsed rest of the buffer
    (and the `_can_send_frames` flag, which is set exactly in `want_frame`), the yielded tokens in order, the exception.
    Fuel: `len(buffer) + len(data) + 7` suffices (the loop makes at most `len + 3` turns; four nested calls).
    By induction on the model's termination measure (`whileLoopBC_run`). -/
theorem framer_add_and_parse (fuel : Nat) (cfg : FramerCfg) (op : Bytes) (h : Store) (fr : FramerSt) (data : Bytes)
    (R : RelFr cfg op h fr) (hf : fr.buf.length + data.length + 7 ≤ fuel) :
    let o := exec fuel (envF noRz) tblFramer "add_and_parse" [.bytes data] h
    RelFr cfg op o.heap (addAndParse cfg fr data).1 ∧ yields o.calls = (addAndParse cfg fr data).2.1 ∧
      o.exc = (addAndParse cfg fr data).2.2.map Err.name := by
  obtain ⟨G, rfl⟩ : ∃ G, fuel = G + 1 := ⟨fuel - 1, by omega⟩
  have R0 := R
  obtain ⟨hst, hbuf, hpro, hop, hrel, htr, hcsf⟩ := R
  have hE : addAndParse cfg fr data = run cfg collect (addBuf fr data) [] := by
    unfold addAndParse; exact pumpData_eq_run cfg collect fr [] data
  simp only [hE]
  have hT : tblFramer "add_and_parse" = some m_Framer_add_and_parse := by rfl
  simp only [exec, callM, hT, m_Framer_add_and_parse]
  l2_eval [hbuf]
  generalize hw : whileLoopBC _ _ _ _ = w
  refine whileLoopBC_run' cfg (RelFr cfg op) hw (addBuf fr data) ?hcond ?hbody ?hI ?hF ?cont
  case hcond => intro σ; rfl
  case hI =>
    exact ⟨by simpa [get_set, addBuf] using hst, by simp [get_set, addBuf], by simpa [get_set] using hpro,
      by simpa [get_set] using hop, fun hr => by simpa [get_set] using hrel hr, by simpa [get_set] using htr,
      by simpa [get_set, addBuf] using hcsf⟩
  case hF => have := mu_le (addBuf fr data); simp [addBuf] at this ⊢; omega
  case cont =>
    intro h' L' cs' hI' hy hw'
    subst hw'
    simp only [yields, List.filterMap_nil] at hI' hy ⊢
    cases he : (run cfg collect (addBuf fr data) []).2.2 with
    | none => simp [flowOf]; exact ⟨by simpa [yields] using hI', by simpa [yields] using hy⟩
    | some e => simp [flowOf]; exact ⟨by simpa [yields] using hI', by simpa [yields] using hy⟩
  case hbody =>
    clear hw
    intro h1 L cs fr1 R1
    obtain ⟨g, rfl⟩ : ∃ g, G = g + 3 := ⟨G - 3, by omega⟩
    obtain ⟨st, buf⟩ := fr1
    obtain ⟨hst1, hbuf1, hpro1, hop1, hrel1, htr1, hcsf1⟩ := R1
    simp only at hst1 hbuf1 hrel1 hcsf1
    cases st with
    | want_frame =>
      rw [parseTurn_frame]
      by_cases h4 : buf.length < 4
      · have h4I : ((buf.length : Nat) : Int) < 4 := by omega
        fr_eval [m_Framer_parse_frame, parseFrame, h4, h4I, hst1, hbuf1, hpro1, hop1, htr1, hcsf1]
      · obtain ⟨n, hn⟩ := fromBe4_take4 h4
        have h4I : (4 : Int) ≤ ((buf.length : Nat) : Int) := by omega
        by_cases hl : buf.length < 4 + n <;>
          fr_eval [m_Framer_parse_frame, parseFrame, h4, h4I, hn, hl, drop_take_add, hst1, hbuf1, hpro1, hop1, htr1, hcsf1]
    | want_prologue =>
      rw [parseTurn_prologue]
      by_cases e1 : cfg.inboundPrologue.isPrefixOf buf = true
      · fr_eval [m_Framer_parse_prologue, m_Framer__get_expected, m_Framer_can_send_frames, getExpected, e1, Except.bind,
          hst1, hbuf1, hpro1, hop1, htr1, hcsf1]
      · by_cases e2 : buf.isPrefixOf cfg.inboundPrologue = true
        · fr_eval [m_Framer_parse_prologue, m_Framer__get_expected, m_Framer_can_send_frames, getExpected, e1, e2,
            Except.bind, hst1, hbuf1, hpro1, hop1, htr1, hcsf1]
        · by_cases e3 : (10 : Nat) ∈ buf
          · fr_eval [m_Framer_parse_prologue, m_Framer__get_expected, m_Framer_can_send_frames, getExpected, e1, e2, e3,
              Except.bind, hst1, hbuf1, hpro1, hop1, htr1, hcsf1]
          · by_cases e4 : cfg.inboundPrologue.length ≤ buf.length <;>
              fr_eval [m_Framer_parse_prologue, m_Framer__get_expected, m_Framer_can_send_frames, getExpected, e1, e2, e3,
                e4, Except.bind, hst1, hbuf1, hpro1, hop1, htr1, hcsf1]
    | want_relay =>
      rw [parseTurn_relay]
      have hre := hrel1 rfl
      by_cases e1 : cfg.relayExpected.isPrefixOf buf = true
      · fr_eval [m_Framer_parse_relay_ok, m_Framer__get_expected, m_Framer_send_prologue, getExpected, e1, Except.bind,
          hst1, hbuf1, hpro1, hop1, htr1, hcsf1, hre]
      · by_cases e2 : buf.isPrefixOf cfg.relayExpected = true
        · fr_eval [m_Framer_parse_relay_ok, m_Framer__get_expected, m_Framer_send_prologue, getExpected, e1, e2,
            Except.bind, hst1, hbuf1, hpro1, hop1, htr1, hcsf1, hre]
        · by_cases e3 : (10 : Nat) ∈ buf
          · fr_eval [m_Framer_parse_relay_ok, m_Framer__get_expected, m_Framer_send_prologue, getExpected, e1, e2, e3,
              Except.bind, hst1, hbuf1, hpro1, hop1, htr1, hcsf1, hre]
          · by_cases e4 : cfg.relayExpected.length ≤ buf.length <;>
              fr_eval [m_Framer_parse_relay_ok, m_Framer__get_expected, m_Framer_send_prologue, getExpected, e1, e2, e3,
                e4, Except.bind, hst1, hbuf1, hpro1, hop1, htr1, hcsf1, hre]

/-- the ORDER inside the `Prologue` branch of `add_and_parse` (`self.got_prologue()` BEFORE `yield token`), and the
    laziness of the generator: at the moment the `Prologue` token is handed to the consumer — which answers it by sending
    the Noise handshake through `send_frame` — the framer is already in `want_frame` with `_can_send_frames` set, exactly
    the prologue has been consumed, and nothing behind it has been parsed yet.  The consumer is made to abandon the
    generator at that yield (`Env.raises 0`), so the heap of that moment is the outcome.  With the two statements swapped
    the final state and the yields of a complete run are the same; only this theorem tells them apart. -/
theorem framer_add_and_parse_state_at_prologue_yield (fuel : Nat) (cfg : FramerCfg) (op : Bytes) (h : Store)
    (buf data rest : Bytes) (c : String) (R : RelFr cfg op h ⟨.want_prologue, buf⟩)
    (hpre : buf ++ data = cfg.inboundPrologue ++ rest) (hc1 : c ≠ "$break") (hc2 : c ≠ "$continue") :
    let o := exec (fuel + 5) (envF fun k => if k = 0 then some c else none) tblFramer "add_and_parse" [.bytes data] h
    RelFr cfg op o.heap ⟨.want_frame, rest⟩ ∧ yields o.calls = [.prologue] ∧ o.exc = some c := by
  obtain ⟨hst, hbuf, hpro, hop, hrel, htr, hcsf⟩ := R
  simp only at hst hbuf hcsf
  have e1 : cfg.inboundPrologue.isPrefixOf (buf ++ data) = true := by
    rw [hpre]; simp [List.isPrefixOf_iff_prefix]
  have e2 : (buf ++ data).drop cfg.inboundPrologue.length = rest := by rw [hpre]; simp
  fr_eval [m_Framer_add_and_parse, m_Framer_parse_prologue, m_Framer__get_expected, m_Framer_can_send_frames, whileLoopBC,
    hst, hbuf, hpro, hop, htr, hcsf, e1, e2, hc1, hc2]

/-! ## the record codec -/

/-- `encode_record(r)` = `encodeRecord r` for every record (`ValueError` from `to_be4` for a field ≥ 2**32) -/
theorem codec_encode_record (fuel : Nat) (vu : Bytes → Bool) (d8 : Bytes → String) (e8 : String → Bytes) (r : Rec)
    (h8 : ∀ s c sub, r = .opn s c sub → e8 (d8 sub) = sub) :
    let o := exec (fuel + 1) (envCodec vu d8 e8) tbl_fn_connection "encode_record" [encRecV d8 r] []
    o.calls = [] ∧
      match encodeRecord r with
      | some b => o.ret = .bytes b ∧ o.exc = none
      | none => o.exc = some "ValueError" := by
  cases r with
  | kcm => l2_eval [tbl_fn_connection, m_fn_connection_encode_record, envCodec, encRecV, encodeRecord, Consts.T_KCM]
  | ping id => l2_eval [tbl_fn_connection, m_fn_connection_encode_record, envCodec, encRecV, encodeRecord, Consts.T_PING]
  | pong id => l2_eval [tbl_fn_connection, m_fn_connection_encode_record, envCodec, encRecV, encodeRecord, Consts.T_PONG]
  | opn s c sub =>
    have := h8 s c sub rfl
    cases h1 : toBe4 c <;> cases h2 : toBe4 s <;>
      l2_eval [tbl_fn_connection, m_fn_connection_encode_record, envCodec, encRecV, encodeRecord, Consts.T_OPEN, h1, h2, this]
  | data s c d =>
    cases h1 : toBe4 c <;> cases h2 : toBe4 s <;>
      l2_eval [tbl_fn_connection, m_fn_connection_encode_record, envCodec, encRecV, encodeRecord, Consts.T_DATA, h1, h2]
  | close s c =>
    cases h1 : toBe4 c <;> cases h2 : toBe4 s <;>
      l2_eval [tbl_fn_connection, m_fn_connection_encode_record, envCodec, encRecV, encodeRecord, Consts.T_CLOSE, h1, h2]
  | ack a =>
    cases h1 : toBe4 a <;>
      l2_eval [tbl_fn_connection, m_fn_connection_encode_record, envCodec, encRecV, encodeRecord, Consts.T_ACK, h1]

/-- `parse_record(plaintext)` = `parseRecord`: the record, or `ValueError` (empty / unknown type / short be4 field, the
    unknown type after a log line), or `UnicodeDecodeError` -/
theorem codec_parse_record (fuel : Nat) (vu : Bytes → Bool) (d8 : Bytes → String) (e8 : String → Bytes) (pt : Bytes) :
    let o := exec (fuel + 1) (envCodec vu d8 e8) tbl_fn_connection "parse_record" [.bytes pt] []
    match parseRecord vu pt with
    | .ok r => o.ret = encRecV d8 r ∧ o.exc = none ∧ o.calls = []
    | .error e => o.exc = some e.name ∧ o.calls.all (fun c => c.obj == "log") = true := by
  cases pt with
  | nil => l2_eval [tbl_fn_connection, m_fn_connection_parse_record, envCodec, parseRecord, Err.name]
  | cons t rest =>
    by_cases h0 : t = 0
    · subst h0
      l2_eval [tbl_fn_connection, m_fn_connection_parse_record, envCodec, parseRecord, Err.name, encRecV, Consts.T_KCM]
    · by_cases h1 : t = 1
      · subst h1
        l2_eval [tbl_fn_connection, m_fn_connection_parse_record, envCodec, parseRecord, Err.name, encRecV, Consts.T_KCM,
          Consts.T_PING, drop_take_lit]
      · by_cases h2 : t = 2
        · subst h2
          l2_eval [tbl_fn_connection, m_fn_connection_parse_record, envCodec, parseRecord, Err.name, encRecV, Consts.T_KCM,
            Consts.T_PING, Consts.T_PONG, drop_take_lit]
        · by_cases h3 : t = 3
          · subst h3
            cases e1 : fromBe4 (rest.take 4) <;> cases e2 : fromBe4 ((rest.drop 4).take 4) <;>
              cases e3 : vu (rest.drop 8) <;>
              l2_eval [tbl_fn_connection, m_fn_connection_parse_record, envCodec, parseRecord, Err.name, encRecV,
                Consts.T_KCM, Consts.T_PING, Consts.T_PONG, Consts.T_OPEN, drop_take_lit, be4At, Except.bind, e1, e2, e3]
          · by_cases h4 : t = 4
            · subst h4
              cases e1 : fromBe4 (rest.take 4) <;> cases e2 : fromBe4 ((rest.drop 4).take 4) <;>
                l2_eval [tbl_fn_connection, m_fn_connection_parse_record, envCodec, parseRecord, Err.name, encRecV,
                  Consts.T_KCM, Consts.T_PING, Consts.T_PONG, Consts.T_OPEN, Consts.T_DATA, drop_take_lit, be4At, Except.bind, e1, e2]
            · by_cases h5 : t = 5
              · subst h5
                cases e1 : fromBe4 (rest.take 4) <;> cases e2 : fromBe4 ((rest.drop 4).take 4) <;>
                  l2_eval [tbl_fn_connection, m_fn_connection_parse_record, envCodec, parseRecord, Err.name, encRecV,
                    Consts.T_KCM, Consts.T_PING, Consts.T_PONG, Consts.T_OPEN, Consts.T_DATA, Consts.T_CLOSE,
                    drop_take_lit, be4At, Except.bind, e1, e2]
              · by_cases h6 : t = 6
                · subst h6
                  cases e1 : fromBe4 (rest.take 4) <;>
                    l2_eval [tbl_fn_connection, m_fn_connection_parse_record, envCodec, parseRecord, Err.name, encRecV,
                      Consts.T_KCM, Consts.T_PING, Consts.T_PONG, Consts.T_OPEN, Consts.T_DATA, Consts.T_CLOSE,
                      Consts.T_ACK, drop_take_lit, be4At, Except.bind, e1]
                · l2_eval [tbl_fn_connection, m_fn_connection_parse_record, envCodec, parseRecord, Err.name, encRecV,
                    Consts.T_KCM, Consts.T_PING, Consts.T_PONG, Consts.T_OPEN, Consts.T_DATA, Consts.T_CLOSE,
                    Consts.T_ACK, drop_take_lit, be4At, Except.bind, h0, h1, h2, h3, h4, h5, h6]

/-- `from_be4(b)`: `TypeError` unless bytes, `ValueError` unless exactly four of them, else the big-endian value
    (`struct.unpack(">L", b)[0]` = the model's `fromBe4`, which is total on four bytes) -/
theorem codec_from_be4 (fuel : Nat) (b : Bytes) :
    let env : Env := { fmtD := fun n => toString n, raises := fun _ => none,
                       ext := fun f args => match f, args with
                         | "struct.unpack", [.str ">L", .bytes x] =>
                           (match fromBe4 x with | some n => .ok (.tuple [.int n]) | none => .exc "struct.error")
                         | _, _ => unsupported }
    let o := exec (fuel + 1) env tbl_fn_encode "from_be4" [.bytes b] []
    o.calls = [] ∧
      match fromBe4 b with
      | some n => o.ret = .int n ∧ o.exc = none
      | none => o.exc = some "ValueError" := by
  by_cases h4 : b.length = 4
  · match b, h4 with
    | [a0, a1, a2, a3], _ => l2_eval [tbl_fn_encode, m_fn_encode_from_be4, fromBe4]
  · have hn : fromBe4 b = none := by
      match b, h4 with
      | [], _ | [_], _ | [_, _], _ | [_, _, _], _ | _ :: _ :: _ :: _ :: _ :: _, _ => rfl
      | [_, _, _, _], h => simp at h
    l2_eval [tbl_fn_encode, m_fn_encode_from_be4, hn, h4]

/-! ## `_Record` -/

/-- `_Record.send_record(r)` = `sealMessage` + `send_frame`: encode; ONE `encrypt` of the whole message when it fits a Noise
    payload, otherwise one `encrypt` per piece of NOISE_MAX_PAYLOAD bytes in order (the `while start < len(message)` loop =
    `chunksOf`/`encChunks`, for every message length), the ciphertexts concatenated into ONE frame handed to
    `framer.send_frame`; the nonce advances by the number of `encrypt` calls -/
theorem record_send_record (fuel : Nat) (N : Noise) (n0 : Nat) (hsOK : Bytes → Bool) (hs : Bytes) (er : Val → Res Val)
    (pr : Bytes → Res Val) (h : Store) (v : Val) (msg : Bytes)
    (hn : h.get "_noise" = some (.ref "noise" 0)) (hfr : h.get "_framer" = some (.ref "framer" 0))
    (he : er v = .ok (.bytes msg)) (hf : msg.length + 3 ≤ fuel) :
    let o := exec fuel (envR N n0 hsOK hs er pr) tbl_Record "send_record" [v] h
    o.heap = h ∧ o.exc = none ∧
      o.calls = sealCalls msg ++ [⟨"_framer", "send_frame", [.bytes (sealMessage N n0 msg).1]⟩] ∧
      (sealMessage N n0 msg).2 = n0 + (sealCalls msg).length := by
  obtain ⟨G, rfl⟩ : ∃ G, fuel = G + 1 := ⟨fuel - 1, by omega⟩
  by_cases hlen : msg.length ≤ 65519
  · have hlenI : ((msg.length : Nat) : Int) ≤ 65519 := by omega
    l2_eval [tbl_Record, m_Record_send_record, envR, he, hn, hfr, hlen, hlenI, sealMessage, sealCalls,
      Consts.NOISE_MAX_PAYLOAD, encCall]
  · have hlenI : ¬ ((msg.length : Nat) : Int) ≤ 65519 := by omega
    l2_eval [tbl_Record, m_Record_send_record, envR, he, hn, hfr, hlen, hlenI, sealMessage, sealCalls,
      Consts.NOISE_MAX_PAYLOAD]
    generalize hw : whileLoop _ _ _ _ = w
    refine whileLoop_chunks' 65519 (by decide) msg (fun n c => some (N.enc n c)) n0 encCall ""
      (fun L s acc => L.get "start" = some (.int s) ∧ L.get "frame" = some (.bytes acc) ∧
        L.get "message" = some (.bytes msg)) hw [] ?hcond ?hbody ?hL ?hF ?cont
    case hcond =>
      intro L cs s acc ⟨h1, h2, h3⟩
      l2_eval [h1, h2, h3]
    case hbody =>
      intro L cs s acc ⟨h1, h2, h3⟩ hs
      l2_eval [h1, h2, h3, hn, envR, drop_take_add, encCall]
    case hL => simp [Store.get, Store.set, bindParams]
    case hF => omega
    case cont =>
      intro hk
      rw [procChunks_enc] at hk
      simp only at hk
      obtain ⟨L', s', rfl, hL1, hL2, hL3⟩ := hk
      l2_eval [hL2, hfr, encChunks_snd]

/-- `_Record.decrypt_message(frame)` = `openMessage` + `parse_record`: ONE `decrypt` when the frame fits a Noise ciphertext,
    otherwise one per piece of NOISE_MAX_CIPHERTEXT bytes in order with successive nonces, plaintexts concatenated (the
    `while start < size` loop = `chunksOf`/`decChunks`, for every frame length); a piece that does not verify →
    `Disconnect` (via `except NoiseInvalidMessage`); then `parse_record` of the plaintext, whose exception propagates
    AFTER the nonce has advanced by the number of `decrypt` calls -/
theorem record_decrypt_message (fuel : Nat) (N : Noise) (n0 : Nat) (hsOK : Bytes → Bool) (hs : Bytes) (er : Val → Res Val)
    (pr : Bytes → Res Val) (h : Store) (f : Bytes) (tbl : MethodTable)
    (ht : tbl "decrypt_message" = some m_Record_decrypt_message)
    (hn : h.get "_noise" = some (.ref "noise" 0)) (hf : f.length + 3 ≤ fuel) :
    let o := exec fuel (envR N n0 hsOK hs er pr) tbl "decrypt_message" [.bytes f] h
    o.heap = h ∧
      match openMessage N n0 f with
      | none => o.exc = some "Disconnect"
      | some (pt, n') =>
        o.calls = openCalls f ∧ n' = n0 + (openCalls f).length ∧
          (match pr pt with
           | .ok v => o.ret = v ∧ o.exc = none
           | .exc c => o.exc = some c) := by
  obtain ⟨G, rfl⟩ : ∃ G, fuel = G + 1 := ⟨fuel - 1, by omega⟩
  by_cases hlen : f.length ≤ 65535
  · have hlenI : ((f.length : Nat) : Int) ≤ 65535 := by omega
    cases hd : N.dec n0 f with
    | none =>
      l2_eval [ht, m_Record_decrypt_message, envR, hn, hlen, hlenI, openMessage, openCalls,
        Consts.NOISE_MAX_CIPHERTEXT, decCall, hd]
    | some p =>
      cases hp : pr p <;>
      l2_eval [ht, m_Record_decrypt_message, envR, hn, hlen, hlenI, openMessage, openCalls,
        Consts.NOISE_MAX_CIPHERTEXT, decCall, hd, hp]
  · have hlenI : ¬ ((f.length : Nat) : Int) ≤ 65535 := by omega
    l2_eval [ht, m_Record_decrypt_message, envR, hn, hlen, hlenI, openMessage, openCalls,
      Consts.NOISE_MAX_CIPHERTEXT]
    generalize hw : whileLoop _ _ _ _ = w
    refine whileLoop_chunks' 65535 (by decide) f N.dec n0 decCall "NoiseInvalidMessage"
      (fun L s acc => L.get "start" = some (.int s) ∧ L.get "message" = some (.bytes acc) ∧
        L.get "frame" = some (.bytes f) ∧ L.get "size" = some (.int f.length)) hw [] ?hcond ?hbody ?hL ?hF ?cont
    case hcond =>
      intro L cs s acc ⟨h1, h2, h3, h4⟩
      l2_eval [h1, h2, h3, h4]
    case hbody =>
      intro L cs s acc ⟨h1, h2, h3, h4⟩ hs
      cases hd : N.dec (n0 + cs.length) ((f.drop s).take 65535) <;>
        l2_eval [h1, h2, h3, h4, hn, envR, drop_take_add, decCall, hd]
    case hL => simp [Store.get, Store.set, bindParams]
    case hF => omega
    case cont =>
      intro hk
      rw [procChunks_dec] at hk
      simp only [List.length_nil, Nat.add_zero] at hk
      cases hdc : decChunks N n0 (chunksOf 65535 f.length f) with
      | none =>
        rw [hdc] at hk
        obtain ⟨L', cs', rfl⟩ := hk
        l2_eval []
      | some q =>
        obtain ⟨pt, n'⟩ := q
        rw [hdc] at hk
        obtain ⟨L', s', rfl, hL1, hL2, hL3⟩ := hk
        have hn' := decChunks_snd N _ _ _ _ hdc
        cases hp : pr pt <;> l2_eval [hL2, hp, envR, hn']

/-- `send_record` when `encode_record` raises (a field ≥ 2**32: `ValueError`): nothing is encrypted, nothing written, the
    nonce does not move -/
theorem record_send_record_unencodable (fuel : Nat) (N : Noise) (n0 : Nat) (hsOK : Bytes → Bool) (hs : Bytes)
    (er : Val → Res Val) (pr : Bytes → Res Val) (h : Store) (v : Val) (c : String) (he : er v = .exc c) :
    let o := exec (fuel + 1) (envR N n0 hsOK hs er pr) tbl_Record "send_record" [v] h
    o.heap = h ∧ o.exc = some c ∧ o.calls = [] := by
  l2_eval [tbl_Record, m_Record_send_record, envR, he]

/-- `process_handshake(frame)`: `noise.read_message(frame)`; verified → `Handshake()`, else `Disconnect` (after a log line) -/
theorem record_process_handshake (fuel : Nat) (N : Noise) (n0 : Nat) (hsOK : Bytes → Bool) (hs : Bytes)
    (er : Val → Res Val) (pr : Bytes → Res Val) (h : Store) (f : Bytes) (tbl : MethodTable)
    (ht : tbl "process_handshake" = some m_Record_process_handshake)
    (hn : h.get "_noise" = some (.ref "noise" 0)) :
    let o := exec (fuel + 1) (envR N n0 hsOK hs er pr) tbl "process_handshake" [.bytes f] h
    o.heap = h ∧
      if hsOK f then o.ret = .obj "Handshake" [] ∧ o.exc = none ∧ o.calls = [⟨"_noise", "read_message", [.bytes f]⟩]
      else o.exc = some "Disconnect" := by
  cases hk : hsOK f <;> l2_eval [ht, m_Record_process_handshake, envR, hn, hk]

/-- `send_handshake()` / `ignore_and_send_handshake(frame)` → `_send_handshake()`: `noise.write_message()` and then ONE
    `framer.send_frame(handshake)` -/
theorem record_send_handshake (fuel : Nat) (N : Noise) (n0 : Nat) (hsOK : Bytes → Bool) (hs : Bytes)
    (er : Val → Res Val) (pr : Bytes → Res Val) (h : Store)
    (hn : h.get "_noise" = some (.ref "noise" 0)) (hfr : h.get "_framer" = some (.ref "framer" 0)) :
    let o := exec (fuel + 2) (envR N n0 hsOK hs er pr) tbl_Record "send_handshake" [] h
    o.heap = h ∧ o.exc = none ∧
      o.calls = [⟨"_noise", "write_message", []⟩, ⟨"_framer", "send_frame", [.bytes hs]⟩] := by
  l2_eval [tbl_Record, m_Record_send_handshake, m_Record__send_handshake, envR, hn, hfr]

theorem record_ignore_and_send_handshake (fuel : Nat) (N : Noise) (n0 : Nat) (hsOK : Bytes → Bool) (hs : Bytes)
    (er : Val → Res Val) (pr : Bytes → Res Val) (h : Store) (f : Bytes)
    (hn : h.get "_noise" = some (.ref "noise" 0)) (hfr : h.get "_framer" = some (.ref "framer" 0)) :
    let o := exec (fuel + 2) (envR N n0 hsOK hs er pr) tbl_Record "ignore_and_send_handshake" [.bytes f] h
    o.heap = h ∧ o.exc = none ∧
      o.calls = [⟨"_noise", "write_message", []⟩, ⟨"_framer", "send_frame", [.bytes hs]⟩] := by
  l2_eval [tbl_Record, m_Record_ignore_and_send_handshake, m_Record__send_handshake, envR, hn, hfr]

/-- a Noise failure while writing the handshake is logged and re-raised; nothing is framed -/
theorem record_send_handshake_when_noise_fails (fuel : Nat) (N : Noise) (n0 : Nat) (hsOK : Bytes → Bool) (hs : Bytes)
    (er : Val → Res Val) (pr : Bytes → Res Val) (h : Store)
    (hn : h.get "_noise" = some (.ref "noise" 0)) (hfr : h.get "_framer" = some (.ref "framer" 0)) :
    let o := exec (fuel + 2) { envR N n0 hsOK hs er pr with raises := fun k => if k = 0 then some "NoiseHandshakeError" else none }
      tbl_Record "send_handshake" [] h
    o.heap = h ∧ o.exc = some "NoiseHandshakeError" ∧
      o.calls.map (·.meth) = ["write_message", "err"] := by
  l2_eval [tbl_Record, m_Record_send_handshake, m_Record__send_handshake, envR, hn, hfr]

/-! ## `_Record` as a machine: inputs through the generated table -/

/-- `_Record.got_prologue()` through the GENERATED table = the `.prologue` branch of `l2Token`: the leader (and only the
    leader) sends its Noise handshake frame; `NoTransition` in any other state, nothing changed -/
theorem record_got_prologue (fuel : Nat) (cfg : L2Cfg) (s : UpSt) (hs : Bytes) (er : Val → Res Val) (pr : Bytes → Res Val)
    (h : Store) (hst : h.get "$state" = some (.str s.rcd.name))
    (hn : h.get "_noise" = some (.ref "noise" 0)) (hfr : h.get "_framer" = some (.ref "framer" 0))
    (hh : s.handshakeSent = false) :
    let o := exec (fuel + 4) (envR cfg.noise s.rxNonce cfg.handshakeOK hs er pr) tblRecord "got_prologue" [] h
    match l2Token cfg s .prologue with
    | .ok s' => o.heap.get "$state" = some (.str s'.rcd.name) ∧ o.exc = none ∧
        sentFrames o.calls = (if s'.handshakeSent then [.bytes hs] else [])
    | .error (e, _) => o.heap = h ∧ o.exc = some e.name ∧ o.calls = [] := by
  obtain ⟨rcd, dcp, n, hsent, k, q, tm, cand⟩ := s
  simp only at hst hh
  subst hh
  cases rcd <;>
    rec_eval [l2Token, m_Record_send_handshake, m_Record__send_handshake, hst, hn, hfr, get_set]

/-- `_Record.got_frame(frame)` through the GENERATED table (collector = first) = `recordGotFrame`: the row's target state is
    set FIRST, so an output that raises leaves `_Record` there; `want_handshake_*` → `process_handshake` (`Handshake()` or
    `Disconnect`), the follower then sends its own handshake frame; `want_message` → `decrypt_message` (every frame length,
    through `record_decrypt_message`) → the parsed record, `Disconnect` when a piece does not verify, the parser's
    exception AFTER the nonce advanced; any other state → `NoTransition`, nothing changed.
    `hh`: a follower that still waits for the peer's handshake has not sent its own (it answers the peer's). -/
theorem record_got_frame (fuel : Nat) (cfg : L2Cfg) (d8 : Bytes → String) (s : UpSt) (hs : Bytes) (er : Val → Res Val)
    (pr : Bytes → Res Val) (h : Store) (f : Bytes) (hst : h.get "$state" = some (.str s.rcd.name))
    (hn : h.get "_noise" = some (.ref "noise" 0)) (hfr : h.get "_framer" = some (.ref "framer" 0))
    (hh : s.rcd = .want_handshake_follower → s.handshakeSent = false)
    (hpr : ∀ m, pr m = match parseRecord cfg.validUtf8 m with
                        | .ok r => .ok (encRecV d8 r)
                        | .error e => .exc e.name)
    (hf : f.length + 6 ≤ fuel) :
    let o := exec fuel (envR cfg.noise s.rxNonce cfg.handshakeOK hs er pr) tblRecord "got_frame" [.bytes f] h
    match recordGotFrame cfg s f with
    | .ok (s', up) => o.heap.get "$state" = some (.str s'.rcd.name) ∧ o.ret = encUp d8 up ∧ o.exc = none ∧
        sentFrames o.calls = (if s'.handshakeSent && !s.handshakeSent then [.bytes hs] else []) ∧
        (∀ r, up = .record r → o.calls = openCalls f ∧ s'.rxNonce = s.rxNonce + (openCalls f).length)
    | .error (e, s') => o.heap.get "$state" = some (.str s'.rcd.name) ∧ o.exc = some e.name := by
  obtain ⟨rcd, dcp, n, hsent, k, q, tm, cand⟩ := s
  simp only at hst hh
  obtain ⟨K, rfl⟩ : ∃ K, fuel = K + 1 := ⟨fuel - 1, by omega⟩
  cases rcd with
  | no_role_set => cases hsent <;> rec_eval [recordGotFrame, hst, get_set]
  | want_prologue_leader => cases hsent <;> rec_eval [recordGotFrame, hst, get_set]
  | want_prologue_follower => cases hsent <;> rec_eval [recordGotFrame, hst, get_set]
  | want_handshake_leader =>
    obtain ⟨G, rfl⟩ : ∃ G, K = G + 3 := ⟨K - 3, by omega⟩
    cases hsent <;> cases hk : cfg.handshakeOK f <;>
      rec_eval [recordGotFrame, m_Record_process_handshake, hst, hn, hfr, get_set, hk]
  | want_handshake_follower =>
    obtain ⟨G, rfl⟩ : ∃ G, K = G + 3 := ⟨K - 3, by omega⟩
    have := hh rfl
    subst this
    cases hk : cfg.handshakeOK f <;>
      rec_eval [recordGotFrame, m_Record_process_handshake, m_Record_ignore_and_send_handshake, m_Record__send_handshake,
        hst, hn, hfr, get_set, hk]
  | want_message =>
    have hD := record_decrypt_message K cfg.noise n cfg.handshakeOK hs er pr
      (h.set "$state" (.str "want_message")) f tblRecord rfl (by simp [get_set, hn]) (by omega)
    simp only at hD
    have hT : tblRecord "got_frame" =
        some (["$a0"], dispatch true [.var "$a0"] (recordRows .got_frame)) := by
      simp [tblRecord, tbl_Record, isFirst_record_got_frame]
    simp only [exec, callM, hT]
    dil_eval_nc [dispatch, recordRows, Record.table, Record.State.all, Record.State.name, Record.Output.name, rowBody,
      outsCalls, hst, Record.State.name]
    rw [callM_of_exec]
    generalize exec K _ tblRecord "decrypt_message" [Val.bytes f] _ = o at hD ⊢
    obtain ⟨hD1, hD2⟩ := hD
    obtain ⟨oh, oc, oe, orr⟩ := o
    simp only at hD1 hD2
    subst hD1
    cases hom : openMessage cfg.noise n f with
    | none =>
      rw [hom] at hD2
      simp only at hD2
      subst hD2
      simp [recordGotFrame, Record.table, hom, Err.name, get_set, Store.get, Record.State.name]
    | some p =>
      obtain ⟨pt, n'⟩ := p
      rw [hom] at hD2
      simp only at hD2
      obtain ⟨hc, hn', hp⟩ := hD2
      rw [hpr pt] at hp
      cases hpp : parseRecord cfg.validUtf8 pt with
      | error e =>
        rw [hpp] at hp
        simp only at hp
        subst hp
        simp [recordGotFrame, Record.table, hom, hpp, Err.name, get_set, Store.get, Record.State.name]
      | ok r =>
        rw [hpp] at hp
        simp only at hp
        obtain ⟨rfl, rfl⟩ := hp
        subst hc
        simp [recordGotFrame, Record.table, hom, hpp, Err.name, get_set, Store.get, Record.State.name, encUp,
          sentFrames_openCalls, hn']

/-! ## `DilatedConnectionProtocol` -/

/-- `got_record(record)` through the GENERATED DCP table = the record branch of `l2Token`: queued while `selecting`,
    handed to `manager.got_record` once `selected`, `NoTransition` (nothing changed) while `unselected` -/
theorem dcp_got_record (fuel : Nat) (d8 : Bytes → String) (h : Store) (dcp : DCP.State) (queued : List Rec) (r : Rec)
    (R : RelDCP d8 h dcp queued) :
    let o := exec (fuel + 2) (envDCP noRz) tblDCP "got_record" [encRecV d8 r] h
    match DCP.table dcp .got_record with
    | some (d', [.queue_inbound_record]) => RelDCP d8 o.heap d' (queued ++ [r]) ∧ o.calls = [] ∧ o.exc = none
    | some (d', [.deliver_record]) => RelDCP d8 o.heap d' queued ∧ o.calls = [mgrCall d8 r] ∧ o.exc = none
    | _ => o.heap = h ∧ o.calls = [] ∧ o.exc = some "NoTransition" := by
  obtain ⟨hst, hq, hc, hm⟩ := R
  cases dcp with
  | selected =>
    have := hm rfl
    dcp_eval [m_DCP_deliver_record, hst, hq, hc, this, mgrCall]
  | selecting => dcp_eval [m_DCP_queue_inbound_record, hst, hq, hc]
  | unselected => dcp_eval [hst, hq, hc]

/-- `got_kcm()` through the generated table = the KCM branch of `l2Token`: `connector.add_candidate(self)` exactly when
    `unselected`, else `NoTransition` -/
theorem dcp_got_kcm (fuel : Nat) (d8 : Bytes → String) (h : Store) (dcp : DCP.State) (queued : List Rec)
    (R : RelDCP d8 h dcp queued) :
    let o := exec (fuel + 2) (envDCP noRz) tblDCP "got_kcm" [] h
    match DCP.table dcp .got_kcm with
    | some (d', outs) => RelDCP d8 o.heap d' queued ∧ o.exc = none ∧
        o.calls = (if outs.contains .add_candidate then [⟨"_connector", "add_candidate", [.obj "self" []]⟩] else [])
    | none => o.heap = h ∧ o.calls = [] ∧ o.exc = some "NoTransition" := by
  obtain ⟨hst, hq, hc, hm⟩ := R
  cases dcp with
  | selected => dcp_eval [hst, hq, hc]
  | selecting => dcp_eval [hst, hq, hc]
  | unselected => dcp_eval [m_DCP_add_candidate, hst, hq, hc]

/-- `process_inbound_queue(manager)` — the queue flush of `select` (`upSelect`): every parked record is handed to
    `manager.got_record` once, oldest first, for every queue length; the queue ends empty -/
theorem dcp_process_inbound_queue (fuel : Nat) (d8 : Bytes → String) (h : Store) (queued : List Rec) (m : Val)
    (hq : h.get "_inbound_record_queue" = some (.list (queued.map (encRecV d8))))
    (hm : h.get "_manager" = some (.ref "manager" 0)) (hf : queued.length + 2 ≤ fuel) :
    let o := exec fuel (envDCP noRz) tbl_DCP "process_inbound_queue" [m] h
    o.heap.get "_inbound_record_queue" = some (.list []) ∧ o.calls = queued.map (mgrCall d8) ∧ o.exc = none := by
  obtain ⟨G, rfl⟩ : ∃ G, fuel = G + 1 := ⟨fuel - 1, by omega⟩
  l2_eval [tbl_DCP, m_DCP_process_inbound_queue]
  generalize hw : whileLoop _ _ _ _ = w
  refine whileLoop_flush' d8 hw (fun h' q => h'.get "_inbound_record_queue" = some (.list (q.map (encRecV d8))) ∧
      h'.get "_manager" = some (.ref "manager" 0)) queued ?hcond ?hbody ?hI ?hF ?cont
  case hcond =>
    intro h' L cs q ⟨h1, h2⟩
    cases q <;> l2_eval [h1]
  case hbody =>
    intro h' L cs r q ⟨h1, h2⟩
    l2_eval [h1, h2, envDCP, noRz, mgrCall]
  case hI => exact ⟨hq, hm⟩
  case hF => omega
  case cont =>
    intro h' L' ⟨h1, h2⟩ hw'
    subst hw'
    l2_eval [h1]

/-- `send_record(record)`: refused (`AssertionError`, nothing handed to `_Record`) until `can_send_records` ran -/
theorem dcp_send_record (fuel : Nat) (h : Store) (v : Val) (ok : Bool)
    (hc : h.get "_can_send_records" = some (.bool ok)) (hr : h.get "_record" = some (.ref "record" 0)) :
    let o := exec (fuel + 1) (envDCP noRz) tbl_DCP "send_record" [v] h
    o.heap = h ∧
      if ok then o.calls = [⟨"_record", "send_record", [v]⟩] ∧ o.exc = none
      else o.calls = [] ∧ o.exc = some "AssertionError" := by
  cases ok <;> l2_eval [tbl_DCP, m_DCP_send_record, envDCP, noRz, hc, hr]

theorem dcp_can_send_records (fuel : Nat) (h : Store) (m : Val) :
    let o := exec (fuel + 1) (envDCP noRz) tbl_DCP "can_send_records" [m] h
    o.heap = h.set "_can_send_records" (.bool true) ∧ o.calls = [] ∧ o.exc = none := by
  l2_eval [tbl_DCP, m_DCP_can_send_records]

/-- `send_status_have_peer(manager)`: `manager.have_peer(self)` on the manager `set_manager` stored; `AssertionError` if none -/
theorem dcp_send_status_have_peer (fuel : Nat) (h : Store) (m : Val) (hm : h.get "_manager" = some (.ref "manager" 0)) :
    let o := exec (fuel + 1) (envDCP noRz) tbl_DCP "send_status_have_peer" [m] h
    o.heap = h ∧ o.calls = [⟨"_manager", "have_peer", [.obj "self" []]⟩] ∧ o.exc = none := by
  l2_eval [tbl_DCP, m_DCP_send_status_have_peer, envDCP, noRz, hm]

theorem dcp_send_status_have_peer_without_manager (fuel : Nat) (h : Store) (m : Val) (hm : h.get "_manager" = some .none) :
    let o := exec (fuel + 1) (envDCP noRz) tbl_DCP "send_status_have_peer" [m] h
    o.heap = h ∧ o.calls = [] ∧ o.exc = some "AssertionError" := by
  l2_eval [tbl_DCP, m_DCP_send_status_have_peer, envDCP, noRz, hm]

/-- `disconnect()` / `pauseProducing()` / `resumeProducing()`: forwarded to the transport and nothing else (`l2Pause`,
    `l2Resume` are the identity on the model state) -/
theorem dcp_transport_forwarders (fuel : Nat) (h : Store) (ht : h.get "transport" = some (.ref "transport" 0)) :
    (let o := exec (fuel + 1) (envDCP noRz) tbl_DCP "disconnect" [] h
     o.heap = h ∧ o.calls = [⟨"transport", "loseConnection", []⟩] ∧ o.exc = none) ∧
    (let o := exec (fuel + 1) (envDCP noRz) tbl_DCP "pauseProducing" [] h
     o.heap = h ∧ o.calls = [⟨"transport", "pauseProducing", []⟩] ∧ o.exc = none) ∧
    (let o := exec (fuel + 1) (envDCP noRz) tbl_DCP "resumeProducing" [] h
     o.heap = h ∧ o.calls = [⟨"transport", "resumeProducing", []⟩] ∧ o.exc = none) := by
  refine ⟨?_, ?_, ?_⟩ <;>
    l2_eval [tbl_DCP, m_DCP_disconnect, m_DCP_pauseProducing, m_DCP_resumeProducing, envDCP, noRz, ht]

/-- `use_relay(relay_handshake)` -/
theorem dcp_use_relay (fuel : Nat) (h : Store) (rh : Bytes) :
    let o := exec (fuel + 1) (envDCP noRz) tbl_DCP "use_relay" [.bytes rh] h
    o.heap = (h.set "_use_relay" (.bool true)).set "_relay_handshake" (.bytes rh) ∧ o.calls = [] ∧ o.exc = none := by
  l2_eval [tbl_DCP, m_DCP_use_relay]

/-! ## pins -/

/-- every method of the L2 layer the translator was asked for is in the subset, except these (a rewrite that leaves the
    subset breaks this theorem): the two consumers of a collaborator's generator (`for token in self._X.gen(data)`),
    `connectionLost(why=None)` (default parameter), `set_manager` (lambda), `to_be4` (chained comparison, `2**32`) -/
theorem all_translated : WV.Gen.PyIRL2.untranslatable.map (·.1) =
    ["_Record.add_and_unframe", "DilatedConnectionProtocol.connectionLost", "DilatedConnectionProtocol.dataReceived",
     "DilatedConnectionProtocol.set_manager", "fn_encode.to_be4"] := by decide

theorem translated_pin : WV.Gen.PyIRL2.translated =
    ["_Framer._get_expected", "_Framer.add_and_parse", "_Framer.can_send_frames", "_Framer.parse_frame",
     "_Framer.parse_prologue", "_Framer.parse_relay_ok", "_Framer.send_frame", "_Framer.send_prologue",
     "_Framer.send_relay_handshake", "_Framer.store_relay_handshake", "_Record._send_handshake",
     "_Record.connectionMade", "_Record.decrypt_message", "_Record.ignore_and_send_handshake",
     "_Record.process_handshake", "_Record.send_handshake", "_Record.send_record",
     "DilatedConnectionProtocol.add_candidate", "DilatedConnectionProtocol.can_send_records",
     "DilatedConnectionProtocol.deliver_record", "DilatedConnectionProtocol.disconnect",
     "DilatedConnectionProtocol.pauseProducing", "DilatedConnectionProtocol.process_inbound_queue",
     "DilatedConnectionProtocol.queue_inbound_record", "DilatedConnectionProtocol.resumeProducing",
     "DilatedConnectionProtocol.send_record", "DilatedConnectionProtocol.send_status_have_peer",
     "DilatedConnectionProtocol.use_relay", "fn_connection.encode_record", "fn_connection.parse_record",
     "fn_encode.from_be4"] := by decide

/-- which inputs are wired with `collector=first` (what `inputBody` returns the first output's value for) -/
theorem first_collectors_pin : WV.Gen.PyIRL2.firstCollectors =
    [("Framer", ["parse"], ["connectionMade", "got_prologue", "got_relay_ok", "use_relay"]),
     ("Record", ["got_frame"], ["got_prologue", "set_role_follower", "set_role_leader"]),
     ("DCP", [], ["got_kcm", "got_record", "select"])] := by decide

/-- the field positions `fieldAt` and the record constructors rely on -/
theorem record_fields_pin : WV.Gen.PyIRL2.recordFields =
    [("Ack", ["resp_seqnum"]), ("Close", ["seqnum", "scid"]), ("Data", ["seqnum", "scid", "data"]), ("Frame", ["frame"]),
     ("Handshake", []), ("KCM", []), ("Open", ["seqnum", "scid", "subprotocol"]), ("Ping", ["ping_id"]),
     ("Pong", ["ping_id"]), ("Prologue", []), ("RelayOK", [])] := by decide

/-! ## non-vacuity: concrete heaps and decided runs of the generated bodies -/

def demoFrHeap : Store :=
  [("$state", .str "want_relay"), ("_buffer", .bytes [111]), ("_inbound_prologue", .bytes [80, 10, 10]),
   ("_outbound_prologue", .bytes [81, 10, 10]), ("_expected_relay_handshake", .bytes [111, 107, 10]),
   ("_transport", .ref "transport" 0), ("_can_send_frames", .bool false)]

def demoCfg : FramerCfg := { relayExpected := [111, 107, 10], inboundPrologue := [80, 10, 10] }

example : RelFr demoCfg [81, 10, 10] demoFrHeap ⟨.want_relay, [111]⟩ :=
  ⟨rfl, rfl, rfl, rfl, fun _ => rfl, rfl, rfl⟩

def getBytes : Option Val → Option Bytes
  | some (.bytes b) => some b
  | _ => none
def getStr : Option Val → Option String
  | some (.str b) => some b
  | _ => none
def getBool : Option Val → Option Bool
  | some (.bool b) => some b
  | _ => none

/-- one chunk completes the relay reply, carries the whole prologue, one whole frame `b"hs"` and half of the next: the
    prologue goes out after the relay's ok, the tokens are Prologue and Frame(b"hs"), 5 bytes stay buffered -/
def demoRun : Outcome :=
  exec 30 (envF noRz) tblFramer "add_and_parse" [.bytes [107, 10, 80, 10, 10, 0, 0, 0, 2, 104, 115, 0, 0, 0, 9, 1]] demoFrHeap

example : yields demoRun.calls = [.prologue, .frame [104, 115]] ∧
    getBytes (demoRun.heap.get "_buffer") = some [0, 0, 0, 9, 1] ∧
    getStr (demoRun.heap.get "$state") = some "want_frame" ∧
    getBool (demoRun.heap.get "_can_send_frames") = some true ∧
    (nonYields demoRun.calls).map (·.meth) = ["write"] ∧ demoRun.exc = none := by decide +kernel

/-- a wrong prologue: `Disconnect`, nothing yielded -/
def demoBad : Outcome := exec 30 (envF noRz) tblFramer "add_and_parse" [.bytes [107, 10, 88, 10, 10]] demoFrHeap
example : yields demoBad.calls = [] ∧ demoBad.exc = some "Disconnect" := by decide +kernel

/-- `send_record` of a 3-byte message under the toy Noise: one `encrypt`, one frame -/
def demoSend : Outcome :=
  exec 10 (envR toyNoise 5 (fun _ => true) [] (fun _ => .ok (.bytes [4, 0, 0])) (fun _ => .exc "ValueError"))
    tbl_Record "send_record" [.none] [("_noise", .ref "noise" 0), ("_framer", .ref "framer" 0)]
example : demoSend.calls.map (·.meth) = ["encrypt", "send_frame"] ∧ demoSend.exc = none := by decide +kernel

/-- `select`'s flush with two parked records -/
def demoFlush : Outcome :=
  exec 10 (envDCP noRz) tbl_DCP "process_inbound_queue" [.none]
    [("_inbound_record_queue", .list [encRecV (fun _ => "") (.ack 1), encRecV (fun _ => "") (.ack 2)]),
     ("_manager", .ref "manager" 0)]
example : demoFlush.calls.map (·.meth) = ["got_record", "got_record"] ∧ demoFlush.exc = none ∧
    demoFlush.calls.length = 2 := by decide +kernel

end WV.Props.PyIRL2C12
