import WV.Model.C13

/-!
C13 — what `WV.C13.step` assumes about the L2/L4 glue around a (re)connection, checked against the
working tree on every run (flags extracted by `tools/extract.py`, `ast`):

* `selectRun` drains the records parked between the Leader's KCM and `select()` oldest first —
  `DilatedConnectionProtocol.process_inbound_queue` is `while q: r = q.pop(0); manager.got_record(r)`;
* `step s .lost` leaves `highestAcked` alone — in `Inbound` only `__attrs_post_init__` and
  `update_ack_watermark` assign `_highest_inbound_acked` (`stop_using_connection` does not).

`parked_open_data_close`, `resent_burst_ignored`, `resent_record_ignored` in `WV.Props.C13` are about
the model with exactly these two properties.
-/
namespace WV.Props.C13
open WV.Gen

theorem parked_fifo_and_watermark_kept :
    Flags.parked_queue_is_fifo = true ∧ Flags.stop_using_connection_keeps_watermark = true :=
  ⟨rfl, rfl⟩

end WV.Props.C13
