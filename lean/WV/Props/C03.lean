import WV.Proofs.C03
import WV.Proofs.C03_Sys
import WV.Gen.Skel
import WV.Gen.ApiSkel

/-!
C03 — mailbox messages arrive in order, exactly once, unmodified: property theorems.

Every theorem quantifies over *all* traces (input sequences of any length, any interleaving) of the
machine steps that `WV.C03.driver` executes (`bossIn`, `sendIn`, `mboxIn`, `wReceived`, `Obs.op`,
`Pipe.step`); the trace runners (`bossRun`, `sendRun`, `mboxRun`, `mboxRunCur`, `rxRun`, `obsRun`)
only fold those steps and are defined in `WV/Proofs/C03.lean`.  The Automat tables inside the steps
are the generated ones, so a changed row re-opens the proofs.

The composition is proved too (`e2e_prefix_clients`, at the end): two composed `Client`s — the very
functions `cBoss`, `cSend`, `cMbox`, `cMboxRx`, `cRecvRes` the driver executes — and a server that
stores, duplicates, reorders and replays, under every schedule.  That the *real* client is this
`Client` is what the differential runs and the whole-client oracle check.
-/
namespace WV.Props.C03
open WV WV.C03 WV.Gen WV.Proofs.C03

/-- **tx_numbering (Boss).**  However `send_message` calls interleave with code / key /
    verification / incoming phases (any trace without a closing input, including inputs that raise
    `NoTransition`), the calls `S.send(phase, plaintext)` are exactly the plaintexts in call order,
    numbered "0", "1", "2", … -/
theorem tx_numbering (tr : List BIn) (h : ∀ x ∈ tr, closingIn x = false) :
    sSends (bossRun bossInit [] tr).2 = numberFrom 0 (sendPts tr) := by
  have := (bossRun_numbering tr bossInit [] rfl h).1
  simpa [bossInit] using this

example : sSends (bossRun bossInit [] [.send [1], .gotCode, .gotPhase 0 [9], .gotKey, .send [2], .happy, .send []]).2
    = [("0", [1]), ("1", [2]), ("2", [])] := by decide

/-- **tx_numbering (Send).**  Over any trace of `send(phase, plaintext)` / `got_verified_key`:
    before the verified key nothing is submitted and the queue holds all sends in order; from then
    on the queue is empty and the `M.add_message` calls are exactly the sealed sends, in order, each
    once, under their own phase. -/
theorem send_fifo (C : Crypto) (side : String) (tr : List SIn) :
    ((sendRun C side sendInit [] tr).1.st = .S0_no_key →
        (sendRun C side sendInit [] tr).2 = [] ∧ (sendRun C side sendInit [] tr).1.queue = sendIns tr) ∧
    ((sendRun C side sendInit [] tr).1.st = .S1_verified_key →
        (sendRun C side sendInit [] tr).1.queue = [] ∧
        (sendRun C side sendInit [] tr).2 = sealAll C side (sendIns tr)) := by
  have h := sendRun_inv C side tr sendInit [] []
    ⟨fun _ => ⟨rfl, rfl⟩, fun h => by simp [sendInit, Send.init] at h⟩
  simp only [List.nil_append] at h
  exact ⟨h.unverified, fun hs => ⟨(h.verified hs).2.1, (h.verified hs).2.2⟩⟩

/-- a (useless but lawful) instance: the hypotheses of `Crypto.Ideal` are satisfiable -/
def plainCrypto : Crypto := { enc := fun _ _ m => m, dec := fun _ _ c => some c }
example : plainCrypto.Ideal := ⟨fun _ _ _ => rfl, fun _ _ _ _ h => by simp [plainCrypto] at h; exact h⟩

example : (sendRun plainCrypto "aa" sendInit [] [.send "0" [1], .verified, .send "1" [2]]).2
    = [("0", [1]), ("1", [2])] := by decide

/-- **unmodified.**  Whatever `Receive.got_message(side, phase, body)` hands on to
    `Boss.got_message(phase', plaintext)`: `phase' = phase` and `body` is the sealing of exactly
    that plaintext under exactly that `(side, phase)` — a body altered, re-labelled to another
    phase or side, or fabricated without the key never reaches the Boss. -/
theorem delivered_was_sealed (C : Crypto) (hC : C.Ideal) (r : RecvD) (s p : String) (body : Bytes)
    (ph : String) (pt : Bytes) (h : REff.bGotMessage ph pt ∈ (recvGotMessage C r s p body).2.1) :
    ph = p ∧ body = C.enc s p pt := by
  have hout : ∀ o a r', REff.bGotMessage ph pt ∈ (recvOut o a r').2.1 → a = .good ph pt := by
    intro o a r'; cases o <;> cases a <;> simp [recvOut]
    · split <;> simp
    · intro h1 h2; exact ⟨h1.symm, h2.symm⟩
  have houts : ∀ os a r' acc, REff.bGotMessage ph pt ∈ (recvOuts os a r' acc).2.1 →
      REff.bGotMessage ph pt ∈ acc ∨ a = .good ph pt := by
    intro os
    induction os with
    | nil => intro a r' acc h; exact Or.inl (by simpa [recvOuts] using h)
    | cons o os ih =>
      intro a r' acc h
      unfold recvOuts at h
      have ho := hout o a r'
      rcases hres : recvOut o a r' with ⟨r2, effs, err⟩
      rw [hres] at ho h
      cases err with
      | none =>
        rcases ih _ _ _ h with h1 | h1
        · rcases List.mem_append.mp h1 with h2 | h2
          · exact Or.inl h2
          · exact Or.inr (ho h2)
        · exact Or.inr h1
      | some e =>
        rcases List.mem_append.mp h with h2 | h2
        · exact Or.inl h2
        · exact Or.inr (ho h2)
  have hstep : ∀ i a, REff.bGotMessage ph pt ∈ (recvStep r i a).2.1 → a = .good ph pt := by
    intro i a h
    unfold recvStep at h
    cases ht : Receive.table r.st i with
    | none => rw [ht] at h; simp at h
    | some x =>
      rw [ht] at h
      rcases houts _ _ _ _ h with h1 | h1
      · simp at h1
      · exact h1
  unfold recvGotMessage at h
  by_cases hk : r.key = true
  · simp only [hk, Bool.not_true] at h
    cases hd : C.dec s p body with
    | none => rw [hd] at h; have := hstep _ _ h; cases this
    | some m =>
      rw [hd] at h
      have := hstep _ _ h
      injection this with e1 e2
      subst e1 e2
      exact ⟨rfl, hC.auth _ _ _ _ hd⟩
  · simp only [hk] at h
    have := hstep _ _ h
    cases this

/-- **pending_until_echo.**  A message handed to the Mailbox before any `close` stays in
    `_pending_outbound`, with its body, through any later inputs (losses, reconnects, peer messages,
    other adds, echoes of other phases, even `close`) that are not its own echo or a re-add. -/
theorem pending_until_echo (myside : String) (tr₁ tr₂ : List MIn) (p : String) (b : Bytes)
    (h₁ : ∀ x ∈ tr₁, ∀ md, x ≠ .close md)
    (h₂ : ∀ x ∈ tr₂, (∀ bb, x ≠ .rx myside p bb) ∧ (∀ bb, x ≠ .add p bb)) :
    dget (mboxRun myside mboxInit [] (tr₁ ++ .add p b :: tr₂)).1.pending p = some b := by
  rw [mboxRun_append]
  simp only [mboxRun]
  apply mboxRun_pending_keep _ _ _ _ _ _ _ h₂
  apply mboxIn_add_open
  exact mboxRun_open myside tr₁ mboxInit [] rfl h₁

/-- **pending_until_echo (re-submission).**  After any trace without `close`, if the Mailbox is
    connected with its mailbox open (S2B), every message still pending has been `tx_add`ed on the
    *current* connection (`mboxRunCur` forgets the submissions at every `lost`). -/
theorem resent_on_every_open (myside : String) (tr : List MIn) (h : ∀ x ∈ tr, ∀ md, x ≠ .close md) :
    (mboxRunCur myside mboxInit [] tr).1.st = .S2B →
      ∀ e ∈ (mboxRunCur myside mboxInit [] tr).1.pending, e ∈ (mboxRunCur myside mboxInit [] tr).2 :=
  (mboxRunCur_resend myside tr mboxInit [] h rfl
    ⟨fun h => by simp [mboxInit, Mailbox.init] at h, fun h => by simp [mboxInit, Mailbox.init] at h⟩).sent

example :
    let r := mboxRunCur "aa" mboxInit [] [.add "pake" [1], .connected, .gotMailbox, .add "0" [2], .lost,
      .add "1" [3], .connected, .rx "aa" "pake" [1]]
    r.1.st = .S2B ∧ r.1.pending = [("0", [2]), ("1", [3])] ∧ r.2 = [("pake", [1]), ("0", [2]), ("1", [3])] := by
  decide

/-- **dedup_once.**  Over any trace of Mailbox inputs (any number of `lost` / `connected`, replays,
    duplicates, echoes, closes), the phases handed to `Order.got_message` are pairwise distinct, and
    they are exactly `_processed` in insertion order (so the *first* arrival of every phase that is
    accepted at all is the one forwarded). -/
theorem dedup_once (myside : String) (tr : List MIn) :
    (orderPhases (mboxRun myside mboxInit [] tr).2).Nodup ∧
      orderPhases (mboxRun myside mboxInit [] tr).2 = (mboxRun myside mboxInit [] tr).1.processed := by
  have h := mboxRun_processed myside tr mboxInit [] (by simp [mboxInit]) (by simp [mboxInit])
  exact ⟨h.1 ▸ h.2, h.1⟩

example :
    orderPhases (mboxRun "aa" mboxInit [] [.connected, .gotMailbox, .rx "bb" "0" [1], .rx "bb" "0" [1], .lost,
      .connected, .rx "bb" "0" [1], .rx "bb" "1" [2], .rx "aa" "2" [3]]).2 = ["0", "1"] := by decide

/-- a message carrying our own side is an echo: it is never handed to Order -/
theorem echo_never_delivered (myside : String) (m : MboxD) (phase : String) (body : Bytes) :
    orderPhases (mboxRx myside m myside phase body).2.1 = [] := by
  have hout : ∀ o m', orderPhases (mboxOut o (.ours phase body) m').2.1 = [] := by
    intro o m'; cases o <;> simp [mboxOut]
  have houts : ∀ os m' acc, orderPhases acc = [] →
      orderPhases (mboxOuts os (.ours phase body) m' acc).2.1 = [] := by
    intro os
    induction os with
    | nil => intro m' acc h; simpa [mboxOuts] using h
    | cons o os ih =>
      intro m' acc h
      unfold mboxOuts
      have ho := hout o m'
      rcases hres : mboxOut o (.ours phase body) m' with ⟨m2, effs, err⟩
      rw [hres] at ho
      cases err with
      | none => exact ih _ _ (by simp [h, ho])
      | some e => simp [h, ho]
  simp only [mboxRx, if_true, mboxStep]
  cases Mailbox.table m.st .rx_message_ours with
  | none => rfl
  | some r => exact houts _ _ _ rfl

/-- **reorder_buffer_prefix.**  For every arrival list `xs` of `_got_phase(phase, plaintext)` calls
    that is functional in the phase (`plaintext = P phase`; duplicates, gaps, any order), the calls
    `W.received(…)` made by `W_received` are exactly `P 0, P 1, …, P (k-1)` in this order, where `k`
    is the least phase absent from `xs` — no gap, no duplicate, no reordering. -/
theorem reorder_buffer_prefix (P : Nat → Bytes) (xs : List (Nat × Bytes)) (hx : ∀ x ∈ xs, x.2 = P x.1) :
    (rxRun rxInit [] xs).2 = (List.range (rxRun rxInit [] xs).1.next).map P ∧
    (∀ q, q < (rxRun rxInit [] xs).1.next → q ∈ xs.map (·.1)) ∧
    (rxRun rxInit [] xs).1.next ∉ xs.map (·.1) := by
  have h := rxRun_inv P xs hx [] rxInit []
    ⟨fun q hq => by simp [rxInit] at hq, fun q _ => by simp [rxInit, dget], by simp [rxInit]⟩
    (by simp [rxInit, dget])
  obtain ⟨⟨hb, ha, hd⟩, hn⟩ := h
  refine ⟨hd, ?_, ?_⟩
  · intro q hq
    have := hb q hq
    simp only [List.append_nil, List.map_reverse, List.mem_reverse] at this
    exact this
  · intro hmem
    have := ha _ (Nat.le_refl _)
    rw [hn] at this
    simp only [List.append_nil, List.map_reverse, List.mem_reverse] at this
    simp [hmem] at this

/-- the loop's fuel (`len(dict)`) is always enough: after `W_received` the next phase is not buffered -/
theorem rxLoop_fuel (b : RxBuf) (phase : Nat) (pt : Bytes) :
    dget (wReceived b phase pt).1.phases (wReceived b phase pt).1.next = none := by
  unfold wReceived
  generalize (dset b.phases phase pt) = d
  simp only []
  suffices ∀ fuel (b : RxBuf) acc, b.phases.length ≤ fuel →
      dget (rxLoop fuel b acc).1.phases (rxLoop fuel b acc).1.next = none from this _ _ _ (Nat.le_refl _)
  intro fuel
  induction fuel with
  | zero => intro b acc hf; simp only [rxLoop]; exact dget_nil_of_length_zero _ _ (by omega)
  | succ n ih =>
    intro b acc hf
    unfold rxLoop
    cases hg : dget b.phases b.next with
    | none => exact hg
    | some v =>
      simp only []
      apply ih
      have := dpop_length_lt b.phases b.next v hg
      simp; omega

example : (rxRun rxInit [] [(2, [12]), (0, [10]), (0, [10]), (3, [13]), (1, [11]), (5, [15]), (1, [11])]).2
    = [[10], [11], [12], [13]] := by decide

/-- **observer_fifo.**  For every interleaving of `get_message()` calls, `received` events and
    eventual-queue turns (before any error): the Deferreds are fired in the order they were handed
    out, with the received plaintexts in the order they were received — the i-th Deferred gets the
    i-th plaintext, each exactly once; what is not yet claimed waits in `_results`, and a waiting
    Deferred never coexists with an unclaimed result. -/
theorem observer_fifo (tr : List ObsOp) :
    let o := obsRun obsInit tr
    (o.fired ++ o.queue).map (·.1) ++ o.observers = List.range (getsOf tr) ∧
    (o.fired ++ o.queue).map (·.2) ++ o.results.map CbVal.ok = (firesOf tr).map CbVal.ok ∧
    (o.results = [] ∨ o.observers = []) := by
  have h := obsRun_inv tr obsInit [] ⟨rfl, by simp [obsInit], by simp [obsInit], Or.inl rfl⟩
  simp only [List.nil_append] at h
  obtain ⟨⟨_, h2, h3, h4⟩, hn⟩ := h
  simp only [obsInit, Nat.zero_add] at hn
  exact ⟨hn ▸ h2, h3, h4⟩

example : (obsRun obsInit [.get, .fire [1], .fire [2], .turn, .fire [3], .get, .get, .get, .turn]).fired
    = [(0, .ok [1]), (1, .ok [2]), (2, .ok [3])] := by decide

/-- **e2e_prefix.**  For ALL schedules of the pipeline (sends interleaved with deliveries of any
    stored message, in any order, any number of times — duplication, reordering, full replay), what
    the receiving application got is a prefix of what the sending application passed to
    `send_message`. -/
theorem e2e_prefix (acts : List Act) : (pipeInit.run acts).received <+: (pipeInit.run acts).sent := by
  have h := pipeRun_inv acts pipeInit pipeInit_inv
  rw [h.loop.recv]
  exact List.take_prefix _ _

/-- … and once every phase sent so far has been delivered at least once, it is all of it. -/
theorem e2e_complete (acts : List Act)
    (hall : ∀ i, i < (pipeInit.run acts).sent.length → i ∈ (pipeInit.run acts).processed) :
    (pipeInit.run acts).received = (pipeInit.run acts).sent := by
  have h := pipeRun_inv acts pipeInit pipeInit_inv
  have hle := h.loop.le
  have heq : (pipeInit.run acts).rx.next = (pipeInit.run acts).sent.length := by
    by_cases hlt : (pipeInit.run acts).rx.next < (pipeInit.run acts).sent.length
    · rcases h.loop.seen _ (hall _ hlt) with h1 | h1
      · omega
      · exact absurd h.clean h1
    · omega
  rw [h.loop.recv, heq, List.take_length]

example : (pipeInit.run [.send [1], .send [2], .deliver 1, .deliver 1, .send [3], .deliver 0, .deliver 0,
    .deliver 2, .deliver 1]).received = [[1], [2], [3]] := by decide


/-! ## non-vacuity of the hypotheses used above -/

example : ∀ x ∈ [BIn.send [1], .gotCode, .gotPhase 0 [9], .gotKey, .send [2], .happy, .gotMessage "1" [3], .send []],
    closingIn x = false := by decide

example : ∀ x ∈ [MIn.connected, .gotMailbox, .lost], ∀ md, x ≠ .close md := by
  intro x hx md
  simp only [List.mem_cons, List.mem_nil_iff, or_false] at hx
  rcases hx with h | h | h <;> (subst h; simp)

example : ∀ x ∈ [MIn.lost, .connected, .rx "bb" "0" [7], .rx "aa" "1" [], .add "1" [5], .close "happy"],
    (∀ bb, x ≠ .rx "aa" "0" bb) ∧ (∀ bb, x ≠ .add "0" bb) := by
  intro x hx
  simp only [List.mem_cons, List.mem_nil_iff, or_false] at hx
  rcases hx with h | h | h | h | h | h <;> (subst h; simp)

example : ∀ x ∈ [(2, [12]), (0, [10]), (0, [10]), (1, [11])], x.2 = (fun q => [10 + q]) x.1 := by decide

example : let p := pipeInit.run [.send [1], .send [2], .deliver 1, .deliver 0, .deliver 1]
    ∀ i, i < p.sent.length → i ∈ p.processed := by decide

/-! ## the call skeletons of the Python bodies the model mirrors (regenerated from the working tree)

A changed loop/guard shape or call order in one of these methods (e.g. `while` → `if` in
`W_received`, a dropped `if` in `N_release_and_accept`) changes `Gen.Skel.skeleton` and this theorem
stops checking. -/

def modelSkeleton : List (String × List (String × String)) :=
  [ ("Boss.S_send", [("-", "_S.send")]),
    ("Boss.W_received", [("while", "_W.received")]),
    ("Boss.D_received_dilate", [("while", "_D.received_dilate")]),
    ("Boss.W_closed", [("-", "_W.closed")]),
    ("Boss.W_close_with_error", [("-", "_W.closed")]),
    ("Boss.W_got_key", [("-", "_W.got_key")]),
    ("Boss.W_got_verifier", [("-", "_W.got_verifier")]),
    ("Boss.D_got_key", [("-", "_D.got_key")]),
    ("Boss.do_got_code", [("-", "_W.got_code")]),
    ("Boss.process_version", [("-", "_D.got_wormhole_versions"), ("-", "_W.got_versions")]),
    ("Boss.close_unwelcome", [("-", "_T.close")]),
    ("Boss.close_error", [("-", "ServerError"), ("-", "_T.close")]),
    ("Boss.close_scared", [("-", "WrongPasswordError"), ("-", "_T.close")]),
    ("Boss.close_lonely", [("-", "LonelyError"), ("-", "_T.close")]),
    ("Boss.close_happy", [("-", "_T.close")]),
    ("Boss.send_status_peer_key", [("-", "AllegedSharedKey"), ("-", "self._evolve_wormhole_status")]),
    ("Boss.send_status_confirmed_key", [("-", "ConfirmedKey"), ("-", "self._evolve_wormhole_status")]),
    ("Boss.send_status_closed", [("-", "Closed"), ("-", "self._evolve_wormhole_status")]),
    ("Boss.got_message", [("if", "self._got_version"), ("else/if", "d_mo.group"), ("else/if", "self._got_dilate"),
                          ("else/else/if", "self._got_phase"), ("else/else/else", "_UnknownPhaseError")]),
    ("Send.queue", []),
    ("Send.drain", [("for", "self._encrypt_and_send")]),
    ("Send.deliver", [("-", "self._encrypt_and_send")]),
    ("Send._encrypt_and_send", [("-", "derive_phase_key"), ("-", "encrypt_data"), ("-", "_M.add_message")]),
    ("Mailbox.rx_message", [("if", "self.rx_message_ours"), ("else", "self.rx_message_theirs")]),
    ("Mailbox.queue", []),
    ("Mailbox.dequeue", []),
    ("Mailbox.drain", [("-", "self._drain")]),
    ("Mailbox._drain", [("for", "_RC.tx_add")]),
    ("Mailbox.RC_tx_add", [("-", "_RC.tx_add")]),
    ("Mailbox.RC_tx_open", [("-", "_RC.tx_open")]),
    ("Mailbox.record_mailbox_and_RC_tx_open_and_drain", [("-", "_RC.tx_open"), ("-", "self._drain")]),
    ("Mailbox.N_release_and_accept", [("-", "_N.release"), ("if", "_O.got_message")]),
    ("Order.got_message", [("if", "self.got_pake"), ("else", "self.got_non_pake")]),
    ("Order.queue", []),
    ("Order.notify_key", [("-", "_K.got_pake")]),
    ("Order.drain", [("for", "self._deliver")]),
    ("Order.deliver", [("-", "self._deliver")]),
    ("Order._deliver", [("-", "_R.got_message")]),
    ("Receive.got_message", [("if", "self.got_message_bad"), ("-", "derive_phase_key"), ("try", "decrypt_data"),
                             ("except", "self.got_message_bad"),
                             ("-", "self.got_message_good")]),
    ("Receive.W_got_message", [("-", "_B.got_message")]),
    ("Receive.S_got_verified_key", [("-", "_S.got_verified_key")]) ]

theorem skeleton_agrees : ∀ e ∈ modelSkeleton, Skel.skeleton e.1 = e.2 := by decide +kernel


/-! ## composition: two clients and the server -/

/-- **phase_roundtrip.**  The phase name `"%d" % i` written by `S_send` is read back by
    `Boss.got_message` (`^\d+$`, `int()`) as the numeric phase `i` — never as `version`, `dilate-N`
    or an unknown phase. -/
theorem phase_roundtrip (n : Nat) : classifyPhase (showPhase n) = .numeric n := classify_showPhase n

/-- **observer_fifo with errors.**  Also when the wormhole closes in between (`fire(Failure)` at any
    points of the trace): the plaintexts handed to `get_message()` callbacks so far, followed by the
    unclaimed ones, are exactly the received plaintexts in order — so what the application got from
    its Deferreds is always a prefix of what was received, each once, never reordered. -/
theorem observer_prefix_with_errors (tr : List ObsOpE) :
    okVals ((obsRunE obsInit tr).fired ++ (obsRunE obsInit tr).queue) ++ (obsRunE obsInit tr).results
      = firesOfE tr ∧
    okVals (obsRunE obsInit tr).fired <+: firesOfE tr := by
  have h := obsRunE_vals tr obsInit
  simp only [obsInit, List.append_nil, okVals_nil, List.nil_append] at h
  refine ⟨h, ?_⟩
  rw [← h, okVals_append, List.append_assoc]
  exact List.prefix_append _ _

example : okVals (obsRunE obsInit [.op .get, .op (.fire [1]), .op (.fire [2]), .op .turn, .error, .op .get,
    .op (.fire [3]), .op .turn]).fired = [[1]] := by decide

/-- **e2e_prefix_clients** (`client_refines_pipe`).  Two composed clients A and B (sides `sa ≠ sb`)
    and a server bag, under the ideal-crypto hypothesis, for ALL schedules `acts` of

    * any operation on either client: `send_message`, any Boss input without plaintext (close, error,
      got_code, got_key, happy, scared, rx_error, …), `Receive.got_key`, `Send.got_verified_key`, any
      Mailbox input (connected / lost at any moment, got_mailbox, close, rx_closed), Key's
      `add_message` of non-numeric phases (pake, version), `get_message()`, eventual turns;
    * `store`: the server stores any frame a client ever wrote, any number of times, in any order;
    * `deliver`: the server hands any stored message to any client, any time, any number of times
      (duplication, reordering, full replay after a re-open, echoes);

    in the reached state, what B's application has received (`W.received` calls, and the values of
    its `get_message()` callbacks) is a prefix of what A's application passed to `send_message` — it
    is exactly the first `_next_rx_phase` of them: no duplicate, no gap, no reordering, no altered
    body — and symmetrically for A. -/
theorem e2e_prefix_clients (C : Crypto) (hC : C.Ideal) (sa sb : String) (hne : sa ≠ sb) (acts : List SAct) :
    let s := Sys.run C (sysInit sa sb) acts
    (receivedOf s.b.log = s.sentA.take s.b.boss.rx.next ∧ receivedOf s.a.log = s.sentB.take s.a.boss.rx.next) ∧
    (receivedOf s.b.log <+: s.sentA ∧ receivedOf s.a.log <+: s.sentB) ∧
    (okVals s.b.obs.fired <+: s.sentA ∧ okVals s.a.obs.fired <+: s.sentB) := by
  intro s
  have h := sysRun_inv C hC sa sb acts (sysInit sa sb) (sysInit_inv C sa sb hne)
  have hb := h.b.loop.recv
  have ha := h.a.loop.recv
  have pb : receivedOf s.b.log <+: s.sentA := hb ▸ List.take_prefix _ _
  have pa : receivedOf s.a.log <+: s.sentB := ha ▸ List.take_prefix _ _
  have ob : okVals s.b.obs.fired <+: receivedOf s.b.log := by
    rw [← h.b.rest.obs, okVals_append, List.append_assoc]; exact List.prefix_append _ _
  have oa : okVals s.a.obs.fired <+: receivedOf s.a.log := by
    rw [← h.a.rest.obs, okVals_append, List.append_assoc]; exact List.prefix_append _ _
  exact ⟨⟨hb, ha⟩, ⟨pb, pa⟩, ⟨ob.trans pb, oa.trans pa⟩⟩

/-- … and everything the server ever stores under a numeric phase `i` of side A is the sealing of
    the i-th plaintext A's application sent (nothing else is ever submitted under that phase). -/
theorem stored_is_sealed (C : Crypto) (hC : C.Ideal) (sa sb : String) (hne : sa ≠ sb) (acts : List SAct) :
    let s := Sys.run C (sysInit sa sb) acts
    ∀ p b i, (sa, p, b) ∈ s.bag → classifyPhase p = .numeric i → ∃ pt, s.sentA[i]? = some pt ∧ b = C.enc sa p pt := by
  intro s p b i hm hc
  have h := sysRun_inv C hC sa sb acts (sysInit sa sb) (sysInit_inv C sa sb hne)
  rcases h.bag _ hm with ⟨_, htx⟩ | ⟨hs, _⟩
  · rcases htx with htx | ⟨j, pt, e1, e2, e3⟩
    · exact absurd hc (htx i)
    · simp only at e1 e2 e3
      rw [e1, classify_showPhase] at hc
      injection hc with hc
      subst hc
      exact ⟨pt, e2, e3⟩
  · exact absurd hs hne

/-- a concrete schedule for the system: sends before verification, replays, a duplicate, a reconnect of
    each side, out-of-order arrival (2, 0, 0, 3, 2, 1) — B receives everything, once, in order -/
def demoSetup (w : Bool) : List SAct :=
  [.op w (.mbox .connected .none), .op w (.mbox .got_mailbox .mailbox), .op w (.boss .got_code .one), .op w .key,
   .op w (.addRaw "pake" [1]), .op w (.addRaw "version" [2])]

def demoActs : List SAct := demoSetup false ++ demoSetup true ++
  [.op false (.send [7]), .store true 2, .store true 3, .deliver false 0, .deliver false 1,
   .store false 2, .store false 3, .deliver true 2, .deliver true 3,
   .op false (.send [8]), .op false (.send [9]), .op false (.mbox .lost .none), .op false (.send [10]),
   .op false (.mbox .connected .none),
   .store false 12, .store false 7, .store false 19, .store false 17,
   .deliver true 4, .deliver true 5, .op true .getMessage, .deliver true 5, .op true (.mbox .lost .none),
   .op true (.mbox .connected .none), .deliver true 6, .deliver true 4, .deliver true 7, .op true .getMessage,
   .op true .turn]

example : receivedOf (Sys.run plainCrypto (sysInit "aa" "bb") demoActs).b.log = [[7], [8], [9], [10]] ∧
    okVals (Sys.run plainCrypto (sysInit "aa" "bb") demoActs).b.obs.fired = [[7], [8]] ∧
    (Sys.run plainCrypto (sysInit "aa" "bb") demoActs).sentA = [[7], [8], [9], [10]] := by decide


/-- **buffers_independent.**  The reorder buffer of the numbered application phases and the one of the
    `dilate-N` messages never influence each other: inserting a `dilate-N` input (given directly or as
    `got_message("dilate-N", …)`, any seqnum, any body) anywhere into any Boss trace changes neither the
    `W.received` calls (what the application gets), nor the `S.send` calls, nor `_rx_phases` /
    `_next_rx_phase`; and inserting a numbered application phase anywhere changes neither the
    `D.received_dilate` calls nor `_rx_dilate_seqnums` / `_next_rx_dilate_seqnum`. -/
theorem buffers_independent (t1 t2 : List BIn) (x : BIn) :
    (isDilateIn x = true →
      wRecvs (bossRun bossInit [] (t1 ++ x :: t2)).2 = wRecvs (bossRun bossInit [] (t1 ++ t2)).2 ∧
      sSends (bossRun bossInit [] (t1 ++ x :: t2)).2 = sSends (bossRun bossInit [] (t1 ++ t2)).2 ∧
      (bossRun bossInit [] (t1 ++ x :: t2)).1.rx = (bossRun bossInit [] (t1 ++ t2)).1.rx) ∧
    (isPhaseIn x = true →
      dRecvs (bossRun bossInit [] (t1 ++ x :: t2)).2 = dRecvs (bossRun bossInit [] (t1 ++ t2)).2 ∧
      (bossRun bossInit [] (t1 ++ x :: t2)).1.drx = (bossRun bossInit [] (t1 ++ t2)).1.drx) := by
  constructor
  · intro hx
    rw [bossRun_append, bossRun_append]
    simp only [bossRun]
    have hs := bossIn_dilate_app (bossRun bossInit [] t1).1 x hx
    have := bossRun_app_congr t2 _ (bossRun bossInit [] t1).1
      ((bossRun bossInit [] t1).2 ++ (bossIn (bossRun bossInit [] t1).1 x).2.1)
      (bossRun bossInit [] t1).2 hs.1 ⟨by simp [hs.2.1], by simp [hs.2.2]⟩
    exact ⟨this.2.1, this.2.2, this.1.2.2⟩
  · intro hx
    rw [bossRun_append, bossRun_append]
    simp only [bossRun]
    have hs := bossIn_phase_dil (bossRun bossInit [] t1).1 x hx
    have := bossRun_dil_congr t2 _ (bossRun bossInit [] t1).1
      ((bossRun bossInit [] t1).2 ++ (bossIn (bossRun bossInit [] t1).1 x).2.1)
      (bossRun bossInit [] t1).2 hs.1 (by simp [hs.2])
    exact ⟨this.2, this.1.2.2⟩

/-- the order of the seeded scenario: dilate-1, 0, 1, 2, dilate-0 — the application gets 0, 1, 2 and the
    Dilator gets dilate-0, dilate-1 -/
example :
    let r := bossRun bossInit [] [.gotCode, .happy, .gotMessage "dilate-1" [91], .gotMessage "0" [10],
      .gotMessage "1" [11], .gotMessage "2" [12], .gotMessage "dilate-0" [90]]
    wRecvs r.2 = [[10], [11], [12]] ∧ dRecvs r.2 = [[90], [91]] ∧ isDilateIn (.gotMessage "dilate-1" [91]) = true ∧
      isPhaseIn (.gotMessage "1" [11]) = true := by decide


/-- every Boss output is in `modelSkeleton` (so `skeleton_agrees` pins all 18 bodies) … -/
theorem all_boss_outputs_pinned :
    ∀ o ∈ [Boss.Output.D_got_key, .D_received_dilate, .S_send, .W_close_with_error, .W_closed, .W_got_key,
           .W_got_verifier, .W_received, .close_error, .close_happy, .close_lonely, .close_scared, .close_unwelcome,
           .do_got_code, .process_version, .send_status_closed, .send_status_confirmed_key, .send_status_peer_key],
      ("Boss." ++ Boss.Output.name o) ∈ modelSkeleton.map (·.1) := by decide

/-- … and `W_received` is the only one of them (and the only method of the data path) that calls
    `Wormhole.received`: in particular `W_closed` / `W_close_with_error` only call `Wormhole.closed`. -/
theorem only_W_received_delivers :
    ∀ e ∈ modelSkeleton, e.1 ≠ "Boss.W_received" → ∀ c ∈ e.2, c.2 ≠ "_W.received" := by decide

/-- **closing_delivers_nothing.**  From ANY Boss state, a closing input — `close()`, `closed` (the
    Terminator finished: `W_closed`), `error` (`W_close_with_error`), `scared`, a server `error`, an
    unwelcome — makes no `W.received` call, no `S.send` call, and leaves `_rx_phases` /
    `_next_rx_phase` / `_next_tx_phase` untouched (whatever is parked in the reorder buffer stays
    parked); and once the Boss is closing or closed, NO input ever delivers anything again. -/
theorem closing_delivers_nothing (b : BossD) (x : BIn) :
    (closingIn x = true →
      wRecvs (bossIn b x).2.1 = [] ∧ sSends (bossIn b x).2.1 = [] ∧ (bossIn b x).1.rx = b.rx ∧
        (bossIn b x).1.nextTx = b.nextTx) ∧
    (bossLive b.st = false →
      wRecvs (bossIn b x).2.1 = [] ∧ sSends (bossIn b x).2.1 = [] ∧ bossLive (bossIn b x).1.st = false ∧
        (bossIn b x).1.rx = b.rx) :=
  ⟨bossIn_closing_silent b x, bossIn_closed_silent b x⟩

/-- phase 1 parked, then close() and closed: nothing is delivered, phase 1 is still parked -/
example :
    let r := bossRun bossInit [] [.gotCode, .happy, .gotPhase 1 [11], .close, .closed, .gotPhase 0 [10]]
    wRecvs r.2 = [] ∧ r.1.rx.phases = [(1, [11])] ∧ r.1.rx.next = 0 := by decide


/-! ## the API façade

`wSendMessage` / `wClose` (what the driver's `send` / `close` execute) hand the call to the Boss at
once, so a `send_message` issued anywhere — also from inside a delegate callback, where Automat runs
the nested `Boss.send` depth-first — is simply a `send` input at that position of the Boss's input
trace, and `tx_numbering` numbers the sends in exactly that (issue) order.  The obligation below ties
this shape to the code: re-routing `send_message` / `close` (e.g. through the eventual queue), calling
the delegate through an intermediary, or changing what `received` / `get_message` do changes
`Gen.ApiSkel.skeleton` (WV/Gen/ApiSkel.lean, regenerated on every run) and the theorem stops checking. -/

theorem api_calls_boss_at_once (C : Crypto) (c : Client) (pt : Bytes) :
    wSendMessage C c pt = cBoss C c .send (.pt pt) ∧ wClose C c = cBoss C c .close .none := ⟨rfl, rfl⟩

def apiSkeleton : List (String × List (String × String)) :=
  [ ("_DelegatedWormhole.send_message", [("-", "_boss.send")]),
    ("_DelegatedWormhole.close", [("-", "_boss.close")]),
    ("_DelegatedWormhole.got_welcome", [("-", "_delegate.wormhole_got_welcome")]),
    ("_DelegatedWormhole.got_code", [("-", "_delegate.wormhole_got_code")]),
    ("_DelegatedWormhole.got_key", [("-", "_delegate.wormhole_got_unverified_key")]),
    ("_DelegatedWormhole.got_verifier", [("-", "_delegate.wormhole_got_verifier")]),
    ("_DelegatedWormhole.got_versions", [("-", "_delegate.wormhole_got_versions")]),
    ("_DelegatedWormhole.received", [("-", "_delegate.wormhole_got_message")]),
    ("_DelegatedWormhole.closed", [("-", "_delegate.wormhole_closed")]),
    ("_DeferredWormhole.send_message", [("-", "_boss.send")]),
    ("_DeferredWormhole.close", [("-", "_closed_observer.when_fired"), ("if", "_boss.close")]),
    ("_DeferredWormhole.received", [("-", "_received_observer.fire")]),
    ("_DeferredWormhole.get_message", [("-", "_received_observer.when_next_event")]),
    ("SequenceObserver.when_next_event", [("-", "Deferred"), ("if", "_eq.eventually"), ("else/if", "_eq.eventually")]),
    ("SequenceObserver.fire", [("if/for", "_eq.eventually"), ("else/if", "_eq.eventually")]) ]

theorem api_skeleton_agrees : ∀ e ∈ apiSkeleton, ApiSkel.skeleton e.1 = e.2 := by decide

/-! ## several wormholes in one process

The quantifier of the property ranges over pairs of wormholes; nothing in it says that a process holds only one of
them.  In the model every wormhole is a `Client` value of its own, so what one of them does cannot reach another one.
On the code side this rests on `WV.Props.Common.instances_do_not_share_state` (no container created once per class /
attrs default and mutated through `self`) and on the differential runs of the process lines `proc` / `at` against
several real wormholes created in one process. -/

/-- **process_isolation.**  The driver's `at <i> <line>` — any operation of the line protocol on wormhole `i` of a
    process — leaves every other wormhole of the process exactly as it was (state, buffers, queues, log), and the
    process keeps its size; on wormhole `i` it is precisely the single-client `step`. -/
theorem process_isolation (many : List Client) (i : Nat) (line : String) :
    (∀ j, j ≠ i → (procAt many i line).1[j]? = many[j]?) ∧
    (procAt many i line).1.length = many.length ∧
    (∀ c, many[i]? = some c → (procAt many i line).1[i]? = some (step c line).1 ∧ (procAt many i line).2 = (step c line).2) := by
  refine ⟨?_, ?_, ?_⟩
  · intro j hj
    unfold procAt
    cases h : many[i]? with
    | none => rfl
    | some c => simp only []; exact List.getElem?_set_ne (Ne.symm hj)
  · unfold procAt
    cases h : many[i]? with
    | none => rfl
    | some c => simp
  · intro c hc
    have hlt : i < many.length := by
      rcases Nat.lt_or_ge i many.length with h | h
      · exact h
      · rw [List.getElem?_eq_none h] at hc; cases hc
    unfold procAt
    rw [hc]
    exact ⟨by simp [List.getElem?_set_self hlt], rfl⟩

/-- the hypotheses are satisfiable: a process of two wormholes, an operation on wormhole 0 -/
example : (procAt [clientInit "aa", clientInit "bb"] 0 "boss got_code").1[1]? = [clientInit "aa", clientInit "bb"][1]? :=
  (process_isolation _ 0 _).1 1 (by decide)

/-- **e2e_prefix_process.**  A process with any number of wormhole pairs (pair `p` = clients with sides
    `(sides[p]).1 ≠ (sides[p]).2`, each pair with its own mailbox on the server), under the ideal-crypto hypothesis, for
    ALL process schedules `acts` — the actions of `e2e_prefix_clients` (application calls, connection losses, stores,
    deliveries in any order, duplicates, replays), each tagged with the pair it happens in, interleaved across the
    pairs in any way: in every pair, what B's application has received is exactly the first `_next_rx_phase`
    plaintexts A's application passed to `send_message` (a prefix: nothing of another pair, nothing of its own, no
    gap, no duplicate), and symmetrically; likewise for the values of the `get_message()` callbacks. -/
theorem e2e_prefix_process (C : Crypto) (hC : C.Ideal) (sides : List (String × String))
    (hne : ∀ e ∈ sides, e.1 ≠ e.2) (acts : List (Nat × SAct)) (p : Nat) (s : Sys)
    (hs : (procRun C (sides.map (fun e => sysInit e.1 e.2)) acts)[p]? = some s) :
    (receivedOf s.b.log = s.sentA.take s.b.boss.rx.next ∧ receivedOf s.a.log = s.sentB.take s.a.boss.rx.next) ∧
    (receivedOf s.b.log <+: s.sentA ∧ receivedOf s.a.log <+: s.sentB) ∧
    (okVals s.b.obs.fired <+: s.sentA ∧ okVals s.a.obs.fired <+: s.sentB) := by
  rw [procRun_proj, List.getElem?_map] at hs
  cases he : sides[p]? with
  | none => rw [he] at hs; cases hs
  | some e =>
    rw [he] at hs
    simp only [Option.map_some, Option.some.injEq] at hs
    subst hs
    exact e2e_prefix_clients C hC e.1 e.2 (hne e (List.mem_of_getElem? he)) (actsOf p acts)

/-- … and the process never gains or loses a pair -/
theorem process_keeps_its_pairs (C : Crypto) (ps : List Sys) (acts : List (Nat × SAct)) :
    (procRun C ps acts).length = ps.length := procRun_length C acts ps

/-- two pairs, actions interleaved: pair 1's B parks phase 1 of its A while pair 0 runs `demoActs` — pair 0's B still
    receives exactly what pair 0's A sent -/
example :
    let acts : List (Nat × SAct) := (demoSetup false ++ demoSetup true).map (fun a => (1, a)) ++
      [(1, .op false (.send [1])), (1, .op false (.send [2])), (1, .store false 2), (1, .store false 3),
       (1, .store true 2), (1, .store true 3), (1, .deliver true 0), (1, .deliver true 1), (1, .deliver false 2),
       (1, .deliver false 3), (1, .store false 8), (1, .deliver true 4)] ++ demoActs.map (fun a => (0, a)) ++
      [(1, .store false 7), (1, .deliver true 5)]
    let ps := procRun plainCrypto [sysInit "aa" "bb", sysInit "cc" "dd"] acts
    ps.map (fun s => receivedOf s.b.log) = [[[7], [8], [9], [10]], [[1], [2]]] := by decide +kernel

end WV.Props.C03
