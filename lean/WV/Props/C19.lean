import WV.Proofs.C19_Steps
import WV.Proofs.C19_Rl
import WV.Proofs.C19_Xfer

/-!
C19 — property theorems.  `Str = List Nat` is a Python `str` as its code points ('-' = 45,
' ' = 32, '\n' = 10).  `isD` is the digit predicate of `\d`; the theorems hold for every `isD`,
the driver (and `malformed_rejected_ascii`) use `isNd`, membership in the generated
`str.isdecimal()` range table.

What `malformed_rejected` guarantees, precisely: `Boss.set_code(c)` returns normally only if `c`
contains no U+0020 and the text before its first '-' is a non-empty run of characters matched by
`\d`.  With the regex of the working tree (`^\d+\Z`) nothing else is accepted; in particular no
trailing newline.  It does **not** say the nameplate is ASCII `[0-9]+`: `\d` also matches the other
Unicode decimal digits (e.g. "٣-x" is accepted), and a tab is not a space ("4-a\tb" is accepted).
For every ASCII character the guarantee is exact (`malformed_rejected_ascii`).
-/
namespace WV.Props.C19
open WV WV.C19 WV.Gen WV.Proofs.C19

/-! ## the word tables -/

/-- both generated 256-entry tables: distinct, non-empty words without '-' or ' '; and the word
    sets `get_completions` offers from are exactly the lists `choose_words` draws from -/
theorem word_tables_bijective :
    Words.oddCP.length = 256 ∧ Words.evenCP.length = 256 ∧ Words.oddCP.Nodup ∧ Words.evenCP.Nodup ∧
    (∀ w ∈ Words.oddCP ++ Words.evenCP, w ≠ [] ∧ 45 ∉ w ∧ 32 ∉ w) ∧
    (∀ w, w ∈ Words.oddSetCP ↔ w ∈ Words.oddCP) ∧ (∀ w, w ∈ Words.evenSetCP ↔ w ∈ Words.evenCP) :=
  ⟨odd_len, even_len, odd_nodup, even_nodup,
   fun w hw => (List.mem_append.mp hw).elim (odd_clean w) (even_clean w),
   fun w => ⟨oddSet_sub w, odd_sub_set w⟩, fun w => ⟨evenSet_sub w, even_sub_set w⟩⟩

/-- at every word position, byte ↦ word is a bijection between the 256 byte values and the list
    of that parity: total, injective, onto.  Uniform independent bytes therefore give uniform
    independent words. -/
theorem byte_word_bijection (i : Nat) :
    (∀ b, b < 256 → ∃ w, wordAt i b = some w) ∧
    (∀ b b' w, wordAt i b = some w → wordAt i b' = some w → b = b') ∧
    (∀ w, w ∈ (if i % 2 = 0 then Words.oddCP else Words.evenCP) → ∃ b, b < 256 ∧ wordAt i b = some w) := by
  refine ⟨fun b hb => wordAt_isSome i hb, fun b b' w h h' => wordAt_inj h h', fun w hw => ?_⟩
  have : ∃ b, wordAt i b = some w := by
    unfold wordAt
    split at hw <;> simp only [*, if_true, if_false] <;> exact List.mem_iff_getElem?.mp hw
  obtain ⟨b, hb⟩ := this
  exact ⟨b, wordAt_lt hb, hb⟩

/-! ## choose_words -/

/-- `choose_words(n)` under random bytes `rs` (`n = |rs|`): exactly one word per byte, word `k` is
    entry `rs[k]` of the odd list for even `k` and of the even list for odd `k` (odd list first),
    joined by '-'; splitting the result at '-' gives the words back; it contains no space. -/
theorem choose_words_shape (rs : List Nat) (h : ∀ b ∈ rs, b < 256) :
    ∃ ws, chooseListFrom 0 rs = some ws ∧ chooseWordsOf rs = some (joinHy ws) ∧ ws.length = rs.length ∧
      (∀ k (hk : k < rs.length), ws[k]? = (if k % 2 = 0 then Words.oddCP else Words.evenCP)[rs[k]]?) ∧
      (rs ≠ [] → splitHy (joinHy ws) = ws) ∧ 32 ∉ joinHy ws := by
  obtain ⟨ws, hws⟩ := chooseListFrom_isSome 0 rs h
  obtain ⟨hl, hk⟩ := chooseListFrom_spec 0 rs ws hws
  have hclean := chooseListFrom_clean 0 rs ws hws
  refine ⟨ws, hws, by simp [chooseWordsOf, hws], hl, ?_, ?_, ?_⟩
  · intro k hlt
    rw [← hk k hlt]
    simp only [Nat.zero_add, wordAt]
    split <;> rfl
  · intro hne
    exact splitHy_joinHy ws (by intro e; subst e; simp at hl; exact hne (List.eq_nil_of_length_eq_zero hl.symm))
      (fun w hw => (hclean w hw).2.1)
  · intro hm
    rcases mem_joinHy hm with h45 | ⟨w, hw, hx⟩
    · simp at h45
    · exact (hclean w hw).2.2 hx

/-- different byte strings (of any lengths) give different codes: `rs ↦ choose_words` is injective, so
    `n` uniform bytes give each of the `256^n` possible word sequences with equal probability -/
theorem choose_words_injective (rs rs' : List Nat) (c : Str)
    (h : chooseWordsOf rs = some c) (h' : chooseWordsOf rs' = some c) : rs = rs' := by
  unfold chooseWordsOf at h h'
  cases hws : chooseListFrom 0 rs with
  | none => simp [hws] at h
  | some ws =>
    cases hws' : chooseListFrom 0 rs' with
    | none => simp [hws'] at h'
    | some ws' =>
      simp [hws] at h
      simp [hws'] at h'
      have e : ws = ws' := joinHy_inj_clean
        (fun w hw => let t := chooseListFrom_clean 0 rs ws hws w hw; ⟨t.1, t.2.1⟩)
        (fun w hw => let t := chooseListFrom_clean 0 rs' ws' hws' w hw; ⟨t.1, t.2.1⟩) (h.trans h'.symm)
      subst e
      exact chooseListFrom_inj 0 rs rs' ws hws hws'

/-! ## allocation -/

/-- after **any** history, the server's `allocated(np)` either delivers nothing, or delivers exactly
    `np ++ "-" ++ choose_words(n)` where `n` is the length given to an earlier `allocate_code(n)`;
    the same string goes to Boss and Key, and `np` to Nameplate -/
theorem allocated_shape (isD : Nat → Bool) (evs : List Ev) (np : Str) (rand : List Nat) :
    let s := run isD init evs
    (step isD s (.rxAllocated np rand)).1.out = s.out ∨
    ∃ n words, Ev.allocate n ∈ evs ∧ chooseWords n rand = some words ∧
      (step isD s (.rxAllocated np rand)).1.out =
        s.out ++ [.nSetNameplate np, .bGotCode (np ++ 45 :: words), .kGotCode (np ++ 45 :: words)] := by
  intro s
  rcases rxAllocated_shape isD s np rand with h | ⟨n, words, hl, hw, ho⟩
  · exact Or.inl h
  · refine Or.inr ⟨n, words, ?_, hw, ho⟩
    rcases length_run isD n evs init hl with h0 | h0
    · simp [init] at h0
    · exact h0

/-! ## completions -/

/-- every completion offered for any typed text, for any expected number of words, extends it -/
theorem completion_extends (p : Str) (n : Nat) (c : Str) (h : c ∈ getCompletions p n) : p <+: c :=
  prefix_of_mem_getCompletions h

/-- exact description of what is offered for any typed text `p` (k = number of hyphens typed):
    the text up to and including the last hyphen, then a word that `choose_words` can put at
    position `k` (a byte's entry in the list of parity `k`) and that starts with the partial word,
    then a hyphen iff more words are expected.  Both directions: nothing else is offered, and
    nothing that fits is missing. -/
theorem completion_exact (p : Str) (n : Nat) (c : Str) :
    c ∈ getCompletions p n ↔
      ∃ b w, wordAt (p.count 45) b = some w ∧ lastPart p <+: w ∧ c = stemOf p ++ w ++ tailOf (p.count 45) n :=
  mem_getCompletions

/-- if the words typed so far are what `choose_words` makes from bytes `rs` and `q` is the partial
    next word, every completion offered is `choose_words` of `rs` plus one more byte (followed by a
    hyphen iff more words are expected): a code the peer's `allocate_code` could have produced -/
theorem completion_acceptable (rs : List Nat) (ws : List Str) (q : Str) (n : Nat) (c : Str)
    (hws : chooseListFrom 0 rs = some ws) (hq : 45 ∉ q) (h : c ∈ getCompletions (joinHy (ws ++ [q])) n) :
    ∃ b code, b < 256 ∧ chooseWordsOf (rs ++ [b]) = some code ∧ q <+: lastPart code ∧
      c = code ++ tailOf rs.length n := by
  have hclean := chooseListFrom_clean 0 rs ws hws
  have hlen := (chooseListFrom_spec 0 rs ws hws).1
  obtain ⟨hl, hc, hs⟩ := typed_shape (fun w hw => (hclean w hw).2.1) hq
  obtain ⟨b, w, hb, hpre, rfl⟩ := mem_getCompletions.mp h
  rw [hc, hlen] at hb
  rw [hl] at hpre
  have hsn := chooseListFrom_snoc 0 rs ws b w hws (by simpa using hb)
  have hw45 : 45 ∉ w := (wordAt_clean hb).2.1
  obtain ⟨hl', _, _⟩ := typed_shape (fun w hw => (hclean w hw).2.1) hw45
  refine ⟨b, joinHy (ws ++ [w]), wordAt_lt hb, by simp [chooseWordsOf, hsn], ?_, ?_⟩
  · rw [hl']; exact hpre
  · rw [hc, hlen, hs, joinHy_snoc]
    split <;> simp

/-- conversely nothing is withheld: whatever byte the peer's `choose_words` drew next, its word is
    offered as soon as what has been typed of it is a prefix of it -/
theorem completion_complete (rs : List Nat) (ws : List Str) (q : Str) (n b : Nat) (w : Str)
    (hws : chooseListFrom 0 rs = some ws) (hq : 45 ∉ q) (hb : wordAt rs.length b = some w) (hpre : q <+: w) :
    ∃ code, chooseWordsOf (rs ++ [b]) = some code ∧ code ++ tailOf rs.length n ∈ getCompletions (joinHy (ws ++ [q])) n := by
  have hclean := chooseListFrom_clean 0 rs ws hws
  have hlen := (chooseListFrom_spec 0 rs ws hws).1
  obtain ⟨hl, hc, hs⟩ := typed_shape (fun w hw => (hclean w hw).2.1) hq
  have hsn := chooseListFrom_snoc 0 rs ws b w hws (by simpa using hb)
  refine ⟨joinHy (ws ++ [w]), by simp [chooseWordsOf, hsn], ?_⟩
  rw [mem_getCompletions]
  refine ⟨b, w, by rw [hc, hlen]; exact hb, by rw [hl]; exact hpre, ?_⟩
  rw [hc, hlen, hs, joinHy_snoc]
  split <;> simp

/-! ## sessions: the same wordlist object / helper / readline front-end asked again and again

The user asks for completions, goes back, changes an EARLIER word (or the letters of the last one, or only the
case), and asks again.  Every answer of the session must be the answer to the text on the line at that moment.
In the model this is immediate — `getCompletions` is a function of its two arguments and neither `Input` nor
`CodeInputter` keeps anything between queries — and that is the point: the correspondence compares the real
objects' answer to EVERY query of a session with these pure answers, so a memo whose key forgets part of the
text (word position + partial word, `len(prefix)`, the last word only, the text without the nameplate) shows
up as a disagreement, and `stale_completion_does_not_extend` says why it is then also a violation. -/

/-- the answer to a query is the same whatever the same wordlist object was asked before it -/
theorem completions_depend_only_on_prefix (before before' : List (Nat × Str)) (n : Nat) (p : Str) :
    (gcSession (before ++ [(n, p)])).getLast? = some (getCompletions p n) ∧
    (gcSession (before ++ [(n, p)])).getLast? = (gcSession (before' ++ [(n, p)])).getLast? := by
  simp [gcSession]

/-- every answer of a session, not only the first one for a given position and partial word -/
theorem session_answers_pointwise (qs : List (Nat × Str)) (i : Nat) :
    (gcSession qs)[i]? = qs[i]?.map fun q => getCompletions q.2 q.1 := by
  simp [gcSession]

/-- an answer computed for one text is useless for another text at the same word position unless everything
    before the partial word is the same: if `p` and `p'` have the same number of hyphens but differ in an
    earlier word, NO completion of `p` extends `p'` -/
theorem stale_completion_does_not_extend (p p' : Str) (n : Nat) (c : Str)
    (h : c ∈ getCompletions p n) (hk : p.count 45 = p'.count 45) (hs : stemOf p ≠ stemOf p') : ¬ p' <+: c := by
  intro hp
  have h0 : stemOf p' <+: p' := ⟨lastPart p', stem_append_last p'⟩
  have h1 : stemOf p' <+: c := h0.trans hp
  exact hs (stem_eq_of_common_extension hk (stem_prefix_of_mem_getCompletions h) h1)

/-- so two texts at the same word position that are offered even one common completion have the same
    earlier words: the least a memo key must contain -/
theorem shared_completion_same_stem (p p' : Str) (n n' : Nat) (c : Str)
    (h : c ∈ getCompletions p n) (h' : c ∈ getCompletions p' n') (hk : p.count 45 = p'.count 45) :
    stemOf p = stemOf p' :=
  stem_eq_of_common_extension hk (stem_prefix_of_mem_getCompletions h) (stem_prefix_of_mem_getCompletions h')

/-- through the helper, in ANY state of Input (so after any history of earlier queries and other calls):
    `get_word_completions(p)` that returns normally returns nothing while the wordlist has not arrived, and
    exactly `get_completions(p)` afterwards -/
theorem helper_completions_depend_only_on_prefix (isD : Nat → Bool) (s s' : St) (p : Str) (l : List Str)
    (h : step isD s (.hWordCompl p) = (s', none)) (hl : s'.ret = some l) :
    (s.inp = .S2_typing_code_no_wordlist ∧ l = []) ∨
    (s.inp = .S3_typing_code_yes_wordlist ∧ l = getCompletions p 2) :=
  wordCompl_exact isD s s' p l h hl

/-- two histories that leave Input in the same phase get the same answer to the same text -/
theorem helper_completions_history_independent (isD : Nat → Bool) (evs evs' : List Ev) (p : Str) (s1 s2 : St)
    (l1 l2 : List Str)
    (h1 : step isD (run isD init evs) (.hWordCompl p) = (s1, none)) (hl1 : s1.ret = some l1)
    (h2 : step isD (run isD init evs') (.hWordCompl p) = (s2, none)) (hl2 : s2.ret = some l2)
    (hi : (run isD init evs).inp = (run isD init evs').inp) : l1 = l2 := by
  rcases wordCompl_exact isD _ s1 p l1 h1 hl1 with ⟨a, rfl⟩ | ⟨a, rfl⟩ <;>
    rcases wordCompl_exact isD _ s2 p l2 h2 hl2 with ⟨b, rfl⟩ | ⟨b, rfl⟩
  · rfl
  · rw [hi, b] at a; cases a
  · rw [hi, b] at a; cases a
  · rfl

/-- at the readline prompt, in ANY state of the front-end (after any edit history): a TAB on a line with a
    hyphen that is answered at all is answered with nothing (wordlist not there) or with exactly the sorted
    `nameplate-` + `get_completions(words)` of the line as it is now -/
theorem rl_completions_depend_only_on_line (isD : Nat → Bool) (r r' : Rl) (text np words : Str) (l : List Str)
    (hp : parseText text = some (np, words)) (h : rlTab isD r text = (r', .ok l)) :
    l = [] ∨ l = sortStrs ((getCompletions words 2).map fun c => np ++ 45 :: c) :=
  rlTab_exact isD r r' text np words l hp h

/-! ## malformed codes -/

/-- exactly which codes `set_code` lets through (for the regex now in the tree) -/
theorem wellformed_iff (isD : Nat → Bool) (c : Str) :
    validateCode isD c = .ok () ↔ 32 ∉ c ∧ firstPart c ≠ [] ∧ ∀ x ∈ firstPart c, isD x = true :=
  validateCode_ok_iff

/-- a code with a space, an empty nameplate, or a nameplate character that `\d` does not match makes
    `Boss.set_code` raise `KeyFormatError` **before anything happens**: no collaborator is called, no
    machine moves, the only-one-code latch is not consumed (the state is unchanged) — in every state -/
theorem malformed_rejected (isD : Nat → Bool) (s : St) (c : Str)
    (h : 32 ∈ c ∨ firstPart c = [] ∨ ∃ x ∈ firstPart c, isD x = false) :
    step isD s (.setCode c) = (cleared s, some .keyFormat) := by
  apply setCode_rejected
  intro hok
  obtain ⟨h1, h2, h3⟩ := validateCode_ok_iff.mp hok
  rcases h with h | h | ⟨x, hx, hd⟩
  · exact h1 h
  · exact h2 h
  · rw [h3 x hx] at hd; cases hd

/-- with the interpreter's `\d`: any ASCII character other than `0-9` in the nameplate (newline, tab,
    letters, …) is rejected -/
theorem malformed_rejected_ascii (s : St) (c : Str)
    (h : ∃ x ∈ firstPart c, x < 128 ∧ ¬ (48 ≤ x ∧ x ≤ 57)) :
    step isNd s (.setCode c) = (cleared s, some .keyFormat) := by
  obtain ⟨x, hx, hlt, hnd⟩ := h
  apply malformed_rejected
  refine Or.inr (Or.inr ⟨x, hx, ?_⟩)
  have := isNd_ascii x hlt
  cases hd : isNd x
  · rfl
  · exact absurd (this.mp hd) hnd

/-- the same check guards `Helper.choose_nameplate` -/
theorem malformed_nameplate_rejected (isD : Nat → Bool) (s : St) (np : Str)
    (h : np = [] ∨ ∃ x ∈ np, isD x = false) :
    step isD s (.hChooseNp np) = (cleared s, some .keyFormat) := by
  apply chooseNp_rejected
  intro hok
  obtain ⟨h2, h3⟩ := validateNameplate_ok_iff.mp hok
  rcases h with h | ⟨x, hx, hd⟩
  · exact h2 h
  · rw [h3 x hx] at hd; cases hd

/-! ## only one code -/

/-- in any history (any calls, any order, any server events) at most one of
    `allocate_code` / `set_code` / `input_code` is not refused -/
theorem only_one_code (isD : Nat → Bool) (evs : List Ev) : acceptedStarts isD init evs ≤ 1 :=
  acceptedStarts_le_one isD evs init

/-- once one was accepted every later one raises `OnlyOneCodeError` (or `KeyFormatError` for a
    malformed `set_code`) and changes nothing -/
theorem later_starts_refused (isD : Nat → Bool) (s : St) (e : Ev) (hs : isStart e = true) (h : s.latch = true) :
    step isD s e = (cleared s, some .onlyOneCode) ∨ step isD s e = (cleared s, some .keyFormat) :=
  start_when_latched isD s e hs h

/-- a failed `set_code` does not consume the latch: a well-formed one right after it is accepted and
    delivers its code -/
theorem failed_set_code_keeps_latch (isD : Nat → Bool) (s : St) (bad good : Str)
    (hb : validateCode isD bad ≠ .ok ()) (hg : validateCode isD good = .ok ())
    (hl : s.latch = false) (hc : s.code = .S0_idle) :
    let s1 := (step isD s (.setCode bad)).1
    s1 = cleared s ∧
    (step isD s1 (.setCode good)).2 = none ∧
    (step isD s1 (.setCode good)).1.out = s.out ++ [.nSetNameplate (firstPart good), .bGotCode good, .kGotCode good] := by
  intro s1
  have e : s1 = cleared s := by simp [s1, setCode_rejected isD s bad hb]
  rw [e, setCode_fresh isD (cleared s) good hg hl hc]
  simp

/-- whatever is called in whatever order, `Boss.got_code` happens at most once -/
theorem at_most_one_code (isD : Nat → Bool) (evs : List Ev) : nCodes (run isD init evs).out ≤ 1 := by
  have : CodeInv (run isD init evs) := run_inv isD evs init (Or.inl rfl)
  rcases this with h | ⟨h, _⟩ <;> omega

/-! ## the input helper, out of order (rows of the generated Input table) -/

theorem helper_words_before_nameplate (isD : Nat → Bool) (s : St) (h : s.inp = .S1_typing_nameplate) (x : Str) :
    step isD s (.hWordCompl x) = (cleared s, some .mustChooseNameplateFirst) ∧
    step isD s (.hChooseWords x) = (cleared s, some .mustChooseNameplateFirst) :=
  helper_before_nameplate isD s h x

theorem helper_nameplate_twice (isD : Nat → Bool) (s : St)
    (h : s.inp = .S2_typing_code_no_wordlist ∨ s.inp = .S3_typing_code_yes_wordlist ∨ s.inp = .S4_done) (x : Str) :
    step isD s .hRefresh = (cleared s, some .alreadyChoseNameplate) ∧
    step isD s (.hNpCompl x) = (cleared s, some .alreadyChoseNameplate) ∧
    (validateNameplate isD x = .ok () → step isD s (.hChooseNp x) = (cleared s, some .alreadyChoseNameplate)) :=
  helper_after_nameplate isD s h x

theorem helper_words_twice (isD : Nat → Bool) (s : St) (h : s.inp = .S4_done) (x : Str) :
    step isD s (.hWordCompl x) = (cleared s, some .alreadyChoseWords) ∧
    step isD s (.hChooseWords x) = (cleared s, some .alreadyChoseWords) :=
  helper_after_words isD s h x

/-- in order: `choose_nameplate(np)` is validated, recorded and handed to Nameplate; the completions
    offered then are `get_completions(prefix)` (covered by the completion theorems); `choose_words(w)`
    delivers exactly `np-w`, once -/
theorem input_code_shape (isD : Nat → Bool) (s : St) (np w : Str) (hv : validateNameplate isD np = .ok ())
    (h : s.inp = .S1_typing_nameplate) (hc : s.code = .S1_inputting_nameplate) :
    let s1 := (step isD s (.hChooseNp np)).1
    s1.out = s.out ++ [.nSetNameplate np] ∧
    (∀ p, (step isD (step isD s1 .gotWordlist).1 (.hWordCompl p)).1.ret = some (getCompletions p 2)) ∧
    (step isD s1 (.hChooseWords w)).2 = none ∧
    (step isD s1 (.hChooseWords w)).1.out = s.out ++ [.nSetNameplate np, .bGotCode (np ++ 45 :: w), .kGotCode (np ++ 45 :: w)] := by
  intro s1
  have e : s1 = _ := congrArg Prod.fst (chooseNp_shape isD s np hv h hc)
  refine ⟨by rw [e], ?_, ?_, ?_⟩
  · intro p
    rw [e]
    by_cases hw0 : s.waiters = 0 <;>
      simp [step, fireInput, Input.table, runOuts, inputOutGotWordlist, inputOut1, hw0, emit]
  · rw [e, chooseWords_shape isD _ np w (Or.inl rfl) rfl rfl]
  · rw [e, chooseWords_shape isD _ np w (Or.inl rfl) rfl rfl]
    simp

/-! ## the readline front-end (`_rlcompleter.CodeInputter`)

A session is any list of `RlEv`: TABs and Returns on arbitrary line contents, interleaved with
anything else that can happen to the objects underneath (server events, even direct helper calls).
`J` — "the nameplate the front-end committed is the one Input holds" — is an invariant of every
session from any state in which nothing is committed yet (`rlRun_J`), so the three theorems below
hold after arbitrary edit histories.
-/

/-- every match TAB offers, on any line, in any state, extends the line -/
theorem rl_completion_extends (isD : Nat → Bool) (r r' : Rl) (text : Str) (l : List Str)
    (h : rlTab isD r text = (r', .ok l)) : ∀ c ∈ l, text <+: c :=
  rlTab_extends isD r r' text l h

/-- once a TAB has committed nameplate `c` (at any point of any session `es`), it stays committed for the
    rest of the session (`es'`), and **any** line whose nameplate part differs from `c` — longer, shorter,
    different, or the hyphen deleted — is refused by TAB and by Return with `AlreadyInputNameplateError`
    (Return without a hyphen: `KeyFormatError`), and nothing at all happens underneath -/
theorem rollback_refused (isD : Nat → Bool) (r0 : Rl) (es es' : List RlEv) (c : Str)
    (hc : committedNp (rlRun isD r0 es) = some c) :
    let r := rlRun isD (rlRun isD r0 es) es'
    committedNp r = some c ∧
    (∀ t, (∀ w, parseText t ≠ some (c, w)) → rlTab isD r t = ({ r with used := true }, .error .alreadyInputNameplate)) ∧
    (∀ t np w, parseText t = some (np, w) → np ≠ c → rlFinish isD r t = (r, some .alreadyInputNameplate)) ∧
    (∀ t, parseText t = none → rlFinish isD r t = (r, some .keyFormat)) := by
  intro r
  have hs : committedNp r = some c := rlRun_sticky isD c es' _ hc
  exact ⟨hs, fun t h => rlTab_rollback isD r c t hs h,
    fun t np w hp hne => rlFinish_rollback isD r c t np w hs hp hne,
    fun t hp => rlFinish_nohyphen isD r t hp⟩

/-- after any session that started with nothing committed, a Return that is accepted delivers exactly the
    text on the line as the code — to Boss and to Key, once — preceded at most by handing the line's own
    nameplate to Nameplate (when no TAB had committed it) -/
theorem finished_code_is_typed_text (isD : Nat → Bool) (s0 : St) (u : Bool) (es : List RlEv) (text : Str) (r' : Rl)
    (h : rlFinish isD (rlRun isD ⟨s0, none, u⟩ es) text = (r', none)) :
    let r := rlRun isD ⟨s0, none, u⟩ es
    r'.s.out = r.s.out ++ [.bGotCode text, .kGotCode text] ∨
    ∃ np w, parseText text = some (np, w) ∧ r'.s.out = r.s.out ++ [.nSetNameplate np, .bGotCode text, .kGotCode text] := by
  intro r
  have hJ : J r := rlRun_J isD es _ (by intro np hnp; simp [committedNp] at hnp)
  exact rlFinish_delivers isD r r' text hJ h

/-! ## the convenience entry points `xfer_util.send` / `xfer_util.receive` -/

/-- a malformed `str` handed to `xfer_util.send/receive` — the empty string included — goes to `set_code` and
    is refused there with `KeyFormatError` before anything happens (in every state of the wormhole);
    a value that is neither `None` nor a `str` raises `TypeError`, equally before anything happens.
    The proof needs the guard read from the source to be `code is None`. -/
theorem xfer_malformed_rejected (isD : Nat → Bool) (s : St) :
    (∀ c, (32 ∈ c ∨ firstPart c = [] ∨ ∃ x ∈ firstPart c, isD x = false) →
        xferStartOn isD s (.str c) = (cleared s, some .keyFormat)) ∧
    xferStartOn isD s (.str []) = (cleared s, some .keyFormat) ∧
    xferStartOn isD s .other = (cleared s, some .typeError) := by
  refine ⟨fun c h => ?_, ?_, xferStartOn_other isD s⟩
  · rw [xferStartOn_str]; exact malformed_rejected isD s c h
  · rw [xferStartOn_str]; exact malformed_rejected isD s [] (Or.inr (Or.inl rfl))

/-- on the fresh, connected wormhole `xfer_util` creates, an allocation request goes out **iff** the caller passed
    `None`; a well-formed code is delivered as it is, with no allocation -/
theorem xfer_allocates_iff_none (isD : Nat → Bool) (code : CodeArg) :
    Cmd.rcTxAllocate ∈ (xferStart isD code).1.out ↔ code = .none := by
  cases code with
  | none => simp [xferStart_none_out]
  | other => simp [xferStart, xferStartOn_other, xferCreated_eq, init]
  | str c =>
    simp only [xferStart, xferStartOn_str, reduceCtorEq, iff_false]
    rcases validateCode_cases isD c with hv | hv
    · rw [setCode_fresh isD _ c hv (by simp [xferCreated_eq, init]) (by simp [xferCreated_eq, init, Code.init])]
      simp [xferCreated_eq, init]
    · rw [setCode_rejected isD _ c (by rw [hv]; exact fun h => nomatch h)]
      simp [xferCreated_eq, init]

/-- tie obligation: `Input._get_word_completions(prefix)` hands `prefix` itself to the wordlist (the model's
    `inputOut1 … ._get_word_completions` calls `getCompletions arg 2`); `get_completions` splices each word onto
    the string it is GIVEN, so `completion_extends` speaks about the typed text only because of this -/
theorem input_hands_prefix_unchanged : Flags.input_word_completions_get_prefix_unchanged = true := by decide

/-! ## non-vacuity: the hypotheses above are met by concrete, non-trivial runs of the model -/

/-- "7-yucatan-aardvark": allocate two words, connect, server allocates nameplate 7, urandom gives ff 00 -/
example : (run isNd init [.allocate 2, .connected, .rxAllocated [55] [255, 0]]).out =
    [.rcTxAllocate, .nSetNameplate [55],
     .bGotCode [55, 45, 121, 117, 99, 97, 116, 97, 110, 45, 97, 97, 114, 100, 118, 97, 114, 107],
     .kGotCode [55, 45, 121, 117, 99, 97, 116, 97, 110, 45, 97, 97, 114, 100, 118, 97, 114, 107]] := by decide +kernel

/-- "4\n-a" is refused, "4-a" accepted, a later allocate refused -/
example : (step isNd init (.setCode [52, 10, 45, 97])).2 = some .keyFormat ∧
    (step isNd init (.setCode [52, 45, 97])).2 = none ∧
    (step isNd (step isNd init (.setCode [52, 45, 97])).1 (.allocate 2)).2 = some .onlyOneCode := by decide +kernel

/-- the hypotheses of `input_code_shape` hold after `input_code()` -/
example : (run isNd init [.inputCode]).inp = .S1_typing_nameplate ∧
    (run isNd init [.inputCode]).code = .S1_inputting_nameplate ∧ validateNameplate isNd [52] = .ok () :=
  ⟨by decide +kernel, by decide +kernel, rfl⟩

/-- "armistice-bab" completes to "armistice-baboon" only -/
example : getCompletions [97,114,109,105,115,116,105,99,101,45,98,97,98] 2 =
    [[97,114,109,105,115,116,105,99,101,45,98,97,98,111,111,110]] := by decide +kernel

/-- the seeded session: "armistice-ba", then "article-ba" on the same object.  The second answer is the one for
    "article-ba"; the hypotheses of `stale_completion_does_not_extend` hold for the pair (same position, other
    first word) and "armistice-baboon" is a completion of the first -/
example : (gcSession [(2, [97,114,109,105,115,116,105,99,101,45,98,97]), (2, [97,114,116,105,99,108,101,45,98,97])])[1]? =
    some (getCompletions [97,114,116,105,99,108,101,45,98,97] 2) := by
  rw [session_answers_pointwise]; rfl

example : ([97,114,109,105,115,116,105,99,101,45,98,97] : Str).count 45 = ([97,114,116,105,99,108,101,45,98,97] : Str).count 45 ∧
    stemOf [97,114,109,105,115,116,105,99,101,45,98,97] ≠ stemOf [97,114,116,105,99,108,101,45,98,97] ∧
    [97,114,109,105,115,116,105,99,101,45,98,97,98,111,111,110] ∈ getCompletions [97,114,109,105,115,116,105,99,101,45,98,97] 2 := by
  decide +kernel

/-- the hypotheses of `completion_acceptable`: bytes [11] give "armistice", partial word "bab" -/
example : chooseListFrom 0 [11] = some [[97,114,109,105,115,116,105,99,101]] ∧ 45 ∉ [98, 97, 98] := by decide +kernel

/-- `failed_set_code_keeps_latch` applies to the initial state with "4 -a" / "4-a" -/
example : validateCode isNd [52, 32, 45, 97] ≠ .ok () ∧ validateCode isNd [52, 45, 97] = .ok () ∧
    init.latch = false ∧ init.code = .S0_idle := by
  refine ⟨?_, rfl, rfl, rfl⟩
  intro h
  have e : validateCode isNd [52, 32, 45, 97] = .error .keyFormat := rfl
  rw [e] at h
  cases h

/-- the seeded history "12-" TAB, then "123-ar": `rollback_refused` applies (12 is committed after the first
    TAB) and the second TAB is refused; a straight session delivers the typed text -/
example : committedNp (rlRun isNd rlInit [.env .inputCode, .env (.gotNameplates [[49, 50], [49, 50, 51]]), .tab [49, 50, 45]])
    = some [49, 50] := by decide +kernel

example : (match (rlTab isNd (rlRun isNd rlInit [.env .inputCode, .tab [49, 50, 45]]) [49, 50, 51, 45, 97, 114]).2 with
    | .error .alreadyInputNameplate => true | _ => false) = true := by decide +kernel

/-- "7-a" Return straight away is accepted (hypothesis of `finished_code_is_typed_text`) -/
example : (rlFinish isNd (rlRun isNd ⟨init, none, false⟩ [.env .inputCode]) [55, 45, 97]).2 = none := by decide +kernel

/-- `xfer_util.send(code="")`: refused, nothing emitted; `code=None`: an allocation request -/
example : (xferStart isNd (.str [])).2 = some .keyFormat ∧ (xferStart isNd (.str [])).1.out = [] ∧
    (xferStart isNd .none).2 = none ∧ (xferStart isNd .none).1.out = [.rcTxAllocate] := by decide +kernel

end WV.Props.C19
