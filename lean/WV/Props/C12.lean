import WV.Model.C12
import WV.Proofs.C12_Codec
import WV.Proofs.C12_Framer
import WV.Proofs.C12_Pump
import WV.Proofs.C12_Noise
import WV.Proofs.C12_L2
import WV.Proofs.C12_Inv
import WV.Proofs.C12_E2E
import WV.Proofs.C12_Select
import WV.Gen.Skel
import WV.Gen.Flags

/-!
C12 property theorems — Dilation L2 framing / encryption / encoding is lossless and rejects
unkeyed input.  Statements and their assembly only; helper lemmas live in `WV/Proofs/C12_*`.

All theorems are about the definitions the driver executes (`WV.C12.*`, on the *generated*
`Framer`/`Record`/`DCP` tables and constants), for every message length, record list, chunking
and history; Noise is an arbitrary `Noise` with the hypothesis `Noise.Ideal` (the toy instance
used by the driver and the harness satisfies it: `toyNoise_ideal`).
-/
namespace WV.Props.C12
open WV WV.C12 WV.Gen WV.Proofs.C12

/-! ## encodings -/

/-- `from_be4 (to_be4 n) = n` for every 32-bit `n` -/
theorem be4_roundtrip (n : Nat) (h : n < 4294967296) :
    (toBe4 n).bind fromBe4 = some n := by
  simp [toBe4, h, fromBe4]; omega

/-- `to_be4` raises exactly outside `0 ≤ n < 2**32` -/
theorem be4_range (n : Nat) : (toBe4 n).isSome = true ↔ n < 4294967296 := by
  unfold toBe4; split <;> simp [*]

/-- `parse_record (encode_record r) = r` for all seven record types, all 32-bit ids/seqnums,
    4-byte ping ids, any payload, any (valid UTF-8) subprotocol name -/
theorem record_roundtrip (validUtf8 : Bytes → Bool) (r : Rec) (hwf : r.wf validUtf8) :
    ∃ b, encodeRecord r = some b ∧ parseRecord validUtf8 b = .ok r :=
  parse_encode validUtf8 r hwf

example : (Rec.opn 4294967295 0 [195, 169]).wf (fun _ => true) := by simp [Rec.wf]
example : (Rec.ping [1, 2, 3, 4]).wf (fun _ => true) := by simp [Rec.wf]

/-! ## Noise packets -/

/-- `decrypt_message (send_record's frame body for m) = m` for EVERY message length (one Noise
    packet or many), and both sides advance their nonce identically -/
theorem multi_packet_roundtrip (N : Noise) (hN : N.Ideal) (n : Nat) (m : Bytes) :
    openMessage N n (sealMessage N n m).1 = some (m, (sealMessage N n m).2) :=
  open_seal N hN n m

/-- the arithmetic behind it, for any payload size `P`: re-splitting the concatenated ciphertext
    at `P + 16` gives back the per-chunk ciphertexts -/
theorem resplit_roundtrip (N : Noise) (hN : N.Ideal) (P : Nat) (hP : 0 < P) (m : Bytes) (n : Nat) :
    decChunks N n (chunksOf (P + 16) (encChunks N n (chunksOf P m.length m)).1.length
        (encChunks N n (chunksOf P m.length m)).1)
      = some (m, (encChunks N n (chunksOf P m.length m)).2) :=
  decChunks_resplit N hN P hP m.length m n (Nat.le_refl _) _ (Nat.le_refl _)

/-- the two Noise constants the code uses fit together -/
theorem noise_constants : Consts.NOISE_MAX_CIPHERTEXT = Consts.NOISE_MAX_PAYLOAD + 16 := by decide

/-- one honest `send_record`: whatever follows it in the buffer, the framer cuts out exactly its
    frame, which opens under the receiver's nonce and parses back to the record sent -/
theorem send_record_roundtrip (cfg : L2Cfg) (hN : cfg.noise.Ideal) (n n1 : Nat) (r : Rec) (b rest : Bytes)
    (hwf : r.wf cfg.validUtf8) (h : sendRecord cfg.noise n r = some (b, n1)) :
    ∃ body pt, parseFrame (b ++ rest) = some (body, rest) ∧
      openMessage cfg.noise n body = some (pt, n1) ∧ parseRecord cfg.validUtf8 pt = .ok r := by
  obtain ⟨msg, he, hf, hn⟩ := sendRecord_some h
  obtain ⟨msg', he', hp⟩ := parse_encode cfg.validUtf8 r hwf
  rw [he] at he'; cases he'
  exact ⟨_, msg, parseFrame_frame hf, by rw [open_seal cfg.noise hN, hn], hp⟩

/-- the toy AEAD of the driver/harness satisfies the ideal-Noise hypotheses (non-vacuity) -/
theorem toy_noise_ideal : toyNoise.Ideal := toyNoise_ideal

/-! ## the framer loop -/

/-- fuel sufficiency: `buf.length + 3` turns (what `add_and_parse` is modelled with) are enough;
    any larger fuel gives the same result, i.e. the loop always ends by `break` or an exception -/
theorem parseLoop_fuel (cfg : FramerCfg) (s : FramerSt) (acc : List Token) (f : Nat)
    (hf : s.buf.length + 3 ≤ f) :
    parseLoop cfg f s acc = parseLoop cfg (s.buf.length + 3) s acc := by
  unfold parseLoop
  rw [pump_eq_run cfg collect f s acc (by have := mu_le s; omega),
      pump_eq_run cfg collect _ s acc (mu_le s)]

/-- the same for the loop with any consumer (in particular `dataReceived`'s) -/
theorem pump_fuel {U : Type} (cfg : FramerCfg) (h : U → Token → Except (Err × U) U) (fr : FramerSt) (u : U) (f : Nat)
    (hf : fr.buf.length + 3 ≤ f) :
    pump cfg h f fr u = pump cfg h (fr.buf.length + 3) fr u := by
  rw [pump_eq_run cfg h f fr u (by have := mu_le fr; omega), pump_eq_run cfg h _ fr u (mu_le fr)]

/-- tokens and outcome of the framer depend only on the concatenation of the chunks: feeding any
    non-empty chunking gives the same tokens, the same exception (or none), the same framer
    state, and — unless an exception ended it — the same buffer as feeding all bytes at once -/
theorem framer_chunking_invariant (cfg : FramerCfg) (s : FramerSt) (cs : List Bytes) (hne : cs ≠ []) :
    (feedChunks cfg s cs).2 = (addAndParse cfg s cs.flatten).2 ∧
    (feedChunks cfg s cs).1.st = (addAndParse cfg s cs.flatten).1.st ∧
    ((feedChunks cfg s cs).2.2 = none → feedChunks cfg s cs = addAndParse cfg s cs.flatten) := by
  unfold feedChunks addAndParse
  obtain ⟨rest, hrest⟩ := feed_flatten cfg collect cs s [] (fun h0 => absurd h0 hne)
  rw [hrest]
  rcases feed cfg collect s [] cs with ⟨fr, ts, e⟩
  cases e with
  | none => simp [padErr]
  | some e => simp [padErr]

/-- the same for the whole receive path: `dataReceived` chunk by chunk = `dataReceived` once -/
theorem l2_chunking_invariant (cfg : L2Cfg) (s : L2St) (cs : List Bytes) (hne : cs ≠ []) :
    (l2Feed cfg s cs).2 = (l2Data cfg s cs.flatten).2 ∧
    (l2Feed cfg s cs).1.up = (l2Data cfg s cs.flatten).1.up ∧
    (l2Feed cfg s cs).1.fr.st = (l2Data cfg s cs.flatten).1.fr.st ∧
    ((l2Feed cfg s cs).2 = none → l2Feed cfg s cs = l2Data cfg s cs.flatten) := by
  unfold l2Feed l2Data
  obtain ⟨rest, hrest⟩ := feed_flatten cfg.framer (l2Token cfg) cs s.fr s.up (fun h0 => absurd h0 hne)
  rw [hrest]
  rcases feed cfg.framer (l2Token cfg) s.fr s.up cs with ⟨fr, u, e⟩
  cases e with
  | none => simp [padErr]
  | some e => simp [padErr]

/-! ## wrong relay reply / wrong prologue -/

/-- any stream whose start diverges from the relay's expected reply, delivered in any chunking:
    as soon as the bytes received contain a newline or are as long as the expected reply the
    framer raises `Disconnect`, and it has yielded no token -/
theorem relay_reject (cfg : FramerCfg) (cs : List Bytes)
    (hd : Diverges cs.flatten cfg.relayExpected)
    (hl : 10 ∈ cs.flatten ∨ cfg.relayExpected.length ≤ cs.flatten.length) :
    ∃ fr, feedChunks cfg ⟨.want_relay, []⟩ cs = (fr, [], some .disconnect) := by
  have hne : cs ≠ [] := by
    intro h0; subst h0; exact hd.2 (List.nil_prefix)
  obtain ⟨fr1, h1, _⟩ := feed_of_run_error cfg collect ⟨.want_relay, []⟩ _ [] [] .disconnect cs hne
    (by simpa [addBuf] using run_reject_relay cfg collect [] cs.flatten hd hl)
  exact ⟨fr1, h1⟩

/-- the same for the prologue, directly or after the relay's `ok` -/
theorem prologue_reject (cfg : FramerCfg) (relay : Bool) (cs : List Bytes) (rest : Bytes)
    (hcs : cs.flatten = (if relay then cfg.relayExpected else []) ++ rest)
    (hd : Diverges rest cfg.inboundPrologue)
    (hl : 10 ∈ rest ∨ cfg.inboundPrologue.length ≤ rest.length) :
    ∃ fr, feedChunks cfg ⟨if relay then .want_relay else Framer.init, []⟩ cs = (fr, [], some .disconnect) := by
  have hne : cs ≠ [] := by
    intro h0; subst h0
    have : rest = [] := by
      have := congrArg List.length hcs; simp at this; exact List.eq_nil_of_length_eq_zero (by omega)
    subst this; exact hd.2 (List.nil_prefix)
  cases relay with
  | false =>
    simp only [Bool.false_eq_true, if_false, List.nil_append] at hcs ⊢
    obtain ⟨fr1, h1, _⟩ := feed_of_run_error cfg collect ⟨Framer.init, []⟩ _ [] [] .disconnect cs hne
      (by rw [hcs]; simpa [addBuf, Framer.init] using run_reject_prologue cfg collect [] rest hd hl)
    exact ⟨fr1, h1⟩
  | true =>
    simp only [if_true] at hcs ⊢
    obtain ⟨fr1, h1, _⟩ := feed_of_run_error cfg collect ⟨.want_relay, []⟩ _ [] [] .disconnect cs hne
      (by rw [hcs]; simpa [addBuf] using run_reject_prologue_after_relay cfg collect [] rest hd hl)
    exact ⟨fr1, h1⟩

/-- on the connection: a diverging start (relay reply or prologue) drops the connection with
    the state above the framer exactly as it was created — no handshake processed, no candidate,
    nothing queued, nothing for the manager -/
theorem l2_start_reject (cfg : L2Cfg) (relay ld : Bool) (cs : List Bytes) (rest : Bytes)
    (h : (relay = true ∧ cs.flatten = rest ∧ Diverges rest cfg.framer.relayExpected ∧
            (10 ∈ rest ∨ cfg.framer.relayExpected.length ≤ rest.length)) ∨
         (cs.flatten = (if relay then cfg.framer.relayExpected else []) ++ rest ∧
            Diverges rest cfg.framer.inboundPrologue ∧
            (10 ∈ rest ∨ cfg.framer.inboundPrologue.length ≤ rest.length))) :
    (l2Feed cfg (l2Init relay ld) cs).2 = some .disconnect ∧
    (l2Feed cfg (l2Init relay ld) cs).1.up = upInit ld := by
  have hrest : rest ≠ [] := by
    intro h0; subst h0
    rcases h with ⟨_, _, hd, _⟩ | ⟨_, hd, _⟩ <;> exact hd.2 List.nil_prefix
  have hne : cs ≠ [] := by
    intro h0; subst h0
    rcases h with ⟨_, hc, _⟩ | ⟨hc, _⟩
    · exact hrest hc.symm
    · have := congrArg List.length hc
      simp at this
      exact hrest (List.eq_nil_of_length_eq_zero (by omega))
  unfold l2Feed
  have key : ∃ frE, run cfg.framer (l2Token cfg) (addBuf (l2Init relay ld).fr cs.flatten) (upInit ld)
      = (frE, upInit ld, some .disconnect) := by
    rcases h with ⟨hr, hc, hd, hl⟩ | ⟨hc, hd, hl⟩
    · subst hr; rw [hc]
      exact ⟨_, by simpa [addBuf, l2Init] using run_reject_relay cfg.framer (l2Token cfg) (upInit ld) rest hd hl⟩
    · rw [hc]
      cases relay with
      | false =>
        exact ⟨_, by simpa [addBuf, l2Init, Framer.init] using
          run_reject_prologue cfg.framer (l2Token cfg) (upInit ld) rest hd hl⟩
      | true =>
        exact ⟨_, by simpa [addBuf, l2Init] using
          run_reject_prologue_after_relay cfg.framer (l2Token cfg) (upInit ld) rest hd hl⟩
  obtain ⟨frE, hk⟩ := key
  obtain ⟨fr1, h1, _⟩ := feed_of_run_error cfg.framer (l2Token cfg) _ _ _ _ _ cs hne hk
  have : (l2Init relay ld).up = upInit ld := rfl
  rw [this, h1]
  exact ⟨rfl, rfl⟩

/-- non-vacuity: the real follower prologue diverges from the leader's, and `"no\n"` from `"ok\n"` -/
example : Diverges Consts.PROLOGUE_FOLLOWER Consts.PROLOGUE_LEADER := by
  constructor <;> decide
example : Diverges [110, 111, 10] relayOkBytes ∧ (10 ∈ [110, 111, 10] ∨ relayOkBytes.length ≤ 3) := by
  refine ⟨by constructor <;> decide, by decide⟩

/-! ## unkeyed input -/

/-- a frame that is not made of ciphertexts produced with the key for the receiver's current
    nonce(s) — a forged, corrupted, truncated, replayed or re-ordered frame — raises `Disconnect`
    and leaves everything above the framer exactly as it was -/
theorem unkeyed_rejected (cfg : L2Cfg) (hN : cfg.noise.Ideal) (u : UpSt) (f : Bytes)
    (hr : u.rcd = .want_message) (hk : ¬ KeyedFrame cfg.noise u.rxNonce f) :
    l2Token cfg u (.frame f) = .error (.disconnect, u) := by
  cases ho : openMessage cfg.noise u.rxNonce f with
  | none =>
    simp only [l2Token, recordGotFrame_message cfg u f hr, ho]
    obtain ⟨rcd, dcp, rx, hsS, kS, q, tm, cand⟩ := u
    simp only at hr; subst hr; rfl
  | some p =>
    obtain ⟨pt, n'⟩ := p
    exact absurd (openMessage_keyed cfg.noise hN _ f pt n' ho).1 hk

/-- in particular a single-packet frame that is not the honest ciphertext of anything -/
theorem forged_packet_rejected (cfg : L2Cfg) (hN : cfg.noise.Ideal) (u : UpSt) (f : Bytes)
    (hr : u.rcd = .want_message) (hlen : f.length ≤ Consts.NOISE_MAX_CIPHERTEXT)
    (hk : ∀ m, f ≠ cfg.noise.enc u.rxNonce m) :
    l2Token cfg u (.frame f) = .error (.disconnect, u) := by
  have ho : openMessage cfg.noise u.rxNonce f = none := by
    simp only [openMessage, hlen, if_true]
    cases hd : cfg.noise.dec u.rxNonce f with
    | none => rfl
    | some m => exact absurd (hN.auth _ _ _ hd) (hk m)
  simp only [l2Token, recordGotFrame_message cfg u f hr, ho]
  obtain ⟨rcd, dcp, rx, hsS, kS, q, tm, cand⟩ := u
  simp only at hr; subst hr; rfl

/-- a Noise handshake message that does not verify raises `Disconnect`; nothing but `_Record`'s
    own state has changed -/
theorem bad_handshake_rejected (cfg : L2Cfg) (u : UpSt) (f : Bytes)
    (hr : u.rcd = .want_handshake_leader ∨ u.rcd = .want_handshake_follower)
    (hbad : cfg.handshakeOK f = false) :
    l2Token cfg u (.frame f) = .error (.disconnect, { u with rcd := .want_message }) := by
  rcases hr with hr | hr <;> simp [l2Token, recordGotFrame, hr, Record.table, hbad]

/-- `manager.got_record` is only ever called in DCP state `selected`, with a record (never a
    KCM) decrypted from a frame under the current nonce -/
theorem toManager_grows_only_selected (cfg : L2Cfg) (u u' : UpSt) (t : Token)
    (h : l2Token cfg u t = .ok u') (hch : u'.toManager ≠ u.toManager) :
    u.dcp = .selected ∧ ∃ f pt r, t = .frame f ∧ r ≠ .kcm ∧
      openMessage cfg.noise u.rxNonce f = some (pt, u'.rxNonce) ∧
      parseRecord cfg.validUtf8 pt = .ok r ∧ u'.toManager = u.toManager ++ [r] := by
  cases l2Token_effect cfg u t u' h with
  | neutral _ hm => exact absurd hm hch
  | kcm _ _ _ _ _ _ _ _ hm => exact absurd hm hch
  | queued _ _ _ _ _ _ _ _ _ _ hm => exact absurd hm hch
  | delivered f pt r ht _ ho hp hk hd _ hm => exact ⟨hd, f, pt, r, ht, hk, ho, hp, hm⟩

/-- the DCP machine leaves `unselected` only on a frame that decrypts, under the current nonce,
    to a KCM; `selected` is never entered by received data (only by `select`) -/
theorem leaves_unselected_only_by_kcm (cfg : L2Cfg) (u u' : UpSt) (t : Token)
    (h : l2Token cfg u t = .ok u') :
    (u.dcp = .unselected → u'.dcp ≠ .unselected →
      ∃ f pt, t = .frame f ∧ u.rcd = .want_message ∧
        openMessage cfg.noise u.rxNonce f = some (pt, u'.rxNonce) ∧ parseRecord cfg.validUtf8 pt = .ok .kcm) ∧
    (u'.dcp = .selected → u.dcp = .selected) := by
  cases l2Token_effect cfg u t u' h with
  | neutral hd => exact ⟨fun h1 h2 => absurd (hd ▸ h1) h2, fun h1 => hd ▸ h1⟩
  | kcm f pt ht hr ho hp hd hd' =>
    exact ⟨fun _ _ => ⟨f, pt, ht, hr, ho, hp⟩, fun h1 => (by rw [hd'] at h1; cases h1)⟩
  | queued _ _ _ _ _ _ _ _ hd hd' =>
    exact ⟨fun h1 => (by rw [hd] at h1; cases h1), fun h1 => (by rw [hd'] at h1; cases h1)⟩
  | delivered _ _ _ _ _ _ _ _ hd hd' =>
    exact ⟨fun h1 => (by rw [hd] at h1; cases h1), fun _ => hd⟩

/-- non-vacuity: under the toy AEAD the empty frame is not keyed, and there are receivers for
    which nothing opens under nonce 0 (a peer/receiver key mismatch) -/
example : ¬ KeyedFrame toyNoise 0 [] := by
  rintro ⟨ps, hne, h⟩
  cases ps with
  | nil => exact hne rfl
  | cons p ps => simp [encChunks, toyNoise, toyTag] at h
example : ∀ c, ({ enc := fun _ m => m, dec := fun _ _ => none } : Noise).dec 0 c = none := fun _ => rfl

/-- whatever bytes arrive in whatever chunking, nothing reaches the manager before `select` -/
theorem nothing_to_manager_before_select (cfg : L2Cfg) (relay ld : Bool) (cs : List Bytes) :
    (l2Feed cfg (l2Init relay ld) cs).1.up.toManager = [] ∧
    (l2Feed cfg (l2Init relay ld) cs).1.up.dcp ≠ .selected := by
  have := feed_inv cfg.framer (l2Token cfg) (fun u => u.toManager = [] ∧ u.dcp ≠ .selected)
    (by
      intro u t u' ⟨hm, hd⟩ h
      cases l2Token_effect cfg u t u' h with
      | neutral hd' hm' => exact ⟨hm' ▸ hm, hd' ▸ hd⟩
      | kcm _ _ _ _ _ _ _ hd' hm' => exact ⟨hm' ▸ hm, by rw [hd']; simp⟩
      | queued _ _ _ _ _ _ _ _ _ hd' hm' => exact ⟨hm' ▸ hm, by rw [hd']; simp⟩
      | delivered _ _ _ _ _ _ _ _ hd' => exact absurd hd' hd)
    (by
      intro u t e u' ⟨hm, hd⟩ h
      obtain ⟨hd', hm', _⟩ := l2Token_error_effect cfg u t e u' h
      exact ⟨hm' ▸ hm, hd' ▸ hd⟩)
    cs (l2Init relay ld).fr (l2Init relay ld).up ⟨rfl, by simp [l2Init, upInit, DCP.init]⟩
  unfold l2Feed
  exact this

/-- a peer without the key — nothing it can send opens under the first receive nonce — gets
    nothing through, whatever it sends and however it is chunked: the connection never becomes a
    candidate, nothing is queued, nothing reaches the manager (and `select` is impossible) -/
theorem unkeyed_connection_delivers_nothing (cfg : L2Cfg) (relay ld : Bool)
    (hnokey : ∀ c, cfg.noise.dec 0 c = none) (cs : List Bytes) :
    let s := (l2Feed cfg (l2Init relay ld) cs).1
    s.up.dcp = .unselected ∧ s.up.candidate = false ∧ s.up.queued = [] ∧ s.up.toManager = [] ∧
      l2Select s = .error .noTransition := by
  have := feed_inv cfg.framer (l2Token cfg)
    (fun u => u.dcp = .unselected ∧ u.candidate = false ∧ u.queued = [] ∧ u.toManager = [] ∧ u.rxNonce = 0)
    (by
      intro u t u' ⟨hd, hc, hq, hm, hn⟩ h
      cases l2Token_effect cfg u t u' h with
      | neutral hd' hm' hq' hc' hn' => exact ⟨hd' ▸ hd, hc' ▸ hc, hq' ▸ hq, hm' ▸ hm, hn' ▸ hn⟩
      | kcm f pt _ _ ho =>
        rw [hn, openMessage_none_of_dec0 cfg.noise 0 hnokey f] at ho; cases ho
      | queued _ _ _ _ _ _ _ _ hd' => rw [hd] at hd'; cases hd'
      | delivered _ _ _ _ _ _ _ _ hd' => rw [hd] at hd'; cases hd')
    (by
      intro u t e u' ⟨hd, hc, hq, hm, hn⟩ h
      obtain ⟨hd', hm', hq', hc', hn'⟩ := l2Token_error_effect cfg u t e u' h
      refine ⟨hd' ▸ hd, hc' ▸ hc, hq' ▸ hq, hm' ▸ hm, ?_⟩
      rcases hn' with hn' | ⟨f, pt, _, ho⟩
      · exact hn' ▸ hn
      · rw [hn, openMessage_none_of_dec0 cfg.noise 0 hnokey f] at ho; cases ho)
    cs (l2Init relay ld).fr (l2Init relay ld).up ⟨rfl, rfl, rfl, rfl, rfl⟩
  unfold l2Feed
  obtain ⟨hd, hc, hq, hm, _⟩ := this
  refine ⟨hd, hc, hq, hm, ?_⟩
  simp only [l2Select, upSelect]
  rw [hd]; rfl

/-! ## the KCM comes first -/

/-- tie to the source (call skeletons extracted by `ast` on every run): on the connection it
    selects, `Connector.select_and_stop_remaining` first calls `c.select(manager)`, then — Leader
    only — `c.send_record(KCM())`, and only then `manager.connector_connection_made(c)`, whose
    `Outbound.use_connection` re-sends every un-acked record at once.  `honestStream` (KCM before
    every record) and `selectionWrites` are written against this order; swapping the two calls puts
    records on the wire before the KCM, which `record_before_kcm_kills_connection` shows is fatal. -/
theorem selection_skeleton :
    Skel.skeleton "Connector.select_and_stop_remaining" =
      [("-", "_contenders.clear"), ("-", "self.stop_listeners"), ("-", "self.stop_pending_connectors"),
       ("-", "self.stop_pending_connections"), ("-", "c.select"), ("if", "KCM"), ("if", "c.send_record"),
       ("-", "_manager.connector_connection_made")] ∧
    Skel.skeleton "Outbound.use_connection" =
      [("-", "_queued_unsent.extend"), ("-", "c.transport.registerProducer"), ("-", "self.resumeProducing")] ∧
    (Skel.skeleton "Outbound.resumeProducing").head? = some ("while/if", "_connection.send_record") := by
  decide

/-- what the selecting side writes is a KCM-first stream: the Leader's writes at selection followed
    by anything written later are exactly the record list `honestStream` frames -/
theorem selection_writes_kcm_first (backlog later : List Rec) :
    selectionWrites true backlog ++ later = .kcm :: (backlog ++ later) := by
  simp [selectionWrites]

/-- why that order is necessary: a perfectly keyed, well-formed record that arrives before the
    KCM (DCP still `unselected`) raises `NoTransition` out of `dataReceived` — the connection dies,
    and nothing is queued or delivered -/
theorem record_before_kcm_kills_connection (cfg : L2Cfg) (hN : cfg.noise.Ideal) (u : UpSt) (r : Rec)
    (b rest : Bytes) (n1 : Nat)
    (hr : u.rcd = .want_message) (hd : u.dcp = .unselected)
    (hwf : r.wf cfg.validUtf8) (hk : r ≠ .kcm)
    (hsend : sendRecord cfg.noise u.rxNonce r = some (b, n1)) :
    ∃ body u1, parseFrame (b ++ rest) = some (body, rest) ∧
      l2Token cfg u (.frame body) = .error (.noTransition, u1) ∧
      u1.toManager = u.toManager ∧ u1.queued = u.queued ∧ u1.dcp = .unselected := by
  obtain ⟨body, pt, hpf, ho, hp⟩ := send_record_roundtrip cfg hN u.rxNonce n1 r b rest hwf hsend
  refine ⟨body, { u with rcd := .want_message, rxNonce := n1 }, hpf, ?_, rfl, rfl, hd⟩
  rw [l2Token_record cfg u body pt n1 r hr ho hp]
  cases r <;> first | exact absurd rfl hk | simp [hd, DCP.table]

/-! ## what the model takes from the source as given -/

/-- The model carries `Open.subprotocol` as the UTF-8 bytes of the `str` (`Rec.opn … sub`) and appends /
    slices them unchanged; that is faithful only if `encode_record` emits exactly
    `r.subprotocol.encode("utf8")` and `parse_record` reads it back with `str(plaintext[9:], "utf8")`, with
    no normalisation (`util.to_bytes`, `unicodedata`) or any other call touching the name.  Flags
    extracted by `ast` on every run. -/
theorem subprotocol_is_plain_utf8 :
    Flags.encode_record_subprotocol_plain_utf8 = true ∧ Flags.parse_record_subprotocol_plain_utf8 = true := by
  decide

/-- Every theorem here is about ONE connection with a Noise session of its own (`L2St.up.rxNonce`,
    `sendRecord`'s nonce): that is the code only if every candidate `DilatedConnectionProtocol` is given a
    fresh Noise object — `Connector.build_protocol` calls `build_noise()` itself, configures that local and
    hands it to the protocol, and the Connector keeps no Noise object on `self` (a shared one is reset by
    every later candidate's `start_handshake()`). -/
theorem one_noise_session_per_connection :
    Flags.build_protocol_fresh_noise_per_protocol = true ∧
    Skel.skeleton "Connector.build_protocol" =
      [("-", "build_noise"), ("-", "noise.set_psks"), ("if", "noise.set_as_initiator"),
       ("else", "noise.set_as_responder"), ("-", "DilatedConnectionProtocol")] := by
  decide

/-- `DilatedConnectionProtocol`'s lifecycle / flow-control wrappers carry no logic of their own, which is what
    `l2Lost`, `l2Pause`, `l2Resume` (identities) and `l2Data` (every token of a read is handled) say:
    `pauseProducing` / `resumeProducing` only forward to the transport, `connectionLost` only fires the
    observer, `dataReceived`'s loop has no early exit, and the parked-record queue is touched by nobody but
    its initialiser, `queue_inbound_record` and `process_inbound_queue`.  Extracted by `ast` on every run. -/
theorem flow_control_and_loss_pins :
    Flags.dcp_flow_control_plain_and_reads_handled_whole = true ∧
    Flags.dcp_inbound_queue_private = true ∧
    Skel.skeleton "DilatedConnectionProtocol.pauseProducing" = [("-", "transport.pauseProducing")] ∧
    Skel.skeleton "DilatedConnectionProtocol.resumeProducing" = [("-", "transport.resumeProducing")] ∧
    Skel.skeleton "DilatedConnectionProtocol.connectionLost" = [("-", "_disconnected.fire")] ∧
    Skel.skeleton "DilatedConnectionProtocol.process_inbound_queue" = [("while", "_manager.got_record")] := by
  decide

/-! ## end to end -/

/-- For every list of well-formed records and EVERY chunking of the honest sender's byte stream
    (relay reply if a relay is used, prologue, Noise handshake frame, KCM, then the records as
    `send_record` writes them — any payload sizes, single- or multi-packet), the receiver
    processes the stream without an exception, ends with an empty buffer, is a candidate, and
    after `select` the manager has received exactly the records sent, in order. -/
theorem end_to_end (cfg : L2Cfg) (hN : cfg.noise.Ideal) (relay ld : Bool) (hs : Bytes)
    (hok : cfg.handshakeOK hs = true) (recs : List Rec)
    (hwf : ∀ r ∈ recs, r.wf cfg.validUtf8 ∧ r ≠ .kcm)
    (stream : Bytes) (hst : honestStream cfg relay hs recs = some stream)
    (cs : List Bytes) (hcs : cs.flatten = stream) :
    ∃ s s', l2Feed cfg (l2Init relay ld) cs = (s, none) ∧ s.fr.buf = [] ∧ s.up.candidate = true ∧
      s.up.toManager = [] ∧
      l2Select s = .ok s' ∧ s'.up.toManager = recs ∧ s'.up.queued = [] ∧ s'.up.dcp = .selected := by
  obtain ⟨hne, uF, hrun, hd, hq, hm, hc⟩ := run_honest cfg hN relay ld hs hok recs hwf stream hst
  have hcsne : cs ≠ [] := by
    intro h0; subst h0; exact hne hcs.symm
  rw [← hcs] at hrun
  have hfeed := feed_of_run_ok cfg.framer (l2Token cfg) _ _ _ _ cs hcsne hrun
  have hup : (l2Init relay ld).up = upInit ld := rfl
  refine ⟨⟨⟨.want_frame, []⟩, uF⟩, ⟨⟨.want_frame, []⟩, { uF with dcp := .selected, toManager := uF.toManager ++ uF.queued, queued := [] }⟩, ?_, rfl, hc, hm, ?_, ?_, rfl, rfl⟩
  · unfold l2Feed; rw [hup, hfeed]
  · simp [l2Select, upSelect, hd, DCP.table, Except.map]
  · simp [hm, hq]

/-- The same when `select` happens at ANY point where it is legal — after any number of chunks
    `cs1` (the KCM must have arrived, otherwise `select` raises) with the rest `cs2` of the
    stream arriving afterwards: records that came before `select` are queued and flushed by it,
    the others are delivered directly; the manager gets exactly the records sent, in order. -/
theorem end_to_end_select_anywhere (cfg : L2Cfg) (hN : cfg.noise.Ideal) (relay ld : Bool) (hs : Bytes)
    (hok : cfg.handshakeOK hs = true) (recs : List Rec)
    (hwf : ∀ r ∈ recs, r.wf cfg.validUtf8 ∧ r ≠ .kcm)
    (stream : Bytes) (hst : honestStream cfg relay hs recs = some stream)
    (cs1 cs2 : List Bytes) (hcs : (cs1 ++ cs2).flatten = stream)
    (s1 s1' : L2St) (h1 : l2Feed cfg (l2Init relay ld) cs1 = (s1, none)) (hsel : l2Select s1 = .ok s1') :
    ∃ s2, l2Feed cfg s1' cs2 = (s2, none) ∧ s2.up.toManager = recs ∧ s2.up.queued = [] ∧
      s2.up.dcp = .selected ∧ s2.fr.buf = [] := by
  obtain ⟨s, s', hF, hbuf, _, _, hS, hrecs, _, _⟩ :=
    end_to_end cfg hN relay ld hs hok recs hwf stream hst (cs1 ++ cs2) hcs
  unfold l2Feed at hF h1 ⊢
  rcases hfa : feed cfg.framer (l2Token cfg) (l2Init relay ld).fr (l2Init relay ld).up (cs1 ++ cs2) with ⟨frA, uA, eA⟩
  rcases hf1 : feed cfg.framer (l2Token cfg) (l2Init relay ld).fr (l2Init relay ld).up cs1 with ⟨fr1, u1, e1⟩
  rw [hfa] at hF; rw [hf1] at h1
  simp only [Prod.mk.injEq] at hF h1
  obtain ⟨rfl, rfl⟩ := hF
  obtain ⟨rfl, rfl⟩ := h1
  rw [feed_append cfg.framer (l2Token cfg) cs1 cs2 _ _ fr1 u1 hf1] at hfa
  -- what `select` did
  simp only [l2Select] at hsel hS
  cases hu : upSelect u1 with
  | error e => simp [hu, Except.map] at hsel
  | ok u1' =>
    simp [hu, Except.map] at hsel
    obtain ⟨hd1, rfl⟩ := upSelect_ok hu
    cases huA : upSelect uA with
    | error e => simp [huA, Except.map] at hS
    | ok uA' =>
      simp [huA, Except.map] at hS
      obtain ⟨_, rfl⟩ := upSelect_ok huA
      subst hsel hS
      simp only at hrecs ⊢
      rw [feed_sel cfg cs2 fr1 u1 hd1, hfa]
      exact ⟨_, rfl, hrecs, rfl, rfl, hbuf⟩

/-- … and the connection may be paused, resumed and even LOST between the last byte and `select` (the
    Connector's `accept` runs an eventual turn after the KCM arrived; the peer may have hung up by then):
    `select` still hands the manager every record that was received, in order. -/
theorem end_to_end_lost_before_select (cfg : L2Cfg) (hN : cfg.noise.Ideal) (relay ld : Bool) (hs : Bytes)
    (hok : cfg.handshakeOK hs = true) (recs : List Rec)
    (hwf : ∀ r ∈ recs, r.wf cfg.validUtf8 ∧ r ≠ .kcm)
    (stream : Bytes) (hst : honestStream cfg relay hs recs = some stream)
    (cs : List Bytes) (hcs : cs.flatten = stream) :
    ∃ s s', l2Feed cfg (l2Init relay ld) cs = (s, none) ∧
      l2Select (l2Lost (l2Resume (l2Pause s))) = .ok s' ∧ s'.up.toManager = recs ∧ s'.up.queued = [] := by
  obtain ⟨s, s', h1, _, _, _, h2, h3, h4, _⟩ := end_to_end cfg hN relay ld hs hok recs hwf stream hst cs hcs
  exact ⟨s, s', h1, h2, h3, h4⟩

/-- non-vacuity of the hypotheses of `end_to_end_select_anywhere`: such `s1`, `s1'` exist -/
example (cfg : L2Cfg) (hN : cfg.noise.Ideal) (relay ld : Bool) (hs : Bytes)
    (hok : cfg.handshakeOK hs = true) (recs : List Rec) (hwf : ∀ r ∈ recs, r.wf cfg.validUtf8 ∧ r ≠ .kcm)
    (stream : Bytes) (hst : honestStream cfg relay hs recs = some stream) :
    ∃ s1 s1', l2Feed cfg (l2Init relay ld) [stream] = (s1, none) ∧ l2Select s1 = .ok s1' := by
  obtain ⟨s, s', h1, _, _, _, h2, _⟩ := end_to_end cfg hN relay ld hs hok recs hwf stream hst [stream] (by simp)
  exact ⟨s, s', h1, h2⟩

/-- truncation: whatever prefix of the honest stream arrives (the connection is cut anywhere,
    in any chunking), no exception is raised and what has been taken in is a prefix of the
    records sent — never anything else -/
theorem truncation_delivers_prefix (cfg : L2Cfg) (hN : cfg.noise.Ideal) (relay ld : Bool) (hs : Bytes)
    (hok : cfg.handshakeOK hs = true) (recs : List Rec)
    (hwf : ∀ r ∈ recs, r.wf cfg.validUtf8 ∧ r ≠ .kcm)
    (stream : Bytes) (hst : honestStream cfg relay hs recs = some stream)
    (cs : List Bytes) (hcs : cs.flatten <+: stream) :
    ∃ s, l2Feed cfg (l2Init relay ld) cs = (s, none) ∧ s.up.queued <+: recs ∧ s.up.toManager = [] := by
  have hnm := (nothing_to_manager_before_select cfg relay ld cs).1
  by_cases hne : cs = []
  · subst hne
    exact ⟨l2Init relay ld, rfl, List.nil_prefix, rfl⟩
  · obtain ⟨tail, htail⟩ := hcs
    obtain ⟨_, uF, hrun, _, hq, _, _⟩ := run_honest cfg hN relay ld hs hok recs hwf stream hst
    rw [← htail, ← addBuf_addBuf, run_append] at hrun
    rcases hr : run cfg.framer (l2Token cfg) (addBuf (l2Init relay ld).fr cs.flatten) (upInit ld) with ⟨fr1, u1, e⟩
    rw [hr] at hrun
    cases e with
    | some e => simp [thenMore] at hrun
    | none =>
      simp only [thenMore] at hrun
      have hfeed := feed_of_run_ok cfg.framer (l2Token cfg) _ _ _ _ cs hne hr
      have hpre : u1.queued <+: uF.queued := by
        have := pump_rel cfg.framer (l2Token cfg) (fun a b => a.queued <+: b.queued)
          (fun _ => List.prefix_refl _) (fun _ _ _ => List.IsPrefix.trans)
          (fun u t u2 h => l2Token_queued_prefix cfg u u2 t h)
          (fun u t e u2 h => by rw [(l2Token_error_effect cfg u t e u2 h).2.2.1]; exact List.prefix_refl _) (mu (addBuf fr1 tail) + 1) (addBuf fr1 tail) u1
        have hrun' : pump cfg.framer (l2Token cfg) (mu (addBuf fr1 tail) + 1) (addBuf fr1 tail) u1
            = (⟨.want_frame, []⟩, uF, none) := hrun
        rw [hrun'] at this
        exact this
      have hup : (l2Init relay ld).up = upInit ld := rfl
      unfold l2Feed at hnm ⊢
      rw [hup, hfeed] at hnm ⊢
      exact ⟨_, rfl, hq ▸ hpre, hnm⟩

/-- non-vacuity of `end_to_end`: a concrete honest stream under the toy Noise (relay, leader
    side receiving, an `open` with a non-ASCII name, a `data`, a `close`, an `ack`) -/
example :
    let cfg : L2Cfg := { framer := { relayExpected := relayOkBytes, inboundPrologue := Consts.PROLOGUE_FOLLOWER },
                         leader := true, noise := toyNoise, validUtf8 := fun _ => true,
                         handshakeOK := fun f => f == [104, 115] }
    (honestStream cfg true [104, 115]
      [.opn 0 1 [195, 169], .data 1 1 [1, 2, 3], .close 2 1, .ack 7, .ping [1, 2, 3, 4]]).isSome = true := by
  decide

end WV.Props.C12
