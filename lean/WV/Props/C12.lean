import WV.Model.C12

/-! C12 property theorems (statements and proofs only; helper lemmas live in WV/Proofs). -/
namespace WV.Props.C12
open WV WV.C12

theorem be4_roundtrip (n : Nat) (h : n < 4294967296) :
    (toBe4 n).bind fromBe4 = some n := by
  simp [toBe4, h, fromBe4]; omega

end WV.Props.C12
