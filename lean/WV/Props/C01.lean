import WV.Model.C01
import WV.Proofs.C01
import WV.Proofs.C01_Toy
import WV.Proofs.C01_Refused

/-!
C01 — property theorems.  `C : Crypto` is arbitrary; `I : C.Ideal` are the ideal properties of
SPAKE2 / HKDF / SHA-256 / SecretBox / NFC (hypotheses, satisfied by the toy instance: `sampleIdeal`).
All statements are about `WV.C01.run` / `gotCode` / `orderGotMessage` / `deriveKey`, the functions
the driver executes, over the generated Key/_SortedKey/Order/Receive/Send/Boss tables.

Strings from the application (code, appid, purpose) are Python `str`s = lists of code points
(`PyStr`), which may hold unpaired surrogates.  `util.to_bytes` is NFC followed by *strict* UTF-8
(`utf8enc`, a concrete function: defined exactly on the `encodable` strings — `utf8enc_defined_iff` —
and injective — `utf8_strict_injective`, both proved, not assumed).  The agreement theorems are stated
for `encodable` codes and appids; what happens otherwise is `unencodable_code_refused` /
`refused_shares_nothing_ever` (the code is refused with UnicodeEncodeError and that client never holds,
reports or publishes anything) and `unencodable_purpose_refused`.
-/
namespace WV.Props.C01
open WV WV.Gen WV.C01

/-! `pakeOf` (the PAKE body a client publishes, `none` when its code was refused) and `sideRun` (one
    side of a two-party run, both arrival orders) are defined in `WV.Proofs.C01`. -/

/-- the hand-written call shapes of all modelled output bodies equal the skeletons extracted from
    the working tree (order of `B.got_key / M.add_message / R.got_key`, of `SK.got_code / SK.got_pake`,
    of `B.got_code / K.got_code`, …) -/
theorem skeleton_agrees : shapeAgrees = true := by decide +kernel

/-- Both arrival orders feed exactly `(to_bytes(code), to_bytes(appid))` and the peer's element to
    SPAKE2, and end in the same state (same key in Wormhole, Receive; same events in the same
    order) — the stash path differs only in the remembered stash. -/
theorem stash_then_code_eq_code_then_pake (C : Crypto) (cfg : Cfg) (code : PyStr) (pw idS : Bytes) (peer : String)
    (m key : Bytes) (hc : toBytes C code = some pw) (ha : toBytes C cfg.appid = some idS)
    (h : C.pakeFinish pw idS cfg.rnd m = some key) :
    run C cfg [.code code, .rx ⟨peer, "pake", pakeBody m⟩] init = (stKey C cfg code pw idS key, none) ∧
    run C cfg [.rx ⟨peer, "pake", pakeBody m⟩, .code code] init
      = ({ stKey C cfg code pw idS key with stash := some (pakeBody m) }, none) := by
  constructor
  · simp only [run, seqM, envStep, gotCode_init C cfg code pw idS hc ha, rxPake_stCode C cfg code pw idS peer m key h]
  · simp only [run, seqM, envStep, rxPake_init, gotCode_stashed C cfg code pw idS m key hc ha h]

/-- a PAKE message is hostile for this client when its body carries no usable element (not JSON,
    not an object, no `pake_v1`, not hex) or SPAKE2 refuses the element (malformed, not on the
    curve, wrong side byte, our own element reflected) -/
def HostilePake (C : Crypto) (cfg : Cfg) (pw idS : Bytes) (body : Bytes) : Prop :=
  parsePake body = none ∨
  ∃ m, body = pakeBody m ∧ C.pakeFinish pw idS cfg.rnd m = none

/-- **hostile_pake_scares.**  A hostile PAKE message is a "codes differ / stranger" case: for both
    arrival orders and every later schedule of peer messages (with any body) and application
    sends, nothing raises, no key is ever reported or kept (`derive_key` keeps raising NoKeyError),
    no verifier / versions / message is delivered, `T.close` is only ever called with mood "scary",
    and the side closes with exactly WrongPasswordError. -/
theorem hostile_pake_scares (C : Crypto) (cfg : Cfg) (code : PyStr) (pw idS : Bytes) (peer : String) (body : Bytes)
    (hc : toBytes C code = some pw) (ha : toBytes C cfg.appid = some idS)
    (h : HostilePake C cfg pw idS body) (codeFirst : Bool) (later : List Env) (hl : ∀ e ∈ later, e.later) :
    ∃ s', run C cfg ((if codeFirst then [.code code, .rx ⟨peer, "pake", body⟩]
                      else [.rx ⟨peer, "pake", body⟩, .code code]) ++ later) init = (s', none) ∧
      s'.wkey = none ∧ (∀ k, Ev.wKey k ∉ s'.out) ∧ (∀ e ∈ s'.out, e.delivers = false) ∧
      s'.b = .S3_closing ∧ s'.result = .wrongPassword ∧
      Ev.tClose "scary" ∈ s'.out ∧ (∀ mood, Ev.tClose mood ∈ s'.out → mood = "scary") ∧
      (∀ p n, deriveKey C s' p n = .error .noKeyError) ∧
      (run C cfg [.closed] s').2 = none ∧
      (run C cfg [.closed] s').1.out = s'.out ++ [.wClosed .wrongPassword] ∧
      (run C cfg [.close, .closed] s').1.out = s'.out ++ [.wClosed .wrongPassword] := by
  -- the state after the two-event prefix
  have hpre : ∃ skst x, run C cfg (if codeFirst then [.code code, .rx ⟨peer, "pake", body⟩]
                      else [.rx ⟨peer, "pake", body⟩, .code code]) init
        = ({ stHostile C cfg code pw idS skst with stash := x }, none) := by
    rcases h with h | ⟨m, rfl, h⟩
    · refine ⟨.S3_scared, if codeFirst then none else some body, ?_⟩
      cases codeFirst
      · simp only [Bool.false_eq_true, if_false, run, seqM, envStep, rxPake_init,
          gotCode_stashed_unusable C cfg code pw idS body hc ha h]
      · simp only [if_true, run, seqM, envStep, gotCode_init C cfg code pw idS hc ha,
          rxPake_stCode_unusable C cfg code pw idS peer body h]
        rfl
    · refine ⟨.S2_know_key, if codeFirst then none else some (pakeBody m), ?_⟩
      cases codeFirst
      · simp only [Bool.false_eq_true, if_false, run, seqM, envStep, rxPake_init,
          gotCode_stashed_refused C cfg code pw idS m hc ha h]
      · simp only [if_true, run, seqM, envStep, gotCode_init C cfg code pw idS hc ha,
          rxPake_stCode_refused C cfg code pw idS peer m h]
        rfl
  obtain ⟨skst, x, hp⟩ := hpre
  obtain ⟨s', e, r⟩ := run_refused C cfg later { stHostile C cfg code pw idS skst with stash := x }
    (stHostile_refused C cfg code pw idS skst x) rfl hl
  obtain ⟨c1, c2, _, c4⟩ := refused_closed C cfg s' r
  refine ⟨s', ?_, r.wkey, r.noKey, r.quiet, r.b, r.res, r.hasScary, r.scary, ?_, c1, c2, c4⟩
  · rw [run_append, hp]; exact e
  · intro p n; simp [deriveKey, r.wkey]

/-- the hypothesis is met by the toy instance: a body without the element tag, and a reflected element -/
example : HostilePake (toyCrypto sampleNfc) ⟨"s0", py "app", [1], [0]⟩ [52, 45, 97] [97, 112, 112] [2] := Or.inl rfl
example : toBytes (toyCrypto sampleNfc) (py "4-a") = some [52, 45, 97] ∧
    toBytes (toyCrypto sampleNfc) (py "app") = some [97, 112, 112] := by decide
example : HostilePake (toyCrypto sampleNfc) ⟨"s0", py "app", [1], [0]⟩ [52, 45, 97] [97, 112, 112]
    (myPake (toyCrypto sampleNfc) ⟨"s0", py "app", [1], [0]⟩ [52, 45, 97] [97, 112, 112]) :=
  Or.inr ⟨_, rfl, by decide⟩

/-- what a side publishes as its PAKE message does not depend on the arrival order -/
theorem publishes_pake (C : Crypto) (I : C.Ideal) (a b : Cfg) (ca cb : PyStr) (hr : a.rnd ≠ b.rnd) (o : Bool)
    (hca : encodable ca = true) (haa : encodable a.appid = true)
    (hcb : encodable cb = true) (hab : encodable b.appid = true) :
    ∃ body, pakeOf C a ca = some body ∧ sentBody "pake" (sideRun C a ca b cb o).1.out = some body := by
  obtain ⟨pwa, ida, pwb, idb, h1, h2, h3, h4⟩ := four_bytes I hca haa hcb hab
  obtain ⟨k, _, hk, _, _⟩ := I.pake pwa ida a.rnd pwb idb b.rnd hr
  refine ⟨myPake C a pwa ida, pakeOf_some C a ca pwa ida h1 h2, ?_⟩
  rw [sideRun_eq C a b ca cb pwa ida pwb idb k h1 h2 h3 h4 hk o]
  cases o <;> simp [stKey, stCode, sentBody, myPake]

/-- **key_agree_iff.**  Two clients with arbitrary *encodable* codes and appids (strings strict UTF-8
    accepts; for the others see `unencodable_code_refused`) and arbitrary arrival orders (four
    combinations of PAKE-before-code / code-before-PAKE) both finish without exception, both hold a
    key (the same one in `Wormhole._key` and `Receive._key`), and the two keys are equal exactly when
    the codes are NFC-equal and the appids are NFC-equal. -/
theorem key_agree_iff (C : Crypto) (I : C.Ideal) (a b : Cfg) (ca cb : PyStr) (hr : a.rnd ≠ b.rnd)
    (oa ob : Bool)
    (hca : encodable ca = true) (haa : encodable a.appid = true)
    (hcb : encodable cb = true) (hab : encodable b.appid = true) :
    ∃ ka kb,
      (sideRun C a ca b cb oa).2 = none ∧ (sideRun C b cb a ca ob).2 = none ∧
      (sideRun C a ca b cb oa).1.wkey = some ka ∧ (sideRun C a ca b cb oa).1.rkey = some ka ∧
      (sideRun C b cb a ca ob).1.wkey = some kb ∧ (sideRun C b cb a ca ob).1.rkey = some kb ∧
      (ka = kb ↔ C.nfc ca = C.nfc cb ∧ C.nfc a.appid = C.nfc b.appid) := by
  obtain ⟨pwa, ida, pwb, idb, h1, h2, h3, h4⟩ := four_bytes I hca haa hcb hab
  obtain ⟨ka, kb, hka, hkb, hiff⟩ := I.pake pwa ida a.rnd pwb idb b.rnd hr
  have ea := sideRun_eq C a b ca cb pwa ida pwb idb ka h1 h2 h3 h4 hka oa
  have eb := sideRun_eq C b a cb ca pwb idb pwa ida kb h3 h4 h1 h2 hkb ob
  refine ⟨ka, kb, ?_, ?_, ?_, ?_, ?_, ?_, ?_⟩
  · rw [ea]
  · rw [eb]
  · rw [ea]; cases oa <;> simp [stKey]
  · rw [ea]; cases oa <;> simp [stKey]
  · rw [eb]; cases ob <;> simp [stKey]
  · rw [eb]; cases ob <;> simp [stKey]
  · rw [hiff, toBytes_eq_iff ca cb pwa pwb h1 h3, toBytes_eq_iff a.appid b.appid ida idb h2 h4]

/-- NFC-equivalent spellings of a code agree: typing `nfc c` instead of `c` gives the same key. -/
theorem nfc_spelling_agrees (C : Crypto) (I : C.Ideal) (a b : Cfg) (c : PyStr) (hr : a.rnd ≠ b.rnd)
    (happ : a.appid = b.appid) (oa ob : Bool) (hc : encodable c = true) (haa : encodable a.appid = true) :
    (sideRun C a c b (C.nfc c) oa).1.wkey = (sideRun C b (C.nfc c) a c ob).1.wkey := by
  have hn : encodable (C.nfc c) = true := by rw [I.nfc_encodable]; exact hc
  obtain ⟨ka, kb, _, _, h1, _, h2, _, hiff⟩ :=
    key_agree_iff C I a b c (C.nfc c) hr oa ob hc haa hn (happ ▸ haa)
  rw [h1, h2, hiff.mpr ⟨(I.nfc_idem c).symm, by rw [happ]⟩]

/-! ## codes, appids and purposes that strict UTF-8 cannot encode (unpaired surrogates) -/

/-- `str.encode("utf-8")` raises exactly on the strings with a surrogate … -/
theorem utf8enc_defined_iff (s : PyStr) : (utf8enc s).isSome = encodable s := utf8enc_isSome s

/-- … and where it does not raise it is injective: two different strings never get the same bytes
    (this is what `errors="replace"`/`"ignore"` would destroy). -/
theorem utf8_strict_injective (s t : PyStr) (b : Bytes) (hs : utf8enc s = some b) (ht : utf8enc t = some b) :
    s = t := utf8enc_inj s t b hs ht

/-- a lone surrogate is a legal one-character `str` that is not encodable; an astral character is -/
example : encodable [0x34, 0x2d, 0xdce9] = false ∧ encodable [0x34, 0x2d, 0x1f600] = true ∧
    utf8enc [0xdce9] = none ∧ utf8enc [0xe9] = some [0xc3, 0xa9] ∧ utf8enc [0x3f] = some [0x3f] := by decide

/-- **unencodable_code_refused.**  If the code or the appid holds a code point strict UTF-8 cannot
    encode, `B.got_code; K.got_code` (what `set_code` / `choose_words` end in) raises
    UnicodeEncodeError out of `build_pake` — after Boss has reported the code and Key/_SortedKey have
    moved, with `_sp` unset and *no PAKE message published* — on the plain path and on the path with
    the peer's PAKE already stashed; and a peer of such a client is never handed a PAKE message. -/
theorem unencodable_code_refused (C : Crypto) (I : C.Ideal) (cfg : Cfg) (code : PyStr)
    (h : encodable code = false ∨ encodable cfg.appid = false) :
    gotCode C cfg code init
      = ({ init with k := .S10, sk := .S1_know_code, b := .S1_lonely, out := [.wCode code] },
         some .unicodeEncodeError) ∧
    (∀ body, gotCode C cfg code { init with k := .S01, stash := some body, o := .S1_yes_pake }
      = ({ init with k := .S11, sk := .S1_know_code, stash := some body, o := .S1_yes_pake, b := .S1_lonely,
                     out := [.wCode code] }, some .unicodeEncodeError)) ∧
    pakeOf C cfg code = none ∧
    (∀ (peer : Cfg) (pc : PyStr) (o : Bool), sideRun C peer pc cfg code o = run C peer [.code pc] init) := by
  have hu : toBytes C code = none ∨ toBytes C cfg.appid = none := by
    rcases h with h | h
    · exact Or.inl (toBytes_none I h)
    · exact Or.inr (toBytes_none I h)
  have hp := pakeOf_none C cfg code hu
  refine ⟨?_, ?_, hp, ?_⟩
  · rcases hu with hu | hu
    · simp [gotCode, andThen, bossIn, keyIn, init, Boss.table, Boss.init, BIn.tag, Key.init, Key.table, KIn.tag,
        bossOut, emit, keyOut, sortedKeyIn, SortedKey.init, SortedKey.table, SKIn.tag, sortedKeyOut, seqM, raise, hu]
    · simp [gotCode, andThen, bossIn, keyIn, init, Boss.table, Boss.init, BIn.tag, Key.init, Key.table, KIn.tag,
        bossOut, emit, keyOut, sortedKeyIn, SortedKey.init, SortedKey.table, SKIn.tag, sortedKeyOut, seqM, raise, hu]
  · intro body
    rcases hu with hu | hu
    · simp [gotCode, andThen, bossIn, keyIn, init, Boss.table, Boss.init, BIn.tag, Key.init, Key.table, KIn.tag,
        bossOut, emit, keyOut, sortedKeyIn, SortedKey.init, SortedKey.table, SKIn.tag, sortedKeyOut, seqM, raise, hu]
    · simp [gotCode, andThen, bossIn, keyIn, init, Boss.table, Boss.init, BIn.tag, Key.init, Key.table, KIn.tag,
        bossOut, emit, keyOut, sortedKeyIn, SortedKey.init, SortedKey.table, SKIn.tag, sortedKeyOut, seqM, raise, hu]
  · intro peer pc o
    simp only [sideRun, hp]

/-- **refused_shares_nothing_ever.**  After a refused code — from the initial state or with the peer's
    PAKE stashed — for *every* later schedule of peer messages (the peer's real PAKE, hostile ones, any
    other phase, any body), `send`s, `close`, `closed` and further refused codes, whether or not a step
    raises: the client never holds a key (`Wormhole._key`, `Receive._key`, `Send._key`), never reports a
    key, verifier, versions or message, never publishes any mailbox message, and `derive_key` raises
    NoKeyError for every purpose and length.  Step-wise (`envStep_noSp`) this holds through exceptions
    as well; the proof does not look at the transition tables. -/
theorem refused_shares_nothing_ever (C : Crypto) (I : C.Ideal) (cfg : Cfg) (code : PyStr)
    (h : encodable code = false ∨ encodable cfg.appid = false) (stashed : Option Bytes)
    (evs : List Env) (hev : ∀ e ∈ evs, e.noGoodCode C cfg) :
    let s0 := match stashed with
      | none => (gotCode C cfg code init).1
      | some body => (gotCode C cfg code { init with k := .S01, stash := some body, o := .S1_yes_pake }).1
    let s' := (run C cfg evs s0).1
    s'.sp = none ∧ s'.wkey = none ∧ s'.rkey = none ∧ s'.skey = none ∧
    (∀ e ∈ s'.out, e.shares = false) ∧ (∀ p n, deriveKey C s' p n = .error .noKeyError) := by
  have hu : Unenc C cfg code := by
    rcases h with h | h
    · exact Or.inl (toBytes_none I h)
    · exact Or.inr (toBytes_none I h)
  intro s0 s'
  have h0 : NoSp s0 := by
    cases stashed with
    | none => exact gotCode_noSp C cfg code hu init init_noSp
    | some body => exact gotCode_noSp C cfg code hu _ (by simp [NoSp, init])
  obtain ⟨a, b, c, d, q⟩ := run_noSp C cfg evs hev s0 h0
  exact ⟨a, c, b, d, q, fun p n => by simp [deriveKey, s', c]⟩

/-- the step-wise form: one environment event, from any state without SPAKE2 instance and keys,
    leaves such a state — also when the step ends in an exception (e.g. the AttributeError of
    `compute_key` when the peer's PAKE reaches a `_SortedKey` whose `build_pake` had raised) -/
theorem refused_stays_refused (C : Crypto) (cfg : Cfg) (e : Env) (he : e.noGoodCode C cfg) (s : St)
    (h : NoSp s) : NoSp (envStep C cfg e s).1 := envStep_noSp C cfg e he s h

/-- that AttributeError is real: the peer's well-formed PAKE after a refused code -/
example : (run (toyCrypto sampleNfc) ⟨"s0", py "app", [1], [0]⟩
    [.code [0x34, 0x2d, 0xdce9], .rx ⟨"s1", "pake", pakeBody [7]⟩] init).2 = some .unicodeEncodeError ∧
    (envStep (toyCrypto sampleNfc) ⟨"s0", py "app", [1], [0]⟩ (.rx ⟨"s1", "pake", pakeBody [7]⟩)
      (gotCode (toyCrypto sampleNfc) ⟨"s0", py "app", [1], [0]⟩ [0x34, 0x2d, 0xdce9] init).1).2
      = some .attributeError := by decide

/-- **match_derive_equal.**  Equal keys ⇒ after each side decrypts the other's `version` message it
    reports the same verifier, and `derive_key(p, n)` returns the same result on both sides for every
    purpose and length (including the error cases: NoKeyError / UnicodeEncodeError / ValueError). -/
theorem match_derive_equal (C : Crypto) (a b : Cfg) (ca cb : PyStr) (pwa ida pwb idb : Bytes) (key pa pb : Bytes)
    (p : PyStr) (n : Nat) :
    let sa := stHappy C a ca pwa ida key pa
    let sb := stHappy C b cb pwb idb key pb
    (∃ v, Ev.wVerifier v ∈ sa.out ∧ Ev.wVerifier v ∈ sb.out ∧ v = C.hkdf key verifierPurpose 32) ∧
    deriveKey C sa p n = deriveKey C sb p n ∧
    (n ≤ hkdfMax → ∀ info, toBytes C p = some info → deriveKey C sa p n = .ok (C.hkdf key info n)) := by
  refine ⟨⟨_, ?_, ?_, rfl⟩, ?_, ?_⟩
  · simp [stHappy]
  · simp [stHappy]
  · simp [deriveKey, stHappy, stKey]
  · intro hn info hi
    simp [deriveKey, stHappy, stKey, Nat.not_lt.mpr hn, hi]

/-- `stHappy` is what really happens: the peer's `version` message, sealed under the same key,
    moves Receive/Send/Boss to verified/happy and emits verifier then versions — nothing else. -/
theorem first_good_message (C : Crypto) (I : C.Ideal) (cfg : Cfg) (code : PyStr) (pw idS : Bytes) (peer : String)
    (key nn pt : Bytes) :
    orderGotMessage C cfg ⟨peer, "version", C.box (phaseKey C key peer "version") nn pt⟩ (stKey C cfg code pw idS key)
      = (stHappy C cfg code pw idS key pt, none) :=
  rxVersion_stKey C cfg code pw idS peer key _ pt (I.unbox_box _ _ _)

/-- before the key exists `derive_key` raises NoKeyError (initially, and after the code alone —
    accepted or refused), for every purpose, encodable or not -/
theorem derive_before_key (C : Crypto) (cfg : Cfg) (code p : PyStr) (n : Nat) :
    deriveKey C init p n = .error .noKeyError ∧
    deriveKey C (gotCode C cfg code init).1 p n = .error .noKeyError := by
  constructor
  · simp [deriveKey, init]
  · have : (gotCode C cfg code init).1.wkey = none := by
      cases hc : toBytes C code with
      | none => exact (gotCode_noSp C cfg code (Or.inl hc) init init_noSp).2.2.1
      | some pw =>
        cases ha : toBytes C cfg.appid with
        | none => exact (gotCode_noSp C cfg code (Or.inr ha) init init_noSp).2.2.1
        | some idS => rw [gotCode_init C cfg code pw idS hc ha]; simp [stCode, init]
    simp [deriveKey, this]

/-- **purposes_separate.**  For `1 ≤ n ≤ 255·32`, NFC-different (encodable) purposes give different
    bytes (`derive_key` normalises the purpose, so "different" means NFC-different). -/
theorem purposes_separate (C : Crypto) (I : C.Ideal) (s : St) (key : Bytes) (hk : s.wkey = some key)
    (p q : PyStr) (hp : encodable p = true) (hq : encodable q = true)
    (hpq : C.nfc p ≠ C.nfc q) (n : Nat) (h1 : 1 ≤ n) (h2 : n ≤ hkdfMax) :
    ∃ x y, deriveKey C s p n = .ok x ∧ deriveKey C s q n = .ok y ∧ x ≠ y := by
  obtain ⟨ip, hip⟩ := toBytes_of_encodable I hp
  obtain ⟨iq, hiq⟩ := toBytes_of_encodable I hq
  refine ⟨C.hkdf key ip n, C.hkdf key iq n, ?_, ?_, ?_⟩
  · simp [deriveKey, hk, hip, Nat.not_lt.mpr h2]
  · simp [deriveKey, hk, hiq, Nat.not_lt.mpr h2]
  · intro h
    exact hpq ((toBytes_eq_iff p q ip iq hip hiq).mp (I.hkdf_inj _ _ _ _ n h1 h).2)

/-- **unencodable_purpose_refused.**  With a key, `derive_key` of a purpose strict UTF-8 cannot encode
    raises UnicodeEncodeError at every length (the purpose is encoded before HKDF looks at the length):
    no two different purposes are ever folded onto the same HKDF `info`. -/
theorem unencodable_purpose_refused (C : Crypto) (I : C.Ideal) (s : St) (key : Bytes) (hk : s.wkey = some key)
    (p : PyStr) (hp : encodable p = false) (n : Nat) : deriveKey C s p n = .error .unicodeEncodeError := by
  simp [deriveKey, hk, toBytes_none I hp]

/-- the guard is exact: beyond `255·32` both calls raise ValueError … -/
theorem purposes_guard_upper (C : Crypto) (I : C.Ideal) (s : St) (key : Bytes) (hk : s.wkey = some key) (p q : PyStr)
    (hp : encodable p = true) (hq : encodable q = true)
    (n : Nat) (h : hkdfMax < n) : deriveKey C s p n = .error .valueError ∧ deriveKey C s q n = .error .valueError := by
  obtain ⟨ip, hip⟩ := toBytes_of_encodable I hp
  obtain ⟨iq, hiq⟩ := toBytes_of_encodable I hq
  simp [deriveKey, hk, h, hip, hiq]

/-- … and at `n = 0` an ideal instance returns the same (empty) bytes for all purposes -/
theorem purposes_guard_zero :
    ∃ (C : Crypto) (_ : C.Ideal) (s : St) (p q : PyStr), C.nfc p ≠ C.nfc q ∧ s.wkey ≠ none ∧
      encodable p = true ∧ encodable q = true ∧
      deriveKey C s p 0 = deriveKey C s q 0 :=
  ⟨toyCrypto sampleNfc, sampleIdeal, { init with wkey := some [7] }, py "a", py "b",
    by decide, by simp [init], by decide, by decide, by simp [deriveKey, toyCrypto, hkdfMax, toBytes, sampleNfc, py, utf8enc, utf8cp]⟩

/-- **mismatch_delivers_nothing** (one side, any key it does not share).  After the key is
    computed, for every schedule of undecryptable non-PAKE peer messages and application `send`s:
    no exception, no verifier / versions / message is ever delivered, and as soon as one peer
    message has arrived the side is closing with WrongPasswordError, `T.close` was only ever called
    with mood "scary", and Terminator's `closed` (with or without an application `close()` first)
    reports exactly WrongPasswordError. -/
theorem mismatch_delivers_nothing_after_key (C : Crypto) (cfg : Cfg) (code : PyStr) (pw idS : Bytes) (key : Bytes)
    (evs : List Env) (hev : ∀ e ∈ evs, PeerEv C key e) :
    ∃ s', run C cfg evs (stKey C cfg code pw idS key) = (s', none) ∧
      (∀ e ∈ s'.out, e.delivers = false) ∧ (∀ v, Ev.wClosed v ∉ s'.out) ∧
      ((∃ e ∈ evs, e.isRx = true) →
        s'.b = .S3_closing ∧ s'.result = .wrongPassword ∧ Ev.tClose "scary" ∈ s'.out ∧
        (∀ mood, Ev.tClose mood ∈ s'.out → mood = "scary") ∧
        (run C cfg [.closed] s').2 = none ∧
        (run C cfg [.closed] s').1.out = s'.out ++ [.wClosed .wrongPassword] ∧
        (run C cfg [.close, .closed] s').1.out = s'.out ++ [.wClosed .wrongPassword]) := by
  obtain ⟨s', e, inv, _, hrx, _⟩ :=
    run_inv C cfg key evs (stKey C cfg code pw idS key) (Or.inl (stKey_unverified C cfg code pw idS key)) rfl hev
  refine ⟨s', e, inv.quiet, inv.noClosed, fun h => ?_⟩
  have sc := hrx h
  obtain ⟨c1, c2, _, c4⟩ := scared_closed C cfg key s' sc
  exact ⟨sc.b, sc.res, sc.hasScary, sc.scary, c1, c2, c4⟩

/-- The same when peer messages arrive *before* the PAKE message (Order queues them, and judges
    them right after the key is computed), followed by any later schedule. -/
theorem mismatch_delivers_nothing_queued (C : Crypto) (cfg : Cfg) (code : PyStr) (pw idS : Bytes) (peer : String)
    (m key : Bytes) (hc : toBytes C code = some pw) (ha : toBytes C cfg.appid = some idS)
    (h : C.pakeFinish pw idS cfg.rnd m = some key)
    (pre : List Msg) (hpre : ∀ x ∈ pre, NonPake x ∧ Bad C key x) (hne : pre ≠ [])
    (post : List Env) (hpost : ∀ e ∈ post, PeerEv C key e) :
    ∃ s', run C cfg ([.code code] ++ pre.map .rx ++ [.rx ⟨peer, "pake", pakeBody m⟩] ++ post) init = (s', none) ∧
      (∀ e ∈ s'.out, e.delivers = false) ∧ s'.wkey = some key ∧
      s'.b = .S3_closing ∧ s'.result = .wrongPassword ∧
      (run C cfg [.closed] s').1.out = s'.out ++ [.wClosed .wrongPassword] := by
  have q := queue_early C cfg pre (stCode C cfg code pw idS) rfl (fun x hx => (hpre x hx).1)
  obtain ⟨s1, e1, i1, sc1, o1, _⟩ := drain_bad C cfg key pre { stKey C cfg code pw idS key with oq := pre }
    (Or.inl ((stKey_unverified C cfg code pw idS key).set_oq pre)) (fun x hx => (hpre x hx).2)
  have sc1' := (sc1 hne).clear_oq
  obtain ⟨s2, e2, i2, _, _, keep⟩ := run_inv C cfg key post { s1 with oq := [] } (Or.inr sc1') o1 hpost
  have sc2 := keep sc1'
  have hw : s2.wkey = some key := sc2.wkey
  refine ⟨s2, ?_, i2.quiet, hw, sc2.b, sc2.res, (scared_closed C cfg key s2 sc2).2.1⟩
  have step1 : run C cfg [.code code] init = (stCode C cfg code pw idS, none) := by
    simp only [run, seqM, envStep, gotCode_init C cfg code pw idS hc ha]
  have hq : (stCode C cfg code pw idS).oq ++ pre = pre := by simp [stCode, init]
  have step3 : envStep C cfg (.rx ⟨peer, "pake", pakeBody m⟩) { stCode C cfg code pw idS with oq := pre }
      = ({ s1 with oq := [] }, none) := by
    simp only [envStep, rxPake_stCode_queued C cfg code pw idS peer m key pre h, e1, andThen, ok]
  rw [List.append_assoc, List.append_assoc, run_append, step1]
  simp only []
  rw [run_append, q, hq]
  simp only []
  rw [run_append]
  simp only [run, seqM, step3]
  exact e2

/-- **mismatch_delivers_nothing** (two parties).  If the (encodable) codes are not NFC-equal or the
    appids are not NFC-equal, then for both arrival orders on side `a` and every schedule of messages
    that side `b` sealed under *its* key (its `version` message, any data message) interleaved with
    `a`'s own `send`s, side `a` delivers nothing and — once it has heard from `b` — closes with
    WrongPasswordError. -/
theorem mismatch_delivers_nothing (C : Crypto) (I : C.Ideal) (a b : Cfg) (ca cb : PyStr)
    (hr : a.rnd ≠ b.rnd) (hne : ¬ (C.nfc ca = C.nfc cb ∧ C.nfc a.appid = C.nfc b.appid)) (oa ob : Bool)
    (hca : encodable ca = true) (haa : encodable a.appid = true)
    (hcb : encodable cb = true) (hab : encodable b.appid = true)
    (evs : List Env) :
    ∃ ka kb sa, (sideRun C b cb a ca ob).1.wkey = some kb ∧ sideRun C a ca b cb oa = (sa, none) ∧
      sa.wkey = some ka ∧ ka ≠ kb ∧
      ((∀ e ∈ evs, match e with
          | .rx m => m.phase ≠ "pake" ∧ ∃ nn pt, m.body = C.box (phaseKey C kb m.side m.phase) nn pt
          | .send _ => True
          | _ => False) →
        ∃ s', run C a evs sa = (s', none) ∧ (∀ e ∈ s'.out, e.delivers = false) ∧
          ((∃ e ∈ evs, e.isRx = true) → s'.b = .S3_closing ∧ s'.result = .wrongPassword ∧
            (run C a [.closed] s').1.out = s'.out ++ [.wClosed .wrongPassword])) := by
  obtain ⟨pwa, ida, pwb, idb, h1, h2, h3, h4⟩ := four_bytes I hca haa hcb hab
  obtain ⟨ka, kb, hka, hkb, hiff⟩ := I.pake pwa ida a.rnd pwb idb b.rnd hr
  have hab' : ka ≠ kb := by
    intro h
    apply hne
    have := hiff.mp h
    rwa [toBytes_eq_iff ca cb pwa pwb h1 h3, toBytes_eq_iff a.appid b.appid ida idb h2 h4] at this
  have ea := sideRun_eq C a b ca cb pwa ida pwb idb ka h1 h2 h3 h4 hka oa
  have eb := sideRun_eq C b a cb ca pwb idb pwa ida kb h3 h4 h1 h2 hkb ob
  have hbk : (sideRun C b cb a ca ob).1.wkey = some kb := by
    rw [eb]; cases ob <;> simp [stKey]
  have hbad : ∀ e ∈ evs, (match e with
          | .rx m => m.phase ≠ "pake" ∧ ∃ nn pt, m.body = C.box (phaseKey C kb m.side m.phase) nn pt
          | .send _ => True
          | _ => False) → PeerEv C ka e := by
    intro e _ he
    cases e with
    | rx m =>
      obtain ⟨hp, nn, pt, hbody⟩ := he
      refine ⟨hp, ?_⟩
      have := peer_sealed_bad I ka kb hab' m.side m.phase nn pt
      unfold Bad at this ⊢
      rw [hbody]; exact this
    | send _ => trivial
    | code _ => exact he.elim
    | close => exact he.elim
    | closed => exact he.elim
  cases oa
  · -- PAKE first, then code: the state differs from `stKey` only in the stash
    refine ⟨ka, kb, { stKey C a ca pwa ida ka with stash := some (myPake C b pwb idb) }, hbk, ?_, ?_, hab', ?_⟩
    · rw [ea]; simp
    · simp [stKey]
    · intro hall
      have hall' : ∀ e ∈ evs, PeerEv C ka e := fun e he => hbad e he (hall e he)
      obtain ⟨s', e, inv, _, hrx, _⟩ := run_inv C a ka evs { stKey C a ca pwa ida ka with stash := some (myPake C b pwb idb) }
        (Or.inl (stKey_unverified C a ca pwa ida ka).set_stash) rfl hall'
      refine ⟨s', e, inv.quiet, fun h => ?_⟩
      have sc := hrx h
      exact ⟨sc.b, sc.res, (scared_closed C a ka s' sc).2.1⟩
  · refine ⟨ka, kb, stKey C a ca pwa ida ka, hbk, ?_, ?_, hab', ?_⟩
    · rw [ea]; simp
    · simp [stKey]
    · intro hall
      have hall' : ∀ e ∈ evs, PeerEv C ka e := fun e he => hbad e he (hall e he)
      obtain ⟨s', e, q, _, hsc⟩ := mismatch_delivers_nothing_after_key C a ca pwa ida ka evs hall'
      exact ⟨s', e, q, fun h => ⟨(hsc h).1, (hsc h).2.1, (hsc h).2.2.2.2.2.1⟩⟩

/-- what side `b` really publishes as its `version` message: its versions sealed under the phase
    key derived from *its* session key -/
theorem publishes_version (C : Crypto) (I : C.Ideal) (a b : Cfg) (ca cb : PyStr) (hr : a.rnd ≠ b.rnd) (ob : Bool)
    (hca : encodable ca = true) (haa : encodable a.appid = true)
    (hcb : encodable cb = true) (hab : encodable b.appid = true) :
    ∃ kb, (sideRun C b cb a ca ob).1.wkey = some kb ∧
      sentBody "version" (sideRun C b cb a ca ob).1.out
        = some (C.box (phaseKey C kb b.side "version") (natNonce 0) b.versions) := by
  obtain ⟨pwa, ida, pwb, idb, h1, h2, h3, h4⟩ := four_bytes I hca haa hcb hab
  obtain ⟨_, kb, _, hkb, _⟩ := I.pake pwa ida a.rnd pwb idb b.rnd hr
  have eb := sideRun_eq C b a cb ca pwb idb pwa ida kb h3 h4 h1 h2 hkb ob
  refine ⟨kb, ?_, ?_⟩
  · rw [eb]; cases ob <;> simp [stKey]
  · rw [eb]; cases ob <;> simp [stKey, stCode, sentBody]

/-- **Matching codes, end to end.**  NFC-equal (encodable) codes and appids: when side `a` (either
    arrival order) is handed the `version` message side `b` really published, it becomes happy and
    reports exactly the verifier `HKDF(key, "wormhole:verifier")` of the shared key and `b`'s versions.
    By symmetry the same holds for `b`, with the same key, hence the same verifier. -/
theorem match_exchange (C : Crypto) (I : C.Ideal) (a b : Cfg) (ca cb : PyStr) (hr : a.rnd ≠ b.rnd)
    (hsame : C.nfc ca = C.nfc cb ∧ C.nfc a.appid = C.nfc b.appid) (oa ob : Bool)
    (hca : encodable ca = true) (haa : encodable a.appid = true)
    (hcb : encodable cb = true) (hab : encodable b.appid = true) :
    ∃ key vb sa', sentBody "version" (sideRun C b cb a ca ob).1.out = some vb ∧
      (sideRun C a ca b cb oa).1.wkey = some key ∧ (sideRun C b cb a ca ob).1.wkey = some key ∧
      run C a [.rx ⟨b.side, "version", vb⟩] (sideRun C a ca b cb oa).1 = (sa', none) ∧
      sa'.b = .S2_happy ∧ sa'.r = .S2_verified_key ∧
      sa'.out = (sideRun C a ca b cb oa).1.out ++
        [.wVerifier (C.hkdf key verifierPurpose 32), .wVersions b.versions] := by
  obtain ⟨pwa, ida, pwb, idb, h1, h2, h3, h4⟩ := four_bytes I hca haa hcb hab
  obtain ⟨ka, kb, hka, hkb, hiff⟩ := I.pake pwa ida a.rnd pwb idb b.rnd hr
  have hk : ka = kb := hiff.mpr ⟨(toBytes_eq_iff ca cb pwa pwb h1 h3).mpr hsame.1,
    (toBytes_eq_iff a.appid b.appid ida idb h2 h4).mpr hsame.2⟩
  subst hk
  have ea := sideRun_eq C a b ca cb pwa ida pwb idb ka h1 h2 h3 h4 hka oa
  have eb := sideRun_eq C b a cb ca pwb idb pwa ida ka h3 h4 h1 h2 hkb ob
  have hun := I.unbox_box (phaseKey C ka b.side "version") (natNonce 0) b.versions
  refine ⟨ka, C.box (phaseKey C ka b.side "version") (natNonce 0) b.versions, ?_⟩
  cases oa
  · refine ⟨{ stHappy C a ca pwa ida ka b.versions with stash := some (myPake C b pwb idb) }, ?_, ?_, ?_, ?_, rfl, rfl, ?_⟩
    · rw [eb]; cases ob <;> simp [stKey, stCode, sentBody]
    · rw [ea]; simp [stKey]
    · rw [eb]; cases ob <;> simp [stKey]
    · rw [ea]
      simp only [Bool.false_eq_true, if_false, run, seqM, envStep]
      rw [rxVersion_stKey_stash C a ca pwa ida b.side ka _ b.versions _ hun]
    · rw [ea]; simp [stHappy]
  · refine ⟨stHappy C a ca pwa ida ka b.versions, ?_, ?_, ?_, ?_, rfl, rfl, ?_⟩
    · rw [eb]; cases ob <;> simp [stKey, stCode, sentBody]
    · rw [ea]; simp [stKey]
    · rw [eb]; cases ob <;> simp [stKey]
    · rw [ea]
      simp only [if_true, run, seqM, envStep]
      rw [rxVersion_stKey C a ca pwa ida b.side ka _ b.versions hun]
    · rw [ea]; simp [stHappy]

/-! ## non-vacuity: the hypotheses are met by concrete, non-trivial data -/

def cfgA : Cfg := { side := "s0", appid := py "app", versions := [1, 2], rnd := [0] }
def cfgB : Cfg := { side := "s1", appid := py "app", versions := [3], rnd := [1] }

/-- the ideal hypotheses are satisfiable (toy instance with a non-identity normaliser) -/
example : ∃ C : Crypto, C.Ideal ∧ C.nfc (py "A\u030a") ≠ py "A\u030a" :=
  ⟨toyCrypto sampleNfc, sampleIdeal, by decide⟩

/-- a matching run and a mismatching run on the toy instance: keys equal resp. different -/
example : (sideRun (toyCrypto sampleNfc) cfgA (py "A\u030a") cfgB (py "\u00c5") true).1.wkey
        = (sideRun (toyCrypto sampleNfc) cfgB (py "\u00c5") cfgA (py "A\u030a") false).1.wkey := by
  decide
example : (sideRun (toyCrypto sampleNfc) cfgA (py "4-a") cfgB (py "4-b") true).1.wkey
        ≠ (sideRun (toyCrypto sampleNfc) cfgB (py "4-b") cfgA (py "4-a") true).1.wkey := by
  decide
/-- … and they do hold keys (the equality above is not `none = none`) -/
example : (sideRun (toyCrypto sampleNfc) cfgA (py "A\u030a") cfgB (py "\u00c5") true).1.wkey ≠ none := by
  decide

/-- a refused run on the toy instance: the code with a lone surrogate raises, its peer stays without key -/
example : (sideRun (toyCrypto sampleNfc) cfgA [0x34, 0x2d, 0xdce9] cfgB (py "4-b") true).2 = some .unicodeEncodeError ∧
    (sideRun (toyCrypto sampleNfc) cfgB (py "4-b") cfgA [0x34, 0x2d, 0xdce9] true).1.wkey = none := by
  decide

/-- the schedule hypothesis of `mismatch_delivers_nothing_after_key` is met by a real peer message:
    the `version` message that side B seals under its own (different) key -/
example : PeerEv (toyCrypto sampleNfc) [9]
    (.rx ⟨"s1", "version", (toyCrypto sampleNfc).box (phaseKey (toyCrypto sampleNfc) [8] "s1" "version") [0] [3]⟩) :=
  ⟨by decide, peer_sealed_bad sampleIdeal [9] [8] (by decide) "s1" "version" [0] [3]⟩

end WV.Props.C01
