import WV.Model.C01
import WV.Proofs.C01
import WV.Proofs.C01_Toy

/-!
C01 — property theorems.  `C : Crypto` is arbitrary; `I : C.Ideal` are the ideal properties of
SPAKE2 / HKDF / SHA-256 / SecretBox / NFC (hypotheses, satisfied by the toy instance: `sampleIdeal`).
All statements are about `WV.C01.run` / `gotCode` / `orderGotMessage` / `deriveKey`, the functions
the driver executes, over the generated Key/_SortedKey/Order/Receive/Send/Boss tables.
-/
namespace WV.Props.C01
open WV WV.Gen WV.C01

/-- the PAKE message (mailbox body) a client with this configuration and code publishes -/
abbrev pakeOf (C : Crypto) (cfg : Cfg) (code : String) : Bytes := myPake C cfg code

/-- One side of a two-party run: it learns its code and the peer's PAKE message, in either order
    (`codeFirst = false` is the `input_code` / slow-typist path through Key.S01). -/
def sideRun (C : Crypto) (cfg : Cfg) (code : String) (peer : Cfg) (peerCode : String) (codeFirst : Bool) : Res :=
  let m : Msg := ⟨peer.side, "pake", pakeOf C peer peerCode⟩
  if codeFirst then run C cfg [.code code, .rx m] init else run C cfg [.rx m, .code code] init

/-- the hand-written call shapes of all modelled output bodies equal the skeletons extracted from
    the working tree (order of `B.got_key / M.add_message / R.got_key`, of `SK.got_code / SK.got_pake`,
    of `B.got_code / K.got_code`, …) -/
theorem skeleton_agrees : shapeAgrees = true := by decide +kernel

/-- Both arrival orders feed exactly `(to_bytes(code), to_bytes(appid))` and the peer's element to
    SPAKE2, and end in the same state (same key in Wormhole, Receive; same events in the same
    order) — the stash path differs only in the remembered stash. -/
theorem stash_then_code_eq_code_then_pake (C : Crypto) (cfg : Cfg) (code peer : String) (m key : Bytes)
    (h : C.pakeFinish (toBytes C code) (toBytes C cfg.appid) cfg.rnd m = some key) :
    run C cfg [.code code, .rx ⟨peer, "pake", pakeBody m⟩] init = (stKey C cfg code key, none) ∧
    run C cfg [.rx ⟨peer, "pake", pakeBody m⟩, .code code] init
      = ({ stKey C cfg code key with stash := some (pakeBody m) }, none) := by
  constructor
  · simp only [run, seqM, envStep, gotCode_init, rxPake_stCode C cfg code peer m key h]
  · simp only [run, seqM, envStep, rxPake_init, gotCode_stashed C cfg code m key h]

/-- a PAKE message is hostile for this client when its body carries no usable element (not JSON,
    not an object, no `pake_v1`, not hex) or SPAKE2 refuses the element (malformed, not on the
    curve, wrong side byte, our own element reflected) -/
def HostilePake (C : Crypto) (cfg : Cfg) (code : String) (body : Bytes) : Prop :=
  parsePake body = none ∨
  ∃ m, body = pakeBody m ∧ C.pakeFinish (toBytes C code) (toBytes C cfg.appid) cfg.rnd m = none

/-- **hostile_pake_scares.**  A hostile PAKE message is a "codes differ / stranger" case: for both
    arrival orders and every later schedule of peer messages (with any body) and application
    sends, nothing raises, no key is ever reported or kept (`derive_key` keeps raising NoKeyError),
    no verifier / versions / message is delivered, `T.close` is only ever called with mood "scary",
    and the side closes with exactly WrongPasswordError. -/
theorem hostile_pake_scares (C : Crypto) (cfg : Cfg) (code peer : String) (body : Bytes)
    (h : HostilePake C cfg code body) (codeFirst : Bool) (later : List Env) (hl : ∀ e ∈ later, e.later) :
    ∃ s', run C cfg ((if codeFirst then [.code code, .rx ⟨peer, "pake", body⟩]
                      else [.rx ⟨peer, "pake", body⟩, .code code]) ++ later) init = (s', none) ∧
      s'.wkey = none ∧ (∀ k, Ev.wKey k ∉ s'.out) ∧ (∀ e ∈ s'.out, e.delivers = false) ∧
      s'.b = .S3_closing ∧ s'.result = .wrongPassword ∧
      Ev.tClose "scary" ∈ s'.out ∧ (∀ mood, Ev.tClose mood ∈ s'.out → mood = "scary") ∧
      (∀ p n, deriveKey C s' p n = .error .noKeyError) ∧
      (run C cfg [.closed] s').2 = none ∧
      (run C cfg [.closed] s').1.out = s'.out ++ [.wClosed .wrongPassword] ∧
      (run C cfg [.close, .closed] s').1.out = s'.out ++ [.wClosed .wrongPassword] := by
  -- the state after the two-event prefix
  have hpre : ∃ skst x, run C cfg (if codeFirst then [.code code, .rx ⟨peer, "pake", body⟩]
                      else [.rx ⟨peer, "pake", body⟩, .code code]) init
        = ({ stHostile C cfg code skst with stash := x }, none) := by
    rcases h with h | ⟨m, rfl, h⟩
    · refine ⟨.S3_scared, if codeFirst then none else some body, ?_⟩
      cases codeFirst
      · simp only [Bool.false_eq_true, if_false, run, seqM, envStep, rxPake_init,
          gotCode_stashed_unusable C cfg code body h]
      · simp only [if_true, run, seqM, envStep, gotCode_init, rxPake_stCode_unusable C cfg code peer body h]
        rfl
    · refine ⟨.S2_know_key, if codeFirst then none else some (pakeBody m), ?_⟩
      cases codeFirst
      · simp only [Bool.false_eq_true, if_false, run, seqM, envStep, rxPake_init,
          gotCode_stashed_refused C cfg code m h]
      · simp only [if_true, run, seqM, envStep, gotCode_init, rxPake_stCode_refused C cfg code peer m h]
        rfl
  obtain ⟨skst, x, hp⟩ := hpre
  obtain ⟨s', e, r⟩ := run_refused C cfg later { stHostile C cfg code skst with stash := x }
    (stHostile_refused C cfg code skst x) rfl hl
  obtain ⟨c1, c2, _, c4⟩ := refused_closed C cfg s' r
  refine ⟨s', ?_, r.wkey, r.noKey, r.quiet, r.b, r.res, r.hasScary, r.scary, ?_, c1, c2, c4⟩
  · rw [run_append, hp]; exact e
  · intro p n; simp [deriveKey, r.wkey]

/-- the hypothesis is met by the toy instance: a body without the element tag, and a reflected element -/
example : HostilePake (toyCrypto sampleNfc) ⟨"s0", "app", [1], [0]⟩ "4-a" [2] := Or.inl rfl
example : HostilePake (toyCrypto sampleNfc) ⟨"s0", "app", [1], [0]⟩ "4-a"
    (myPake (toyCrypto sampleNfc) ⟨"s0", "app", [1], [0]⟩ "4-a") :=
  Or.inr ⟨_, rfl, by decide⟩

/-- what a side publishes as its PAKE message does not depend on the arrival order -/
theorem publishes_pake (C : Crypto) (I : C.Ideal) (a b : Cfg) (ca cb : String) (hr : a.rnd ≠ b.rnd) (o : Bool) :
    sentBody "pake" (sideRun C a ca b cb o).1.out = some (pakeOf C a ca) := by
  obtain ⟨k, _, hk, _, _⟩ := I.pake (toBytes C ca) (toBytes C a.appid) a.rnd (toBytes C cb) (toBytes C b.appid) b.rnd hr
  have := stash_then_code_eq_code_then_pake C a ca b.side _ k hk
  cases o
  · simp only [sideRun, pakeOf, myPake, Bool.false_eq_true, if_false]
    rw [show pakeBody (C.pakeStart (toBytes C cb) (toBytes C b.appid) b.rnd) = pakeBody (C.pakeStart (toBytes C cb) (toBytes C b.appid) b.rnd) from rfl, this.2]
    simp [stKey, stCode, sentBody, myPake]
  · simp only [sideRun, pakeOf, myPake, if_true]
    rw [this.1]
    simp [stKey, stCode, sentBody, myPake]

/-- **key_agree_iff.**  Two clients with arbitrary codes, appids and arrival orders (four
    combinations of PAKE-before-code / code-before-PAKE) both finish without exception, both hold a
    key (the same one in `Wormhole._key` and `Receive._key`), and the two keys are equal exactly when
    the codes are NFC-equal and the appids are NFC-equal. -/
theorem key_agree_iff (C : Crypto) (I : C.Ideal) (a b : Cfg) (ca cb : String) (hr : a.rnd ≠ b.rnd)
    (oa ob : Bool) :
    ∃ ka kb,
      (sideRun C a ca b cb oa).2 = none ∧ (sideRun C b cb a ca ob).2 = none ∧
      (sideRun C a ca b cb oa).1.wkey = some ka ∧ (sideRun C a ca b cb oa).1.rkey = some ka ∧
      (sideRun C b cb a ca ob).1.wkey = some kb ∧ (sideRun C b cb a ca ob).1.rkey = some kb ∧
      (ka = kb ↔ C.nfc ca = C.nfc cb ∧ C.nfc a.appid = C.nfc b.appid) := by
  obtain ⟨ka, kb, hka, hkb, hiff⟩ :=
    I.pake (toBytes C ca) (toBytes C a.appid) a.rnd (toBytes C cb) (toBytes C b.appid) b.rnd hr
  have ha := stash_then_code_eq_code_then_pake C a ca b.side _ ka hka
  have hb := stash_then_code_eq_code_then_pake C b cb a.side _ kb hkb
  refine ⟨ka, kb, ?_, ?_, ?_, ?_, ?_, ?_, ?_⟩
  · cases oa <;> simp [sideRun, pakeOf, myPake, ha.1, ha.2]
  · cases ob <;> simp [sideRun, pakeOf, myPake, hb.1, hb.2]
  · cases oa <;> simp [sideRun, pakeOf, myPake, ha.1, ha.2, stKey]
  · cases oa <;> simp [sideRun, pakeOf, myPake, ha.1, ha.2, stKey]
  · cases ob <;> simp [sideRun, pakeOf, myPake, hb.1, hb.2, stKey]
  · cases ob <;> simp [sideRun, pakeOf, myPake, hb.1, hb.2, stKey]
  · rw [hiff, toBytes_eq_iff I, toBytes_eq_iff I]

/-- NFC-equivalent spellings of a code agree: typing `nfc c` instead of `c` gives the same key. -/
theorem nfc_spelling_agrees (C : Crypto) (I : C.Ideal) (a b : Cfg) (c : String) (hr : a.rnd ≠ b.rnd)
    (happ : a.appid = b.appid) (oa ob : Bool) :
    (sideRun C a c b (C.nfc c) oa).1.wkey = (sideRun C b (C.nfc c) a c ob).1.wkey := by
  obtain ⟨ka, kb, _, _, h1, _, h2, _, hiff⟩ := key_agree_iff C I a b c (C.nfc c) hr oa ob
  rw [h1, h2, hiff.mpr ⟨(I.nfc_idem c).symm, by rw [happ]⟩]

/-- **match_derive_equal.**  Equal keys ⇒ after each side decrypts the other's `version` message it
    reports the same verifier, and `derive_key(p, n)` returns the same result on both sides for every
    purpose and length (including the error cases). -/
theorem match_derive_equal (C : Crypto) (a b : Cfg) (ca cb : String) (key pa pb : Bytes) (p : String) (n : Nat) :
    let sa := stHappy C a ca key pa
    let sb := stHappy C b cb key pb
    (∃ v, Ev.wVerifier v ∈ sa.out ∧ Ev.wVerifier v ∈ sb.out ∧ v = C.hkdf key verifierPurpose 32) ∧
    deriveKey C sa p n = deriveKey C sb p n ∧
    (n ≤ hkdfMax → deriveKey C sa p n = .ok (C.hkdf key (toBytes C p) n)) := by
  refine ⟨⟨_, ?_, ?_, rfl⟩, ?_, ?_⟩
  · simp [stHappy]
  · simp [stHappy]
  · simp [deriveKey, stHappy, stKey]
  · intro hn
    simp [deriveKey, stHappy, stKey, Nat.not_lt.mpr hn]

/-- `stHappy` is what really happens: the peer's `version` message, sealed under the same key,
    moves Receive/Send/Boss to verified/happy and emits verifier then versions — nothing else. -/
theorem first_good_message (C : Crypto) (I : C.Ideal) (cfg : Cfg) (code peer : String) (key nn pt : Bytes) :
    orderGotMessage C cfg ⟨peer, "version", C.box (phaseKey C key peer "version") nn pt⟩ (stKey C cfg code key)
      = (stHappy C cfg code key pt, none) :=
  rxVersion_stKey C cfg code peer key _ pt (I.unbox_box _ _ _)

/-- before the key exists `derive_key` raises NoKeyError (initially, and after the code alone) -/
theorem derive_before_key (C : Crypto) (cfg : Cfg) (code p : String) (n : Nat) :
    deriveKey C init p n = .error .noKeyError ∧
    deriveKey C (gotCode C cfg code init).1 p n = .error .noKeyError := by
  rw [gotCode_init]
  simp [deriveKey, stCode, init]

/-- **purposes_separate.**  For `1 ≤ n ≤ 255·32`, NFC-different purposes give different bytes
    (`derive_key` normalises the purpose, so "different" means NFC-different). -/
theorem purposes_separate (C : Crypto) (I : C.Ideal) (s : St) (key : Bytes) (hk : s.wkey = some key)
    (p q : String) (hpq : C.nfc p ≠ C.nfc q) (n : Nat) (h1 : 1 ≤ n) (h2 : n ≤ hkdfMax) :
    ∃ x y, deriveKey C s p n = .ok x ∧ deriveKey C s q n = .ok y ∧ x ≠ y := by
  refine ⟨C.hkdf key (toBytes C p) n, C.hkdf key (toBytes C q) n, ?_, ?_, ?_⟩
  · simp [deriveKey, hk, Nat.not_lt.mpr h2]
  · simp [deriveKey, hk, Nat.not_lt.mpr h2]
  · intro h
    exact hpq ((toBytes_eq_iff I p q).mp (I.hkdf_inj _ _ _ _ n h1 h).2)

/-- the guard is exact: beyond `255·32` both calls raise ValueError … -/
theorem purposes_guard_upper (C : Crypto) (s : St) (key : Bytes) (hk : s.wkey = some key) (p q : String)
    (n : Nat) (h : hkdfMax < n) : deriveKey C s p n = .error .valueError ∧ deriveKey C s q n = .error .valueError := by
  simp [deriveKey, hk, h]

/-- … and at `n = 0` an ideal instance returns the same (empty) bytes for all purposes -/
theorem purposes_guard_zero :
    ∃ (C : Crypto) (_ : C.Ideal) (s : St) (p q : String), C.nfc p ≠ C.nfc q ∧ s.wkey ≠ none ∧
      deriveKey C s p 0 = deriveKey C s q 0 :=
  ⟨toyCrypto sampleNfc, sampleIdeal, { init with wkey := some [7] }, "a", "b",
    by simp [toyCrypto, sampleNfc], by simp [init], by simp [deriveKey, toyCrypto, hkdfMax]⟩

/-- **mismatch_delivers_nothing** (one side, any key it does not share).  After the key is
    computed, for every schedule of undecryptable non-PAKE peer messages and application `send`s:
    no exception, no verifier / versions / message is ever delivered, and as soon as one peer
    message has arrived the side is closing with WrongPasswordError, `T.close` was only ever called
    with mood "scary", and Terminator's `closed` (with or without an application `close()` first)
    reports exactly WrongPasswordError. -/
theorem mismatch_delivers_nothing_after_key (C : Crypto) (cfg : Cfg) (code : String) (key : Bytes)
    (evs : List Env) (hev : ∀ e ∈ evs, PeerEv C key e) :
    ∃ s', run C cfg evs (stKey C cfg code key) = (s', none) ∧
      (∀ e ∈ s'.out, e.delivers = false) ∧ (∀ v, Ev.wClosed v ∉ s'.out) ∧
      ((∃ e ∈ evs, e.isRx = true) →
        s'.b = .S3_closing ∧ s'.result = .wrongPassword ∧ Ev.tClose "scary" ∈ s'.out ∧
        (∀ mood, Ev.tClose mood ∈ s'.out → mood = "scary") ∧
        (run C cfg [.closed] s').2 = none ∧
        (run C cfg [.closed] s').1.out = s'.out ++ [.wClosed .wrongPassword] ∧
        (run C cfg [.close, .closed] s').1.out = s'.out ++ [.wClosed .wrongPassword]) := by
  obtain ⟨s', e, inv, _, hrx, _⟩ :=
    run_inv C cfg key evs (stKey C cfg code key) (Or.inl (stKey_unverified C cfg code key)) rfl hev
  refine ⟨s', e, inv.quiet, inv.noClosed, fun h => ?_⟩
  have sc := hrx h
  obtain ⟨c1, c2, _, c4⟩ := scared_closed C cfg key s' sc
  exact ⟨sc.b, sc.res, sc.hasScary, sc.scary, c1, c2, c4⟩

/-- The same when peer messages arrive *before* the PAKE message (Order queues them, and judges
    them right after the key is computed), followed by any later schedule. -/
theorem mismatch_delivers_nothing_queued (C : Crypto) (cfg : Cfg) (code peer : String) (m key : Bytes)
    (h : C.pakeFinish (toBytes C code) (toBytes C cfg.appid) cfg.rnd m = some key)
    (pre : List Msg) (hpre : ∀ x ∈ pre, NonPake x ∧ Bad C key x) (hne : pre ≠ [])
    (post : List Env) (hpost : ∀ e ∈ post, PeerEv C key e) :
    ∃ s', run C cfg ([.code code] ++ pre.map .rx ++ [.rx ⟨peer, "pake", pakeBody m⟩] ++ post) init = (s', none) ∧
      (∀ e ∈ s'.out, e.delivers = false) ∧ s'.wkey = some key ∧
      s'.b = .S3_closing ∧ s'.result = .wrongPassword ∧
      (run C cfg [.closed] s').1.out = s'.out ++ [.wClosed .wrongPassword] := by
  have q := queue_early C cfg pre (stCode C cfg code) rfl (fun x hx => (hpre x hx).1)
  obtain ⟨s1, e1, i1, sc1, o1, _⟩ := drain_bad C cfg key pre { stKey C cfg code key with oq := pre }
    (Or.inl ((stKey_unverified C cfg code key).set_oq pre)) (fun x hx => (hpre x hx).2)
  have sc1' := (sc1 hne).clear_oq
  obtain ⟨s2, e2, i2, _, _, keep⟩ := run_inv C cfg key post { s1 with oq := [] } (Or.inr sc1') o1 hpost
  have sc2 := keep sc1'
  have hw : s2.wkey = some key := sc2.wkey
  refine ⟨s2, ?_, i2.quiet, hw, sc2.b, sc2.res, (scared_closed C cfg key s2 sc2).2.1⟩
  have step1 : run C cfg [.code code] init = (stCode C cfg code, none) := by
    simp only [run, seqM, envStep, gotCode_init]
  have hq : (stCode C cfg code).oq ++ pre = pre := by simp [stCode, init]
  have step3 : envStep C cfg (.rx ⟨peer, "pake", pakeBody m⟩) { stCode C cfg code with oq := pre }
      = ({ s1 with oq := [] }, none) := by
    simp only [envStep, rxPake_stCode_queued C cfg code peer m key pre h, e1, andThen, ok]
  rw [List.append_assoc, List.append_assoc, run_append, step1]
  simp only []
  rw [run_append, q, hq]
  simp only []
  rw [run_append]
  simp only [run, seqM, step3]
  exact e2

/-- **mismatch_delivers_nothing** (two parties).  If the codes are not NFC-equal or the appids are
    not NFC-equal, then for both arrival orders on side `a` and every schedule of messages that side
    `b` sealed under *its* key (its `version` message, any data message) interleaved with `a`'s own
    `send`s, side `a` delivers nothing and — once it has heard from `b` — closes with
    WrongPasswordError. -/
theorem mismatch_delivers_nothing (C : Crypto) (I : C.Ideal) (a b : Cfg) (ca cb : String)
    (hr : a.rnd ≠ b.rnd) (hne : ¬ (C.nfc ca = C.nfc cb ∧ C.nfc a.appid = C.nfc b.appid)) (oa ob : Bool)
    (evs : List Env) :
    ∃ ka kb sa, (sideRun C b cb a ca ob).1.wkey = some kb ∧ sideRun C a ca b cb oa = (sa, none) ∧
      sa.wkey = some ka ∧ ka ≠ kb ∧
      ((∀ e ∈ evs, match e with
          | .rx m => m.phase ≠ "pake" ∧ ∃ nn pt, m.body = C.box (phaseKey C kb m.side m.phase) nn pt
          | .send _ => True
          | _ => False) →
        ∃ s', run C a evs sa = (s', none) ∧ (∀ e ∈ s'.out, e.delivers = false) ∧
          ((∃ e ∈ evs, e.isRx = true) → s'.b = .S3_closing ∧ s'.result = .wrongPassword ∧
            (run C a [.closed] s').1.out = s'.out ++ [.wClosed .wrongPassword])) := by
  obtain ⟨ka, kb, hka, hkb, hiff⟩ :=
    I.pake (toBytes C ca) (toBytes C a.appid) a.rnd (toBytes C cb) (toBytes C b.appid) b.rnd hr
  have hab : ka ≠ kb := by
    intro h
    apply hne
    have := hiff.mp h
    rwa [toBytes_eq_iff I, toBytes_eq_iff I] at this
  have ha := stash_then_code_eq_code_then_pake C a ca b.side _ ka hka
  have hb := stash_then_code_eq_code_then_pake C b cb a.side _ kb hkb
  have hbk : (sideRun C b cb a ca ob).1.wkey = some kb := by
    cases ob <;> simp [sideRun, pakeOf, myPake, hb.1, hb.2, stKey]
  have hbad : ∀ e ∈ evs, (match e with
          | .rx m => m.phase ≠ "pake" ∧ ∃ nn pt, m.body = C.box (phaseKey C kb m.side m.phase) nn pt
          | .send _ => True
          | _ => False) → PeerEv C ka e := by
    intro e _ he
    cases e with
    | rx m =>
      obtain ⟨hp, nn, pt, hbody⟩ := he
      refine ⟨hp, ?_⟩
      have := peer_sealed_bad I ka kb hab m.side m.phase nn pt
      unfold Bad at this ⊢
      rw [hbody]; exact this
    | send _ => trivial
    | code _ => exact he.elim
    | close => exact he.elim
    | closed => exact he.elim
  cases oa
  · -- PAKE first, then code: the state differs from `stKey` only in the stash
    refine ⟨ka, kb, { stKey C a ca ka with stash := some (pakeOf C b cb) }, hbk, ?_, ?_, hab, ?_⟩
    · simp [sideRun, pakeOf, myPake, ha.2]
    · simp [stKey]
    · intro hall
      have hall' : ∀ e ∈ evs, PeerEv C ka e := fun e he => hbad e he (hall e he)
      obtain ⟨s', e, inv, _, hrx, _⟩ := run_inv C a ka evs { stKey C a ca ka with stash := some (pakeOf C b cb) }
        (Or.inl (stKey_unverified C a ca ka).set_stash) rfl hall'
      refine ⟨s', e, inv.quiet, fun h => ?_⟩
      have sc := hrx h
      exact ⟨sc.b, sc.res, (scared_closed C a ka s' sc).2.1⟩
  · refine ⟨ka, kb, stKey C a ca ka, hbk, ?_, ?_, hab, ?_⟩
    · simp [sideRun, pakeOf, myPake, ha.1]
    · simp [stKey]
    · intro hall
      have hall' : ∀ e ∈ evs, PeerEv C ka e := fun e he => hbad e he (hall e he)
      obtain ⟨s', e, q, _, hsc⟩ := mismatch_delivers_nothing_after_key C a ca ka evs hall'
      exact ⟨s', e, q, fun h => ⟨(hsc h).1, (hsc h).2.1, (hsc h).2.2.2.2.2.1⟩⟩

/-- what side `b` really publishes as its `version` message: its versions sealed under the phase
    key derived from *its* session key -/
theorem publishes_version (C : Crypto) (I : C.Ideal) (a b : Cfg) (ca cb : String) (hr : a.rnd ≠ b.rnd) (ob : Bool) :
    ∃ kb, (sideRun C b cb a ca ob).1.wkey = some kb ∧
      sentBody "version" (sideRun C b cb a ca ob).1.out
        = some (C.box (phaseKey C kb b.side "version") (natNonce 0) b.versions) := by
  obtain ⟨_, kb, _, hkb, _⟩ :=
    I.pake (toBytes C ca) (toBytes C a.appid) a.rnd (toBytes C cb) (toBytes C b.appid) b.rnd hr
  have hb := stash_then_code_eq_code_then_pake C b cb a.side _ kb hkb
  refine ⟨kb, ?_, ?_⟩
  · cases ob <;> simp [sideRun, pakeOf, myPake, hb.1, hb.2, stKey]
  · cases ob <;> simp [sideRun, pakeOf, myPake, hb.1, hb.2, stKey, stCode, sentBody]

/-- **Matching codes, end to end.**  NFC-equal codes and appids: when side `a` (either arrival order)
    is handed the `version` message side `b` really published, it becomes happy and reports exactly
    the verifier `HKDF(key, "wormhole:verifier")` of the shared key and `b`'s versions. By symmetry
    the same holds for `b`, with the same key, hence the same verifier. -/
theorem match_exchange (C : Crypto) (I : C.Ideal) (a b : Cfg) (ca cb : String) (hr : a.rnd ≠ b.rnd)
    (hsame : C.nfc ca = C.nfc cb ∧ C.nfc a.appid = C.nfc b.appid) (oa ob : Bool) :
    ∃ key vb sa', sentBody "version" (sideRun C b cb a ca ob).1.out = some vb ∧
      (sideRun C a ca b cb oa).1.wkey = some key ∧ (sideRun C b cb a ca ob).1.wkey = some key ∧
      run C a [.rx ⟨b.side, "version", vb⟩] (sideRun C a ca b cb oa).1 = (sa', none) ∧
      sa'.b = .S2_happy ∧ sa'.r = .S2_verified_key ∧
      sa'.out = (sideRun C a ca b cb oa).1.out ++
        [.wVerifier (C.hkdf key verifierPurpose 32), .wVersions b.versions] := by
  obtain ⟨ka, kb, hka, hkb, hiff⟩ :=
    I.pake (toBytes C ca) (toBytes C a.appid) a.rnd (toBytes C cb) (toBytes C b.appid) b.rnd hr
  have hk : ka = kb := hiff.mpr ⟨(toBytes_eq_iff I _ _).mpr hsame.1, (toBytes_eq_iff I _ _).mpr hsame.2⟩
  subst hk
  have ha := stash_then_code_eq_code_then_pake C a ca b.side _ ka hka
  have hb := stash_then_code_eq_code_then_pake C b cb a.side _ ka hkb
  have hun := I.unbox_box (phaseKey C ka b.side "version") (natNonce 0) b.versions
  refine ⟨ka, C.box (phaseKey C ka b.side "version") (natNonce 0) b.versions, ?_⟩
  cases oa
  · refine ⟨{ stHappy C a ca ka b.versions with stash := some (pakeOf C b cb) }, ?_, ?_, ?_, ?_, rfl, rfl, ?_⟩
    · cases ob <;> simp [sideRun, pakeOf, myPake, hb.1, hb.2, stKey, stCode, sentBody]
    · simp [sideRun, pakeOf, myPake, ha.2, stKey]
    · cases ob <;> simp [sideRun, pakeOf, myPake, hb.1, hb.2, stKey]
    · have hsa : sideRun C a ca b cb false = ({ stKey C a ca ka with stash := some (pakeOf C b cb) }, none) := by
        simp [sideRun, pakeOf, myPake, ha.2]
      rw [hsa]
      simp only [run, seqM, envStep]
      rw [rxVersion_stKey_stash C a ca b.side ka _ b.versions _ hun]
    · simp [sideRun, pakeOf, myPake, ha.2, stHappy]
  · refine ⟨stHappy C a ca ka b.versions, ?_, ?_, ?_, ?_, rfl, rfl, ?_⟩
    · cases ob <;> simp [sideRun, pakeOf, myPake, hb.1, hb.2, stKey, stCode, sentBody]
    · simp [sideRun, pakeOf, myPake, ha.1, stKey]
    · cases ob <;> simp [sideRun, pakeOf, myPake, hb.1, hb.2, stKey]
    · have hsa : sideRun C a ca b cb true = (stKey C a ca ka, none) := by
        simp [sideRun, pakeOf, myPake, ha.1]
      rw [hsa]
      simp only [run, seqM, envStep]
      rw [rxVersion_stKey C a ca b.side ka _ b.versions hun]
    · simp [sideRun, pakeOf, myPake, ha.1, stHappy]

/-! ## non-vacuity: the hypotheses are met by concrete, non-trivial data -/

def cfgA : Cfg := { side := "s0", appid := "app", versions := [1, 2], rnd := [0] }
def cfgB : Cfg := { side := "s1", appid := "app", versions := [3], rnd := [1] }

/-- the ideal hypotheses are satisfiable (toy instance with a non-identity normaliser) -/
example : ∃ C : Crypto, C.Ideal ∧ C.nfc "A\u030a" ≠ "A\u030a" :=
  ⟨toyCrypto sampleNfc, sampleIdeal, by simp [toyCrypto, sampleNfc]⟩

/-- a matching run and a mismatching run on the toy instance: keys equal resp. different -/
example : (sideRun (toyCrypto sampleNfc) cfgA "A\u030a" cfgB "\u00c5" true).1.wkey
        = (sideRun (toyCrypto sampleNfc) cfgB "\u00c5" cfgA "A\u030a" false).1.wkey := by
  decide
example : (sideRun (toyCrypto sampleNfc) cfgA "4-a" cfgB "4-b" true).1.wkey
        ≠ (sideRun (toyCrypto sampleNfc) cfgB "4-b" cfgA "4-a" true).1.wkey := by
  decide

/-- the schedule hypothesis of `mismatch_delivers_nothing_after_key` is met by a real peer message:
    the `version` message that side B seals under its own (different) key -/
example : PeerEv (toyCrypto sampleNfc) [9]
    (.rx ⟨"s1", "version", (toyCrypto sampleNfc).box (phaseKey (toyCrypto sampleNfc) [8] "s1" "version") [0] [3]⟩) :=
  ⟨by decide, peer_sealed_bad sampleIdeal [9] [8] (by decide) "s1" "version" [0] [3]⟩

end WV.Props.C01
