import WV.Gen.Transit

/-!
C07 — the truthiness pin.  `Common.connection_ready` decides between `go` and `nevermind` with
`if self._winner:` — a test of the TRUTH VALUE of a `Connection` object.  The model
(`WV.C07.connectionReady`) and every C07 theorem read it as "`_winner` is not `None`".  That reading
is right exactly as long as a `Connection` cannot be falsy; the translator reports how the test is
written and every `__bool__` / `__len__` in the MRO of `Connection` (seed C07_t added a `__len__`
that counts queued inbound records: a winner with an empty queue became falsy and the Sender forgot
it had one).
-/
namespace WV.Props.C07Pin

/-- **the truthiness pin.**  `connection_ready` guards `nevermind` with a test of `self._winner`
    (`connection_ready_checks_winner`), and that test means "`_winner` is not `None`": either it is
    written `is not None`, or it is `if self._winner:` and no class in the MRO of `Connection` defines
    `__bool__` or `__len__` — otherwise a winner with, say, an empty record queue would be falsy and
    the Sender would forget it had one. -/
theorem winner_test_is_about_none :
    Gen.Transit.connection_ready_checks_winner = true ∧ Gen.Transit.winner_test_means_is_set = true ∧
    (Gen.Transit.connection_ready_winner_test = "is-not-none" ∨
      (Gen.Transit.connection_ready_winner_test = "truth" ∧ Gen.Transit.connection_truth_hooks = [])) := by
  decide


end WV.Props.C07Pin
