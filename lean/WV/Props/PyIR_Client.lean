import WV.Proofs.PyIR_Client

/-!
Translation validation of the control machines against `WV.Client.exec` (the control model of C08 / C09 / C14 / C18):
Nameplate, Terminator, Allocator, Lister, Code, Key, _SortedKey.  For every heap related to the control flags by the
class's relation, every argument of the stated shape, every fuel above the stated constant: the interpreter run on the
generated body and the model's step agree on the control calls (order, names, tracked arguments), the flags and the
exception (`AgreeStep`).  Payloads, keys, nameplates and codes are forgotten by the abstraction (see `Tracked`).
Subsumes `WV.Props.ClientSkel.skeleton_agrees` for these methods (which stays: it also covers untranslatable ones).
-/
set_option linter.unusedSimpArgs false
set_option linter.unusedVariables false

namespace WV.Props.PyIRClient
open WV WV.Gen WV.PyIR WV.Client WV.Gen.PyIR WV.Proofs.PyIRC03 WV.Proofs.PyIRClient

abbrev envN : Env := envU noBad noRaise noRets

/-! ## Nameplate -/

set_option hygiene false in
macro "openN" R:ident : tactic =>
  `(tactic| obtain ⟨⟨npv, hnp, hnpc⟩, ⟨vM, hM⟩, ⟨vI, hI⟩, ⟨vRC, hRC⟩, ⟨vT, hT⟩, ⟨vSt, hSt⟩⟩ := $R)

/-- `record_nameplate(nameplate)`.  The nameplate is a non-empty string that `validate_nameplate` accepts: the only
    caller of the input `_set_nameplate` is `Nameplate.set_nameplate`, which validates first (model: `.setNameplate`). -/
theorem nameplate_record_nameplate (fuel : Nat) (h : Store) (s : RunSt) (R : RelN h s.ctl) (a : Arg) (np : String)
    (hne : np ≠ "") :
    AgreeStep RelN (PyIR.exec (fuel + 1) envN tbl_Nameplate "record_nameplate" [.str np] h)
      (Client.exec s (.oN .record_nameplate) a) := by
  openN R
  ctl_eval [tbl_Nameplate, m_Nameplate_record_nameplate]
  exact ⟨⟨_, by simp [get_set], Or.inr ⟨np, rfl, hne, rfl⟩⟩, ⟨vM, by simp [get_set, hM]⟩, ⟨vI, by simp [get_set, hI]⟩,
    ⟨vRC, by simp [get_set, hRC]⟩, ⟨vT, by simp [get_set, hT]⟩, ⟨vSt, by simp [get_set, hSt]⟩⟩

theorem nameplate_record_nameplate_and_RC_tx_claim (fuel : Nat) (h : Store) (s : RunSt) (R : RelN h s.ctl) (a : Arg)
    (np : String) (hne : np ≠ "") :
    AgreeStep RelN (PyIR.exec (fuel + 1) envN tbl_Nameplate "record_nameplate_and_RC_tx_claim" [.str np] h)
      (Client.exec s (.oN .record_nameplate_and_RC_tx_claim) a) := by
  openN R
  ctl_eval [tbl_Nameplate, m_Nameplate_record_nameplate_and_RC_tx_claim, hRC]
  exact ⟨⟨_, by simp [get_set], Or.inr ⟨np, rfl, hne, rfl⟩⟩, ⟨vM, by simp [get_set, hM]⟩, ⟨vI, by simp [get_set, hI]⟩,
    ⟨vRC, by simp [get_set, hRC]⟩, ⟨vT, by simp [get_set, hT]⟩, ⟨vSt, by simp [get_set, hSt]⟩⟩

/-- the ORDER in `record_nameplate_and_RC_tx_claim`: when `tx_claim` fails (`assert self._ws`: the model's `.tx` item
    fails and the flag set before it stays), `_nameplate` is already recorded -/
theorem nameplate_record_before_claim (fuel : Nat) (h : Store) (s : RunSt) (R : RelN h s.ctl) (a : Arg)
    (np : String) (hne : np ≠ "") (c : String) :
    let o := PyIR.exec (fuel + 1) (envU noBad (fun k => if k = 0 then some c else none) noRets) tbl_Nameplate
      "record_nameplate_and_RC_tx_claim" [.str np] h
    (∀ s' push, Client.exec s (.oN .record_nameplate_and_RC_tx_claim) a = .cont s' push → RelN o.heap s'.ctl) ∧
      o.calls.map callName = ["_RC.tx_claim"] ∧ o.exc = some c := by
  openN R
  ctl_eval [tbl_Nameplate, m_Nameplate_record_nameplate_and_RC_tx_claim, hRC]
  exact ⟨⟨_, by simp [get_set], Or.inr ⟨np, rfl, hne, rfl⟩⟩, ⟨vM, by simp [get_set, hM]⟩, ⟨vI, by simp [get_set, hI]⟩,
    ⟨vRC, by simp [get_set, hRC]⟩, ⟨vT, by simp [get_set, hT]⟩, ⟨vSt, by simp [get_set, hSt]⟩⟩

/-- an invalid nameplate never reaches the attribute: `validate_nameplate` raises first -/
theorem nameplate_record_nameplate_invalid (fuel : Nat) (h : Store) (np : String) :
    let o := PyIR.exec (fuel + 1) (envU (fun f _ => if f = "validate_nameplate" then some "KeyFormatError" else none)
      noRaise noRets) tbl_Nameplate "record_nameplate" [.str np] h
    o.heap = h ∧ o.calls = [] ∧ o.exc = some "KeyFormatError" := by
  ctl_eval [tbl_Nameplate, m_Nameplate_record_nameplate]

theorem nameplate_RC_tx_claim (fuel : Nat) (h : Store) (s : RunSt) (R : RelN h s.ctl) (a : Arg) :
    AgreeStep RelN (PyIR.exec (fuel + 1) envN tbl_Nameplate "RC_tx_claim" [] h) (Client.exec s (.oN .RC_tx_claim) a) := by
  have R' := R
  openN R
  ctl_eval [tbl_Nameplate, m_Nameplate_RC_tx_claim, hRC, hnp]
  exact R'

/-- the argument `mailbox` is passed on untouched; the wordlist object is forgotten -/
theorem nameplate_I_got_wordlist (fuel : Nat) (h : Store) (s : RunSt) (R : RelN h s.ctl) (a : Arg) (mb : Val) :
    AgreeStep RelN (PyIR.exec (fuel + 1) envN tbl_Nameplate "I_got_wordlist" [mb] h) (Client.exec s (.oN .I_got_wordlist) a) := by
  have R' := R
  openN R
  ctl_eval [tbl_Nameplate, m_Nameplate_I_got_wordlist, hI, Input.Input.name]
  exact R'

theorem nameplate_M_got_mailbox (fuel : Nat) (h : Store) (s : RunSt) (R : RelN h s.ctl) (a : Arg) (mb : Val) :
    AgreeStep RelN (PyIR.exec (fuel + 1) envN tbl_Nameplate "M_got_mailbox" [mb] h) (Client.exec s (.oN .M_got_mailbox) a) := by
  have R' := R
  openN R
  ctl_eval [tbl_Nameplate, m_Nameplate_M_got_mailbox, hM, Mailbox.Input.name]
  exact R'

/-- `RC_tx_release`: `assert self._nameplate` is the model's `haveNameplate` guard -/
theorem nameplate_RC_tx_release (fuel : Nat) (h : Store) (s : RunSt) (R : RelN h s.ctl) (a : Arg) :
    AgreeStep RelN (PyIR.exec (fuel + 1) envN tbl_Nameplate "RC_tx_release" [] h) (Client.exec s (.oN .RC_tx_release) a) := by
  have R' := R
  openN R
  rcases hnpc with ⟨rfl, hk⟩ | ⟨np, rfl, hne, hk⟩
  · ctl_eval [tbl_Nameplate, m_Nameplate_RC_tx_release, hRC, hnp, hk]
    exact R'
  · ctl_eval [tbl_Nameplate, m_Nameplate_RC_tx_release, hRC, hnp, hk, hne]
    exact R'

theorem nameplate_T_nameplate_done (fuel : Nat) (h : Store) (s : RunSt) (R : RelN h s.ctl) (a : Arg) :
    AgreeStep RelN (PyIR.exec (fuel + 1) envN tbl_Nameplate "T_nameplate_done" [] h)
      (Client.exec s (.oN .T_nameplate_done) a) := by
  have R' := R
  openN R
  ctl_eval [tbl_Nameplate, m_Nameplate_T_nameplate_done, hT, Terminator.Input.name]
  exact R'

/-- the two status outputs only call the status callback (not a control call) -/
theorem nameplate_send_status_code_allocated (fuel : Nat) (h : Store) (s : RunSt) (R : RelN h s.ctl) (a : Arg) :
    AgreeStep RelN (PyIR.exec (fuel + 1) envN tbl_Nameplate "send_status_code_allocated" [] h)
      (Client.exec s (.oN .send_status_code_allocated) a) := by
  have R' := R
  openN R
  ctl_eval [tbl_Nameplate, m_Nameplate_send_status_code_allocated, hSt]
  exact R'

theorem nameplate_send_status_code_consumed (fuel : Nat) (h : Store) (s : RunSt) (R : RelN h s.ctl) (a : Arg) :
    AgreeStep RelN (PyIR.exec (fuel + 1) envN tbl_Nameplate "send_status_code_consumed" [] h)
      (Client.exec s (.oN .send_status_code_consumed) a) := by
  have R' := R
  openN R
  ctl_eval [tbl_Nameplate, m_Nameplate_send_status_code_consumed, hSt]
  exact R'

/-- `set_nameplate(nameplate)` = the model's `.setNameplate`: validate (`a.valid` = `validate_nameplate` accepts),
    then the input `_set_nameplate` on this machine -/
theorem nameplate_set_nameplate (fuel : Nat) (h : Store) (s : RunSt) (a : Arg) (np : Val) :
    let o := PyIR.exec (fuel + 1) (envU (fun f _ => if f = "validate_nameplate" ∧ a.valid = false then some "KeyFormatError" else none)
        noRaise noRets) tbl_Nameplate "set_nameplate" [np] h
    o.heap = h ∧
    (a.valid = true → o.calls.map callName = ["self._set_nameplate"] ∧ o.exc = none ∧
      Client.exec s .setNameplate a = .cont s [(.N .u_set_nameplate, a)]) ∧
    (a.valid = false → o.calls = [] ∧ o.exc = some (Exn.name .keyFormat) ∧ Client.exec s .setNameplate a = .fail s .keyFormat) := by
  cases hv : a.valid <;> ctl_eval [tbl_Nameplate, m_Nameplate_set_nameplate, hv]

/-! ## Terminator -/

set_option hygiene false in
macro "openT" R:ident : tactic =>
  `(tactic| obtain ⟨⟨vB, hB⟩, ⟨vRC, hRC⟩, ⟨vN, hN⟩, ⟨vM, hM⟩, ⟨vD, hD⟩⟩ := $R)

theorem terminator_close_nameplate (fuel : Nat) (h : Store) (s : RunSt) (R : RelT h s.ctl) (a : Arg) (mood : Val) :
    AgreeStep RelT (PyIR.exec (fuel + 1) envN tbl_Terminator "close_nameplate" [mood] h)
      (Client.exec s (.oT .close_nameplate) a) := by
  have R' := R
  openT R
  ctl_eval [tbl_Terminator, m_Terminator_close_nameplate, hN, Nameplate.Input.name]
  exact R'

/-- `close_mailbox(mood)` hands the mood on: the argument is the string of `a.mood` -/
theorem terminator_close_mailbox (fuel : Nat) (h : Store) (s : RunSt) (R : RelT h s.ctl) (a : Arg) :
    AgreeStep RelT (PyIR.exec (fuel + 1) envN tbl_Terminator "close_mailbox" [.str (moodStr a.mood)] h)
      (Client.exec s (.oT .close_mailbox) a) := by
  have R' := R
  openT R
  ctl_eval [tbl_Terminator, m_Terminator_close_mailbox, hM, Mailbox.Input.name]
  exact R'

theorem terminator_ignore_mood_and_RC_stop (fuel : Nat) (h : Store) (s : RunSt) (R : RelT h s.ctl) (a : Arg) (mood : Val) :
    AgreeStep RelT (PyIR.exec (fuel + 1) envN tbl_Terminator "ignore_mood_and_RC_stop" [mood] h)
      (Client.exec s (.oT .ignore_mood_and_RC_stop) a) := by
  have R' := R
  openT R
  ctl_eval [tbl_Terminator, m_Terminator_ignore_mood_and_RC_stop, hRC]
  exact R'

theorem terminator_RC_stop (fuel : Nat) (h : Store) (s : RunSt) (R : RelT h s.ctl) (a : Arg) :
    AgreeStep RelT (PyIR.exec (fuel + 1) envN tbl_Terminator "RC_stop" [] h) (Client.exec s (.oT .RC_stop) a) := by
  have R' := R
  openT R
  ctl_eval [tbl_Terminator, m_Terminator_RC_stop, hRC]
  exact R'

theorem terminator_stop_dilator (fuel : Nat) (h : Store) (s : RunSt) (R : RelT h s.ctl) (a : Arg) :
    AgreeStep RelT (PyIR.exec (fuel + 1) envN tbl_Terminator "stop_dilator" [] h) (Client.exec s (.oT .stop_dilator) a) := by
  have R' := R
  openT R
  ctl_eval [tbl_Terminator, m_Terminator_stop_dilator, hD]
  exact R'

theorem terminator_B_closed (fuel : Nat) (h : Store) (s : RunSt) (R : RelT h s.ctl) (a : Arg) :
    AgreeStep RelT (PyIR.exec (fuel + 1) envN tbl_Terminator "B_closed" [] h) (Client.exec s (.oT .B_closed) a) := by
  have R' := R
  openT R
  ctl_eval [tbl_Terminator, m_Terminator_B_closed, hB, Boss.Input.name]
  exact R'

/-! ## Allocator -/

set_option hygiene false in
macro "openA" R:ident : tactic => `(tactic| obtain ⟨hLen, hWl, ⟨vRC, hRC⟩, ⟨vC, hC⟩⟩ := $R)

/-- `stash(length, wordlist)` really stashes: afterwards `_length` is the argument and `_wordlist` its adapter (data the
    control model has no flag for — carried by `RelA`'s first argument) -/
theorem allocator_stash (fuel : Nat) (h : Store) (s : RunSt) (st : Option (Val × Val)) (R : RelA st h s.ctl) (a : Arg)
    (len wl : Val) :
    AgreeStep (RelA (some (len, .obj "_interfaces.IWordlist" [wl])))
      (PyIR.exec (fuel + 1) envN tbl_Allocator "stash" [len, wl] h) (Client.exec s (.oA .stash) a) := by
  openA R
  ctl_eval [tbl_Allocator, m_Allocator_stash]
  rel_fields

theorem allocator_stash_and_RC_rx_allocate (fuel : Nat) (h : Store) (s : RunSt) (st : Option (Val × Val))
    (R : RelA st h s.ctl) (a : Arg) (len wl : Val) :
    AgreeStep (RelA (some (len, .obj "_interfaces.IWordlist" [wl])))
      (PyIR.exec (fuel + 1) envN tbl_Allocator "stash_and_RC_rx_allocate" [len, wl] h)
      (Client.exec s (.oA .stash_and_RC_rx_allocate) a) := by
  openA R
  ctl_eval [tbl_Allocator, m_Allocator_stash_and_RC_rx_allocate, hRC]
  rel_fields

theorem allocator_RC_tx_allocate (fuel : Nat) (h : Store) (s : RunSt) (st : Option (Val × Val)) (R : RelA st h s.ctl)
    (a : Arg) :
    AgreeStep (RelA st) (PyIR.exec (fuel + 1) envN tbl_Allocator "RC_tx_allocate" [] h)
      (Client.exec s (.oA .RC_tx_allocate) a) := by
  have R' := R
  openA R
  ctl_eval [tbl_Allocator, m_Allocator_RC_tx_allocate, hRC]
  exact R'

/-- `build_and_notify(nameplate)` reads the stash back: `choose_words(self._length)` on the stashed wordlist, and the
    code handed to `Code.allocated` is `nameplate + "-" + words`.  The stash exists: `rx_allocated` is only accepted in
    `S1B_allocating_connected`, entered through `stash`/`stash_and_RC_rx_allocate` (generated table). -/
theorem allocator_build_and_notify (fuel : Nat) (h : Store) (s : RunSt) (len wl : Val) (R : RelA (some (len, wl)) h s.ctl)
    (a : Arg) (np words : String) :
    let o := PyIR.exec (fuel + 1) (envU noBad noRaise (fun _ => .str words)) tbl_Allocator "build_and_notify" [.str np] h
    AgreeStep (RelA (some (len, wl))) o (Client.exec s (.oA .build_and_notify) a) ∧
      o.calls = [⟨"_wordlist", "choose_words", [len]⟩, ⟨"_C", "allocated", [.str np, .str (np ++ "-" ++ words)]⟩] := by
  have R' := R
  openA R
  simp only [Option.map_some] at hLen hWl
  ctl_eval [tbl_Allocator, m_Allocator_build_and_notify, hC, hLen, hWl, Code.Input.name]
  exact R'

/-! ## Lister -/

theorem lister_RC_tx_list (fuel : Nat) (h : Store) (s : RunSt) (R : RelL h s.ctl) (a : Arg) :
    AgreeStep RelL (PyIR.exec (fuel + 1) envN tbl_Lister "RC_tx_list" [] h) (Client.exec s (.oL .RC_tx_list) a) := by
  have R' := R
  obtain ⟨⟨vRC, hRC⟩, ⟨vI, hI⟩⟩ := R
  ctl_eval [tbl_Lister, m_Lister_RC_tx_list, hRC]
  exact R'

theorem lister_I_got_nameplates (fuel : Nat) (h : Store) (s : RunSt) (R : RelL h s.ctl) (a : Arg) (nps : Val) :
    AgreeStep RelL (PyIR.exec (fuel + 1) envN tbl_Lister "I_got_nameplates" [nps] h)
      (Client.exec s (.oL .I_got_nameplates) a) := by
  have R' := R
  obtain ⟨⟨vRC, hRC⟩, ⟨vI, hI⟩⟩ := R
  ctl_eval [tbl_Lister, m_Lister_I_got_nameplates, hI, Input.Input.name]
  exact R'

/-! ## Code -/

set_option hygiene false in
macro "openC" R:ident : tactic =>
  `(tactic| obtain ⟨⟨vB, hB⟩, ⟨vA, hA⟩, ⟨vN, hN⟩, ⟨vK, hK⟩, ⟨vI, hI⟩⟩ := $R)

/-- `do_set_code(code)`: nameplate first, then the Boss, then the Key machine -/
theorem code_do_set_code (fuel : Nat) (h : Store) (s : RunSt) (R : RelC h s.ctl) (a : Arg) (code : Val) :
    AgreeStep RelC (PyIR.exec (fuel + 1) envN tbl_Code "do_set_code" [code] h) (Client.exec s (.oC .do_set_code) a) := by
  have R' := R
  openC R
  ctl_eval [tbl_Code, m_Code_do_set_code, hN, hB, hK, Boss.Input.name, Key.Input.name]
  exact R'

theorem code_do_start_input (fuel : Nat) (h : Store) (s : RunSt) (R : RelC h s.ctl) (a : Arg) :
    AgreeStep RelC (PyIR.exec (fuel + 1) envN tbl_Code "do_start_input" [] h) (Client.exec s (.oC .do_start_input) a) := by
  have R' := R
  openC R
  ctl_eval [tbl_Code, m_Code_do_start_input, hI, Input.Input.name]
  exact R'

theorem code_do_middle_input (fuel : Nat) (h : Store) (s : RunSt) (R : RelC h s.ctl) (a : Arg) (np : Val) :
    AgreeStep RelC (PyIR.exec (fuel + 1) envN tbl_Code "do_middle_input" [np] h) (Client.exec s (.oC .do_middle_input) a) := by
  have R' := R
  openC R
  ctl_eval [tbl_Code, m_Code_do_middle_input, hN]
  exact R'

theorem code_do_finish_input (fuel : Nat) (h : Store) (s : RunSt) (R : RelC h s.ctl) (a : Arg) (code : Val) :
    AgreeStep RelC (PyIR.exec (fuel + 1) envN tbl_Code "do_finish_input" [code] h) (Client.exec s (.oC .do_finish_input) a) := by
  have R' := R
  openC R
  ctl_eval [tbl_Code, m_Code_do_finish_input, hB, hK, Boss.Input.name, Key.Input.name]
  exact R'

theorem code_do_start_allocate (fuel : Nat) (h : Store) (s : RunSt) (R : RelC h s.ctl) (a : Arg) (len wl : Val) :
    AgreeStep RelC (PyIR.exec (fuel + 1) envN tbl_Code "do_start_allocate" [len, wl] h)
      (Client.exec s (.oC .do_start_allocate) a) := by
  have R' := R
  openC R
  ctl_eval [tbl_Code, m_Code_do_start_allocate, hA, Allocator.Input.name]
  exact R'

/-- `do_finish_allocate(nameplate, code)`; `code` starts with `nameplate + "-"`: `Allocator.build_and_notify` builds it
    that way (`allocator_build_and_notify`) -/
theorem code_do_finish_allocate (fuel : Nat) (h : Store) (s : RunSt) (R : RelC h s.ctl) (a : Arg) (np rest : String) :
    AgreeStep RelC (PyIR.exec (fuel + 1) envN tbl_Code "do_finish_allocate" [.str np, .str (np ++ "-" ++ rest)] h)
      (Client.exec s (.oC .do_finish_allocate) a) := by
  have R' := R
  openC R
  have hp : (np ++ "-").toList.isPrefixOf (np ++ "-" ++ rest).toList = true := by
    simp [String.toList_append]
  ctl_eval [tbl_Code, m_Code_do_finish_allocate, hN, hB, hK, hp, Boss.Input.name, Key.Input.name]
  exact R'

/-- `Code.set_code(code)`: validate, then the input `_set_code` -/
theorem code_set_code (fuel : Nat) (h : Store) (code : Val) (valid : Bool) :
    let o := PyIR.exec (fuel + 1) (envU (fun f _ => if f = "validate_code" ∧ valid = false then some "KeyFormatError" else none)
        noRaise noRets) tbl_Code "set_code" [code] h
    o.heap = h ∧ (valid = true → o.calls.map callName = ["self._set_code"] ∧ o.exc = none) ∧
      (valid = false → o.calls = [] ∧ o.exc = some "KeyFormatError") := by
  cases hv : valid <;> ctl_eval [tbl_Code, m_Code_set_code, hv]

/-! ## Key -/

theorem key_stash_pake (kind : Val → PakeKind) (fuel : Nat) (h : Store) (s : RunSt) (R : RelK kind h s.ctl) (a : Arg)
    (body : Val) (ha : kind body = a.pake) :
    AgreeStep (RelK kind) (PyIR.exec (fuel + 1) envN tbl_Key "stash_pake" [body] h) (Client.exec s (.oK .stash_pake) a) := by
  obtain ⟨hp, ⟨vSK, hSK⟩⟩ := R
  ctl_eval [tbl_Key, m_Key_stash_pake]
  exact ⟨by simp [get_set, ha], ⟨vSK, by simp [get_set, hSK]⟩⟩

theorem key_deliver_code (kind : Val → PakeKind) (fuel : Nat) (h : Store) (s : RunSt) (R : RelK kind h s.ctl) (a : Arg)
    (code : Val) :
    AgreeStep (RelK kind) (PyIR.exec (fuel + 1) envN tbl_Key "deliver_code" [code] h) (Client.exec s (.oK .deliver_code) a) := by
  have R' := R
  obtain ⟨hp, ⟨vSK, hSK⟩⟩ := R
  ctl_eval [tbl_Key, m_Key_deliver_code, hSK, SortedKey.Input.name]
  exact R'

theorem key_deliver_pake (kind : Val → PakeKind) (fuel : Nat) (h : Store) (s : RunSt) (R : RelK kind h s.ctl) (a : Arg)
    (body : Val) :
    AgreeStep (RelK kind) (PyIR.exec (fuel + 1) envN tbl_Key "deliver_pake" [body] h) (Client.exec s (.oK .deliver_pake) a) := by
  have R' := R
  obtain ⟨hp, ⟨vSK, hSK⟩⟩ := R
  ctl_eval [tbl_Key, m_Key_deliver_pake, hSK]
  exact R'

/-- `deliver_code_and_stashed_pake(code)`: code first, then the stashed PAKE — and the body handed to `_SK.got_pake` is
    the stashed one (its class is `stashedPake`).  `_pake` exists: `S01` is entered only through `stash_pake`. -/
theorem key_deliver_code_and_stashed_pake (kind : Val → PakeKind) (fuel : Nat) (h : Store) (s : RunSt)
    (R : RelK kind h s.ctl) (a : Arg) (code pk : Val) (hpk : h.get "_pake" = some pk) :
    let o := PyIR.exec (fuel + 1) envN tbl_Key "deliver_code_and_stashed_pake" [code] h
    AgreeStep (RelK kind) o (Client.exec s (.oK .deliver_code_and_stashed_pake) a) ∧
      o.calls = [⟨"_SK", "got_code", [code]⟩, ⟨"_SK", "got_pake", [pk]⟩] ∧ kind pk = s.ctl.stashedPake := by
  have R' := R
  obtain ⟨hp, ⟨vSK, hSK⟩⟩ := R
  ctl_eval [tbl_Key, m_Key_deliver_code_and_stashed_pake, hSK, hpk, SortedKey.Input.name]
  exact ⟨R', hp pk hpk⟩

/-! ## _SortedKey -/

set_option hygiene false in
macro "openSK" R:ident : tactic =>
  `(tactic| obtain ⟨hsp, ⟨vB, hB⟩, ⟨vM, hM⟩, ⟨vR, hR⟩, ⟨vTm, hTm⟩, ⟨vSd, hSd⟩, ⟨vVs, hVs⟩, ⟨vAp, hAp⟩⟩ := $R)

/-- `build_pake(code)`: creates `_sp`, then `M.add_message("pake", …)` -/
theorem sortedkey_build_pake (fuel : Nat) (h : Store) (s : RunSt) (R : RelSK h s.ctl) (a : Arg) (code : Val) :
    AgreeStep RelSK (PyIR.exec (fuel + 1) envN tbl_SortedKey "build_pake" [code] h) (Client.exec s (.oSK .build_pake) a) := by
  openSK R
  have hpk : phaseC "pake" = .pake := by decide
  ctl_eval [tbl_SortedKey, m_SortedKey_build_pake, hTm, hAp, hM, hpk, Mailbox.Input.name]
  constructor <;> first | (simp [get_set, *]; done) | (intro _; exact ⟨_, by simp [get_set]⟩)

theorem sortedkey_scared (fuel : Nat) (h : Store) (s : RunSt) (R : RelSK h s.ctl) (a : Arg) :
    AgreeStep RelSK (PyIR.exec (fuel + 1) envN tbl_SortedKey "scared" [] h) (Client.exec s (.oSK .scared) a) := by
  have R' := R
  openSK R
  ctl_eval [tbl_SortedKey, m_SortedKey_scared, hB, Boss.Input.name]
  exact R'

/-- `compute_key(msg2)`, SPAKE2 accepts the element: `B.got_key`, then `M.add_message("version", …)`, then `R.got_key`,
    in this order.  `_sp` exists: `S1_know_code` is entered through `build_pake`. -/
theorem sortedkey_compute_key (fuel : Nat) (h : Store) (s : RunSt) (R : RelSK h s.ctl) (a : Arg) (msg2 : Bytes)
    (hsp' : s.ctl.spStarted = true) (ha : a.pake ≠ .invalid) :
    AgreeStep RelSK (PyIR.exec (fuel + 1) envN tbl_SortedKey "compute_key" [.bytes msg2] h)
      (Client.exec s (.oSK .compute_key) a) := by
  have R' := R
  openSK R
  obtain ⟨vsp, hspv⟩ := hsp hsp'
  have hvs : phaseC "version" = .version := by decide
  ctl_eval [tbl_SortedKey, m_SortedKey_compute_key, hTm, hspv, hB, hM, hR, hSd, hVs, ha, hvs, Boss.Input.name,
    Mailbox.Input.name, Receive.Input.name]
  exact R'

/-- `compute_key(msg2)`, SPAKE2 rejects the element (`finish` raises one of the four caught classes): only `B.scared` -/
theorem sortedkey_compute_key_invalid (fuel : Nat) (h : Store) (s : RunSt) (R : RelSK h s.ctl) (a : Arg) (msg2 : Bytes)
    (hsp' : s.ctl.spStarted = true) (ha : a.pake = .invalid) (cls : String)
    (hcls : cls ∈ ["AssertionError", "ValueError", "SPAKEError", "NotOnCurve"]) :
    AgreeStep RelSK
      (PyIR.exec (fuel + 1) (envU noBad (fun k => if k = 1 then some cls else none) noRets) tbl_SortedKey "compute_key"
        [.bytes msg2] h)
      (Client.exec s (.oSK .compute_key) a) := by
  have R' := R
  openSK R
  obtain ⟨vsp, hspv⟩ := hsp hsp'
  simp only [List.mem_cons, List.mem_nil_iff, or_false] at hcls
  rcases hcls with rfl | rfl | rfl | rfl <;>
  · ctl_eval [tbl_SortedKey, m_SortedKey_compute_key, hTm, hspv, hB, ha, Boss.Input.name]
    exact R'

/-- `_SortedKey.got_pake(body)` = the model's `.skGotPake`: a body without a usable `pake_v1` → `got_pake_bad`, else
    `got_pake_good(msg2)` -/
theorem sortedkey_got_pake (fuel : Nat) (h : Store) (body : Bytes) (noField : Bool) (cls : String)
    (hcls : cls ∈ ["AssertionError", "KeyError", "TypeError", "ValueError", "RecursionError"]) :
    let o := PyIR.exec (fuel + 1) (envU (fun f _ => if f = "bytes_to_dict" ∧ noField = true then some cls else none)
      noRaise noRets) tbl_SortedKey "got_pake" [.bytes body] h
    o.heap = h ∧ o.exc = none ∧
      o.calls.map callName = [if noField then "self.got_pake_bad" else "self.got_pake_good"] := by
  simp only [List.mem_cons, List.mem_nil_iff, or_false] at hcls
  cases noField
  · ctl_eval [tbl_SortedKey, m_SortedKey_got_pake, dictGet]
  · rcases hcls with rfl | rfl | rfl | rfl | rfl <;> ctl_eval [tbl_SortedKey, m_SortedKey_got_pake]

/-! ## non-vacuity: concrete heaps in the relations, concrete runs of the generated bodies -/

def demoNameplateHeap : Store :=
  [("_nameplate", .none), ("_M", .obj "Mailbox" []), ("_I", .obj "Input" []), ("_RC", .obj "RC" []),
   ("_T", .obj "Terminator" []), ("_evolve_wormhole_status", .obj "callable" [])]

example : RelN demoNameplateHeap {} := by
  constructor <;> simp [demoNameplateHeap, Store.get]

example : (PyIR.exec 1 envN tbl_Nameplate "record_nameplate_and_RC_tx_claim" [.str "4"] demoNameplateHeap).calls.map callName
    = ["_RC.tx_claim"] := by decide
example : ((PyIR.exec 1 envN tbl_Nameplate "record_nameplate_and_RC_tx_claim" [.str "4"] demoNameplateHeap).heap.get "_nameplate").isSome
    = true := by decide
example : (PyIR.exec 1 envN tbl_Nameplate "RC_tx_release" [] demoNameplateHeap).exc = some "AssertionError" := by decide

def demoSKHeap : Store :=
  [("_sp", .obj "SPAKE2" []), ("_B", .obj "Boss" []), ("_M", .obj "Mailbox" []), ("_R", .obj "Receive" []),
   ("_timing", .obj "DebugTiming" []), ("_side", .str "aa"), ("_versions", .dict []), ("_appid", .str "app")]

example : RelSK demoSKHeap { spStarted := true } := by
  constructor <;> simp [demoSKHeap, Store.get]

example : ((PyIR.exec 1 envN tbl_SortedKey "compute_key" [.bytes [1]] demoSKHeap).calls.filter (fun c => !ignorable c)).map callName
    = ["_B.got_key", "_M.add_message", "_R.got_key"] := by decide
example : ((PyIR.exec 1 (envU noBad (fun k => if k = 1 then some "ValueError" else none) noRets) tbl_SortedKey "compute_key"
      [.bytes [1]] demoSKHeap).calls.filter (fun c => !ignorable c)).map callName = ["_B.scared"] := by decide

end WV.Props.PyIRClient
