import WV.Proofs.ClientCert
import WV.Model.ClientData

/-!
# C08 — close() completes once, with the right verdict, and frees server resources

Same closed system as C14 (`WV.ClientEnv`): every reachable state, every enabled event, no bound on
the run.  The monitors (`Mon`, `monObs`, `verdictOK`) are part of the specification:

* `closedCount`   number of `closed` notifications so far;
* `afterClosed`   an application event was delivered after `closed`;
* `verdictBad`    a `closed(v)` whose verdict the history does not justify (`verdictOK`):
                  happy ⇔ a peer message decrypted and none failed to; LonelyError ⇔ no peer
                  message reached `Receive`; WrongPasswordError ⇒ an undecryptable peer message (or
                  a PAKE without `pake_v1`); ServerError / WelcomeError ⇒ the server said so before
                  closing began; ServerConnectionError ⇒ never connected;
* `resourceBad`   `closed` notified through the Terminator while a `claim` is not yet answered by
                  `released`, an `open` not yet answered by `closed`, the connection still up, or the
                  mailbox was closed with a mood that does not match the verdict.
-/
namespace WV.Props.C08
open WV.Client WV.ClientEnv WV.Cert WV.Gen

local macro "comps" s:ident hr:ident e:ident he:ident : term =>
  `(WV.ClientCert.safe_components (WV.ClientCert.reach_safe $s $hr $e $he))

/-- exactly-once, upper half: never a second `closed` notification -/
theorem closed_at_most_once (s : Sys) (hr : Reach enabled s) (e : Event) (he : enabled s e = true) :
    (sysStep s e).1.mon.closedCount ≤ 1 := (comps s hr e he).2.1

/-- nothing is delivered to the application after `closed` -/
theorem silent_after_closed (s : Sys) (hr : Reach enabled s) (e : Event) (he : enabled s e = true) :
    (sysStep s e).1.mon.afterClosed = false := (comps s hr e he).2.2.1

/-- the verdict is the one the history justifies -/
theorem verdict_correct (s : Sys) (hr : Reach enabled s) (e : Event) (he : enabled s e = true) :
    (sysStep s e).1.mon.verdictBad = false := (comps s hr e he).2.2.2.2.2.1

/-- the verdict is exactly the one of the FIRST thing that made the wormhole start closing
    (`Mon.cause`): a welcome carrying `error` ⇒ WelcomeError, a server `error` frame ⇒ ServerError,
    an undecryptable peer message / PAKE without `pake_v1` ⇒ WrongPasswordError, close() ⇒ happy iff
    a peer message had been verified else LonelyError, failed first connection ⇒
    ServerConnectionError — on whichever connection (first or after any reconnect) it happens -/
theorem verdict_is_first_cause (s : Sys) (hr : Reach enabled s) (e : Event) (he : enabled s e = true) :
    (sysStep s e).1.mon.verdictWrong = false := (comps s hr e he).2.2.2.2.2.2.2

/-- FULL statement of the resource clause: additionally the claim the server makes on behalf of
    an `allocate` is never left behind.  **False on the current tree** — see
    `resources_freed_fails_when_allocating`. -/
def resources_freed_full : Prop :=
  ∀ s, Reach enabled s → ∀ e, enabled s e = true →
    (sysStep s e).1.mon.resourceBad = false ∧ (sysStep s e).1.mon.allocLeak = false

/-- by the time `closed` is notified through the Terminator, every claim *the client sent* was
    answered `released`, every open answered `closed` (so the server processed both), the mailbox
    was closed with the mood of the verdict and the server connection is down.  Partial: the claim
    the server makes as a side effect of `allocate` is not covered (next theorem). -/
theorem resources_freed_partial (s : Sys) (hr : Reach enabled s) (e : Event) (he : enabled s e = true) :
    (sysStep s e).1.mon.resourceBad = false := (comps s hr e he).2.2.2.2.2.2.1

/-- exactly-once, lower half (no trap): from every reachable state in which the application has
    called close() there is a finite run of cooperative environment steps (reconnect — possibly after
    dropping a connection on which an answer was lost —, welcome, the owed answers, completion of
    stopService) after which `closed` has been notified.  Fair-scheduler liveness is not claimed. -/
theorem close_always_possible (s : Sys) (hr : Reach enabled s) (hc : s.env.appClosed = true) :
    WV.Closable.CanClose s := WV.ClientCert.close_possible s hr hc

/-! table-level facts on the *generated* tables (kernel `decide`) -/

/-- every Nameplate state that may hold a claim reacts to `close` by sending `release`, at once when
    connected or on the next `connected` -/
theorem release_in_every_claimed_state :
    Nameplate.table .S2B .close = some (.S4B, [.RC_tx_release]) ∧
    Nameplate.table .S3B .close = some (.S4B, [.RC_tx_release]) ∧
    Nameplate.table .S2A .close = some (.S4A, []) ∧
    Nameplate.table .S3A .close = some (.S4A, []) ∧
    Nameplate.table .S4A .connected = some (.S4B, [.RC_tx_release]) ∧
    Nameplate.table .S4B .rx_released = some (.S5, [.T_nameplate_done, .send_status_code_consumed]) := by decide

/-- S5 (done) is entered only by `rx_released` from S4B or by `close` from a state that never
    claimed (S0A, S0B, S1A) -/
theorem nameplate_done_only_when_released_or_never_claimed :
    ∀ st i, (Nameplate.table st i).map (·.1) = some Nameplate.State.S5 →
      (st = .S4B ∧ i = .rx_released) ∨ (i = .close ∧ (st = .S0A ∨ st = .S0B ∨ st = .S1A)) ∨ st = .S5 := by
  intro st i; cases st <;> cases i <;> decide

theorem tx_close_in_every_opened_state :
    Mailbox.table .S2B .close = some (.S3B, [.record_mood_and_RC_tx_close]) ∧
    Mailbox.table .S2A .close = some (.S3A, [.record_mood]) ∧
    Mailbox.table .S3A .connected = some (.S3B, [.RC_tx_close]) ∧
    Mailbox.table .S3B .rx_closed = some (.S4, [.T_mailbox_done]) := by decide

/-- the Terminator reaches `S_stopped` (B.closed) only through stoppedRC then stoppedD -/
theorem terminator_closed_only_after_stops :
    ∀ st i, (Terminator.table st i).map (·.1) = some Terminator.State.S_stopped →
      st = .S_stoppingD ∧ i = .stoppedD := by
  intro st i; cases st <;> cases i <;> decide

/-- the witness run: allocate_code, connect, (the server processes `allocate`, i.e. allocates and
    claims a nameplate for us), close() before `allocated` is delivered, stopService completes -/
def allocLeakRun : List Event := [.allocateCode, .wsOpen, .close, .svcStopped]

def runFrom (s : Sys) (es : List Event) : Sys := es.foldl (fun s e => (sysStep s e).1) s

/-- **Known finding** (known_findings.json, C08 `claim-not-released:allocate-in-flight`): closing
    while an allocation is in flight notifies `closed(LonelyError)` and drops the connection at
    once, because Nameplate and Mailbox are idle; the nameplate the server allocated-and-claimed
    for this side is never released (the real server's `nameplate_sides` row stays `claimed`
    until it is pruned).  Every step of the run is enabled, so the state is reachable. -/
theorem resources_freed_fails_when_allocating : ¬ resources_freed_full := by
  intro h
  have r0 : Reach enabled ({ env := { matchKey := true } } : Sys) := Reach.init (by decide)
  have r1 := Reach.step Event.allocateCode r0 (by decide)
  have r2 := Reach.step Event.wsOpen r1 (by decide)
  have r3 := Reach.step Event.close r2 (by decide)
  have := (h _ r3 Event.svcStopped (by decide)).2
  revert this
  decide

/-- non-vacuity: a reachable state with close() called in the middle of a session; closing is
    possible from it and `closed` has not yet been notified -/
def demo : Sys :=
  [Event.setCode true, .wsOpen, .welcome false, .claimed, .message .theirs .pake true true .good, .close].foldl
    (fun s e => (sysStep s e).1) { env := { matchKey := true } }

example : demo.env.appClosed = true ∧ demo.mon.closedCount = 0 ∧ demo.ctl.b = .S3_closing ∧ demo.ctl.n = .S4B := by decide

end WV.Props.C08
