import WV.Proofs.C13_Wire
import WV.Props.C13

/-!
C13 — "the two sides never allocate the same subchannel id", at the 4-byte boundary of the wire field.

`WV.Props.C13.ids_disjoint` is about `wrun`: ids are unbounded naturals there, the Leader's odd and the Follower's
even for ever.  The wire format is narrower: `Open/Data/Close` carry the id as `to_be4(scid)`, which raises
`ValueError` for anything ≥ 2**32.  The driver (and therefore the correspondence with the real Managers, whose
allocation counters the harness fast-forwards to the boundary) runs `wrunW`: `connect` with that error branch
(`connectW`), plus `ffwd` (the counter after n more allocations).  This file re-proves the id clause of the property
for *every* run of that model — runs that reach and pass the boundary included — and says what allocation does there:

* `alloc_beyond_wire_fails` — an id that does not fit is never put on the wire: `connect()` raises, no OPEN, no
  SubChannel, no protocol; the counter and the sequence number advance all the same (this is what the real code does:
  `allocate_subchannel_id`, `build_record`, then `to_be4` raises);
* `ids_disjoint_wire` — `ids_disjoint` restated with the limit: ids on the wire are non-zero, fit the field, and are
  never shared between the sides, whatever both applications and the network do and however long they do it;
* `ids_never_wrap` — on each side the ids put on the wire are strictly increasing (as long as allocation succeeds it
  yields a larger id than every earlier one; afterwards it yields none): no id is ever handed out twice, there is no
  "starting over";
* `counter_keeps_parity` — the counter itself stays odd on the Leader / even on the Follower and never decreases;
* `bounded_is_unbounded_within_wire` — while every allocation fits, `wrunW` *is* `wrun`: all theorems of
  `WV.Props.C13` (honest-world invariant, data_before_close, …) are theorems about the driven model on those runs;
* `ffwd_is_n_allocations` — `ffwd n` is the counter after `n` `connect()`s.

A change that makes the counter wrap (`if next > MAX: next -= MAX`, `next %= 2**32`, a clamp) is a different
`allocate`/`connectW`; mirrored in the model it falsifies `ids_never_wrap` (and, when the modulus is odd, the parity
clause of `ids_disjoint_wire`) on the witness below, and on the real code the boundary cases of the harness show the
shared / repeated id.
-/
namespace WV.Props.C13
open WV WV.C13 WV.Gen

/-- **beyond the field, allocation fails and nothing reaches the wire.** -/
theorem alloc_beyond_wire_fails (s : Side) (name : String) (k : PKind) (hne : name ≠ "") (h : wireLimit ≤ s.nextScid) :
    connectW name k s = ({ s with nextScid := s.nextScid + 2, nextSeq := s.nextSeq + 1 }, some .valueError) ∧
    (connectW name k s).1.log = s.log ∧ (connectW name k s).1.subs = s.subs ∧
    (connectW name k s).1.open_ = s.open_ ∧ (connectW name k s).1.protoCount = s.protoCount := by
  have hlt : ¬ s.nextScid < wireLimit := by omega
  have e : connectW name k s = ({ s with nextScid := s.nextScid + 2, nextSeq := s.nextSeq + 1 }, some .valueError) := by
    unfold connectW allocate
    simp [hne, hlt]
  rw [e]
  exact ⟨rfl, rfl, rfl, rfl, rfl⟩

/-- inside the field `connectW` is `connect` (the function all of `WV.Props.C13` is about) -/
theorem alloc_within_wire (s : Side) (name : String) (k : PKind) (h : s.nextScid < wireLimit) :
    connectW name k s = connect name k s := connectW_within h name k

/-- … and then it hands out exactly the counter value, on the wire in one OPEN, and advances the counter by 2
    (`allocate`) -/
theorem alloc_within_wire_id (s : Side) (name : String) (k : PKind) (hne : name ≠ "") (h : s.nextScid < wireLimit) :
    openIds (connectW name k s).1.log = openIds s.log ++ [(allocate s).1] ∧
    (connectW name k s).1.nextScid = (allocate s).2.nextScid := by
  rw [connectW_within h]
  rcases connect_ids name k s with ⟨he, _⟩ | ⟨_, hn, ho, _⟩
  · exact absurd he hne
  · exact ⟨ho, hn⟩

theorem world_init_invW {sa sb : String} {ea eb : Option (List String)} {w : World}
    (hw : World.init sa sb ea eb = some w) : ∃ la lb : Bool, la = !lb ∧ WInvW la lb w := by
  unfold World.init at hw
  cases ha : chooseRole sa sb with
  | none => simp [ha] at hw
  | some ra =>
    cases hb : chooseRole sb sa with
    | none => simp [ha, hb] at hw
    | some rb =>
      obtain ⟨la, fa⟩ := ra
      obtain ⟨lb, fb⟩ := rb
      simp [ha, hb] at hw
      subst hw
      exact ⟨la, lb, roles_differ ha hb,
        WF_init _ _ _, WF_init _ _ _, ⟨idsOK_start ha ea, by intro c hc; simp [Side.init, openIds] at hc⟩,
        ⟨idsOK_start hb eb, by intro c hc; simp [Side.init, openIds] at hc⟩, rfl, rfl⟩

/-- **ids_disjoint, with the wire limit.**  After `choose_role` on both sides, over every run of the driven model —
    any application calls, deliveries, losses, any number of allocations (`ffwd` stands for as many as one likes), the
    boundary reached and passed or not — every id a side has put on the wire is non-zero, fits the 4-byte field (so
    it arrives as the same number), and is not an id of the other side. -/
theorem ids_disjoint_wire {sa sb : String} {ea eb : Option (List String)} {w : World}
    (hw : World.init sa sb ea eb = some w) (ops : List WOpW) :
    (∀ c ∈ openIds (wrunW w ops).a.log, c ≠ 0 ∧ c < wireLimit ∧ c ∉ openIds (wrunW w ops).b.log) ∧
    (∀ c ∈ openIds (wrunW w ops).b.log, c ≠ 0 ∧ c < wireLimit) := by
  obtain ⟨la, lb, hd, inv0⟩ := world_init_invW hw
  obtain ⟨_, _, ⟨⟨_, _, a3, _⟩, a5⟩, ⟨⟨_, _, b3, _⟩, b5⟩, la', lb'⟩ := wrunW_inv ops w inv0
  rw [la'] at a3
  rw [lb'] at b3
  refine ⟨fun c hc => ⟨by have := (a3 c hc).2.1; omega, a5 c hc, fun hcb => ?_⟩,
    fun c hc => ⟨by have := (b3 c hc).2.1; omega, b5 c hc⟩⟩
  have p1 := (a3 c hc).1
  have p2 := (b3 c hcb).1
  subst hd
  cases lb <;> simp at p1 p2 <;> omega

/-- **ids_never_wrap.**  On each side the ids put on the wire are strictly increasing along every run of the driven
    model: an allocation that succeeds yields an id larger than all earlier ones, so none is ever handed out twice —
    also not after 2**31 allocations. -/
theorem ids_never_wrap {sa sb : String} {ea eb : Option (List String)} {w : World}
    (hw : World.init sa sb ea eb = some w) (ops : List WOpW) :
    (openIds (wrunW w ops).a.log).Pairwise (· < ·) ∧ (openIds (wrunW w ops).b.log).Pairwise (· < ·) := by
  obtain ⟨la, lb, _, inv0⟩ := world_init_invW hw
  obtain ⟨_, _, ⟨⟨_, _, _, a4⟩, _⟩, ⟨⟨_, _, _, b4⟩, _⟩, _, _⟩ := wrunW_inv ops w inv0
  exact ⟨a4, b4⟩

/-- the allocation counter keeps the parity `choose_role` gave it (odd: Leader, even: Follower), stays positive and
    above every id handed out — there is no branch that resets or folds it -/
theorem counter_keeps_parity {sa sb : String} {ea eb : Option (List String)} {w : World}
    (hw : World.init sa sb ea eb = some w) (ops : List WOpW) :
    (wrunW w ops).a.nextScid % 2 = (if (wrunW w ops).a.leader then 1 else 0) ∧
    (wrunW w ops).b.nextScid % 2 = (if (wrunW w ops).b.leader then 1 else 0) ∧
    (wrunW w ops).a.leader = !(wrunW w ops).b.leader ∧
    (∀ c ∈ openIds (wrunW w ops).a.log, c < (wrunW w ops).a.nextScid) ∧
    (∀ c ∈ openIds (wrunW w ops).b.log, c < (wrunW w ops).b.nextScid) := by
  obtain ⟨la, lb, hd, inv0⟩ := world_init_invW hw
  obtain ⟨_, _, ⟨⟨a1, _, a3, _⟩, _⟩, ⟨⟨b1, _, b3, _⟩, _⟩, la', lb'⟩ := wrunW_inv ops w inv0
  exact ⟨a1, b1, by rw [la', lb']; exact hd, fun c hc => (a3 c hc).2.2, fun c hc => (b3 c hc).2.2⟩

/-- one step never moves a counter down -/
theorem counter_monotone (s : Side) (o : Op) : s.nextScid ≤ (stepW s o).1.nextScid := stepW_counter s o

/-- **inside the field the driven model is the unbounded one**: if every `connect` of a run finds its side's counter
    below the limit (`WithinWire`: stated on the unbounded run), the driver computes exactly `wrun` — so
    `honest_world_invariant`, `data_before_close_honest`, `open_exactly_once`, … apply to it verbatim. -/
theorem bounded_is_unbounded_within_wire (w : World) (ops : List WOp) (h : WithinWire w ops) :
    wrunW w (ops.map .w) = wrun w ops := wrunW_eq_wrun ops w h

/-- **`ffwd n` = `n` allocations**: `n` `connect()`s move the counter of the unbounded model exactly where `ffwd n`
    puts it (whatever else they do — and whatever the peer does meanwhile does not touch it: `step_fr`) -/
theorem ffwd_is_n_allocations (name : String) (k : PKind) (hne : name ≠ "") :
    ∀ (n : Nat) (s : Side), (run s (List.replicate n (.connect name k))).nextScid = (ffwd n s).nextScid
  | 0, s => by simp [run, ffwd]
  | n + 1, s => by
    have h1 : (step s (.connect name k)).1.nextScid = s.nextScid + 2 := by
      rcases connect_ids name k s with ⟨he, _⟩ | ⟨_, hn, _, _⟩
      · exact absurd he hne
      · exact hn
    have ih := ffwd_is_n_allocations name k hne n (step s (.connect name k)).1
    simp only [List.replicate, run]
    rw [ih]
    simp only [ffwd]
    omega

/-- no operation other than a local `connect()` touches the counter or adds an OPEN (so the fast-forwarded counter is
    not disturbed by anything the peer or the network does) -/
theorem only_connect_allocates (s : Side) (o : Op) (hne : ∀ name k, o ≠ .connect name k) :
    (step s o).1.nextScid = s.nextScid ∧ openIds (step s o).1.log = openIds s.log :=
  ⟨(step_fr s o hne).n, (step_fr s o hne).o⟩

section Examples

/-- leader "b1" / follower "a0" -/
def exWireW : World := { a := Side.init true 1 none, b := Side.init false 2 none, dAB := 0, dBA := 0 }

example : World.init "b1" "a0" none none = some exWireW := by simp [World.init, chooseRole, exWireW]

/-- the Leader after 2**31 - 1 allocations: its next id is 2**32 - 1, the last odd one that fits.  It opens three
    times, the Follower twice: the Leader gets 2**32 - 1 and then two `ValueError`s (each consuming a sequence number:
    its next record would be number 3), the Follower 2 and 4; nothing is shared, nothing wraps. -/
def exWireOps : List WOpW :=
  [.ffwdA 2147483647, .w (.onA (.connect "a" .full)), .w (.onB (.connect "b" .full)), .w (.onA (.connect "a" .full)),
   .w (.onB (.connect "b" .full)), .w (.onA (.connect "a" .full))]

example : openIds (wrunW exWireW exWireOps).a.log = [4294967295] ∧ openIds (wrunW exWireW exWireOps).b.log = [2, 4] ∧
    (wrunW exWireW exWireOps).a.nextScid = 4294967301 ∧ (wrunW exWireW exWireOps).a.nextSeq = 3 ∧
    (wrunW exWireW exWireOps).a.subs.length = 1 := by decide

example : (wstepW (wrunW exWireW (exWireOps.take 3)) (.w (.onA (.connect "a" .full)))).2 = some .valueError := by decide

/-- the hypotheses of `alloc_beyond_wire_fails` are met there -/
example : wireLimit ≤ (wrunW exWireW (exWireOps.take 3)).a.nextScid := by decide

/-- a wrapping allocator ("start over instead of failing": `if next > 2**32 - 1: next -= 2**32 - 1`) is a different
    function: from the same state it hands the *Leader* the id 2 — even, the Follower's — which `ids_disjoint_wire`
    (parity) and `ids_never_wrap` (2 after 2**32 - 1) exclude for `connectW` -/
example : let wrapped := (4294967295 + 2) - 4294967295
    wrapped = 2 ∧ wrapped % 2 ≠ 4294967295 % 2 ∧ ¬ (4294967295 < wrapped) := by decide

/-- `WithinWire` is satisfiable by a run that allocates on both sides (the ordinary case) -/
example : WithinWire exWireW [.onA (.connect "a" .full), .onB (.connect "b" .half), .deliverAB, .onA (.connect "a" .full)] := by
  refine ⟨Or.inr ?_, Or.inr ?_, trivial, Or.inr ?_, trivial⟩ <;> decide

end Examples

end WV.Props.C13
