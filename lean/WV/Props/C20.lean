import WV.Proofs.C20
import WV.Proofs.C20_Gen

/-!
C20 — peer connection hints are untrusted: never a crash, only valid hints dialled.

Property theorems over the executable model `WV.C20` (the definitions `wvdriver` runs).  `J` is an
arbitrary decoded JSON value; every theorem quantifies over *all* of them (no bound on list length,
nesting, string or integer size; `nan`/`inf` priorities included).  Helper lemmas: `WV/Proofs/C20.lean`.
-/
namespace WV.Props.C20
open WV WV.C20 WV.Gen

/-! ## tie to the source -/

/-- the guards, peer-data accesses, loops, `sorted` calls, `raise`s and returned expressions of the ten modelled
    functions (`describe_hint_obj`: the peer-chosen hostname is only ever formatted with `%s`),
    as `tools/extract.py` reads them from the working tree *now*, are exactly the ones the model was
    written against (reverting any guard of 147de0a changes the left-hand side) -/
theorem guards_agree : Gen.HintGuards.table = expectedGuards := by rfl

/-! ## hints_total -/

/-- `parse_tcp_v1_hint` and `parse_hint` never raise, whatever JSON value they are given -/
theorem hints_total_parse (j : J) :
    (∃ r, parseTcpV1Hint j = .ok r) ∧ (∃ r, parseHint j = .ok r) := by
  obtain ⟨r, hr, _⟩ := parseTcp_spec j
  obtain ⟨r', hr', _⟩ := parseHint_spec j
  exact ⟨⟨r, hr⟩, ⟨r', hr'⟩⟩

/-- **transit.** For every configuration (Tor or not, listener or not, own relay or not) and every
    sequence of `add_connection_hints(list)` calls with arbitrary JSON lists: no call raises (neither
    the parsing, nor `sorted(relay_hints)`, nor hashing into the set), and `_connect()` afterwards
    (endpoint construction, `describe_hint_obj`, priority bucketing, `sorted(…, reverse=True)`) either
    returns its contenders or raises the designed `TransitError("No contenders")` — the latter only
    when there is no listener. -/
theorem hints_total_transit (tor listener own : Bool) (adds : List (List J)) :
    let r := runAdds (Transit.init tor listener own) adds
    r.2 = none ∧ ((∃ ds, connect r.1 = .ok ds) ∨ (connect r.1 = .error .transitError ∧ listener = false)) := by
  intro r
  obtain ⟨h1, inv, _, hl⟩ := runAdds_spec (D := adds.flatten) (R := adds.flatten.flatMap subSources)
    (ownHints_valid own) adds (Transit.init tor listener own) (init_inv tor listener own _ _)
    (fun l hl h hh => List.mem_flatten.mpr ⟨l, hl, hh⟩)
    (fun l hl h hh x hx => List.mem_flatMap.mpr ⟨h, List.mem_flatten.mpr ⟨l, hl, hh⟩, hx⟩)
  refine ⟨h1, ?_⟩
  rcases connect_spec (ownHints_valid own) _ inv with ⟨ds, hds, _⟩ | ⟨he, hlis⟩
  · exact Or.inl ⟨ds, hds⟩
  · exact Or.inr ⟨he, by rw [← hlis]; exact hl.symm⟩

/-- **dilation.** A `connection-hints` message whose `"hints"` is a list of arbitrary JSON values,
    arriving in any Manager state that has an `rx_HINTS` row (all but WAITING/STOPPED in the generated
    table) while the Connector is in any state with a `got_hints` row: `Manager.use_hints`,
    `parse_hint`, `Connector._use_hints` (priority dict, `sorted(set(…), reverse=True)`,
    `_schedule_connection`) run to completion; earlier scheduled connections are kept. -/
theorem hints_total_dilation (d : Dil) (kvs : List (String × J)) (hints : List J)
    (hl : lookup "hints" kvs = some (.arr hints))
    (hm : Manager.table d.mgr .rx_HINTS ≠ none) (hc : Connector.table d.con .got_hints ≠ none) :
    ∃ d' new, rxHints d (.obj kvs) = .ok d' ∧ d'.sched = d.sched ++ new := by
  unfold rxHints
  cases hrow : Manager.table d.mgr .rx_HINTS with
  | none => exact absurd hrow hm
  | some row =>
    obtain ⟨m', outs⟩ := row
    by_cases hu : outs.contains .use_hints = true
    · obtain ⟨hs, hhs, hg⟩ := managerUseHints_list (O := []) (D := hints) (R := hints.flatMap subSources) kvs hints hl
        (fun x hx => hx) (fun x hx y hy => List.mem_flatMap.mpr ⟨x, hx, hy⟩)
      obtain ⟨ss, hss, _⟩ := connectorUseHints_spec (O := []) (by simp) d.tor d.noListen hs hg
      cases hcrow : Connector.table d.con .got_hints with
      | none => exact absurd hcrow hc
      | some crow =>
        obtain ⟨c', couts⟩ := crow
        by_cases hcu : couts.contains .use_hints = true
        · exact ⟨_, ss, by simp only [hu, ↓reduceIte, hhs, bind, Except.bind, connectorGotHints, hcrow, hcu, hss]; rfl, rfl⟩
        · exact ⟨_, [], by simp only [hu, ↓reduceIte, hhs, bind, Except.bind, connectorGotHints, hcrow, hcu]; rfl, by simp⟩
    · exact ⟨_, [], by simp only [hu]; rfl, by simp⟩

/-- the relay this side is configured with is scheduled by `Connector.start()` without an exception -/
theorem hints_total_dilation_start (tor noListen own : Bool) (m : Manager.State) :
    ∃ d, Dil.init tor noListen own m = .ok d := by
  cases own with
  | false => exact ⟨_, rfl⟩
  | true =>
    obtain ⟨ss, hss, _⟩ := connectorUseHints_spec (O := ownRelay) (D := []) (R := []) ownRelay_valid tor noListen
      [.relay ownRelay] (by intro h hh; simp at hh; subst hh; exact fun t ht => Or.inl ht)
    exact ⟨_, by simp only [Dil.init, ↓reduceIte, hss, bind, Except.bind]; rfl⟩

/-! ## only_valid_dialled -/

/-- **transit.** Every connection `_connect()` starts is either to this side's own configured relay
    or to the `"hostname"` (a string) and `"port"` (an integer, not a bool) of a JSON object the peer
    sent — a top-level entry for a direct attempt, an entry of a `relay-v1` object's `"hints"` list
    for a relay attempt — whose `"type"` is `direct-tcp-v1`, or `tor-tcp-v1` when Tor is in use. -/
theorem only_valid_dialled_transit (tor listener own : Bool) (adds : List (List J)) (ds : List Dial)
    (h : connect (runAdds (Transit.init tor listener own) adds).1 = .ok ds) :
    ∀ d ∈ ds,
      (d.relay = false ∧ ∃ src ∈ adds.flatten, Supported tor src d.host d.port) ∨
      (d.relay = true ∧ ((own = true ∧ d.host = .str "relay.example" ∧ d.port = .int 4001) ∨
        ∃ src ∈ adds.flatten.flatMap subSources, Supported tor src d.host d.port)) := by
  obtain ⟨_, inv, htor, _⟩ := runAdds_spec (D := adds.flatten) (R := adds.flatten.flatMap subSources)
    (ownHints_valid own) adds (Transit.init tor listener own) (init_inv tor listener own _ _)
    (fun l hl h hh => List.mem_flatten.mpr ⟨l, hl, hh⟩)
    (fun l hl h hh x hx => List.mem_flatMap.mpr ⟨h, List.mem_flatten.mpr ⟨l, hl, hh⟩, hx⟩)
  have htor' : (runAdds (Transit.init tor listener own) adds).1.tor = tor := htor
  rcases connect_spec (ownHints_valid own) _ inv with ⟨ds', hds', hm⟩ | ⟨he, _⟩
  · rw [h] at hds'
    cases hds'
    intro d hd
    rcases hm d hd with ⟨hr, t, hg, hfrom⟩ | ⟨hr, t, hg, hfrom⟩
    · left
      rw [htor'] at hfrom
      rcases hg with hg | ⟨src, hs, ha⟩
      · simp at hg
      · exact ⟨hr, src, hs, ha.supported hfrom⟩
    · right
      rw [htor'] at hfrom
      refine ⟨hr, ?_⟩
      rcases hg with hg | ⟨src, hs, ha⟩
      · left
        cases own with
        | false => simp [ownHints] at hg
        | true =>
          simp [ownHints, ownRelay] at hg
          subst hg
          exact ⟨rfl, hfrom.1, hfrom.2.1⟩
      · exact Or.inr ⟨src, hs, ha.supported hfrom⟩
  · rw [h] at he; cases he

/-- **dilation.** Every connection `_use_hints` schedules for a `connection-hints` message is for a
    JSON object the peer sent (top-level entry for a direct attempt, `relay-v1` sub-hint for a relay
    attempt) of type `direct-tcp-v1`/`tor-tcp-v1` with a string hostname and a non-bool integer port;
    and it gets an endpoint (is really dialled when its timer fires) only if this client can use the
    type: without Tor, only `direct-tcp-v1`. -/
theorem only_valid_dialled_dilation (d d' : Dil) (kvs : List (String × J)) (hints : List J)
    (hl : lookup "hints" kvs = some (.arr hints)) (h : rxHints d (.obj kvs) = .ok d') :
    ∃ new, d'.sched = d.sched ++ new ∧ ∀ s ∈ new,
      (s.relay = false ∧ ∃ src ∈ hints, SchedSupported d.tor src s ∧ (d.tor = false → s.kind = .direct)) ∨
      (s.relay = true ∧ ∃ src ∈ hints.flatMap subSources, SchedSupported d.tor src s) := by
  unfold rxHints at h
  cases hrow : Manager.table d.mgr .rx_HINTS with
  | none => simp [hrow] at h
  | some row =>
    obtain ⟨m', outs⟩ := row
    simp only [hrow] at h
    by_cases hu : outs.contains .use_hints = true
    · obtain ⟨hs, hhs, hg⟩ := managerUseHints_list (O := []) (D := hints) (R := hints.flatMap subSources) kvs hints hl
        (fun x hx => hx) (fun x hx y hy => List.mem_flatMap.mpr ⟨x, hx, hy⟩)
      obtain ⟨ss, hss, hok⟩ := connectorUseHints_spec (O := []) (by simp) d.tor d.noListen hs hg
      simp only [hu, ↓reduceIte, hhs, bind, Except.bind, connectorGotHints] at h
      cases hcrow : Connector.table d.con .got_hints with
      | none => simp [hcrow] at h
      | some crow =>
        obtain ⟨c', couts⟩ := crow
        simp only [hcrow] at h
        by_cases hcu : couts.contains .use_hints = true
        · simp only [hcu, ↓reduceIte, hss, pure, Except.pure] at h
          cases h
          refine ⟨ss, rfl, ?_⟩
          intro s hsm
          rcases hok s hsm with ⟨hr, t, hgood, hfrom, hdir⟩ | ⟨hr, t, hgood, hfrom⟩
          · rcases hgood with hgood | ⟨src, hsrc, ha⟩
            · simp at hgood
            · exact Or.inl ⟨hr, src, hsrc, ha.schedSupported hfrom, fun ht => hfrom.2.2.1.trans (hdir ht)⟩
          · rcases hgood with hgood | ⟨src, hsrc, ha⟩
            · simp at hgood
            · exact Or.inr ⟨hr, src, hsrc, ha.schedSupported hfrom⟩
        · simp only [hcu] at h
          cases h
          exact ⟨[], by simp, by simp⟩
    · simp only [hu] at h
      cases h
      exact ⟨[], by simp, by simp⟩

/-! ## hints in every reachable Manager state and generation

`GDil` (Model/C20.lean) is the Manager's machine around `use_hints`, read from the generated `Manager` and
`Connector` tables: PLEASE as Leader or Follower, hints messages, RECONNECT / RECONNECTING, a connection made and
lost, `stop()`, timers.  Every `_schedule_connection` call and every dial carries the number of the Connector that
made it.  `GDil.run` is a history: an op the network cannot perform is skipped, `NoTransition` (a message the
machine has no row for — raised before anything changes) is survived, any other exception ends it. -/

/-- **hints_total, all histories.**  Whatever the configuration (Tor, listener, own relay, what the application's
    status callback does with the set it is handed) and whatever history of in-scope ops — any number of generations,
    Connectors abandoned while connecting (`stop_connecting`), connections made / lost / abandoned, `stop()`, several
    hints messages per generation with arbitrary JSON lists in hint position, in every Manager state —
    no op raises anything but `NoTransition`: neither a hints message, nor the start of a new generation
    (`Connector.start()` uses the relay hints and reports them through `_hint_status`). -/
theorem hints_total_generations (tor noListen own cb : Bool) (ops : List GOp) (hs : ∀ op ∈ ops, op.InScope) :
    ∃ d0, GDil.init tor noListen own cb = .ok d0 ∧ (d0.run ops).2 = none := by
  obtain ⟨d0, h0, inv, _⟩ := init_spec tor noListen own cb (ops.flatMap GOp.hintItems)
    ((ops.flatMap GOp.hintItems).flatMap subSources)
  refine ⟨d0, h0, (run_spec ops inv hs ?_ ?_).1⟩
  · exact fun op ho x hx => List.mem_flatMap.mpr ⟨op, ho, hx⟩
  · exact fun op ho x hx y hy => List.mem_flatMap.mpr ⟨x, List.mem_flatMap.mpr ⟨op, ho, hx⟩, hy⟩

/-- a single in-scope op on a state that satisfies the invariant of all reachable states: it succeeds and keeps the
    invariant and the configuration, or it is refused with `NoTransition` -/
theorem hints_total_step {D R : List J} {d : GDil} (inv : GInv D R d) (op : GOp) (hs : op.InScope)
    (hD : ∀ x ∈ op.hintItems, x ∈ D) (hR : ∀ x ∈ op.hintItems, ∀ y ∈ subSources x, y ∈ R) (hen : d.enabled op = true) :
    (∃ d', d.step op = .ok d' ∧ GInv D R d' ∧ SameCfg d d') ∨ d.step op = .error .noTransition :=
  gstep_spec inv op hs hD hR hen

/-- **only_valid_dialled, all histories.**  After any history, every `_schedule_connection` call of any generation
    (and so every dial: a dial is a fired timer of a scheduled call that has an endpoint) is for this side's own
    relay or for a JSON object some hints message of the history carried — top-level for a direct attempt, a
    `relay-v1` sub-hint for a relay attempt — of type `direct-tcp-v1`/`tor-tcp-v1` with a string hostname and a
    non-bool integer port; the calls carry the number of an existing Connector. -/
theorem only_valid_dialled_generations (tor noListen own cb : Bool) (ops : List GOp) (hs : ∀ op ∈ ops, op.InScope)
    (d0 : GDil) (h0 : GDil.init tor noListen own cb = .ok d0) :
    let d := (d0.run ops).1
    (∀ p ∈ d.dials, p ∈ d.sched ∧ p.2.ep = true) ∧
    ∀ p ∈ d.sched, p.1 < d.gen ∧
      ((p.2.relay = false ∧ ∃ src ∈ ops.flatMap GOp.hintItems, SchedSupported tor src p.2 ∧ (tor = false → p.2.kind = .direct)) ∨
       (p.2.relay = true ∧ ((own = true ∧ p.2.host = .str "relay.example" ∧ p.2.port = .int 4001) ∨
         ∃ src ∈ (ops.flatMap GOp.hintItems).flatMap subSources, SchedSupported tor src p.2))) := by
  intro d
  obtain ⟨d0', h0', inv, ht, _, ho, _⟩ := init_spec tor noListen own cb (ops.flatMap GOp.hintItems)
    ((ops.flatMap GOp.hintItems).flatMap subSources)
  rw [h0] at h0'
  cases h0'
  obtain ⟨_, inv', cfg⟩ := run_spec ops inv hs (fun op ho x hx => List.mem_flatMap.mpr ⟨op, ho, hx⟩)
    (fun op ho x hx y hy => List.mem_flatMap.mpr ⟨x, List.mem_flatMap.mpr ⟨op, ho, hx⟩, hy⟩)
  refine ⟨inv'.data.dials_ok, fun p hp => ⟨(inv'.data.sched_ok p hp).1, ?_⟩⟩
  have h := (inv'.data.sched_ok p hp).2
  have e1 : d.tor = tor := cfg.1.trans ht
  have e2 : d.own = own := cfg.2.2.1.trans ho
  rw [show (d0.run ops).1 = d from rfl, e1, e2] at h
  exact h.supported

/-- **an abandoned generation never dials.**  After any history, every timer that can still fire belongs to the
    current Connector, and that Connector is still connecting: `stop_connecting` (RECONNECT or `stop()` while
    CONNECTING) and the selection of a winner cancel what the old Connector had scheduled. -/
theorem abandoned_generation_never_dials (tor noListen own cb : Bool) (ops : List GOp) (hs : ∀ op ∈ ops, op.InScope)
    (d0 : GDil) (h0 : GDil.init tor noListen own cb = .ok d0) :
    ∀ p ∈ (d0.run ops).1.pending, p.1 + 1 = (d0.run ops).1.gen ∧ (d0.run ops).1.con = some .connecting := by
  obtain ⟨d0', h0', inv, _⟩ := init_spec tor noListen own cb (ops.flatMap GOp.hintItems)
    ((ops.flatMap GOp.hintItems).flatMap subSources)
  rw [h0] at h0'
  cases h0'
  exact (run_spec ops inv hs (fun op ho x hx => List.mem_flatMap.mpr ⟨op, ho, hx⟩)
    (fun op ho x hx y hy => List.mem_flatMap.mpr ⟨x, List.mem_flatMap.mpr ⟨op, ho, hx⟩, hy⟩)).2.1.data.pend_cur

/-- **the hints of a message reach the current generation.**  In any reachable state with the Manager CONNECTING —
    first generation or any later one, after an abandoned attempt or an ordinary reconnect — a hints message is
    parsed and exactly what `Connector._use_hints` makes of *this* message is scheduled on the current Connector
    (number `gen - 1`, which is connecting) and starts its timers there; nothing is dialled yet, nothing else changes. -/
theorem hints_reach_current_generation {D R : List J} {d : GDil} (inv : GInv D R d) (hm : d.mgr = .CONNECTING)
    (kvs : List (String × J)) (l : List J) (hl : lookup "hints" kvs = some (.arr l)) :
    ∃ hs ss d', managerUseHints (.obj kvs) = .ok hs ∧ connectorUseHints d.tor d.noListen hs = .ok ss ∧
      d.step (.hints (.obj kvs)) = .ok d' ∧ d.con = some .connecting ∧ d'.con = d.con ∧ d'.gen = d.gen ∧ d'.mgr = d.mgr ∧
      d'.sched = d.sched ++ ss.map (fun s => (d.gen - 1, s)) ∧ d'.pending = d.pending ++ ss.map (fun s => (d.gen - 1, s)) ∧
      d'.dials = d.dials := by
  obtain ⟨hs, ss, d', h1, h2, h3, ha, hc⟩ := hints_step_current inv hm kvs l hl
  exact ⟨hs, ss, d', h1, h2, h3, hc, ha.con, ha.gen, ha.mgr, ha.sched, ha.pending, ha.dials⟩

/-- a hints message (list in hint position) in a reachable state raises only when the Manager's table has no
    `rx_HINTS` row for the state (`NoTransition`, before anything changes: WAITING and STOPPED in the generated table) —
    never from inside `use_hints`: the Connector the hints are handed to is never a stopped one -/
theorem hints_raise_only_without_row {D R : List J} {d : GDil} (inv : GInv D R d) (kvs : List (String × J)) (l : List J)
    (hl : lookup "hints" kvs = some (.arr l)) (e : Err) (he : d.step (.hints (.obj kvs)) = .error e) :
    e = .noTransition ∧ Manager.table d.mgr .rx_HINTS = none := by
  have inv' : GInv (D ++ l) (R ++ l.flatMap subSources) d :=
    inv.mono (fun x hx => List.mem_append_left _ hx) (fun x hx => List.mem_append_left _ hx)
  rcases input_spec inv' .rx_HINTS (.obj kvs) none (by decide) ⟨fun h => (nomatch h), fun _ => ⟨kvs, l, rfl, hl,
    fun x hx => List.mem_append_right _ hx, fun x hx y hy => List.mem_append_right _ (List.mem_flatMap.mpr ⟨x, hx, hy⟩)⟩⟩ with
    ⟨d', h, _⟩ | ⟨h, hrow⟩
  · rw [show d.step (.hints (.obj kvs)) = d.input .rx_HINTS (.obj kvs) none from rfl, h] at he
    cases he
  · rw [show d.step (.hints (.obj kvs)) = d.input .rx_HINTS (.obj kvs) none from rfl, h] at he
    cases he
    exact ⟨rfl, hrow⟩

/-- the rows of the generated table without `rx_HINTS`: before `start()` and after the end -/
example : Manager.State.all.filter (fun m => (Manager.table m .rx_HINTS).isNone) = [.STOPPED, .WAITING] := by decide

/-! ### the status side channel (`_hint_status`, `_latest_status`, `DilationStatus.hints`) -/

/-- every expression that ever becomes `DilationStatus.hints` — the field's default and each `hints=` of an
    `evolve(...)`/`DilationStatus(...)` call in `_status.py`, `_dilation/manager.py`, `_dilation/connector.py`, as the
    translator reads them from the working tree now — is syntactically a `set` (so `.union`, iteration and the
    `set(...)` built from it in `_hint_status` are defined, whatever ran before) -/
theorem status_hints_always_a_set : ∀ s ∈ Gen.HintGuards.statusHintSites, s.2.2 = true := by decide

/-- the side channel is the one the model was written against: the only value `DilationStatus.hints` ever gets after
    its default is `set(hints).union(self._latest_status.hints)` in `_hint_status`; `_latest_status` is assigned only at
    construction and in `_maybe_send_status`; `_hint_status` is called only as the last statement of
    `Connector._use_hints`, with `DilationHint(f"{hostname}:{port}", is_direct)` of each scheduled hint;
    `_maybe_send_status` stores the status and hands it to the callback -/
theorem status_side_channel_agrees :
    Gen.HintGuards.statusHintSites.map (fun s => (s.1, s.2.1)) = expectedStatusSites ∧
    Gen.HintGuards.latestStatusAssignments = expectedLatestStatusAssignments ∧
    Gen.HintGuards.hintStatusCallers = expectedHintStatusCallers ∧
    Gen.HintGuards.useHintsStatusStatements = expectedUseHintsStatusStatements ∧
    Gen.HintGuards.statusSkeleton = expectedStatusSkeleton := by decide

/-- **the status side channel never feeds back into hint handling.**  Whatever `_latest_status.hints` holds and
    whatever the application's status callback does with the set it is handed (`cb`: leaves it alone / empties it), the
    same history — from any configuration `d`, reachable or not — ends with the same exception or none, in the same
    Manager and Connector states, with the same Connectors, scheduled connections, pending timers and dials.
    (In the code this rests on `status_side_channel_agrees`: nothing but `_hint_status`/`_maybe_send_status` touches
    `_latest_status`, and nothing in the hint path reads it.) -/
theorem status_never_affects_hints (d : GDil) (st : List StatusHint) (cb : Bool) (ops : List GOp) :
    ((d.withStatus st cb).run ops).2 = (d.run ops).2 ∧
    ((d.withStatus st cb).run ops).1.mgr = (d.run ops).1.mgr ∧ ((d.withStatus st cb).run ops).1.con = (d.run ops).1.con ∧
    ((d.withStatus st cb).run ops).1.gen = (d.run ops).1.gen ∧ ((d.withStatus st cb).run ops).1.sched = (d.run ops).1.sched ∧
    ((d.withStatus st cb).run ops).1.pending = (d.run ops).1.pending ∧ ((d.withStatus st cb).run ops).1.dials = (d.run ops).1.dials ∧
    ((d.withStatus st cb).run ops).1.noep = (d.run ops).1.noep := by
  obtain ⟨h1, st', cb', h2⟩ := run_agree ops d st cb
  rw [h2]
  exact ⟨h1.symm, rfl, rfl, rfl, rfl, rfl, rfl, rfl⟩

/-! ## a dead but well-typed hint never decides the race

`_start_connector` chains nothing but `startNegotiation` onto the attempt (pinned by `guards_agree`),
so a contender succeeds only with a negotiated connection; `raceOutcome` is `connect()` over the
attempts in the order they were started (compared with the real `connect()` on every transit case,
where the harness refuses / times out / breaks the handshake of some attempts). -/

/-- `connect()` fires with a connection only for an attempt that really connected and negotiated:
    refused, unreachable, timed-out or handshake-failing hints never make it fire -/
theorem dead_hint_never_wins (listener : Bool) (fates : List Fate) (i : Nat)
    (h : raceOutcome listener fates = .connection i) : fates[i]? = some .connected := by
  have key : ∀ (fs : List Fate) (k j : Nat), firstWinner k fs = some j → k ≤ j ∧ fs[j - k]? = some .connected := by
    intro fs
    induction fs with
    | nil => intro k j hj; simp [firstWinner] at hj
    | cons f rest ih =>
      intro k j hj
      unfold firstWinner at hj
      split at hj
      · cases hj
        refine ⟨Nat.le_refl _, ?_⟩
        cases f <;> simp_all [contender]
      · obtain ⟨hle, hget⟩ := ih (k + 1) j hj
        refine ⟨by omega, ?_⟩
        have : j - k = (j - (k + 1)) + 1 := by omega
        rw [this]
        simpa using hget
  unfold raceOutcome at h
  cases hw : firstWinner 0 fates with
  | none => simp [hw] at h; split at h <;> cases h
  | some j =>
    simp [hw] at h
    subst h
    simpa using (key fates 0 j hw).2

/-- as long as no attempt has connected, a listener or any attempt that is still pending keeps
    `connect()` pending: failures of the other hints — however many, of whatever kind — do not end it -/
theorem dead_hints_never_abort (listener : Bool) (fates : List Fate)
    (hnone : ∀ f ∈ fates, f ≠ .connected)
    (hlive : listener = true ∨ Fate.pending ∈ fates) : raceOutcome listener fates = .pending := by
  have key : ∀ (fs : List Fate) (k : Nat), (∀ f ∈ fs, f ≠ .connected) → firstWinner k fs = none := by
    intro fs
    induction fs with
    | nil => intro k _; rfl
    | cons f rest ih =>
      intro k hn
      unfold firstWinner
      have hf := hn f List.mem_cons_self
      have : contender f ≠ some true := by cases f <;> simp_all [contender]
      simp [this, ih (k + 1) (fun g hg => hn g (List.mem_cons_of_mem _ hg))]
  unfold raceOutcome
  rw [key fates 0 hnone]
  rcases hlive with hl | hp
  · simp [hl]
  · have : fates.any (fun f => (contender f).isNone) = true := List.any_eq_true.mpr ⟨.pending, hp, rfl⟩
    simp [this]

/-- non-vacuity: a refused first hint, a hint that breaks the handshake, then one that connects -/
example : raceOutcome false [.tcpFail, .handshakeFail, .pending] = .pending ∧
    raceOutcome false [.tcpFail, .handshakeFail, .connected] = .connection 2 ∧
    raceOutcome false [.tcpFail, .handshakeFail] = .failed := by decide

/-! ## encode_parse_roundtrip -/

/-- for every hint object with string hostname, integer port and numeric priority, the peer's
    `parse_hint` of `encode_hint(h)` is `h` again, except that `encode_hint` writes the members of a
    `RelayV1Hint` as `direct-tcp-v1` (so their class becomes `DirectTCPV1Hint`); hostnames, ports,
    priorities and their order are the same -/
theorem encode_parse_roundtrip (h : HintObj) (hw : h.Wf) :
    parseHint (encodeHint h) = .ok (some h.normalize) :=
  parse_encode h hw

/-- for the hint objects this side produces (`DirectTCPV1Hint`s from the listener, a `RelayV1Hint` of
    `DirectTCPV1Hint`s from `parse_hint_argv`) the round trip is the identity -/
theorem encode_parse_roundtrip_produced (h : HintObj) (hp : h.Producible) :
    parseHint (encodeHint h) = .ok (some h) := by
  cases h with
  | tcp t => exact parse_encode (.tcp t) hp.1
  | relay l =>
    have hw : (HintObj.relay l).Wf := fun t ht => (hp t ht).1
    rw [parse_encode (.relay l) hw]
    have : l.map Tcp.asDirect = l := by
      induction l with
      | nil => rfl
      | cons t ts ih =>
        simp only [List.map_cons]
        rw [asDirect_of_direct (hp t List.mem_cons_self).2,
          ih (fun t ht => hp t (List.mem_cons_of_mem _ ht)) (fun t ht => (hp t (List.mem_cons_of_mem _ ht)).1)]
    simp [HintObj.normalize, this]

/-! ## outside the quantifier (recorded, not part of the property)

`Manager.use_hints` reads `hint_message["hints"]` without a guard: a `connection-hints` message with
no `"hints"` key, or a non-iterable there, raises out of `received_dilation_message`.  The property
quantifies over *lists in hint position*, so this is not a counterexample to `hints_total_dilation`
(whose hypothesis `hl` excludes it); it is stated here so that the behaviour of the model — and, by
the correspondence run, of the code — is on record. -/
theorem use_hints_message_shape_unguarded :
    managerUseHints (.obj [("type", .str "connection-hints")]) = .error .keyError ∧
    managerUseHints (.obj [("type", .str "connection-hints"), ("hints", .int 5)]) = .error .typeError :=
  ⟨rfl, rfl⟩

/-! ## non-vacuity: the hypotheses are met by concrete, non-trivial runs -/

def exDirect : J := .obj [("type", .str "direct-tcp-v1"), ("hostname", .str "192.168.1.5"), ("port", .int 4001), ("priority", .float (.fin 1 2))]
def exRelay : J := .obj [("type", .str "relay-v1"), ("hints", .arr [
  .obj [("type", .str "direct-tcp-v1"), ("hostname", .str "r1"), ("port", .int 1), ("priority", .int 2)],
  .obj [("type", .str "tor-tcp-v1"), ("hostname", .str "r2"), ("port", .int 2)],
  .obj [("type", .str "direct-tcp-v1"), ("hostname", .str "bad"), ("port", .bool true)], .int 5])]
def exMsg : List (String × J) := [("type", .str "connection-hints"), ("hints", .arr [exDirect, exRelay, .null, .str "x"])]

/-- transit: one direct and one relay connection are started, the bool-port and non-dict entries are
    dropped, the Tor sub-hint is not dialled without Tor (hypothesis of `only_valid_dialled_transit`) -/
example : ∃ ds, connect (runAdds (Transit.init false false false) [[exDirect, exRelay, .null]]).1 = .ok ds ∧
    ds.length = 2 := ⟨_, rfl, rfl⟩
/-- no usable hint and no listener: the designed `TransitError` (second disjunct of `hints_total_transit`) -/
example : connect (runAdds (Transit.init false false false) [[.null, .int 5]]).1 = .error .transitError := rfl
/-- dilation: the hypotheses of `hints_total_dilation` / `only_valid_dialled_dilation` hold in CONNECTING/connecting,
    and three connections are scheduled (direct; relay r1; relay r2 without endpoint) -/
example : lookup "hints" exMsg = some (.arr [exDirect, exRelay, .null, .str "x"]) := rfl
example : Manager.table .CONNECTING .rx_HINTS ≠ none ∧ Connector.table .connecting .got_hints ≠ none := by decide
example : ∃ d', rxHints { mgr := .CONNECTING, con := .connecting, tor := false, noListen := false, sched := [] } (.obj exMsg) = .ok d' ∧
    d'.sched.length = 3 ∧ (d'.sched.map (·.ep)) = [true, true, false] := ⟨_, rfl, rfl, rfl⟩
/-- round trip: a producible relay hint -/
example : (HintObj.relay ownRelay).Producible := by
  intro t ht
  exact ⟨ownRelay_valid t ht, by simp [ownRelay] at ht; subst ht; rfl⟩
example : parseHint (encodeHint (.relay ownRelay)) = .ok (some (.relay ownRelay)) := rfl

/-- the history of a Follower with a relay configured: hints, RECONNECT while still connecting, hints again, time passes -/
def exHistory : List GOp := [.please .follower, .hints (.obj exMsg), .reconnect, .hints (.obj exMsg), .tick]

/-- its ops are in scope (hypothesis of the generation theorems) -/
example : ∀ op ∈ exHistory, op.InScope := by
  intro op h
  simp only [exHistory, List.mem_cons, List.not_mem_nil, or_false] at h
  rcases h with rfl | rfl | rfl | rfl | rfl <;> first | trivial | exact ⟨_, _, rfl, rfl⟩

/-- non-vacuity of the generation theorems: two Connectors are made; the first one's four timers (own relay, three
    hints) are cancelled by `stop_connecting`; the second schedules its relay and the three hints of the second
    message and dials the three that have an endpoint; nothing raises -/
example : ∃ d0, GDil.init false true true false = .ok d0 ∧
    (d0.run exHistory).2 = none ∧ (d0.run exHistory).1.gen = 2 ∧ (d0.run exHistory).1.mgr = .CONNECTING ∧
    (d0.run exHistory).1.sched.map (·.1) = [0, 0, 0, 0, 1, 1, 1, 1] ∧ (d0.run exHistory).1.dials.map (·.1) = [1, 1, 1] ∧
    (d0.run exHistory).1.noep = 1 ∧ (d0.run exHistory).1.pending.length = 0 ∧ (d0.run exHistory).1.status.length = 4 :=
  ⟨_, rfl, rfl, rfl, rfl, rfl, rfl, rfl, rfl, rfl⟩

end WV.Props.C20
