import WV.Model.ClientData

namespace WV.Props.C14
open WV.Client WV.ClientData

/-- every concrete step of the client projects onto a step of the control model -/
theorem conc_step_ctl (s : Conc) (ev : CEvent) :
    (cstep s ev).1.ctl = (Client.step s.ctl (classify s.data ev)).1 := rfl

end WV.Props.C14
