import WV.Proofs.ClientCert
import WV.Model.ClientData

/-!
# C14 — no internal failure on any legal use against a conformant server

`Reach enabled` = every state of the closed system client × environment (`WV.ClientEnv`) reachable
by ANY finite sequence of events the environment may produce (legal API calls; every behaviour of
a conformant server including duplicated and reordered deliveries, error and welcome-error
replies, a matching or non-matching peer; connection loss, failed first connection) — no bound on
the length of the run.  The client's control is `Client.step` over the Automat tables generated
from /repo on every run.
-/
namespace WV.Props.C14
open WV.Client WV.ClientEnv WV.ClientData WV.Cert

/-- **no_internal_failure**: in every reachable state, whatever the environment does next, the
    client's reaction raises no `NoTransition`, no assertion failure, no undocumented exception,
    and the interpreter never runs out of fuel (`Outcome.internal` covers all of these). -/
theorem no_internal_failure (s : Sys) (hr : Reach enabled s) (e : Event) (he : enabled s e = true) :
    ∀ x, (sysStep s e).2 ≠ Outcome.internal x :=
  (WV.ClientCert.safe_components (WV.ClientCert.reach_safe s hr e he)).1

/-- the verdict handed to the application is 'happy' or a documented WormholeError, and it is the
    one the history justifies (`verdictOK`) -/
theorem verdict_documented (s : Sys) (hr : Reach enabled s) (e : Event) (he : enabled s e = true) :
    (sysStep s e).1.mon.verdictBad = false :=
  (WV.ClientCert.safe_components (WV.ClientCert.reach_safe s hr e he)).2.2.2.2.2.1

/-- the outcome of the system step is the outcome of the client's control step -/
theorem sysStep_outcome (s : Sys) (e : Event) : (sysStep s e).2 = (Client.step s.ctl e).2.2 := rfl

/-- every concrete step of the client (with phase numbers, dedup set, reorder buffer, pending
    list) projects onto a step of the control model … -/
theorem conc_step_ctl (s : Conc) (ev : CEvent) :
    (cstep s ev).1.ctl = (Client.step s.ctl (classify s.data ev)).1 := rfl

/-- … with the same outcome: so whenever the abstract state is reachable and the classified event
    is one the environment may produce, the concrete client does not fail internally either. -/
theorem no_internal_failure_concrete (s : Sys) (hr : Reach enabled s) (d : Data) (ev : CEvent)
    (he : enabled s (classify d ev) = true) :
    ∀ x, (cstep { ctl := s.ctl, data := d } ev).2.2 ≠ Outcome.internal x := by
  intro x
  have h := no_internal_failure s hr (classify d ev) he x
  rw [sysStep_outcome] at h
  exact h

/-- non-vacuity: a non-trivial reachable state (code set, connected, welcomed, nameplate claimed,
    mailbox open, peer's PAKE processed) in which many events are enabled -/
def demo : Sys :=
  [Event.setCode true, .wsOpen, .welcome false, .claimed, .message .theirs .pake true true .good].foldl
    (fun s e => (sysStep s e).1) { env := { matchKey := true } }

example : Reach enabled demo := by
  have h0 : Reach enabled ({ env := { matchKey := true } } : Sys) := Reach.init (by decide)
  have h1 := Reach.step (Event.setCode true) h0 (by decide)
  have h2 := Reach.step Event.wsOpen h1 (by decide)
  have h3 := Reach.step (Event.welcome false) h2 (by decide)
  have h4 := Reach.step Event.claimed h3 (by decide)
  exact Reach.step (Event.message .theirs .pake true true .good) h4 (by decide)

example : demo.ctl.b = .S1_lonely ∧ demo.ctl.sk = .S2_know_key ∧ demo.ctl.r = .S1_unverified_key := by decide
example : enabled demo (.message .theirs .version true true .good) = true := by decide

end WV.Props.C14
