import WV.Proofs.ClientCert
import WV.Model.ClientData
import WV.Gen.Catches

/-!
# C14 — no internal failure on any legal use against a conformant server

`Reach enabled` = every state of the closed system client × environment (`WV.ClientEnv`) reachable
by ANY finite sequence of events the environment may produce (legal API calls; every behaviour of
a conformant server including duplicated and reordered deliveries, error and welcome-error
replies, a matching or non-matching peer; connection loss, failed first connection) — no bound on
the length of the run.  The client's control is `Client.step` over the Automat tables generated
from /repo on every run.
-/
namespace WV.Props.C14
open WV.Client WV.ClientEnv WV.ClientData WV.Cert

/-- **no_internal_failure**: in every reachable state, whatever the environment does next, the
    client's reaction raises no `NoTransition`, no assertion failure, no undocumented exception,
    and the interpreter never runs out of fuel (`Outcome.internal` covers all of these). -/
theorem no_internal_failure (s : Sys) (hr : Reach enabled s) (e : Event) (he : enabled s e = true) :
    ∀ x, (sysStep s e).2 ≠ Outcome.internal x :=
  (WV.ClientCert.safe_components (WV.ClientCert.reach_safe s hr e he)).1

/-- the verdict handed to the application is 'happy' or a documented WormholeError, and it is the
    one the history justifies (`verdictOK`) -/
theorem verdict_documented (s : Sys) (hr : Reach enabled s) (e : Event) (he : enabled s e = true) :
    (sysStep s e).1.mon.verdictBad = false :=
  (WV.ClientCert.safe_components (WV.ClientCert.reach_safe s hr e he)).2.2.2.2.2.1

/-- the outcome of the system step is the outcome of the client's control step -/
theorem sysStep_outcome (s : Sys) (e : Event) : (sysStep s e).2 = (Client.step s.ctl e).2.2 := rfl

/-- every concrete step of the client (with phase numbers, dedup set, reorder buffer, pending
    list) projects onto a step of the control model … -/
theorem conc_step_ctl (s : Conc) (ev : CEvent) :
    (cstep s ev).1.ctl = (Client.step s.ctl (classify s.data ev)).1 := rfl

/-- … with the same outcome: so whenever the abstract state is reachable and the classified event
    is one the environment may produce, the concrete client does not fail internally either. -/
theorem no_internal_failure_concrete (s : Sys) (hr : Reach enabled s) (d : Data) (ev : CEvent)
    (he : enabled s (classify d ev) = true) :
    ∀ x, (cstep { ctl := s.ctl, data := d } ev).2.2 ≠ Outcome.internal x := by
  intro x
  have h := no_internal_failure s hr (classify d ev) he x
  rw [sysStep_outcome] at h
  exact h

/-- non-vacuity: a non-trivial reachable state (code set, connected, welcomed, nameplate claimed,
    mailbox open, peer's PAKE processed) in which many events are enabled -/
def demo : Sys :=
  [Event.setCode true, .wsOpen, .welcome false, .claimed, .message .theirs .pake true true .good].foldl
    (fun s e => (sysStep s e).1) { env := { matchKey := true } }

example : Reach enabled demo := by
  have h0 : Reach enabled ({ env := { matchKey := true } } : Sys) := Reach.init (by decide)
  have h1 := Reach.step (Event.setCode true) h0 (by decide)
  have h2 := Reach.step Event.wsOpen h1 (by decide)
  have h3 := Reach.step (Event.welcome false) h2 (by decide)
  have h4 := Reach.step Event.claimed h3 (by decide)
  exact Reach.step (Event.message .theirs .pake true true .good) h4 (by decide)

example : demo.ctl.b = .S1_lonely ∧ demo.ctl.sk = .S2_know_key ∧ demo.ctl.r = .S1_unverified_key := by decide
example : enabled demo (.message .theirs .version true true .good) = true := by decide

/-! ## The exception handlers the model's "unusable PAKE" event stands on

The client model has ONE event for a PAKE of another participant that cannot be used: `PakeKind.noField` (→
`got_pake_bad`) when the body does not yield an element, `PakeKind.invalid` (→ `_B.scared()`) when SPAKE2 rejects the
element — whatever statement of `bytes_to_dict` / `hexstr_to_bytes` / `finish` raised, and whichever exception class.
That is faithful only as long as the `except` clauses around those statements catch every class the statements can
raise.  The translator lists, for each handler, the classes it names (resolved through aliases) and which classes of a
probe universe (all of `builtins` below `Exception`, json, binascii, spake2, nacl) it therefore catches; the theorems
below demand the WHOLE families `ValueError`, `TypeError`, `AssertionError`, `KeyError`, `RecursionError` (resp.
`SPAKEError`, `NotOnCurve`) — every class of the universe at or below them — so that replacing a family by an
enumeration of the members one happened to think of is a broken obligation, not only the members the harness's
corpus exercises (`pake-raise:<statement>:<class>` tags of C14's evidence). -/

open WV.Gen in
/-- the classes of the probe universe at or below `base` -/
def below (base : String) : List String :=
  (Catches.classes.filter (fun p => p.1 == base || p.2.contains base)).map (·.1)

open WV.Gen in
/-- `fn` consists of exactly one `try` with one handler, which guards exactly the calls `body`, catches every class of
    the universe at or below each of `bases`, does exactly `handler`, and the only calls outside are `outside` -/
def guardedBy (fn : String) (body bases handler outside : List String) : Prop :=
  ∃ h, Catches.handlers fn = [h] ∧ h.body = body ∧ h.handler = handler ∧ h.orelse = [] ∧ h.final = [] ∧
    Catches.outside fn = outside ∧ ∀ base ∈ bases, base ∈ h.covers ∧ ∀ c ∈ below base, c ∈ h.covers

/-- **pake_parse_failures_are_scared**: in `_SortedKey.got_pake` both parsing calls sit inside the `try`, nothing but
    `got_pake_good` happens outside it, the handler is `got_pake_bad(); return`, and it catches the whole families
    ValueError (UnicodeDecodeError, UnicodeEncodeError, JSONDecodeError, binascii.Error, the int-digit-limit ValueError,
    …), TypeError, AssertionError, KeyError and RecursionError. -/
theorem pake_parse_failures_are_scared :
    guardedBy "_SortedKey.got_pake" ["bytes_to_dict", "hexstr_to_bytes"]
      ["ValueError", "TypeError", "AssertionError", "KeyError", "RecursionError"]
      ["self.got_pake_bad", "return"] ["self.got_pake_good"] :=
  ⟨_, rfl, by decide⟩

/-- **pake_element_failures_are_scared**: in `_SortedKey.compute_key` SPAKE2's `finish` is the one guarded call, the
    handler is `_B.scared(); return`, and it catches the families AssertionError (side byte), ValueError (empty element,
    zero, wrong subgroup), SPAKEError (OffSides, ReflectionThwarted, …) and NotOnCurve. -/
theorem pake_element_failures_are_scared :
    guardedBy "_SortedKey.compute_key" ["_sp.finish"]
      ["AssertionError", "ValueError", "spake2.spake2.SPAKEError", "spake2.ed25519_basic.NotOnCurve"]
      ["_B.scared", "return"]
      ["_B.got_key", "derive_phase_key", "dict_to_bytes", "encrypt_data", "_M.add_message", "_R.got_key"] :=
  ⟨_, rfl, by decide⟩

/-- **undecryptable_is_a_bad_message**: `Receive.got_message` guards `decrypt_data` against the whole CryptoError
    family (PyNaCl's own ValueError/TypeError/AssertionError variants included) and answers `got_message_bad(); return` -/
theorem undecryptable_is_a_bad_message :
    guardedBy "Receive.got_message" ["decrypt_data"] ["nacl.exceptions.CryptoError"]
      ["self.got_message_bad", "return"] ["self.got_message_bad", "return", "derive_phase_key", "self.got_message_good"] :=
  ⟨_, rfl, by decide⟩

open WV.Gen in
/-- **handler_failures_reach_the_boss**: whatever a response handler raises, `ws_message` hands to `Boss.error` (and
    re-raises): the handler of its `try` catches every class of the universe. -/
theorem handler_failures_reach_the_boss :
    ∃ h, Catches.handlers "RendezvousConnector.ws_message" = [h] ∧ h.body = ["meth", "return"] ∧
      h.handler = ["_B.error", "raise"] ∧ ∀ p ∈ Catches.classes, p.1 ∈ h.covers :=
  ⟨_, rfl, by decide +kernel⟩

/-- non-vacuity: the families really contain the classes the statements raise (each is exercised on the real code by
    C14's corpus: tags `pake-raise:decode:UnicodeDecodeError`, `…:ascii:UnicodeEncodeError`, `…:loads:JSONDecodeError`,
    `…:unhexlify:Error`, `…:finish:OffSides`, `…:finish:ReflectionThwarted`) -/
example : "UnicodeDecodeError" ∈ below "ValueError" ∧ "UnicodeEncodeError" ∈ below "ValueError" ∧
    "json.decoder.JSONDecodeError" ∈ below "ValueError" ∧ "binascii.Error" ∈ below "ValueError" ∧
    "spake2.spake2.OffSides" ∈ below "spake2.spake2.SPAKEError" ∧
    "spake2.spake2.ReflectionThwarted" ∈ below "spake2.spake2.SPAKEError" ∧
    "nacl.exceptions.ValueError" ∈ below "nacl.exceptions.CryptoError" := by decide

end WV.Props.C14
