import WV.Proofs.C16_time
import WV.Proofs.C16_legal
import WV.Proofs.C16_flow
import WV.Proofs.C16_ids

/-!
C16 — the Leader replaces a silent peer connection and never drops a responsive one.

All theorems are about `WV.C16.step` / `tick` / `advance` over `Cfg.real T`, i.e. the model the
driver executes, instantiated with the TrafficTimer and Manager tables *generated from the
working tree*, for every ping interval `T ≥ 1` (in clock ticks), every reachable state and
every timing of the events (a trace is any `List Op`; `Op.tick` is the only thing that moves
the clock).  "Reachable" = reached from `init` by operations that did not raise.

The random source.  The id of every keep-alive Ping is `os.urandom(4)`.  In the model an id is an opaque token
(compared for equality only) and the environment may fix what the next draws return (`Op.rnd ids`: ANY sequence,
repeats included; a trace is still any `List Op`), so every theorem below quantifies over every id sequence the
code may draw.  Freshness is not assumed.  `send_ping` asserts that the id drawn is not the key of a ping still
outstanding; the theorems that need that say so with the hypothesis `freshNext s = true` ("the next draw is not an
outstanding id"), `legal_raises_only_on_duplicate_id` shows that nothing else can raise, and
`duplicate_id_kills_the_monitor` shows that the guard cannot be dropped on the current tree (the real code is run at
that point by the harness: corpus cases `draws=[x, x]`).
-/
namespace WV.Props.C16
open WV WV.Gen WV.C16 WV.Proofs.C16

/-! ## tie: the method bodies the model mirrors -/

/-- the `ast` call skeletons of `_send_ping_reset_timer`, `_signal_reconnect`,
    `_stop_using_connection`, `abandon_connection`, `connector_connection_made/lost`,
    `send_ping`, `handle_pong` and the two TrafficTimer outputs are the ones modelled
    (e.g. the `LEADER` guard around `got_connection`, the timer `cancel` on loss and on
    abandon, `got_connection` *before* `outbound.use_connection`), the Inbound pause/resume/stop bodies,
    and `dataReceived` catching `Disconnect` only (any other exception of a record handler escapes to the
    reactor, which drops the transport: records behind it in the segment are lost with the connection,
    never stranded) -/
theorem skeleton_agrees : skeletonOK = true := by decide +kernel

/-! ## never drops a responsive connection -/

/-- The only thing that makes the Leader call `disconnect()` from the monitor is a step of the
    clock (a tick, or a stall of any length after which the timer runs late) that runs the timer
    armed when a `Ping` was handed to the connection in use — `p.sent` is the time that Ping was
    really sent, the timer's deadline is `p.sent + T`, it is handled at `s'.now ≥ p.sent + T` —
    and that Ping is still unanswered.  With exact timers (`o = .tick`) that is exactly one
    interval after the Ping. -/
theorem drop_only_if_unanswered {T : Nat} (hT : 1 ≤ T) {s s' : St} {o : Op}
    (hr : Reach (Cfg.real T) s) (h : step (Cfg.real T) s o = (s', none)) (hd : s'.drops ≠ s.drops) :
    ∃ n c p, o.clock = some n ∧ s'.now = s.now + n ∧ s.conn = some c ∧ p ∈ s.pings ∧ p ∈ s'.pings ∧
      p.wire = some c ∧ s.timer = some (p.sent + T) ∧ s.now < p.sent + T ∧ p.sent + T ≤ s'.now ∧
      (o = .tick → p.sent + T = s'.now) ∧ s'.drops = s.drops ++ [(c, s'.now)] := by
  have hi := reach_inv hT hr
  have key : ∀ n, step (Cfg.real T) s (.stall n) = (s', none) → ∃ c p, s'.now = s.now + n ∧ s.conn = some c ∧
      p ∈ s.pings ∧ p ∈ s'.pings ∧ p.wire = some c ∧ s.timer = some (p.sent + T) ∧ s.now < p.sent + T ∧
      p.sent + T ≤ s'.now ∧ s'.drops = s.drops ++ [(c, s'.now)] := by
    intro n hn
    rcases stall_drop hi hn with h' | ⟨c, p, hc, hp, hp', hw, htm, hle, hnow, hdr⟩
    · exact absurd h' hd
    · exact ⟨c, p, hnow, hc, hp, hp', hw, htm, (hi.tim _ htm).2.2.2, hle, hdr⟩
  cases hcl : o.clock with
  | none =>
    have := step_drops (T := T) (s := s) hcl
    rw [h] at this
    exact absurd this hd
  | some n =>
    cases o <;> simp [Op.clock] at hcl
    case tick =>
      subst hcl
      obtain ⟨c, p, hnow, hc, hp, hp', hw, htm, hlt, hle, hdr⟩ := key 1 (by rw [← tick_eq_stall]; exact h)
      exact ⟨1, c, p, rfl, hnow, hc, hp, hp', hw, htm, hlt, hle, fun _ => by omega, hdr⟩
    case stall m =>
      subst hcl
      obtain ⟨c, p, hnow, hc, hp, hp', hw, htm, hlt, hle, hdr⟩ := key m h
      exact ⟨m, c, p, rfl, hnow, hc, hp, hp', hw, htm, hlt, hle, (fun ho => Op.noConfusion ho), hdr⟩

/-- `monitor_pings_are_written`: the peer can only answer the Pings it receives, so "responsive"
    must not be made vacuous by the Leader swallowing its own Pings.  Whatever the environment
    does — including the transport pausing the Outbound (`Op.pause`, send buffer full) at any
    instant — every Ping registered while a connection `c` is in use is handed to
    `c.send_record` at that instant (`wire = some c`); and only a timer expiry (a clock step) generates one.
    (The one Ping that is *not* written is the one `connector_connection_made` generates before
    the connection is in use, see `monitoring_restarts`.) -/
theorem monitor_pings_are_written {T : Nat} (hT : 1 ≤ T) {s s' : St} {o : Op} {c : Nat}
    (hr : Reach (Cfg.real T) s) (hc : s.conn = some c) (h : step (Cfg.real T) s o = (s', none)) :
    ∀ p ∈ s'.pings, p ∈ s.pings ∨ (p.wire = some c ∧ p.sent = s'.now ∧ o.clock ≠ none) :=
  step_pings (reach_inv hT hr) hc h

/-- `responsive_never_dropped`: along any trace from a reachable state — exact ticks *and* reactor
    stalls of any length (`Op.stall n`: the clock jumps, the expiry is handled late, at
    `deadline + d`, and the Ping goes out then) — if at every expiry that is handled every Ping
    that reached the connection in use has been answered within one interval *of the time it was
    actually sent* (`Responsive`), `signal_reconnect` never fires: no `disconnect()` is added.
    It holds for all stall sequences because the next deadline is `T` after the Ping really
    went out (`now + interval` at the late instant), never `T` after the missed deadline. -/
theorem responsive_never_dropped {T : Nat} (hT : 1 ≤ T) (ops : List Op) :
    ∀ {s s' : St}, Reach (Cfg.real T) s → run (Cfg.real T) s ops = (s', none) →
      Responsive (Cfg.real T) s ops = true → s'.drops = s.drops := by
  induction ops with
  | nil => intro s s' _ h _; simp [run] at h; rw [h]
  | cons o os ih =>
    intro s s' hr h hresp
    simp only [run] at h
    cases hs : step (Cfg.real T) s o with
    | mk s1 e =>
      cases e with
      | some e => simp [hs] at h
      | none =>
        simp only [hs, andThen_ok] at h
        simp only [Responsive, hs, Bool.and_eq_true] at hresp
        have h1 : s1.drops = s.drops := by
          apply Classical.byContradiction
          intro hne
          obtain ⟨n, c, p, hcl, hnow, hc, hp, _, hw, htm, _, hle, _, _⟩ := drop_only_if_unanswered hT hr hs hne
          have hk := hresp.1
          simp only [hcl] at hk
          have hdue : p.sent + T ≤ s.now + n := by omega
          simp [respOK, htm, hdue] at hk
          rcases hk p hp with h' | h'
          · simp [hw, hc] at h'
          · have := of_decide_eq_true h'; omega
        rw [ih (Reach.step hr hs) h hresp.2, h1]

/-! ## replaces a silent connection -/

/-- `silent_dropped_in_time`: take any reachable state in which the Leader is monitoring a
    connection `c` (Manager CONNECTED, not yet asked to disconnect).  If from then on only time
    passes — no pong, whatever was answered before — then `disconnect()` is called on `c`
    exactly at the next expiry if the monitor is already `idle_traffic`, else at the second
    one; that instant is `lastPing + T` resp. `lastPing + 2·T`, where `lastPing ≤ now` is the
    time the most recent Ping was sent.  So the drop comes at most `2·T` after the peer went
    silent, and `advance` never raises.
    Random source: a silent stretch sends at most one more Ping — at the first expiry, when the monitor
    is `connected` — and the id drawn for it must not be outstanding (`hf`; for what happens otherwise see
    `duplicate_id_kills_the_monitor`).  In `idle_traffic` nothing is drawn and nothing is assumed. -/
theorem silent_dropped_in_time {T : Nat} (hT : 1 ≤ T) {s : St} (hr : Reach (Cfg.real T) s)
    (hm : s.mgr = .CONNECTED) (hl : s.role = some true) (hd : s.dropped = false)
    (hf : s.traffic = some .connected → freshNext s = true) :
    ∃ c D, s.conn = some c ∧ s.lastPing ≤ s.now ∧ s.now < D ∧
      D = s.lastPing + (if s.traffic = some .idle_traffic then T else 2 * T) ∧
      ∀ n, D ≤ s.now + n →
        ∃ s', advance (Cfg.real T) n s = (s', none) ∧ s'.drops = s.drops ++ [(c, D)] ∧
          s'.dropped = true ∧ s'.timer = none := by
  have hi := reach_inv hT hr
  obtain ⟨c, hc, _, htr⟩ := hi.used (by simp [hm, inUse])
  have htm := hi.mon hm hl hd
  cases htm' : s.timer with
  | none => exact absurd htm' htm
  | some d =>
    obtain ⟨_, _, hde, hlt⟩ := hi.tim d htm'
    have key : ∀ D, Phase T c D s.drops s → s.now < D → ∀ n, D ≤ s.now + n →
        ∃ s', advance (Cfg.real T) n s = (s', none) ∧ s'.drops = s.drops ++ [(c, D)] ∧
          s'.dropped = true ∧ s'.timer = none := by
      intro D hp _ n hn
      obtain ⟨s', ha, ⟨_, hp'⟩, hnow⟩ := phase_advance hT n hp
      refine ⟨s', ha, ?_⟩
      rcases hp' with ⟨_, _, _, d', _, h1, h2⟩ | ⟨_, _, _, h1⟩ | ⟨h1, _, h2, h3⟩
      · omega
      · omega
      · exact ⟨h2, h3, h1⟩
    rcases htr hl with ht | ht
    · refine ⟨c, s.lastPing + 2 * T, hc, hi.lastLe, by omega, by simp [ht], ?_⟩
      exact key _ ⟨hc, Or.inl ⟨ht, hf ht, rfl, d, htm', hlt, by omega⟩⟩ (by omega)
    · refine ⟨c, s.lastPing + T, hc, hi.lastLe, by omega, by simp [ht], ?_⟩
      exact key _ ⟨hc, Or.inr (Or.inl ⟨ht, rfl, by rw [htm', hde], by omega⟩)⟩ (by omega)

/-- The statement in the words of the property: the Leader is monitoring a connection, a pong
    arrives for a Ping of this connection sent at time `p`, before the expiry that follows that
    Ping (`now < p + T`), and nothing arrives afterwards.  Then the connection is dropped
    exactly at `p + 2·T` — the second expiry after that Ping, less than `3·T` after it —
    provided the id drawn for the one Ping still to be sent is not outstanding (`hf`). -/
theorem silent_after_answered_ping {T : Nat} (hT : 1 ≤ T) {s0 s : St} {p : PingRec}
    (hr : Reach (Cfg.real T) s0) (hm : s0.mgr = .CONNECTED) (hl : s0.role = some true)
    (hd : s0.dropped = false) (hp : p ∈ s0.pings) (hcur : s0.madeAt ≤ p.sent)
    (hin : s0.now < p.sent + T) (h : step (Cfg.real T) s0 (.pong p.id) = (s, none))
    (hf : freshNext s = true) :
    ∃ c, s.conn = some c ∧ p.sent + 2 * T < p.sent + 3 * T ∧
      ∀ n, p.sent + 2 * T ≤ s.now + n →
        ∃ s', advance (Cfg.real T) n s = (s', none) ∧ s'.drops = s.drops ++ [(c, p.sent + 2 * T)] := by
  have hi := reach_inv hT hr
  -- the answered ping is the most recent one
  have hlast : p.sent = s0.lastPing := by
    rcases hi.spacing p hp hcur with h' | h'
    · exact h'
    · have := hi.lastLe; omega
  obtain ⟨c0, hc0, _, htr0⟩ := hi.used (by simp [hm, inUse])
  -- effect of the pong: the monitor is `connected`, nothing else that matters changed
  have heff : s.traffic = some .connected ∧ s.mgr = s0.mgr ∧ s.role = s0.role ∧ s.dropped = s0.dropped ∧
      s.lastPing = s0.lastPing ∧ s.now = s0.now := by
    simp only [step, gotPong] at h
    have hany : s0.pings.any (fun q => q.id == p.id) = true := by
      simp only [List.any_eq_true]; exact ⟨p, hp, by simp⟩
    simp only [hany, if_true, ttInput, real_tbl] at h
    rcases htr0 hl with ht | ht <;> simp [ht, TrafficTimer.table, ttOutputs] at h <;> subst h <;> simp
  obtain ⟨ht, hm', hl', hd', hlp, hnow⟩ := heff
  have hr' : Reach (Cfg.real T) s := Reach.step hr h
  obtain ⟨c, D, hc, _, _, hD, hall⟩ :=
    silent_dropped_in_time hT hr' (by rw [hm', hm]) (by rw [hl', hl]) (by rw [hd', hd]) (fun _ => hf)
  refine ⟨c, hc, by omega, ?_⟩
  intro n hn
  have hD' : D = p.sent + 2 * T := by simp [ht] at hD; omega
  obtain ⟨s', ha, hdr, _⟩ := hall n (by omega)
  exact ⟨s', ha, by rw [hdr, hD']⟩

/-! ## lifecycle of the monitor -/

/-- `monitor_lifecycle`: in every reachable state, no timer is pending while no connection is in
    use, nor after `stop()`; a pending timer always belongs to a Leader whose Manager is
    CONNECTED, was armed when the last Ping was sent and is not overdue; and while the Leader is
    CONNECTED and has not asked for a disconnect, a timer *is* pending. -/
theorem monitor_lifecycle {T : Nat} (hT : 1 ≤ T) {s : St} (hr : Reach (Cfg.real T) s) :
    ((s.conn = none ∨ s.stopCalled = true) → s.timer = none) ∧
    (∀ d, s.timer = some d → s.mgr = .CONNECTED ∧ s.role = some true ∧ s.conn ≠ none ∧
        d = s.lastPing + T ∧ s.now < d) ∧
    (s.mgr = .CONNECTED → s.role = some true → s.dropped = false → s.timer ≠ none) := by
  have hi := reach_inv hT hr
  have hrole : ∀ d, s.timer = some d → s.role = some true := by
    intro d hd
    apply Classical.byContradiction
    intro hne
    have := (hi.notr (hi.fol hne)).1
    rw [hd] at this
    cases this
  refine ⟨?_, ?_, hi.mon⟩
  · intro h
    cases htm : s.timer with
    | none => rfl
    | some d =>
      obtain ⟨hm, _, _, _⟩ := hi.tim d htm
      obtain ⟨c, hc, _, _⟩ := hi.used (by simp [hm, inUse])
      rcases h with h | h
      · rw [hc] at h; cases h
      · rcases hi.stp h with h' | h' <;> rw [hm] at h' <;> cases h'
  · intro d hd
    obtain ⟨hm, _, hde, hlt⟩ := hi.tim d hd
    obtain ⟨c, hc, _, _⟩ := hi.used (by simp [hm, inUse])
    exact ⟨hm, hrole d hd, by rw [hc]; simp, hde, hlt⟩

/-- monitoring restarts on the next connection: a successful `connector_connection_made` on the
    Leader registers a fresh Ping and arms the timer one interval ahead for the new connection
    (the Ping itself is *not* transmitted: `Outbound` has no connection yet, `wire = none` — so it
    stays in `_pings_outstanding` for good).  Its id is whatever the random source returned (`pingId s`); the
    step can only have succeeded if that id was not outstanding. -/
theorem monitoring_restarts {T : Nat} (hT : 1 ≤ T) {s s' : St} (hr : Reach (Cfg.real T) s)
    (hl : s.role = some true) (h : step (Cfg.real T) s .made = (s', none)) :
    s.timer = none ∧ s.conn = none ∧
    s'.timer = some (s'.now + T) ∧ s'.conn = some s.nextConn ∧ s'.dropped = false ∧
    s'.mgr = .CONNECTED ∧ s'.traffic = some .connected ∧
    s'.pings = s.pings ++ [{ id := pingId s, sent := s'.now, wire := none }] ∧ freshNext s = true := by
  obtain ⟨_, htm, hc, he, hf⟩ := made_leader (reach_inv hT hr) hl h
  subst he
  exact ⟨htm, hc, rfl, rfl, rfl, rfl, rfl, rfl, hf⟩

/-- `read_paused_iff_consumer_paused`: inbound flow control cannot starve the monitor by accident.  In every
    reachable state the connection in use is read-paused (its transport delivers nothing, so no Pong
    can be seen) exactly while some subchannel consumer that paused has not resumed / stopped / closed
    since — in particular a consumer that lets go *during an outage* (`Op.cresume` with no connection)
    leaves the paused set then, and the next connection starts unpaused.  (The monitor itself is not
    told about pauses: a consumer that stays paused for two intervals does get the connection dropped.) -/
theorem read_paused_iff_consumer_paused {T : Nat} (hT : 1 ≤ T) {s : St} (hr : Reach (Cfg.real T) s) :
    (s.conn ≠ none → s.readPaused = !s.inPaused.isEmpty) ∧ (s.conn = none → s.readPaused = false) :=
  reach_flow hT hr

/-- pause, loss while paused, resume during the outage, reconnect: the new connection is not paused
    (and would be if the consumer had not resumed) -/
example : (run (Cfg.real 4) init (connectedLeader ++ [.cpause 0, .lost, .cresume 0, .reconnecting, .made])).2 = none ∧
    (run (Cfg.real 4) init (connectedLeader ++ [.cpause 0, .lost, .cresume 0, .reconnecting, .made])).1.readPaused = false ∧
    (run (Cfg.real 4) init (connectedLeader ++ [.cpause 0, .lost, .reconnecting, .made])).1.readPaused = true ∧
    (run (Cfg.real 4) init (connectedLeader ++ [.cpause 0])).1.readPaused = true := by decide

/-- the monitor never raises: in a reachable state every operation the environment may
    legitimately perform (`legal`: a clock tick at any time; a connection offered while
    CONNECTING; a loss or a Pong while a connection is in use; `stop()` once; fixing the random source; …)
    completes without `NoTransition` / `AttributeError` / `AssertionError` — so the timer callback, `got_pong`
    and the TrafficTimer never meet a state/input pair the tables do not have — provided the next id the
    random source returns is not outstanding (`hf`; needed only by the operations that send a Ping). -/
theorem legal_never_raises {T : Nat} (hT : 1 ≤ T) {s : St} {o : Op} (hr : Reach (Cfg.real T) s)
    (hl : legal s o = true) (hf : freshNext s = true) : (step (Cfg.real T) s o).2 = none :=
  legal_ok (reach_inv hT hr) hl hf

/-- … and `hf` is the exact guard: whatever ids are drawn, the ONLY exception a legal operation can raise in a
    reachable state is the `Duplicate ping_id` assert of `send_ping`, and only when the id drawn is outstanding.
    Nothing else escapes a timer callback. -/
theorem legal_raises_only_on_duplicate_id {T : Nat} (hT : 1 ≤ T) {s : St} {o : Op} (hr : Reach (Cfg.real T) s)
    (hl : legal s o = true) :
    (step (Cfg.real T) s o).2 = none ∨ ((step (Cfg.real T) s o).2 = some .assertionError ∧ freshNext s = false) :=
  legal_res (reach_inv hT hr) hl

/-- a random source that never returns the same 4 bytes twice satisfies the guard in every reachable state
    (whatever was fixed and consumed before): once the fixed draws are used up, `freshNext` holds. -/
theorem fresh_source_never_collides {T : Nat} {s : St} (hr : Reach (Cfg.real T) s) (hd : s.draws = []) :
    freshNext s = true :=
  fresh_of_no_draws hr hd

/-! ## the excluded point: the random source returns an id that is still outstanding -/

/-- `duplicate_id_kills_the_monitor`: ON THE CURRENT TREE the guard cannot be dropped.  `duplicateIdState` is
    reachable, the Leader is CONNECTED and monitoring (timer pending, not dropped), the next draw equals the id of
    the outstanding Ping; then the first expiry (t = 2) raises `AssertionError` out of the timer callback, the
    TrafficTimer is left in `idle_traffic` with NO timer, and however long the peer stays silent afterwards
    (`∀ n`) the Leader never calls `disconnect()`: `silent_dropped_in_time` without `hf` is false.  (Needs the
    same 4 random bytes twice while the first Ping is outstanding: probability 2⁻³² per outstanding Ping and draw.) -/
theorem duplicate_id_kills_the_monitor :
    Reach (Cfg.real 2) duplicateIdState ∧ duplicateIdState.mgr = .CONNECTED ∧ duplicateIdState.role = some true ∧
    duplicateIdState.dropped = false ∧ duplicateIdState.timer = some 2 ∧
    duplicateIdState.traffic = some .connected ∧ freshNext duplicateIdState = false ∧
    ∀ n, 2 ≤ n →
      (advance (Cfg.real 2) n duplicateIdState).2 = some .assertionError ∧
      (advance (Cfg.real 2) n duplicateIdState).1.drops = [] ∧
      (advance (Cfg.real 2) n duplicateIdState).1.timer = none ∧
      (advance (Cfg.real 2) n duplicateIdState).1.traffic = some .idle_traffic ∧
      (advance (Cfg.real 2) n duplicateIdState).1.wireLog = [] := by
  refine ⟨reach_run Reach.init duplicateIdTrace (by decide), by decide, by decide, by decide, by decide, by decide, by decide, ?_⟩
  intro n hn
  obtain ⟨k, rfl⟩ : ∃ k, n = k + 2 := ⟨n - 2, by omega⟩
  have h1 : tick (Cfg.real 2) duplicateIdState = ((tick (Cfg.real 2) duplicateIdState).1, none) := by decide
  have h2 : tick (Cfg.real 2) (tick (Cfg.real 2) duplicateIdState).1 =
      ((tick (Cfg.real 2) (tick (Cfg.real 2) duplicateIdState).1).1, some .assertionError) := by decide
  have h3 : (tick (Cfg.real 2) (tick (Cfg.real 2) duplicateIdState).1).1.timer = none := by decide
  have e : advance (Cfg.real 2) (k + 2) duplicateIdState =
      ({ (tick (Cfg.real 2) (tick (Cfg.real 2) duplicateIdState).1).1 with
          now := (tick (Cfg.real 2) (tick (Cfg.real 2) duplicateIdState).1).1.now + k }, some .assertionError) := by
    show advance (Cfg.real 2) (k + 1 + 1) duplicateIdState = _
    rw [advance, h1]
    simp only
    rw [advance, h2]
    simp only
    rw [advance_no_timer _ k h3]
  have h4 : (tick (Cfg.real 2) (tick (Cfg.real 2) duplicateIdState).1).1.drops = [] := by decide
  have h5 : (tick (Cfg.real 2) (tick (Cfg.real 2) duplicateIdState).1).1.traffic = some .idle_traffic := by decide
  have h6 : (tick (Cfg.real 2) (tick (Cfg.real 2) duplicateIdState).1).1.wireLog = [] := by decide
  rw [e]
  exact ⟨rfl, h4, h3, h5, h6⟩

/-- repeats that do NOT hit an outstanding id are harmless (T = 2): the random source returns 0, then 1 for every
    later Ping; each Ping 1 is answered before 1 is drawn again: nothing raises, `Responsive`, never dropped, and
    after the last answer the silent peer is dropped at the second expiry as for distinct ids -/
example : (run (Cfg.real 2) init repeatTrace).2 = none ∧
    Responsive (Cfg.real 2) init repeatTrace = true ∧
    (run (Cfg.real 2) init repeatTrace).1.drops = [] ∧
    (run (Cfg.real 2) init repeatTrace).1.wireLog = [(0, 1, 2), (0, 1, 4), (0, 1, 6), (0, 1, 8)] ∧
    (advance (Cfg.real 2) 5 (run (Cfg.real 2) init repeatTrace).1).1.drops = [(0, 10)] := by decide

/-- a duplicate id on a LATER connection (T = 2): the Ping of the first connection (id 0) is still outstanding when
    the second connection comes up and the random source returns 0 again: `connector_connection_made` raises
    `AssertionError` after the TrafficTimer went to `connected` and before the Manager recorded the connection -/
example : (run (Cfg.real 2) init ([.start, .please true, .rnd [0, 1, 0], .made, .tick, .tick, .lost, .reconnecting, .made])).2
      = some .assertionError ∧
    (run (Cfg.real 2) init ([.start, .please true, .rnd [0, 1, 0], .made, .tick, .tick, .lost, .reconnecting, .made])).1.conn = none ∧
    (run (Cfg.real 2) init ([.start, .please true, .rnd [0, 1, 0], .made, .tick, .tick, .lost, .reconnecting, .made])).1.timer = none ∧
    (run (Cfg.real 2) init ([.start, .please true, .rnd [0, 1, 0], .made, .tick, .tick, .lost, .reconnecting, .made])).1.traffic
      = some .connected := by decide

/-- only the Leader monitors: a Follower never has a TrafficTimer, a timer, a Ping or a drop -/
theorem follower_never_monitors {T : Nat} (hT : 1 ≤ T) {s : St} (hr : Reach (Cfg.real T) s)
    (hf : s.role ≠ some true) :
    s.traffic = none ∧ s.timer = none ∧ s.pings = [] ∧ s.drops = [] ∧ s.wireLog = [] := by
  have hi := reach_inv hT hr
  exact ⟨hi.fol hf, hi.notr (hi.fol hf)⟩

/-! ## the hypotheses are satisfiable, the conclusions are not trivial -/

/-- a responsive run with three expiries: `Responsive` holds, nothing raised, no drop -/
example : (run (Cfg.real 2) init responsiveTrace).2 = none ∧
    Responsive (Cfg.real 2) init responsiveTrace = true ∧
    (run (Cfg.real 2) init responsiveTrace).1.drops = [] ∧
    (run (Cfg.real 2) init responsiveTrace).1.wireLog = [(0, 1, 2), (0, 2, 4), (0, 3, 6), (0, 4, 8)] := by decide

/-- the same responsive run with the transport pausing the Outbound across the first two
    expiries (t = 1 … 5): the Pings of t = 2 and t = 4 are written all the same, nothing is dropped -/
example : (run (Cfg.real 2) init (connectedLeader ++ [.tick, .pause, .tick, .tick, .pong 1, .tick, .tick, .resume,
      .pong 2, .tick, .tick])).2 = none ∧
    (run (Cfg.real 2) init (connectedLeader ++ [.tick, .pause, .tick, .tick, .pong 1, .tick, .tick, .resume,
      .pong 2, .tick, .tick])).1.wireLog = [(0, 1, 2), (0, 2, 4), (0, 3, 6)] ∧
    (run (Cfg.real 2) init (connectedLeader ++ [.tick, .pause, .tick, .tick, .pong 1, .tick, .tick, .resume,
      .pong 2, .tick, .tick])).1.drops = [] := by decide

/-- late timers (T = 4): the expiry due at t = 4 is handled at t = 6 (stall), the next one (due 10)
    at t = 14, the third (due 18) at t = 19; each Ping is answered 3 resp. 1 ticks after it really
    went out: `Responsive`, never dropped.  Whereas a stall that swallows the whole answer window
    (Ping out at 6, timer 10 handled at 10 with nothing read in between) is not responsive and drops. -/
example : (run (Cfg.real 4) init (connectedLeader ++ [.stall 6, .tick, .tick, .tick, .pong 1, .stall 5, .tick, .pong 2,
      .stall 4])).2 = none ∧
    Responsive (Cfg.real 4) init (connectedLeader ++ [.stall 6, .tick, .tick, .tick, .pong 1, .stall 5, .tick, .pong 2,
      .stall 4]) = true ∧
    (run (Cfg.real 4) init (connectedLeader ++ [.stall 6, .tick, .tick, .tick, .pong 1, .stall 5, .tick, .pong 2,
      .stall 4])).1.wireLog = [(0, 1, 6), (0, 2, 14), (0, 3, 19)] ∧
    (run (Cfg.real 4) init (connectedLeader ++ [.stall 6, .tick, .tick, .tick, .pong 1, .stall 5, .tick, .pong 2,
      .stall 4])).1.drops = [] ∧
    Responsive (Cfg.real 4) init (connectedLeader ++ [.stall 6, .stall 4]) = false ∧
    (run (Cfg.real 4) init (connectedLeader ++ [.stall 6, .stall 4])).1.drops = [(0, 10)] := by decide

/-- `Responsive` is a real restriction: the silent run violates it and is dropped at `2·T` -/
example : Responsive (Cfg.real 2) init silentTrace = false ∧
    (run (Cfg.real 2) init silentTrace).2 = none ∧
    (run (Cfg.real 2) init silentTrace).1.drops = [(0, 4)] := by decide

/-- the hypotheses of `silent_dropped_in_time` and `monitoring_restarts` are met right after the
    first connection … -/
example : ∃ s, Reach (Cfg.real 3) s ∧ s.mgr = .CONNECTED ∧ s.role = some true ∧ s.dropped = false ∧
    freshNext s = true ∧
    (advance (Cfg.real 3) 6 s).1.drops = [(0, 6)] ∧ (advance (Cfg.real 3) 5 s).1.drops = [] :=
  ⟨(run (Cfg.real 3) init connectedLeader).1,
   reach_run Reach.init connectedLeader (by decide), by decide, by decide, by decide, by decide, by decide, by decide⟩

/-- … and again on the connection after a drop, a loss and a reconnect -/
example : ∃ s s', Reach (Cfg.real 2) s ∧ s.role = some true ∧ s.drops = [(0, 4)] ∧
    step (Cfg.real 2) s .made = (s', none) ∧ s'.timer = some 7 ∧ s'.conn = some 1 :=
  ⟨(run (Cfg.real 2) init (silentTrace ++ [.lost, .reconnecting])).1, _,
   reach_run Reach.init (silentTrace ++ [.lost, .reconnecting]) (by decide), by decide, by decide, rfl, by decide, by decide⟩

/-- the hypotheses of `silent_after_answered_ping`: Ping 1 (sent at the first expiry, t = 2) is
    answered at t = 3 < 2 + T -/
example : ∃ s0 s p, Reach (Cfg.real 2) s0 ∧ s0.mgr = .CONNECTED ∧ s0.role = some true ∧ s0.dropped = false ∧
    p ∈ s0.pings ∧ s0.madeAt ≤ p.sent ∧ s0.now < p.sent + 2 ∧ p.wire = some 0 ∧
    step (Cfg.real 2) s0 (.pong p.id) = (s, none) ∧ (advance (Cfg.real 2) 3 s).1.drops = [(0, 6)] ∧
    freshNext s = true :=
  ⟨(run (Cfg.real 2) init (connectedLeader ++ [.tick, .tick, .tick])).1, _, { id := 1, sent := 2, wire := some 0 },
   reach_run Reach.init (connectedLeader ++ [.tick, .tick, .tick]) (by decide), by decide, by decide, by decide,
   by decide, by decide, by decide, rfl, rfl, by decide, by decide⟩

/-- a Follower goes through connect / loss / reconnect (hypothesis of `follower_never_monitors`) -/
example : (run (Cfg.real 2) init [.start, .please false, .made, .tick, .tick, .tick, .lost, .reconnect, .made, .tick]).2 = none ∧
    (run (Cfg.real 2) init [.start, .please false, .made, .tick, .tick, .tick, .lost, .reconnect, .made, .tick]).1.role = some false := by
  decide

/-- Sensitivity: with the TrafficTimer row as it was before c0a7617 (`connected --traffic_seen-->`
    running `begin_timing`) and the timer extended by `DelayedCall.delay`, the conclusion of
    `silent_dropped_in_time` is false — one early pong makes the Leader send a new Ping and push
    the deadline out by a full interval, so 2·T after its last Ping the silent connection has
    still not been dropped.  (The theorems above are about the generated table; reverting that
    row makes them unprovable.) -/
theorem silent_dropped_needs_fixed_row (hf : Flags.ping_timer_uses_delay = true) :
    ¬ (∀ s, Reach (oldCfg 4) s → s.mgr = .CONNECTED → s.role = some true → s.dropped = false →
        ∀ n, s.lastPing + 2 * 4 ≤ s.now + n → (advance (oldCfg 4) n s).1.drops ≠ s.drops) := by
  intro h
  have hw : Flags.ping_timer_uses_delay = true →
      (advance (oldCfg 4) 8 (run (oldCfg 4) init (connectedLeader ++ [.tick, .pong 0])).1).1.drops =
        (run (oldCfg 4) init (connectedLeader ++ [.tick, .pong 0])).1.drops := by decide
  exact h (run (oldCfg 4) init (connectedLeader ++ [.tick, .pong 0])).1
    (reach_run Reach.init (connectedLeader ++ [.tick, .pong 0]) (by decide)) (by decide) (by decide) (by decide) 8
    (by decide) (hw hf)

end WV.Props.C16
