import WV.Props.C07
import WV.Proofs.C07_Late

/-!
C07 — LATE contenders.

`WV.Props.C07` speaks about `run`: inbound connections exist exactly while the listening port is
open, and the port is stopped the moment a selection is made (`listener_lifetime`).  Under that
environment no connection can complete its handshake once `_winner` is set, and the
`if self._winner: return "nevermind"` branch of `connection_ready` is never taken on a live
connection.  The statement of the property, however, quantifies over *early or late* contenders, and
`IListeningPort.stopListening()` promises nothing about what a port still delivers until it is
really closed.  Here the environment is wider: `runL` / `drunL` add the event `accept` — the port
hands the `InboundConnectionFactory` one more connection after this side has made its selection
(`WV.C07.evAccept`) — and, two-sided, `lateLinkS k`: the Receiver's direct dial `k` reaches the
Sender's port after the Sender's selection.  Nobody is left to cancel such a connection; the only
thing between it and a second `go` is the test of `_winner` in `connection_ready`.

Proved for ALL schedules of the wider world (any number of late contenders, their bytes in any
chunking and interleaving, together with everything `run` already allowed):

* the safety theorems of `WV.Props.C07` (`late_go_only_after_handshake`, `late_sender_at_most_one_go`,
  `late_winner_wrote_go`, `late_nevermind_only_loser`, `late_sender_decides`,
  `late_receiver_only_after_go`, `late_selected_holds_key`, `late_result_is_negotiated`,
  `late_only_one_fires_once`, `late_failed_means_closed`);
* `late_winner_is_final`: once set, `_winner` never changes;
* `late_contender_is_refused`: a late key holder is answered `nevermind` + close, whatever the
  chunking of its handshake (every byte position);
* `late_same_link`: both `connect()` results are the two ends of one link, the one the Sender said
  `go` on, and NO other connection of either side is ever selected.

What does not carry over, and is not claimed: "every other connection is closed *at the moment
`connect()` returns*" (`nothing_outlives_connect`, clause 4 of `same_link`) — a late contender is, by
definition, open after that moment; it is closed by `nevermind` when its handshake completes
(`late_nevermind_only_loser`), by its first wrong byte (`late_handshake_prefix_exact`), or by its own
`TIMEOUT` timer (harness oracle `conn-timeout-missed`).

And the truthiness pin (`WV.Props.C07_Pin`): `connection_ready` asks `if self._winner:`.  That means
"a winner has been chosen" only while a `Connection` object cannot be falsy (`winner_test_is_about_none`,
from the translator: no `__bool__`/`__len__` anywhere in `Connection`'s MRO, or the test is written
`is not None`).  `connectionReady` in the model reads the test as `winner.isSome`.
-/
namespace WV.Props.C07Late
open WV WV.C07 WV.Proofs.C07

/-- the model's `connectionReady` reads the source's test of `self._winner` as `winner.isSome`
    (pinned against the source by `WV.Props.C07Pin.winner_test_is_about_none`): with `_winner` set, a
    Sender answers `nevermind` and leaves `_winner` alone, for every connection index -/
theorem connection_ready_with_winner (cfg : Cfg) (hs : cfg.isSender = true) (j i : Nat) :
    connectionReady cfg (some j) i = (some j, .nevermind) := by
  have h : Gen.Transit.connection_ready_checks_winner = true := by decide
  simp [connectionReady, hs, h]

section
variable (cfg : Cfg) (listener : Bool) (directs : Nat) (relays : List Nat) (evs : List LEvent)

/-- every schedule of `run` is a schedule of `runL`: the wider world contains the old one -/
theorem runL_extends_run (es : List Event) :
    runL (initWorld cfg listener directs relays) (es.map .ev) = run (initWorld cfg listener directs relays) es :=
  runL_map_ev _ es

/-- **`go` only to the winner, only after the exact receiver handshake** — with late contenders -/
theorem late_go_only_after_handshake (hd : Distinct cfg) (i : Nat) (c : Conn)
    (hc : (runL (initWorld cfg listener directs relays) evs).conns i = some c)
    (hgo : Gen.Transit.GO ∈ c.out) :
    cfg.isSender = true ∧ (runL (initWorld cfg listener directs relays) evs).winner = some i ∧
    (pre c ++ cfg.expectThis) <+: c.rx ∧ c.out = hsOut c ++ [cfg.sendThis, Gen.Transit.GO] := by
  obtain ⟨hI, hcfg⟩ := reachL cfg listener directs relays evs
  have hci := hI.conns i c hc
  have hrel := hI.rel i c hc
  rw [hcfg] at hci hrel
  have hout := go_mem hd hci hrel hgo
  obtain ⟨a, b, c'⟩ := hci.go hout
  exact ⟨a, b, c', hout⟩

/-- **at most one `go`**, however many contenders arrive however late -/
theorem late_sender_at_most_one_go (hd : Distinct cfg) (i j : Nat) (ci cj : Conn)
    (hi : (runL (initWorld cfg listener directs relays) evs).conns i = some ci)
    (hj : (runL (initWorld cfg listener directs relays) evs).conns j = some cj)
    (hgi : Gen.Transit.GO ∈ ci.out) (hgj : Gen.Transit.GO ∈ cj.out) : i = j := by
  have h1 := (late_go_only_after_handshake cfg listener directs relays evs hd i ci hi hgi).2.1
  have h2 := (late_go_only_after_handshake cfg listener directs relays evs hd j cj hj hgj).2.1
  rw [h1] at h2; cases h2; rfl

theorem late_winner_wrote_go (j : Nat) (c : Conn)
    (hw : (runL (initWorld cfg listener directs relays) evs).winner = some j)
    (hc : (runL (initWorld cfg listener directs relays) evs).conns j = some c) :
    c.out = hsOut c ++ [cfg.sendThis, Gen.Transit.GO] := by
  obtain ⟨hI, hcfg⟩ := reachL cfg listener directs relays evs
  have := (hI.conns j c hc).win hw
  rw [hcfg] at this; exact this

/-- **`_winner` is final**: once a winner is chosen, no later event — no late contender, no byte on
    any connection, no loss of the winner itself — changes it -/
theorem late_winner_is_final (more : List LEvent) (j : Nat)
    (hw : (runL (initWorld cfg listener directs relays) evs).winner = some j) :
    (runL (initWorld cfg listener directs relays) (evs ++ more)).winner = some j := by
  rw [← runL_append]
  exact runL_winner (reachL cfg listener directs relays evs).1 more hw

/-- **`nevermind` on every other connection that completes, late ones included**: only after the
    exact handshake, only when another connection is the winner, never together with `go`; the
    connection is hung up, `loseConnection()` was called, its negotiation did not succeed -/
theorem late_nevermind_only_loser (hd : Distinct cfg) (i : Nat) (c : Conn)
    (hc : (runL (initWorld cfg listener directs relays) evs).conns i = some c)
    (hnm : Gen.Transit.NEVERMIND ∈ c.out) :
    cfg.isSender = true ∧ (pre c ++ cfg.expectThis) <+: c.rx ∧ c.state = .hungUp ∧ 1 ≤ c.lost ∧
    Gen.Transit.GO ∉ c.out ∧ c.negD ≠ .ok ∧
    ∃ j, (runL (initWorld cfg listener directs relays) evs).winner = some j ∧ j ≠ i := by
  obtain ⟨hI, hcfg⟩ := reachL cfg listener directs relays evs
  have hci := hI.conns i c hc
  have hrel := hI.rel i c hc
  rw [hcfg] at hci hrel
  have hout := nm_mem hd hci hrel hnm
  obtain ⟨a, b, c', d, j, hj, hji⟩ := hci.nm hout
  refine ⟨a, b, c', d, ?_, ?_, j, hj, hji⟩
  · intro hgo
    have h2 := (hci.go (go_mem hd hci hrel hgo)).2.1
    rw [hj] at h2; cases h2; exact hji rfl
  · intro hok
    have h2 := (hci.go (hci.okS hok a)).2.1
    rw [hj] at h2; cases h2; exact hji rfl

/-- **the sender always decides**, late contenders included: no Sender connection sits on a complete
    handshake — in the waiting states the received bytes are a strict prefix of what is expected; the
    only other lasting states are `records` (then `go` was written — and by `late_sender_at_most_one_go`
    that is the one winner) and `hung up` -/
theorem late_sender_decides (hs : cfg.isSender = true) (i : Nat) (c : Conn)
    (hc : (runL (initWorld cfg listener directs relays) evs).conns i = some c) :
    ((c.state = .relay ∨ c.state = .handshake) ∧ ¬ (pre c ++ cfg.expectThis) <+: c.rx) ∨
    (c.state = .records ∧ c.out = hsOut c ++ [cfg.sendThis, Gen.Transit.GO]) ∨
    c.state = .hungUp := by
  obtain ⟨hI, hcfg⟩ := reachL cfg listener directs relays evs
  have hci := hI.conns i c hc
  rw [hcfg] at hci
  cases hst : c.state with
  | tooEarly => exact absurd hst hci.st_ok.1
  | start => exact absurd hst hci.st_ok.2.1
  | go => exact absurd hst hci.st_ok.2.2.1
  | nevermind => exact absurd hst hci.st_ok.2.2.2
  | waitForDecision => have := (hci.wait hst).1; rw [hs] at this; cases this
  | records => exact Or.inr (Or.inl ⟨rfl, hci.okS (hci.recs hst) hs⟩)
  | hungUp => exact Or.inr (Or.inr rfl)
  | relay =>
    obtain ⟨_, hrel, hrx, hp, hl⟩ := hci.relay hst
    refine Or.inl ⟨Or.inl rfl, ?_⟩
    intro hpre
    have hlen := hpre.length_le
    have : pre c = Gen.Transit.RELAY_OK := by
      unfold pre; cases hr : c.relayHs with
      | none => exact absurd hr hrel
      | some _ => rfl
    rw [this, hrx] at hlen
    simp at hlen; omega
  | handshake =>
    obtain ⟨_, hrx, hp, hl⟩ := hci.hs hst
    refine Or.inl ⟨Or.inr rfl, ?_⟩
    intro hpre
    have hlen := hpre.length_le
    rw [hrx] at hlen
    simp at hlen; omega

/-- **the receiver uses a connection only after the exact sender handshake followed by `go`** -/
theorem late_receiver_only_after_go (hd : Distinct cfg) (hr : cfg.isSender = false) (i : Nat) (c : Conn)
    (hc : (runL (initWorld cfg listener directs relays) evs).conns i = some c) :
    ((c.state = .records ∨ c.negD = .ok) →
        (pre c ++ cfg.expectThis ++ Gen.Transit.GO_EXPECTED) <+: c.rx) ∧
    Gen.Transit.GO ∉ c.out ∧ Gen.Transit.NEVERMIND ∉ c.out := by
  obtain ⟨hI, hcfg⟩ := reachL cfg listener directs relays evs
  have hci := hI.conns i c hc
  have hrel := hI.rel i c hc
  rw [hcfg] at hci hrel
  refine ⟨?_, ?_, ?_⟩
  · intro h
    have hok : c.negD = .ok := by
      rcases h with h | h
      · exact hci.recs h
      · exact h
    exact hci.okR hok hr
  · intro hgo
    have := (hci.go (go_mem hd hci hrel hgo)).1
    rw [hr] at this; cases this
  · intro hnm
    have := (hci.nm (nm_mem hd hci hrel hnm)).1
    rw [hr] at this; cases this

/-- **key holders only** — with late contenders -/
theorem late_selected_holds_key (i : Nat) (c : Conn)
    (hc : (runL (initWorld cfg listener directs relays) evs).conns i = some c) (hok : c.negD = .ok) :
    (pre c ++ cfg.expectThis) <+: c.rx := by
  obtain ⟨hI, hcfg⟩ := reachL cfg listener directs relays evs
  have hci := hI.conns i c hc
  rw [hcfg] at hci
  cases hs : cfg.isSender with
  | true => exact (hci.go (hci.okS hok hs)).2.2
  | false =>
    have := hci.okR hok hs
    exact (List.prefix_append _ _).trans this

/-- a Sender's selected connection is `_winner`: with `late_sender_at_most_one_go`, the Sender
    never has two negotiated connections -/
theorem late_sender_selected_is_winner (hs : cfg.isSender = true) (i : Nat) (c : Conn)
    (hc : (runL (initWorld cfg listener directs relays) evs).conns i = some c) (hok : c.negD = .ok) :
    (runL (initWorld cfg listener directs relays) evs).winner = some i := by
  obtain ⟨hI, hcfg⟩ := reachL cfg listener directs relays evs
  have hci := hI.conns i c hc
  rw [hcfg] at hci
  exact (hci.go (hci.okS hok hs)).2.1

/-- a stream that diverges from the expected one is rejected at its first divergent byte — late
    contenders included -/
theorem late_handshake_prefix_exact (i : Nat) (c : Conn)
    (hc : (runL (initWorld cfg listener directs relays) evs).conns i = some c) :
    (c.negD = .ok → WV.Props.C07.expected cfg c <+: c.rx) ∧
    ((¬ c.rx <+: WV.Props.C07.expected cfg c ∧ ¬ WV.Props.C07.expected cfg c <+: c.rx) → c.state = .hungUp) := by
  obtain ⟨hI, hcfg⟩ := reachL cfg listener directs relays evs
  have hci := hI.conns i c hc
  rw [hcfg] at hci
  have h1 : c.negD = .ok → WV.Props.C07.expected cfg c <+: c.rx := by
    intro hok
    unfold WV.Props.C07.expected
    cases hs : cfg.isSender with
    | true => simpa using (hci.go (hci.okS hok hs)).2.2
    | false => simpa using hci.okR hok hs
  refine ⟨h1, ?_⟩
  intro ⟨hn1, hn2⟩
  cases hst : c.state with
  | tooEarly => exact absurd hst hci.st_ok.1
  | start => exact absurd hst hci.st_ok.2.1
  | go => exact absurd hst hci.st_ok.2.2.1
  | nevermind => exact absurd hst hci.st_ok.2.2.2
  | relay =>
    exfalso; apply hn1
    obtain ⟨_, hrel, hrx, hp, hl⟩ := hci.relay hst
    have hpre : pre c = Gen.Transit.RELAY_OK := by
      unfold pre; cases hr : c.relayHs with
      | none => exact absurd hr hrel
      | some _ => rfl
    unfold WV.Props.C07.expected
    rw [hpre, hrx, List.append_assoc]
    exact hp.trans (List.prefix_append _ _)
  | handshake =>
    exfalso; apply hn1
    obtain ⟨_, hrx, hp, hl⟩ := hci.hs hst
    unfold WV.Props.C07.expected
    rw [hrx, List.append_assoc]
    apply (List.prefix_append_right_inj _).mpr
    exact hp.trans (List.prefix_append _ _)
  | waitForDecision =>
    exfalso; apply hn1
    obtain ⟨hr, _, hrx, hp, hl⟩ := hci.wait hst
    unfold WV.Props.C07.expected
    rw [hrx, hr]
    simp only [Bool.false_eq_true, if_false]
    exact (List.prefix_append_right_inj _).mpr hp
  | records => exact absurd (h1 (hci.recs hst)) hn2
  | hungUp => rfl

/-- `connect()` still returns only a connection whose negotiation succeeded -/
theorem late_result_is_negotiated (i : Nat)
    (hres : (runL (initWorld cfg listener directs relays) evs).result = .ok i) :
    ∃ c, (runL (initWorld cfg listener directs relays) evs).conns i = some c ∧ c.negD = .ok :=
  (runL_RS (WInv_init _ _ _ _) (RS_init _ _ _ _) evs).r3 i hres

/-- … so the Sender's `connect()` returns `_winner`, the one connection it said `go` on -/
theorem late_sender_result_is_winner (hs : cfg.isSender = true) (i : Nat)
    (hres : (runL (initWorld cfg listener directs relays) evs).result = .ok i) :
    (runL (initWorld cfg listener directs relays) evs).winner = some i := by
  obtain ⟨c, hc, hok⟩ := late_result_is_negotiated cfg listener directs relays evs i hres
  exact late_sender_selected_is_winner cfg listener directs relays evs hs i c hc hok

/-- `_winner_d` fires at most once: a late success finds `_inbound_d` already fired (the model's
    `negFired` then does nothing; the real `_proto_succeeded` raises `AlreadyCalledError` inside the
    negotiation Deferred) — it cannot fire `connect()` a second time -/
theorem late_only_one_fires_once :
    (runL (initWorld cfg listener directs relays) evs).firedCount =
      (if (runL (initWorld cfg listener directs relays) evs).fired then 1 else 0) ∧
    (runL (initWorld cfg listener directs relays) evs).firedCount ≤ 1 := by
  have h : FOK (runL (initWorld cfg listener directs relays) evs) :=
    runL_FOK _ evs (by simp [FOK, initWorld])
  refine ⟨h, ?_⟩
  unfold FOK at h
  rw [h]; split <;> simp

/-- a connection whose negotiation failed (cancelled, refused with `nevermind`, rejected, timed out,
    lost) is closed: `loseConnection()` was called on it or `connectionLost` was delivered -/
theorem late_failed_means_closed (i : Nat) (c : Conn) (e : Err)
    (hc : (runL (initWorld cfg listener directs relays) evs).conns i = some c) (hf : c.negD = .fail e) :
    1 ≤ c.lost ∨ c.gone = true :=
  W8_runL (WInv_init _ _ _ _) (by intro i c h; simp [initWorld] at h) evs i c hc e hf

end

/-- **a late key holder is refused, at every byte position.**  In any world of the invariant in which
    the Sender has a winner `j`, a connection `i` that is waiting for the handshake (a late contender
    right after `accept`: `late_contender_starts_waiting`) and is fed — in ANY chunking — a stream that
    starts with the expected handshake ends up with exactly `nevermind` written behind its own
    handshake, hung up, `loseConnection()` called once more, its negotiation untouched (still pending:
    it fails when the transport reports the loss), and `_winner` still `j`. -/
theorem late_contender_is_refused (cfg : Cfg) (hs : cfg.isSender = true) (i j : Nat) (c : Conn) (chunks : List Bytes)
    (hc : CInv cfg (some j) i c) (hst : c.state = .handshake) (hbuf : c.buf = [])
    (hp : cfg.expectThis <+: chunks.flatten) :
    (chunks.foldl (feedStep cfg i) (some j, c)).1 = some j ∧
    (chunks.foldl (feedStep cfg i) (some j, c)).2.out = hsOut c ++ [cfg.sendThis, Gen.Transit.NEVERMIND] ∧
    (chunks.foldl (feedStep cfg i) (some j, c)).2.state = .hungUp ∧
    (chunks.foldl (feedStep cfg i) (some j, c)).2.lost = c.lost + 1 ∧
    (chunks.foldl (feedStep cfg i) (some j, c)).2.negD = c.negD := by
  obtain ⟨h1, h2, h3, h4, h5⟩ := feed_loser (cfg := cfg) (i := i) (j := j) hs chunks c hc hst (by rw [hbuf]; simpa using hp)
  refine ⟨h1, ?_, h3, h4, h5⟩
  rw [h2, (hc.hs hst).1]; simp

/-- what `accept` creates when the key is known: a fresh connection that has written its handshake and
    waits for the peer's (state `handshake`, empty buffer, negotiation pending) — the hypotheses of
    `late_contender_is_refused` — and it is in `_pending_connections` -/
theorem late_contender_starts_waiting (w : World) (hI : WInv w) (hk : w.hasKey = true)
    (p : World × Option Err) (hE : evAccept w = some p) :
    ∃ c, p.1.conns w.n = some c ∧ CInv p.1.cfg p.1.winner w.n c ∧ c.rx = [] ∧ c.relayHs = none ∧
      p.1.n = w.n + 1 := by
  have hW := WInv_evAccept hI hE
  unfold evAccept at hE
  rw [hk] at hE
  split at hE
  · simp only [if_true] at hE
    cases hE
    obtain ⟨c', h1, h2, h3, h4⟩ := addConn_new hI none none
    exact ⟨c', h1, hW.conns _ _ h1, h2, h3, h4⟩
  · cases hE

/-! ## two sides -/

section
variable (cfgS cfgR : Cfg) (ls : Bool) (ds : Nat) (rs : List Nat) (lr : Bool) (dr : Nat) (rr : List Nat)
  (evs : List LDEvent)

/-- every two-sided schedule of `drun` is one of `drunL` -/
theorem drunL_extends_drun (es : List DEvent) :
    drunL (initDuo cfgS cfgR ls ds rs lr dr rr) (es.map .d) = drun (initDuo cfgS cfgR ls ds rs lr dr rr) es := by
  generalize initDuo cfgS cfgR ls ds rs lr dr rr = d
  induction es generalizing d with
  | nil => rfl
  | cons e rest ih => exact ih (dstep d e)

/-- **`same_link` with late contenders.**  For every schedule of the wider two-sided world — late
    links (the Receiver's further dials reaching the Sender after its selection), late strangers at
    either port, in any interleaving with everything else: if the Sender's `connect()` returned
    connection `a` and the Receiver's returned `b`, then
    1. `a` and `b` are the two ends of ONE link;
    2. it is the link the Sender wrote `go` on: `a` is `_winner`, what the Sender wrote on it is exactly
       (relay request,) handshake, `go`, and no other Sender connection has `go`;
    3. on it the Receiver saw the correct sender handshake followed by `go`;
    4. on NEITHER side is any other connection ever selected (negotiation succeeded) — whatever
       arrives afterwards. -/
theorem late_same_link (hk : SharedKey cfgS cfgR)
    (hkl : Keyless (drunL (initDuo cfgS cfgR ls ds rs lr dr rr) evs)) (a b : Nat)
    (hsa : (drunL (initDuo cfgS cfgR ls ds rs lr dr rr) evs).s.result = .ok a)
    (hrb : (drunL (initDuo cfgS cfgR ls ds rs lr dr rr) evs).r.result = .ok b) :
    ∃ L, L ∈ (drunL (initDuo cfgS cfgR ls ds rs lr dr rr) evs).links ∧ L.sEnd = a ∧ L.rEnd = b ∧
      (drunL (initDuo cfgS cfgR ls ds rs lr dr rr) evs).s.winner = some a ∧
      (∃ ca, (drunL (initDuo cfgS cfgR ls ds rs lr dr rr) evs).s.conns a = some ca ∧
        ca.out = hsOut ca ++ [cfgS.sendThis, Gen.Transit.GO]) ∧
      (∀ i ci, (drunL (initDuo cfgS cfgR ls ds rs lr dr rr) evs).s.conns i = some ci →
        ci.out = hsOut ci ++ [cfgS.sendThis, Gen.Transit.GO] → i = a) ∧
      (∃ cb, (drunL (initDuo cfgS cfgR ls ds rs lr dr rr) evs).r.conns b = some cb ∧
        (pre cb ++ cfgS.sendThis ++ Gen.Transit.GO_EXPECTED) <+: cb.rx) ∧
      (∀ i ci, (drunL (initDuo cfgS cfgR ls ds rs lr dr rr) evs).s.conns i = some ci → ci.negD = .ok → i = a) ∧
      (∀ j cj, (drunL (initDuo cfgS cfgR ls ds rs lr dr rr) evs).r.conns j = some cj → cj.negD = .ok → j = b) := by
  have hL := LInv_drunL (LInv_init cfgS cfgR ls ds rs lr dr rr) evs
  obtain ⟨⟨es, hes⟩, ⟨er, her⟩⟩ := drunL_sides (initDuo cfgS cfgR ls ds rs lr dr rr) evs
  have hes' : (drunL (initDuo cfgS cfgR ls ds rs lr dr rr) evs).s = runL (initWorld cfgS ls ds rs) es := hes
  have her' : (drunL (initDuo cfgS cfgR ls ds rs lr dr rr) evs).r = runL (initWorld cfgR lr dr rr) er := her
  have hcs : (drunL (initDuo cfgS cfgR ls ds rs lr dr rr) evs).s.cfg = cfgS := by rw [hes']; exact runL_cfg _ _
  have hcr : (drunL (initDuo cfgS cfgR ls ds rs lr dr rr) evs).r.cfg = cfgR := by rw [her']; exact runL_cfg _ _
  have hk' : SharedKey (drunL (initDuo cfgS cfgR ls ds rs lr dr rr) evs).s.cfg
      (drunL (initDuo cfgS cfgR ls ds rs lr dr rr) evs).r.cfg := by rw [hcs, hcr]; exact hk
  have hRSs : RS (drunL (initDuo cfgS cfgR ls ds rs lr dr rr) evs).s := by
    rw [hes']; exact runL_RS (WInv_init _ _ _ _) (RS_init _ _ _ _) es
  have hRSr : RS (drunL (initDuo cfgS cfgR ls ds rs lr dr rr) evs).r := by
    rw [her']; exact runL_RS (WInv_init _ _ _ _) (RS_init _ _ _ _) er
  obtain ⟨ca, hca, hoka⟩ := hRSs.r3 a hsa
  obtain ⟨cb, hcb, hokb⟩ := hRSr.r3 b hrb
  obtain ⟨hwa, houta, _⟩ := send_ok_link hL hk' hkl a ca hca hoka
  obtain ⟨L, hLm, hLb, hLw, _⟩ := recv_ok_link hL hk' hkl b cb hcb hokb
  have hLa : L.sEnd = a := by rw [hwa] at hLw; cases hLw; rfl
  refine ⟨L, hLm, hLa, hLb, hwa, ⟨ca, hca, by rw [← hcs]; exact houta⟩, ?_, ?_, ?_, ?_⟩
  · intro i ci hci hout
    have := ((hL.ws.conns i ci hci).go (by rw [hcs]; exact hout)).2.1
    rw [hwa] at this; cases this; rfl
  · refine ⟨cb, hcb, ?_⟩
    have := (hL.wr.conns b cb hcb).okR hokb hk'.receiver
    rw [hcr, ← hk.sr] at this; exact this
  · intro i ci hci hn
    have := (send_ok_link hL hk' hkl i ci hci hn).1
    rw [hwa] at this; cases this; rfl
  · intro j cj hcj hn
    obtain ⟨L', hL'm, hL'j, hL'w, _⟩ := recv_ok_link hL hk' hkl j cj hcj hn
    have : L'.sEnd = L.sEnd := by rw [hLw] at hL'w; exact (Option.some.inj hL'w).symm
    have := hL.injS L' L hL'm hLm this
    subst this
    exact hL'j.symm.trans hLb

/-- whoever the Receiver selects — also when the Sender's `connect()` result is not out yet, or was
    lost — is the peer end of the ONE connection the Sender said `go` on -/
theorem late_receiver_selects_the_go_link (hk : SharedKey cfgS cfgR)
    (hkl : Keyless (drunL (initDuo cfgS cfgR ls ds rs lr dr rr) evs)) (j : Nat) (cb : Conn)
    (hcb : (drunL (initDuo cfgS cfgR ls ds rs lr dr rr) evs).r.conns j = some cb) (hok : cb.negD = .ok) :
    ∃ L, L ∈ (drunL (initDuo cfgS cfgR ls ds rs lr dr rr) evs).links ∧ L.rEnd = j ∧
      (drunL (initDuo cfgS cfgR ls ds rs lr dr rr) evs).s.winner = some L.sEnd := by
  have hL := LInv_drunL (LInv_init cfgS cfgR ls ds rs lr dr rr) evs
  obtain ⟨⟨es, hes⟩, ⟨er, her⟩⟩ := drunL_sides (initDuo cfgS cfgR ls ds rs lr dr rr) evs
  have hcs : (drunL (initDuo cfgS cfgR ls ds rs lr dr rr) evs).s.cfg = cfgS := by
    rw [show (drunL (initDuo cfgS cfgR ls ds rs lr dr rr) evs).s = runL (initWorld cfgS ls ds rs) es from hes]
    exact runL_cfg _ _
  have hcr : (drunL (initDuo cfgS cfgR ls ds rs lr dr rr) evs).r.cfg = cfgR := by
    rw [show (drunL (initDuo cfgS cfgR ls ds rs lr dr rr) evs).r = runL (initWorld cfgR lr dr rr) er from her]
    exact runL_cfg _ _
  have hk' : SharedKey (drunL (initDuo cfgS cfgR ls ds rs lr dr rr) evs).s.cfg
      (drunL (initDuo cfgS cfgR ls ds rs lr dr rr) evs).r.cfg := by rw [hcs, hcr]; exact hk
  obtain ⟨L, hLm, hLj, hLw, _⟩ := recv_ok_link hL hk' hkl j cb hcb hok
  exact ⟨L, hLm, hLj, hLw⟩

end

/-! ## the wider world is inhabited, the conclusions are not vacuous -/

open WV.Props.C07 in
/-- the seeded schedule in the model: an inbound winner, then a late key holder whose handshake comes
    in two pieces — `accept` is possible (the port is closed, `_winner` is set), the late contender is
    answered `nevermind` and hung up, `_winner` and the result stay, it is still in
    `_pending_connections` until its transport reports the loss -/
example :
    let w := runL (initWorld (toyCfg true) true 0 [])
      [.ev .connect, .ev .inbound, .ev (.data 0 [7, 8, 9]), .accept, .ev (.data 1 [7]), .ev (.data 1 [8, 9])]
    w.portOpen = false ∧ w.n = 2 ∧ w.winner = some 0 ∧ w.result = .ok 0 ∧
    ((w.conns 1).map (·.out) = some [[1, 2], Gen.Transit.NEVERMIND]) ∧
    ((w.conns 1).map (·.state) = some .hungUp) ∧ ((w.conns 1).map (·.lost) = some 1) ∧
    ((w.conns 0).map (·.out) = some [[1, 2], Gen.Transit.GO]) ∧ w.fPending = [1] ∧
    (runL w [.ev (.lost 1)]).fPending = [] := by
  decide

open WV.Props.C07 in
/-- `accept` is NOT an event before the selection, nor after a failed `connect()` -/
example :
    (runL (initWorld (toyCfg true) true 0 []) [.ev .connect, .accept]).n = 0 ∧
    (runL (initWorld (toyCfg true) true 0 []) [.ev .connect, .ev (.advance 120), .accept]).n = 0 ∧
    (runL (initWorld (toyCfg true) false 1 []) [.ev .connect, .ev (.connected 0), .ev (.data 0 [7, 8, 9]), .accept]).n = 1 := by
  decide

open WV.Props.C07 in
/-- two sides, a late link: the Receiver dials the Sender's port twice; the second dial is accepted
    after the Sender said `go` on the first; it hears `nevermind`; both results are link 0 -/
def toyLate : Duo :=
  drunL (initDuo (toyCfg true) toyR true 0 [] false 2 [])
    [.d (.s .connect), .d (.r .connect), .d (.link (.sListens 0)), .d (.fwdRS 0 100), .lateLinkS 1,
     .d (.fwdRS 1 100), .d (.fwdSR 1 100), .d (.fwdSR 0 100)]

example : toyLate.s.result = .ok 0 ∧ toyLate.r.result = .ok 0 ∧
    toyLate.links = [{ sEnd := 0, rEnd := 0, relay := false }, { sEnd := 1, rEnd := 1, relay := false }] ∧
    (toyLate.s.conns 1).map (·.out) = some [[1, 2], Gen.Transit.NEVERMIND] ∧
    (toyLate.r.conns 1).map (·.state) = some .hungUp := by decide

end WV.Props.C07Late
