import WV.Proofs.PyIR_Client

/-!
Translation validation of the control machines against `WV.Client.exec` / `WV.Client.step` (continued): the Boss's
control outputs and API entry points, Input, the Mailbox / Order / Send / Receive outputs as the control model sees
them, and the translatable part of the RendezvousConnector glue.  Conventions as in `WV.Props.PyIR_Client`.

Not here, on purpose: outputs whose control-model step pushes an *internal continuation* instead of a call
(`N_release_and_accept` → `.acceptTail`, `Order.drain` → `.orderDrainTail`, `Mailbox.drain` → `.drainPending`,
`Send.drain`, `W_received` / `D_received_dilate`, `Order.queue`): the control model collapses their loops and data; their
bodies are validated in full against the data model in `WV.Props.PyIR_C03*`.
-/
set_option linter.unusedSimpArgs false
set_option linter.unusedVariables false

namespace WV.Props.PyIRClient
open WV WV.Gen WV.PyIR WV.Client WV.Gen.PyIR WV.Proofs.PyIRC03 WV.Proofs.PyIRClient

abbrev envB : Env := envU noBad noRaise noRets

/-! ## Boss -/

set_option hygiene false in
macro "openB" R:ident : tactic =>
  `(tactic| obtain ⟨hLatch, ⟨vRes, hRes, hResV⟩, ⟨ntx, hTx⟩, ⟨vS, hS⟩, ⟨vW, hW⟩, ⟨vD, hD⟩, ⟨vT, hT⟩, ⟨vC, hC⟩⟩ := $R)

set_option hygiene false in
macro "relB" : tactic =>
  `(tactic| (constructor <;> first
      | assumption
      | (refine ⟨vRes, ?_, hResV⟩; simp [get_set, hRes]; done)
      | exact ⟨_, get_set_same _ _ _, rfl⟩
      | exact ⟨_, get_set_same _ _ _, ‹_›⟩
      | (simp [get_set, *]; done)
      | (simp [get_set]; assumption)))

theorem boss_do_got_code (fuel : Nat) (h : Store) (s : RunSt) (R : RelB h s.ctl) (a : Arg) (code : Val) :
    AgreeStep RelB (PyIR.exec (fuel + 1) envB tbl_Boss "do_got_code" [code] h) (Client.exec s (.oB .do_got_code) a) := by
  have R' := R
  openB R
  ctl_eval [tbl_Boss, m_Boss_do_got_code, hW]
  exact R'

/-- `process_version`: only `W.got_versions` is a control call (the Dilator is a stub in the control model) -/
theorem boss_process_version (fuel : Nat) (h : Store) (s : RunSt) (R : RelB h s.ctl) (a : Arg) (pt : Bytes) :
    AgreeStep RelB (PyIR.exec (fuel + 1) envB tbl_Boss "process_version" [.bytes pt] h)
      (Client.exec s (.oB .process_version) a) := by
  openB R
  ctl_eval [tbl_Boss, m_Boss_process_version, hW, hD]
  relB

/-- `S_send`: the control model only sees the call `S.send` (and that a number was taken); the numbering itself is
    `WV.Props.PyIRC03.boss_S_send` -/
theorem boss_S_send (fuel : Nat) (h : Store) (s : RunSt) (R : RelB h s.ctl) (a : Arg) (pt : Bytes) :
    AgreeStep RelB (PyIR.exec (fuel + 1) envB tbl_Boss "S_send" [.bytes pt] h) (Client.exec s (.oB .S_send) a) := by
  openB R
  ctl_eval [tbl_Boss, m_Boss_S_send, hS, hTx, Send.Input.name, emit]
  relB

/-- `close_unwelcome(welcome_error)`; the argument is the `WelcomeError` built by `rx_welcome` -/
theorem boss_close_unwelcome (fuel : Nat) (h : Store) (s : RunSt) (R : RelB h s.ctl) (a : Arg) (fs : List Val) :
    AgreeStep RelB (PyIR.exec (fuel + 1) envB tbl_Boss "close_unwelcome" [.obj "WelcomeError" fs] h)
      (Client.exec s (.oB .close_unwelcome) a) := by
  openB R
  ctl_eval [tbl_Boss, m_Boss_close_unwelcome, hT, Terminator.Input.name]
  relB

theorem boss_close_error (fuel : Nat) (h : Store) (s : RunSt) (R : RelB h s.ctl) (a : Arg) (errmsg orig : Val) :
    AgreeStep RelB (PyIR.exec (fuel + 1) envB tbl_Boss "close_error" [errmsg, orig] h)
      (Client.exec s (.oB .close_error) a) := by
  openB R
  ctl_eval [tbl_Boss, m_Boss_close_error, hT, Terminator.Input.name]
  relB

theorem boss_close_scared (fuel : Nat) (h : Store) (s : RunSt) (R : RelB h s.ctl) (a : Arg) :
    AgreeStep RelB (PyIR.exec (fuel + 1) envB tbl_Boss "close_scared" [] h) (Client.exec s (.oB .close_scared) a) := by
  openB R
  ctl_eval [tbl_Boss, m_Boss_close_scared, hT, Terminator.Input.name]
  relB

theorem boss_close_lonely (fuel : Nat) (h : Store) (s : RunSt) (R : RelB h s.ctl) (a : Arg) :
    AgreeStep RelB (PyIR.exec (fuel + 1) envB tbl_Boss "close_lonely" [] h) (Client.exec s (.oB .close_lonely) a) := by
  openB R
  ctl_eval [tbl_Boss, m_Boss_close_lonely, hT, Terminator.Input.name]
  relB

theorem boss_close_happy (fuel : Nat) (h : Store) (s : RunSt) (R : RelB h s.ctl) (a : Arg) :
    AgreeStep RelB (PyIR.exec (fuel + 1) envB tbl_Boss "close_happy" [] h) (Client.exec s (.oB .close_happy) a) := by
  openB R
  ctl_eval [tbl_Boss, m_Boss_close_happy, hT, Terminator.Input.name]
  relB

theorem boss_W_got_key (fuel : Nat) (h : Store) (s : RunSt) (R : RelB h s.ctl) (a : Arg) (k : Val) :
    AgreeStep RelB (PyIR.exec (fuel + 1) envB tbl_Boss "W_got_key" [k] h) (Client.exec s (.oB .W_got_key) a) := by
  have R' := R
  openB R
  ctl_eval [tbl_Boss, m_Boss_W_got_key, hW]
  exact R'

theorem boss_D_got_key (fuel : Nat) (h : Store) (s : RunSt) (R : RelB h s.ctl) (a : Arg) (k : Val) :
    AgreeStep RelB (PyIR.exec (fuel + 1) envB tbl_Boss "D_got_key" [k] h) (Client.exec s (.oB .D_got_key) a) := by
  have R' := R
  openB R
  ctl_eval [tbl_Boss, m_Boss_D_got_key, hD]
  exact R'

theorem boss_send_status_peer_key (fuel : Nat) (h : Store) (s : RunSt) (R : RelB h s.ctl) (a : Arg) (k : Val) :
    AgreeStep RelB (PyIR.exec (fuel + 1) envB tbl_Boss "send_status_peer_key" [k] h)
      (Client.exec s (.oB .send_status_peer_key) a) := by
  have R' := R
  ctl_eval [tbl_Boss, m_Boss_send_status_peer_key]
  exact R'

theorem boss_send_status_confirmed_key (fuel : Nat) (h : Store) (s : RunSt) (R : RelB h s.ctl) (a : Arg) (k : Val) :
    AgreeStep RelB (PyIR.exec (fuel + 1) envB tbl_Boss "send_status_confirmed_key" [k] h)
      (Client.exec s (.oB .send_status_confirmed_key) a) := by
  have R' := R
  ctl_eval [tbl_Boss, m_Boss_send_status_confirmed_key]
  exact R'

theorem boss_send_status_closed (fuel : Nat) (h : Store) (s : RunSt) (R : RelB h s.ctl) (a : Arg) :
    AgreeStep RelB (PyIR.exec (fuel + 1) envB tbl_Boss "send_status_closed" [] h)
      (Client.exec s (.oB .send_status_closed) a) := by
  have R' := R
  ctl_eval [tbl_Boss, m_Boss_send_status_closed]
  exact R'

theorem boss_W_got_verifier (fuel : Nat) (h : Store) (s : RunSt) (R : RelB h s.ctl) (a : Arg) (v : Val) :
    AgreeStep RelB (PyIR.exec (fuel + 1) envB tbl_Boss "W_got_verifier" [v] h) (Client.exec s (.oB .W_got_verifier) a) := by
  have R' := R
  openB R
  ctl_eval [tbl_Boss, m_Boss_W_got_verifier, hW]
  exact R'

/-- `W_close_with_error(err)`: the verdict is recorded and the *recorded* value is what `W.closed` gets -/
theorem boss_W_close_with_error (fuel : Nat) (h : Store) (s : RunSt) (R : RelB h s.ctl) (a : Arg) (err : Val)
    (herr : verdictOf err = some a.verdict) :
    AgreeStep RelB (PyIR.exec (fuel + 1) envB tbl_Boss "W_close_with_error" [err] h)
      (Client.exec s (.oB .W_close_with_error) a) := by
  openB R
  ctl_eval [tbl_Boss, m_Boss_W_close_with_error, hW, herr]
  relB

/-- `W_closed()`: `W.closed` gets `_result`, whose class is the model's `result` -/
theorem boss_W_closed (fuel : Nat) (h : Store) (s : RunSt) (R : RelB h s.ctl) (a : Arg) :
    AgreeStep RelB (PyIR.exec (fuel + 1) envB tbl_Boss "W_closed" [] h) (Client.exec s (.oB .W_closed) a) := by
  have R' := R
  openB R
  ctl_eval [tbl_Boss, m_Boss_W_closed, hW, hRes, hResV]
  exact R'

/-- `Boss.set_code(code)` = `step c (.setCode valid)`: `validate_code` first, then the latch check, then the latch is
    set, then `C.set_code`.  (`valid` = `validate_code` accepts.) -/
theorem boss_set_code (fuel : Nat) (h : Store) (c : Ctl) (R : RelB h c) (code : Val) (valid : Bool) :
    let o := PyIR.exec (fuel + 1) (envU (fun f _ => if f = "validate_code" ∧ valid = false then some "KeyFormatError" else none)
      noRaise noRets) tbl_Boss "set_code" [code] h
    (valid = false → o.heap = h ∧ o.calls = [] ∧ o.exc = some (Exn.name .keyFormat) ∧
      step c (.setCode false) = (c, [], .apiError .keyFormat)) ∧
    (valid = true → c.didStartCode = true → o.heap = h ∧ o.calls = [] ∧ o.exc = some (Exn.name .onlyOneCode) ∧
      step c (.setCode true) = (c, [], .apiError .onlyOneCode)) ∧
    (valid = true → c.didStartCode = false → RelB o.heap { c with didStartCode := true } ∧
      o.calls.map callName = ["_C.set_code"] ∧ o.exc = none) := by
  openB R
  cases valid <;> cases hd : c.didStartCode <;> rw [hd] at hLatch <;>
    ctl_eval [tbl_Boss, m_Boss_set_code, hLatch, hC, hd, step]
  relB

/-- the ORDER in `set_code`: the latch is set before `C.set_code` runs — the model's `api { c with didStartCode := true } …`
    keeps it when the agenda fails, and a re-entrant second `set_code` from inside meets the latch -/
theorem boss_set_code_latch_first (fuel : Nat) (h : Store) (c : Ctl) (R : RelB h c) (code : Val)
    (hd : c.didStartCode = false) (cls : String) :
    let o := PyIR.exec (fuel + 1) (envU noBad (fun k => if k = 0 then some cls else none) noRets) tbl_Boss "set_code" [code] h
    RelB o.heap { c with didStartCode := true } ∧ o.calls.map callName = ["_C.set_code"] ∧ o.exc = some cls := by
  openB R
  rw [hd] at hLatch
  ctl_eval [tbl_Boss, m_Boss_set_code, hLatch, hC]
  relB

theorem boss_allocate_code (fuel : Nat) (h : Store) (c : Ctl) (R : RelB h c) (len : Val) :
    let o := PyIR.exec (fuel + 1) envB tbl_Boss "allocate_code" [len] h
    (c.didStartCode = true → o.heap = h ∧ o.calls = [] ∧ o.exc = some (Exn.name .onlyOneCode) ∧
      step c .allocateCode = (c, [], .apiError .onlyOneCode)) ∧
    (c.didStartCode = false → RelB o.heap { c with didStartCode := true } ∧
      o.calls.map callName = ["_C.allocate_code"] ∧ o.exc = none) := by
  openB R
  cases hd : c.didStartCode <;> rw [hd] at hLatch <;> ctl_eval [tbl_Boss, m_Boss_allocate_code, hLatch, hC, hd, step]
  relB

theorem boss_input_code (fuel : Nat) (h : Store) (c : Ctl) (R : RelB h c) :
    let o := PyIR.exec (fuel + 1) envB tbl_Boss "input_code" [] h
    (c.didStartCode = true → o.heap = h ∧ o.calls = [] ∧ o.exc = some (Exn.name .onlyOneCode) ∧
      step c .inputCode = (c, [], .apiError .onlyOneCode)) ∧
    (c.didStartCode = false → RelB o.heap { c with didStartCode := true } ∧
      o.calls.map callName = ["_C.input_code"] ∧ o.exc = none) := by
  openB R
  cases hd : c.didStartCode <;> rw [hd] at hLatch <;> ctl_eval [tbl_Boss, m_Boss_input_code, hLatch, hC, hd, step]
  relB

/-- `rx_welcome(welcome)` = `step c (.welcome err)`: a welcome with an `"error"` key becomes the input `rx_unwelcome`
    (with the `WelcomeError`), any other goes to `W.got_welcome` -/
theorem boss_rx_welcome (fuel : Nat) (h : Store) (c : Ctl) (R : RelB h c) (kvs : List (Val × Val)) (r : Option Val)
    (hget : dictGet (.str "error") kvs = .ok r) :
    let o := PyIR.exec (fuel + 1) envB tbl_Boss "rx_welcome" [.dict kvs] h
    o.heap = h ∧ o.exc = none ∧ o.calls.map callName = [if r.isSome then "self.rx_unwelcome" else "_W.got_welcome"] ∧
      (r.isSome = true → o.calls.map (·.args) = [[.obj "WelcomeError" []]]) := by
  openB R
  cases r <;> ctl_eval [tbl_Boss, m_Boss_rx_welcome, hW, hget]

end WV.Props.PyIRClient
