import WV.Proofs.C10
import WV.Proofs.C10_L4
import WV.Proofs.C10_L4Run
import WV.Proofs.C10_E2E

/-!
C10 property theorems.  `run World.init evs = .ok w` quantifies over EVERY schedule `evs` of
application writes (open/data/close, both sides), `use_connection`s (the Connector's `select()` turn,
which first hands over — oldest first — the records parked on the new connection since its KCM),
connection losses (whatever is in flight when the writer moves to its next connection is lost: any
suffix, data and acks alike), transport pauses (also in the middle of the replay loop) and resumes,
single deliveries of records and acks to `got_record` or to the parked queue of a not yet selected
connection, and late listener registrations; the executable model `WV.C10` is the one the driver runs against the real code.
There is no bound on the length of the schedule, the number of generations or the data.
-/
namespace WV.Props.C10
open WV WV.C10 WV.Proofs.C10 WV.Gen

/-- The ARQ invariant (`Proofs.C10.DirInv`, one instance per direction) holds in every reachable
    state: `built` is numbered 0,1,2…; the receiver has dispatched exactly `built[0..high]`;
    `_outbound_queue` — and, while connected, (parked at the receiver) ++ (in flight) ++
    `_queued_unsent` — contains, gap-free
    from the receiver's watermark up to the newest record, everything the receiver still lacks;
    nothing waits in `_queued_unsent` while disconnected or while connected and unpaused; every ack
    in flight or parked is at or below the receiver's watermark; a connected side has nothing parked. -/
theorem inv_reachable (evs : List Event) (w : World) (h : run World.init evs = .ok w) : WInv w :=
  run_inv evs wInv_init h

/-- For every schedule, what the receiver has dispatched is a prefix of what the sender's
    application issued, in the order issued, bodies (scid, payload, write boundaries) intact, each
    record once: the dispatched seqnums are 0,1,2,… without duplicate or gap.  Both directions. -/
theorem exactly_once_in_order (evs : List Event) (w : World) (h : run World.init evs = .ok w) :
    (w.b.dispatched.map (·.body) <+: issued .A evs ∧
      w.b.dispatched.map (·.seqnum) = List.range w.b.dispatched.length) ∧
    (w.a.dispatched.map (·.body) <+: issued .B evs ∧
      w.a.dispatched.map (·.seqnum) = List.range w.a.dispatched.length) := by
  have H := inv_reachable evs w h
  obtain ⟨ba, bb⟩ := run_built evs h
  simp only [World.init, Side.init, List.map_nil, List.nil_append] at ba bb
  have key : ∀ (s r : Side) (I : List Body), DirInv s r → s.built.map (·.body) = I →
      r.dispatched.map (·.body) <+: I ∧ r.dispatched.map (·.seqnum) = List.range r.dispatched.length := by
    intro s r I D hI
    refine ⟨?_, ?_⟩
    · rw [D.disp, ← hI, List.map_take]; exact List.take_prefix _ _
    · apply List.ext_getElem
      · simp
      · intro i h1 h2
        simp only [List.getElem_map, List.getElem_range]
        apply D.bseq
        have h3 : i < r.dispatched.length := by simpa using h1
        have : r.dispatched[i]? = some r.dispatched[i] := List.getElem?_eq_getElem h3
        rw [← this, D.disp, List.getElem?_take]
        rw [D.disp, List.length_take] at h3
        simp only [show i < (r.high + 1).toNat by omega, ↓reduceIte]
  exact ⟨key _ _ _ H.1 ba, key _ _ _ H.2.1 bb⟩

/-- Whenever the sender is connected, not paused and nothing it sent is still in flight — i.e. the
    generation stayed up until its channel drained, the receiver's Connector having taken its turn
    (nothing parked) — the receiver has dispatched everything the
    application ever issued (so nothing written while down, or behind a paused replay, is stuck in
    `_queued_unsent`).  Direction A → B. -/
theorem queued_while_down_delivered (evs : List Event) (w : World) (h : run World.init evs = .ok w)
    (hc : w.a.conn = true) (hp : w.a.paused = false) (hd : ∀ r, Wire.msg r ∉ w.a.out)
    (hk : ∀ r, Wire.msg r ∉ w.b.parked) :
    w.b.dispatched.map (·.body) = issued .A evs := by
  have H := inv_reachable evs w h
  have ba := (run_built evs h).1
  simp only [World.init, Side.init, List.map_nil, List.nil_append] at ba
  rw [drained_all H.1 hc hp (dataOf_eq_nil hd) (dataOf_eq_nil hk), ba]

/-- the same for direction B → A: the two directions are independent instances -/
theorem queued_while_down_delivered_rev (evs : List Event) (w : World) (h : run World.init evs = .ok w)
    (hc : w.b.conn = true) (hp : w.b.paused = false) (hd : ∀ r, Wire.msg r ∉ w.b.out)
    (hk : ∀ r, Wire.msg r ∉ w.a.parked) :
    w.a.dispatched.map (·.body) = issued .B evs := by
  have H := inv_reachable evs w h
  have bb := (run_built evs h).2
  simp only [World.init, Side.init, List.map_nil, List.nil_append] at bb
  rw [drained_all H.2.1 hc hp (dataOf_eq_nil hd) (dataOf_eq_nil hk), bb]

/-- …and such a generation always exists: from ANY reachable state, if the receiver's Connector
    takes its turn (selects its pending connection, which hands over what is parked, oldest first; or
    it is already connected), the sender settles on a connection whose transport does not pause
    (connects if it is down, is resumed if it is up) and what it has in flight is delivered, then the
    receiver ends up with exactly the issued sequence. -/
theorem final_generation_delivers_all (evs : List Event) (w : World) (h : run World.init evs = .ok w) :
    ∃ w0 w1 w2, step w (.B, if w.b.conn then .resume 0 else .use 0) = .ok w0 ∧
      step w0 (.A, if w0.a.conn then .resume 0 else .use 0) = .ok w1 ∧
      run w1 (List.replicate w1.a.out.length (.B, .deliver)) = .ok w2 ∧
      w2.b.dispatched.map (·.body) = issued .A evs := by
  have H := inv_reachable evs w h
  obtain ⟨v0, t0, cb, _, _⟩ := settle (wInv_swap H)
  have t0' : stepA w.swap (if w.b.conn then .resume 0 else .use 0) = .ok v0 := t0
  have s0 : step w (.B, if w.b.conn then .resume 0 else .use 0) = .ok v0.swap := by
    simp only [step, t0']; rfl
  have H0 := step_inv H s0
  obtain ⟨w1, s1, c1, p1, b1⟩ := settle H0
  have H1 := step_inv H0 s1
  have hb0 : v0.swap.b.parked = [] := H0.2.2.2 cb
  obtain ⟨w2, r2, o2, c2, p2, k2⟩ := deliverB_run w1.a.out.length w1 rfl (by rw [b1]; exact hb0)
  have H2 := run_inv _ H1 r2
  refine ⟨v0.swap, w1, w2, s0, s1, r2, ?_⟩
  rw [drained_all H2.1 (by rw [c2, c1]) (by rw [p2, p1]) (by rw [o2]; rfl) (by rw [k2]; rfl)]
  have e0 := (run_built evs h).1
  have e1 := (step_built s0).1
  have e2 := (step_built s1).1
  have e3 := (run_built _ r2).1
  have i1 : ∀ (c : Bool), issued .A [((Who.B, if c then Act.resume 0 else Act.use 0) : Event)] = [] := by
    intro c; cases c <;> rfl
  have i2 : ∀ (c : Bool), issued .A [((Who.A, if c then Act.resume 0 else Act.use 0) : Event)] = [] := by
    intro c; cases c <;> rfl
  have i3 : ∀ n, issued .A (List.replicate n ((Who.B, Act.deliver) : Event)) = [] := by
    intro n; induction n with
    | zero => rfl
    | succ n ih => simpa [List.replicate_succ, issued] using ih
  simp only [World.init, Side.init, List.map_nil, List.nil_append] at e0
  rw [e3, e2, e1, e0, i1, i2, i3]; simp

/-- No internal failure: from a reachable state every event the environment can produce is
    accepted — in particular `assert not self._queued_unsent` in `use_connection` never fires. -/
theorem never_fails (evs : List Event) (w : World) (h : run World.init evs = .ok w) (e : Event)
    (he : enabled w e = true) : ∃ w', step w e = .ok w' :=
  enabled_ok (inv_reachable evs w h) he

/-- The order of calls written in the model is the order found in the source by the translator. -/
theorem skeleton_agrees :
    Gen.Skel.skeleton "Manager.got_record" = skel_got_record ∧
    Gen.Skel.skeleton "Manager._queue_and_send" = skel_queue_and_send ∧
    Gen.Skel.skeleton "Manager.send_ack" = skel_send_ack ∧
    Gen.Skel.skeleton "Manager.connector_connection_made" = skel_connection_made ∧
    Gen.Skel.skeleton "Manager._stop_using_connection" = skel_stop_using ∧
    Gen.Skel.skeleton "Outbound.queue_and_send_record" = skel_queue_and_send_record ∧
    Gen.Skel.skeleton "Outbound.send_if_connected" = skel_send_if_connected ∧
    Gen.Skel.skeleton "Outbound.use_connection" = skel_use_connection ∧
    Gen.Skel.skeleton "Outbound.stop_using_connection" = skel_stop_using_connection ∧
    Gen.Skel.skeleton "Outbound.resumeProducing" = skel_resumeProducing ∧
    Gen.Skel.skeleton "DilatedConnectionProtocol.process_inbound_queue" = skel_process_inbound_queue ∧
    Gen.Skel.skeleton "SubChannel._deliver_queued_data" = skel_deliver_queued_data ∧
    Gen.Skel.skeleton "Inbound.handle_open" = skel_handle_open ∧
    Gen.Skel.skeleton "Inbound.handle_data" = skel_handle_data ∧
    Gen.Skel.skeleton "Inbound.handle_close" = skel_handle_close ∧
    Gen.Skel.skeleton "SubChannel.signal_dataReceived" = skel_signal_dataReceived ∧
    Gen.Skel.skeleton "SubChannel.signal_readConnectionLost" = skel_signal_readConnectionLost ∧
    Gen.Skel.skeleton "SubChannel.pauseProducing" = skel_sub_pauseProducing ∧
    Gen.Skel.skeleton "SubChannel.resumeProducing" = skel_sub_resumeProducing := by
  decide +kernel

/-- Two structural facts the model relies on, read from the source by the translator: the records
    parked on a not yet selected connection are appended at the back and handed to `got_record` from
    the front (`processInboundQueue` is oldest-first), and a SubChannel's pending data / pending
    close are per-instance attributes initialised from fresh literals (`Sub.pendData` belongs to
    one subchannel); `_outbound_queue` is created, appended to by `queue_and_send_record` and popped by
    `handle_ack` and touched by NO other method of Outbound (in particular closing a subchannel leaves the
    retransmit queue alone — the model's `queue` changes in `queueAndSend` and `handleAck` only), likewise
    `_queued_unsent`; `_highest_inbound_acked` starts at the integer -1 (`Side.init.high`) and
    `is_record_old` is exactly `r.seqnum <= self._highest_inbound_acked` (`isRecordOld`); the public entry
    point `wormhole.create(…).dilate()` → `Boss.dilate` → `Dilator.dilate` → `Manager` →
    `SubchannelDemultiplex` hands `expected_subprotocols` down unchanged with default `None`, and the
    demultiplexer refuses an OPEN only when a collection was given — so with the default an OPEN nobody
    listens for yet is HELD (`handleOpen`'s `pendOpens` branch), never refused. -/
theorem structure_agrees :
    Gen.Flags.dcp_parked_queue_fifo = true ∧ Gen.Flags.subchannel_pending_per_instance = true ∧
    Gen.Flags.outbound_queue_touched_only_by_send_and_ack = true ∧
    Gen.Flags.queued_unsent_touched_only_by_known_methods = true ∧
    Gen.Flags.inbound_watermark_starts_at_minus_one = true ∧
    Gen.Flags.is_record_old_is_plain_le = true ∧
    Gen.Flags.api_dilate_forwards_expected_subprotocols = true ∧
    Gen.Flags.boss_dilate_forwards_expected_subprotocols = true ∧
    Gen.Flags.dilator_dilate_forwards_expected_subprotocols = true ∧
    Gen.Flags.manager_gets_expected_subprotocols = true ∧
    Gen.Flags.demux_gets_expected_subprotocols = true ∧
    Gen.Flags.demux_refuses_only_when_expected_given = true := by
  decide

/-! ### above the ARQ: subchannels and late listeners (per-step theorems) -/

/-- Pending data is per subchannel: dispatching a record changes neither what has been shown nor what
    is queued for any subchannel other than the one the record names. -/
theorem dispatch_touches_only_its_subchannel (t : L4) (r : Rec) (c' : Nat) (h : bodyScid r.body ≠ c') :
    findSub c' (l4Dispatch t r).subs = findSub c' t.subs :=
  l4Dispatch_isolated t r c' h

/-- Registering a listener touches only subchannels that are pending for that subprotocol name. -/
theorem listen_touches_only_pending_of_that_name (t : L4) (name : Bytes) (c' : Nat)
    (h : ∀ p ∈ t.pendOpens, p.1 = name → p.2 ≠ c') :
    findSub c' (l4Listen t name).subs = findSub c' t.subs :=
  l4Listen_isolated t name c' h

/-- Late registration delivers to a pending subchannel's new protocol: `made`, then exactly the
    data queued on THAT subchannel, oldest first, then the queued close; its queue is empty afterwards. -/
theorem late_listener_gets_own_queue_in_order (s : Sub) (hs : s.st = .unconnected) :
    ∃ s', connectSub s = some s' ∧
      s'.shown = s.shown ++ [.made] ++ s.pendData.map .data ++ (if s.pendClose then [.rclosed] else []) ∧
      s'.pendData = [] ∧ s'.pendClose = false ∧
      s'.st = (if s.pendClose then .read_closed else .open_half) :=
  connectSub_spec s hs

/-- `subTotal` = what a subchannel's protocol has been told followed by what it will be told once it
    exists.  DATA / CLOSE for a subchannel the peer has not closed append exactly one event to it,
    whether or not the application is listening yet; getting the protocol late does not change it. -/
theorem queued_or_shown_exactly_once (s : Sub) (d : Bytes)
    (hs : s.st = .open_half ∨ (s.st = .unconnected ∧ s.pendClose = false)) :
    (∃ s', subInput s .remote_data d = some s' ∧ subTotal s' = subTotal s ++ [AppEv.data d]) ∧
    (∃ s', subInput s .remote_close [] = some s' ∧ subTotal s' = subTotal s ++ [AppEv.rclosed]) ∧
    (s.st = .unconnected → ∃ s', connectSub s = some s' ∧ subTotal s' = subTotal s) :=
  ⟨remote_data_total s d hs, remote_close_total s hs, fun h => connectSub_total s h⟩

/-! The full statement above the ARQ, for whole runs.  `L4In`, `l4Run`, `dispatchedOf`, `expect`,
`wellFormed` live in `WV.Proofs.C10_L4Run`: an L4 run is any interleaving of dispatched records and
listener registrations; `expect c D` is the image (made / data d / rclosed, in order) of the records of
`D` naming subchannel `c`; `wellFormed` is the discipline of a sending application (each scid opened
once, written to and closed only between its open and its close). -/

/-- For a well-formed dispatched stream and ANY interleaving of listener registrations nothing raises
    `NoTransition`, and for every subchannel what its protocol was shown followed by what is still
    queued for it (`subTotal`) is, in order, the image of the dispatched records that name it. -/
def l4_full_statement : Prop :=
  ∀ (ins : List L4In), wellFormed [] [] (dispatchedOf ins) = true →
    (l4Run L4.init ins).fault = false ∧
    ∀ c s, findSub c (l4Run L4.init ins).subs = some s → subTotal s = expect c (dispatchedOf ins)

/-- …proved for all runs, by induction over the run with the invariant `LInv` (built from the four
    per-step theorems above), together with its sharper half: what the protocol has been SHOWN is a
    prefix of that image, and it is all of it as soon as a listener for the subchannel's name is
    registered (nothing stays queued behind a registered listener). -/
theorem subchannel_delivery_all_runs :
    l4_full_statement ∧
    ∀ (ins : List L4In), wellFormed [] [] (dispatchedOf ins) = true →
      ∀ c s, findSub c (l4Run L4.init ins).subs = some s →
        s.shown <+: expect c (dispatchedOf ins) ∧
        (s.name ∈ (l4Run L4.init ins).factories → s.shown = expect c (dispatchedOf ins)) := by
  have key : ∀ (ins : List L4In), wellFormed [] [] (dispatchedOf ins) = true →
      ∃ O C, LInv (l4Run L4.init ins) O C (dispatchedOf ins) := by
    intro ins hwf
    obtain ⟨O, C, L⟩ := l4Run_inv ins L4.init [] [] [] lInv_init hwf
    exact ⟨O, C, by simpa using L⟩
  refine ⟨?_, ?_⟩
  · intro ins hwf
    obtain ⟨O, C, L⟩ := key ins hwf
    exact ⟨L.nofault, fun c s hs => (L.tot c s hs).1⟩
  · intro ins hwf c s hs
    obtain ⟨O, C, L⟩ := key ins hwf
    have t1 := (L.tot c s hs).1
    refine ⟨by rw [← t1]; exact shown_prefix_total s, ?_⟩
    intro hn
    have hst : s.st ≠ .unconnected := fun hu => (L.wait c s hs hu).1 hn
    rw [← t1, total_eq_shown s hst]

/-! ### end to end: application calls on one side ↦ per-subchannel callbacks on the other -/

/-- END TO END, direction A → B.  For EVERY schedule (writes, opens, closes on both sides,
    any number of connection generations, losses of any suffix in flight, lost acks, pauses inside
    the replay, bursts parked behind the KCM, listeners registered at any time) in which A's
    application is well-behaved (`wfCalls`: each scid opened once, written to / closed only between
    its open and its close):
    * no `NoTransition` is ever raised on B;
    * for every subchannel `c` on B, what its protocol was shown plus what is queued for it is, in order
      and with write boundaries, the image of the calls that A made on `c` and that B has dispatched
      — and B has dispatched a prefix of A's calls, each exactly once (`exactly_once_in_order`);
    * so the callbacks the protocol saw are a prefix of the image of ALL calls A made on `c`;
    * once B's application listens for the subchannel's name the callbacks are that image exactly,
      and when everything A issued has been dispatched (`queued_while_down_delivered`,
      `final_generation_delivers_all`) they are the image of everything A did on `c`. -/
theorem end_to_end (evs : List Event) (w : World) (h : run World.init evs = .ok w)
    (hwf : wfCalls [] [] (issued .A evs) = true) :
    w.b.l4.fault = false ∧
    w.b.dispatched.map (·.body) <+: issued .A evs ∧
    ∀ c s, findSub c w.b.l4.subs = some s →
      subTotal s = callbacks c (w.b.dispatched.map (·.body)) ∧
      s.shown <+: callbacks c (issued .A evs) ∧
      (s.name ∈ w.b.l4.factories → s.shown = callbacks c (w.b.dispatched.map (·.body))) ∧
      (s.name ∈ w.b.l4.factories → w.b.dispatched.map (·.body) = issued .A evs →
        s.shown = callbacks c (issued .A evs)) := by
  have hpre := (exactly_once_in_order evs w h).1.1
  obtain ⟨_, Hb⟩ := run_hist evs hist_init hist_init h
  obtain ⟨e1, e2⟩ := e2e_direction w.b (issued .A evs) Hb hpre hwf
  refine ⟨e1, hpre, ?_⟩
  intro c s hs
  obtain ⟨f1, f2, f3⟩ := e2 c s hs
  exact ⟨f1, f2, f3, fun hn hall => by rw [f3 hn, hall]⟩

/-- the same for direction B → A: the two directions are independent instances -/
theorem end_to_end_rev (evs : List Event) (w : World) (h : run World.init evs = .ok w)
    (hwf : wfCalls [] [] (issued .B evs) = true) :
    w.a.l4.fault = false ∧
    w.a.dispatched.map (·.body) <+: issued .B evs ∧
    ∀ c s, findSub c w.a.l4.subs = some s →
      subTotal s = callbacks c (w.a.dispatched.map (·.body)) ∧
      s.shown <+: callbacks c (issued .B evs) ∧
      (s.name ∈ w.a.l4.factories → s.shown = callbacks c (w.a.dispatched.map (·.body))) ∧
      (s.name ∈ w.a.l4.factories → w.a.dispatched.map (·.body) = issued .B evs →
        s.shown = callbacks c (issued .B evs)) := by
  have hpre := (exactly_once_in_order evs w h).2.1
  obtain ⟨Ha, _⟩ := run_hist evs hist_init hist_init h
  obtain ⟨e1, e2⟩ := e2e_direction w.a (issued .B evs) Ha hpre hwf
  refine ⟨e1, hpre, ?_⟩
  intro c s hs
  obtain ⟨f1, f2, f3⟩ := e2 c s hs
  exact ⟨f1, f2, f3, fun hn hall => by rw [f3 hn, hall]⟩

/-- …and every call is eventually a callback: from ANY reachable state of a schedule with a well-behaved
    A, after the final stable generation of `final_generation_delivers_all` every subchannel on B whose
    name is listened for has been shown exactly the image of everything A did on it. -/
theorem end_to_end_complete (evs : List Event) (w : World) (h : run World.init evs = .ok w)
    (hwf : wfCalls [] [] (issued .A evs) = true) :
    ∃ fin w2, run w fin = .ok w2 ∧ issued .A fin = [] ∧ w2.b.l4.fault = false ∧
      ∀ c s, findSub c w2.b.l4.subs = some s → s.name ∈ w2.b.l4.factories →
        s.shown = callbacks c (issued .A evs) := by
  obtain ⟨w0, w1, w2, s0, s1, r2, hall⟩ := final_generation_delivers_all evs w h
  let fin : List Event := [(Who.B, if w.b.conn then Act.resume 0 else Act.use 0),
    (Who.A, if w0.a.conn then Act.resume 0 else Act.use 0)] ++ List.replicate w1.a.out.length (Who.B, Act.deliver)
  have hrun : run w fin = .ok w2 := by
    show run w ([_, _] ++ _) = _
    simp only [List.cons_append, List.nil_append, run, s0, s1]
    exact r2
  have issued_app : ∀ (es fs : List Event), issued .A (es ++ fs) = issued .A es ++ issued .A fs := by
    intro es fs
    induction es with
    | nil => rfl
    | cons e es ih => rw [List.cons_append, issued_cons, issued_cons .A e es, ih, List.append_assoc]
  have hiss : issued .A fin = [] := by
    have i3 : ∀ n, issued .A (List.replicate n ((Who.B, Act.deliver) : Event)) = [] := by
      intro n; induction n with
      | zero => rfl
      | succ n ih => simpa [List.replicate_succ, issued] using ih
    have i2 : issued .A [((Who.B, if w.b.conn then Act.resume 0 else Act.use 0) : Event),
        (Who.A, if w0.a.conn then Act.resume 0 else Act.use 0)] = [] := by
      cases w.b.conn <;> cases w0.a.conn <;> rfl
    show issued .A ([_, _] ++ _) = []
    rw [issued_app, i2, i3]; rfl
  have hrun' : run World.init (evs ++ fin) = .ok w2 := by
    have : ∀ (es fs : List Event) (u v x : World), run u es = .ok v → run v fs = .ok x → run u (es ++ fs) = .ok x := by
      intro es
      induction es with
      | nil => intro fs u v x h1 h2; simp only [run, Except.ok.injEq] at h1; subst h1; exact h2
      | cons e es ih =>
        intro fs u v x h1 h2
        simp only [List.cons_append, run] at h1 ⊢
        split at h1
        · next u1 hu1 => exact ih fs u1 v x h1 h2
        · cases h1
    exact this evs fin _ w w2 h hrun
  have hissued : issued .A (evs ++ fin) = issued .A evs := by
    rw [issued_app, hiss, List.append_nil]
  obtain ⟨e1, _, e3⟩ := end_to_end (evs ++ fin) w2 hrun' (by rw [hissued]; exact hwf)
  refine ⟨fin, w2, hrun, hiss, e1, ?_⟩
  intro c s hs hn
  have := (e3 c s hs).2.2.2 hn (by rw [hissued]; exact hall)
  rw [hissued] at this; exact this

/-- the full statement on a concrete late-listener run: two subchannels of one name with queued data
    and a queued close, listener registered afterwards -/
def l4Demo : List L4In :=
  [.disp ⟨0, .opn 1 [97]⟩, .disp ⟨1, .opn 3 [97]⟩, .disp ⟨2, .data 1 [1]⟩, .disp ⟨3, .data 3 [2]⟩,
   .disp ⟨4, .data 1 [3]⟩, .disp ⟨5, .close 3⟩, .listen [97], .disp ⟨6, .data 1 [4]⟩]

example : wellFormed [] [] (dispatchedOf l4Demo) = true ∧ (l4Run L4.init l4Demo).fault = false ∧
    ((findSub 1 (l4Run L4.init l4Demo).subs).map (·.shown)) = some (expect 1 (dispatchedOf l4Demo)) ∧
    ((findSub 3 (l4Run L4.init l4Demo).subs).map (·.shown)) = some (expect 3 (dispatchedOf l4Demo)) := by
  decide

/-! ### the hypotheses are met by concrete, non-trivial schedules -/

/-- three records written while down; the replay is paused after one record; a fourth write lands
    behind the unsent tail; the connection dies with one record delivered and its ack lost; the
    next generation replays, is resumed, and drains: conn, not paused, nothing in flight, and all
    four records dispatched once each. -/
def demo : List Event :=
  [(.A, .write (.opn 1 [97])), (.A, .write (.data 1 [1])), (.A, .write (.data 1 [2])),
   (.A, .use 1), (.A, .write (.close 1)), (.B, .use 0), (.B, .deliver), (.A, .lose), (.B, .lose),
   (.A, .use 2), (.B, .deliver), (.B, .deliver), (.A, .resume 0), (.B, .deliver), (.B, .deliver)]

def demoEnd : World := match run World.init demo with | .ok w => w | .error _ => World.init

example : run World.init demo = .ok demoEnd ∧ demoEnd.a.conn = true ∧ demoEnd.a.paused = false ∧
    demoEnd.a.out = [] ∧ demoEnd.b.dispatched.length = 4 ∧ demoEnd.a.queue.length = 4 :=
  ⟨rfl, by decide⟩

/-- `queued_while_down_delivered` applies to it -/
example : demoEnd.b.dispatched.map (·.body) = issued .A demo :=
  queued_while_down_delivered demo demoEnd rfl (by decide) (by decide)
    (by intro r; have : demoEnd.a.out = [] := by decide
        rw [this]; simp)
    (by intro r; have : demoEnd.b.parked = [] := by decide
        rw [this]; simp)

/-- a burst parked behind the KCM: three records written while down reach the follower's new
    connection before its Connector's turn, `use` hands them over oldest first -/
def demoPark : List Event :=
  [(.A, .write (.opn 1 [97])), (.A, .write (.data 1 [1])), (.A, .write (.data 1 [2])), (.A, .use 0),
   (.B, .park), (.B, .park), (.B, .park), (.B, .use 0), (.B, .listen [97])]

def demoParkEnd : World := match run World.init demoPark with | .ok w => w | .error _ => World.init

example : run World.init demoPark = .ok demoParkEnd ∧ demoParkEnd.b.dispatched.length = 3 ∧
    demoParkEnd.b.parked = [] ∧ demoParkEnd.b.high = 2 ∧
    (demoParkEnd.b.l4.subs.map (·.shown)) = [[.made, .data [1], .data [2]]] :=
  ⟨rfl, by decide⟩

/-- `end_to_end` on a concrete run: two subchannels opened and written while down, a burst of three
    parked behind the KCM, a loss with every ack lost, more calls while down, a full replay with the
    duplicates dropped, and the listener registered only at the very end -/
def demoE2E : List Event :=
  [(.A, .write (.opn 1 [97])), (.A, .write (.opn 3 [97])), (.A, .write (.data 1 [1])), (.A, .write (.data 3 [2])),
   (.A, .use 0), (.B, .park), (.B, .park), (.B, .park), (.B, .use 0), (.B, .deliver),
   (.A, .lose), (.B, .lose), (.A, .write (.data 1 [3])), (.A, .write (.close 3)), (.A, .use 0), (.B, .use 0)] ++
  List.replicate 6 (.B, .deliver) ++ [(.B, .listen [97])]

def demoE2EEnd : World := match run World.init demoE2E with | .ok w => w | .error _ => World.init

example : run World.init demoE2E = .ok demoE2EEnd ∧ wfCalls [] [] (issued .A demoE2E) = true ∧
    demoE2EEnd.b.l4.fault = false ∧
    demoE2EEnd.b.l4.subs.map (fun s => (s.scid, s.shown)) =
      [(1, callbacks 1 (issued .A demoE2E)), (3, callbacks 3 (issued .A demoE2E))] ∧
    callbacks 1 (issued .A demoE2E) = [.made, .data [1], .data [3]] ∧
    callbacks 3 (issued .A demoE2E) = [.made, .data [2], .rclosed] :=
  ⟨rfl, by decide⟩

/-- a reachable state in the middle of a paused replay: `_queued_unsent` non-empty, the receiver
    already has record 0, whose duplicate is the next thing in flight -/
def demoMid : World := match run World.init (demo.take 10) with | .ok w => w | .error _ => World.init

example : run World.init (demo.take 10) = .ok demoMid ∧ demoMid.a.unsent ≠ [] ∧ demoMid.a.paused = true ∧
    demoMid.b.high = 0 ∧ demoMid.a.out.length = 2 ∧ enabled demoMid (.B, .deliver) = true :=
  ⟨rfl, by decide⟩

end WV.Props.C10
