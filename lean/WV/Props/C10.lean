import WV.Proofs.C10

/-!
C10 property theorems.  `run World.init evs = .ok w` quantifies over EVERY schedule `evs` of
application writes (open/data/close, both sides), `use_connection`s, connection losses (whatever is
in flight when the writer moves to its next connection is lost: any suffix, data and acks alike),
transport pauses (also in the middle of the replay loop) and resumes, and single deliveries of
records and acks; the executable model `WV.C10` is the one the driver runs against the real code.
There is no bound on the length of the schedule, the number of generations or the data.
-/
namespace WV.Props.C10
open WV WV.C10 WV.Proofs.C10

/-- The ARQ invariant (`Proofs.C10.DirInv`, one instance per direction) holds in every reachable
    state: `built` is numbered 0,1,2…; the receiver has dispatched exactly `built[0..high]`;
    `_outbound_queue` — and, while connected, (in flight) ++ `_queued_unsent` — contains, gap-free
    from the receiver's watermark up to the newest record, everything the receiver still lacks;
    nothing waits in `_queued_unsent` while disconnected or while connected and unpaused; every ack
    in flight is at or below the receiver's watermark. -/
theorem inv_reachable (evs : List Event) (w : World) (h : run World.init evs = .ok w) : WInv w :=
  run_inv evs wInv_init h

/-- For every schedule, what the receiver has dispatched is a prefix of what the sender's
    application issued, in the order issued, bodies (scid, payload, write boundaries) intact, each
    record once: the dispatched seqnums are 0,1,2,… without duplicate or gap.  Both directions. -/
theorem exactly_once_in_order (evs : List Event) (w : World) (h : run World.init evs = .ok w) :
    (w.b.dispatched.map (·.body) <+: issued .A evs ∧
      w.b.dispatched.map (·.seqnum) = List.range w.b.dispatched.length) ∧
    (w.a.dispatched.map (·.body) <+: issued .B evs ∧
      w.a.dispatched.map (·.seqnum) = List.range w.a.dispatched.length) := by
  have H := inv_reachable evs w h
  obtain ⟨ba, bb⟩ := run_built evs h
  simp only [World.init, Side.init, List.map_nil, List.nil_append] at ba bb
  have key : ∀ (s r : Side) (I : List Body), DirInv s r → s.built.map (·.body) = I →
      r.dispatched.map (·.body) <+: I ∧ r.dispatched.map (·.seqnum) = List.range r.dispatched.length := by
    intro s r I D hI
    refine ⟨?_, ?_⟩
    · rw [D.disp, ← hI, List.map_take]; exact List.take_prefix _ _
    · apply List.ext_getElem
      · simp
      · intro i h1 h2
        simp only [List.getElem_map, List.getElem_range]
        apply D.bseq
        have h3 : i < r.dispatched.length := by simpa using h1
        have : r.dispatched[i]? = some r.dispatched[i] := List.getElem?_eq_getElem h3
        rw [← this, D.disp, List.getElem?_take]
        rw [D.disp, List.length_take] at h3
        simp only [show i < (r.high + 1).toNat by omega, ↓reduceIte]
  exact ⟨key _ _ _ H.1 ba, key _ _ _ H.2 bb⟩

/-- Whenever the sender is connected, not paused and nothing it sent is still in flight — i.e. the
    generation stayed up until its channel drained — the receiver has dispatched everything the
    application ever issued (so nothing written while down, or behind a paused replay, is stuck in
    `_queued_unsent`).  Direction A → B. -/
theorem queued_while_down_delivered (evs : List Event) (w : World) (h : run World.init evs = .ok w)
    (hc : w.a.conn = true) (hp : w.a.paused = false) (hd : ∀ r, Wire.msg r ∉ w.a.out) :
    w.b.dispatched.map (·.body) = issued .A evs := by
  have H := inv_reachable evs w h
  have ba := (run_built evs h).1
  simp only [World.init, Side.init, List.map_nil, List.nil_append] at ba
  rw [drained_all H.1 hc hp (dataOf_eq_nil hd), ba]

/-- the same for direction B → A: the two directions are independent instances -/
theorem queued_while_down_delivered_rev (evs : List Event) (w : World) (h : run World.init evs = .ok w)
    (hc : w.b.conn = true) (hp : w.b.paused = false) (hd : ∀ r, Wire.msg r ∉ w.b.out) :
    w.a.dispatched.map (·.body) = issued .B evs := by
  have H := inv_reachable evs w h
  have bb := (run_built evs h).2
  simp only [World.init, Side.init, List.map_nil, List.nil_append] at bb
  rw [drained_all H.2 hc hp (dataOf_eq_nil hd), bb]

/-- …and such a generation always exists: from ANY reachable state, if the sender settles on a
    connection whose transport does not pause (connects if it is down, is resumed if it is up) and
    what it has in flight is delivered, the receiver ends up with exactly the issued sequence. -/
theorem final_generation_delivers_all (evs : List Event) (w : World) (h : run World.init evs = .ok w) :
    ∃ w1 w2, step w (.A, if w.a.conn then .resume 0 else .use 0) = .ok w1 ∧
      run w1 (List.replicate w1.a.out.length (.B, .deliver)) = .ok w2 ∧
      w2.b.dispatched.map (·.body) = issued .A evs := by
  have H := inv_reachable evs w h
  obtain ⟨w1, s1, c1, p1⟩ := settle H
  have H1 := step_inv H s1
  obtain ⟨w2, r2, o2, c2, p2⟩ := deliverB_run w1.a.out.length w1 rfl
  have H2 := run_inv _ H1 r2
  refine ⟨w1, w2, s1, r2, ?_⟩
  rw [drained_all H2.1 (by rw [c2, c1]) (by rw [p2, p1]) (by rw [o2]; rfl)]
  have b0 := (run_built evs h).1
  have b1 := (step_built s1).1
  have b2 := (run_built _ r2).1
  have e1 : issued .A [((Who.A, if w.a.conn then Act.resume 0 else Act.use 0) : Event)] = [] := by
    cases w.a.conn <;> rfl
  have e2 : ∀ n, issued .A (List.replicate n ((Who.B, Act.deliver) : Event)) = [] := by
    intro n; induction n with
    | zero => rfl
    | succ n ih => simpa [List.replicate_succ, issued] using ih
  simp only [World.init, Side.init, List.map_nil, List.nil_append] at b0
  rw [b2, b1, b0, e1, e2]; simp

/-- No internal failure: from a reachable state every event the environment can produce is
    accepted — in particular `assert not self._queued_unsent` in `use_connection` never fires. -/
theorem never_fails (evs : List Event) (w : World) (h : run World.init evs = .ok w) (e : Event)
    (he : enabled w e = true) : ∃ w', step w e = .ok w' :=
  enabled_ok (inv_reachable evs w h) he

/-- The order of calls written in the model is the order found in the source by the translator. -/
theorem skeleton_agrees :
    Gen.Skel.skeleton "Manager.got_record" = skel_got_record ∧
    Gen.Skel.skeleton "Manager._queue_and_send" = skel_queue_and_send ∧
    Gen.Skel.skeleton "Manager.send_ack" = skel_send_ack ∧
    Gen.Skel.skeleton "Manager.connector_connection_made" = skel_connection_made ∧
    Gen.Skel.skeleton "Manager._stop_using_connection" = skel_stop_using ∧
    Gen.Skel.skeleton "Outbound.queue_and_send_record" = skel_queue_and_send_record ∧
    Gen.Skel.skeleton "Outbound.send_if_connected" = skel_send_if_connected ∧
    Gen.Skel.skeleton "Outbound.use_connection" = skel_use_connection ∧
    Gen.Skel.skeleton "Outbound.stop_using_connection" = skel_stop_using_connection ∧
    Gen.Skel.skeleton "Outbound.resumeProducing" = skel_resumeProducing := by
  decide +kernel

/-! ### the hypotheses are met by concrete, non-trivial schedules -/

/-- three records written while down; the replay is paused after one record; a fourth write lands
    behind the unsent tail; the connection dies with one record delivered and its ack lost; the
    next generation replays, is resumed, and drains: conn, not paused, nothing in flight, and all
    four records dispatched once each. -/
def demo : List Event :=
  [(.A, .write (.opn 1 [97])), (.A, .write (.data 1 [1])), (.A, .write (.data 1 [2])),
   (.A, .use 1), (.A, .write (.close 1)), (.B, .use 0), (.B, .deliver), (.A, .lose), (.B, .lose),
   (.A, .use 2), (.B, .deliver), (.B, .deliver), (.A, .resume 0), (.B, .deliver), (.B, .deliver)]

def demoEnd : World := match run World.init demo with | .ok w => w | .error _ => World.init

example : run World.init demo = .ok demoEnd ∧ demoEnd.a.conn = true ∧ demoEnd.a.paused = false ∧
    demoEnd.a.out = [] ∧ demoEnd.b.dispatched.length = 4 ∧ demoEnd.a.queue.length = 4 :=
  ⟨rfl, by decide⟩

/-- `queued_while_down_delivered` applies to it -/
example : demoEnd.b.dispatched.map (·.body) = issued .A demo :=
  queued_while_down_delivered demo demoEnd rfl (by decide) (by decide)
    (by intro r; have : demoEnd.a.out = [] := by decide
        rw [this]; simp)

/-- a reachable state in the middle of a paused replay: `_queued_unsent` non-empty, the receiver
    already has record 0, whose duplicate is the next thing in flight -/
def demoMid : World := match run World.init (demo.take 10) with | .ok w => w | .error _ => World.init

example : run World.init (demo.take 10) = .ok demoMid ∧ demoMid.a.unsent ≠ [] ∧ demoMid.a.paused = true ∧
    demoMid.b.high = 0 ∧ demoMid.a.out.length = 2 ∧ enabled demoMid (.B, .deliver) = true :=
  ⟨rfl, by decide⟩

end WV.Props.C10
