import WV.Proofs.PyIRTr

set_option linter.unusedSimpArgs false

/-!
Translation validation of method BODIES, transit record layer (C06): for the `Connection` methods that the C06 model
gives semantics to, the PyIR interpreter run on the body that `tools/extract.py::extract_pyir_tr` generated from the
working tree (`WV.Gen.PyIRTr`) agrees with the model — final state (through `RelConn`), ordered collaborator calls with
their arguments (through `absTCall`), exception class.
-/
namespace WV.Props.PyIRTrC06
open WV WV.PyIR WV.Gen.PyIRTr WV.Proofs.PyIRC03 WV.Proofs.PyIRDil WV.Proofs.PyIRTr

/-! ## pins -/

/-- what the translator could not express is exactly this list; a rewrite that leaves the subset breaks the theorem -/
theorem all_translated : WV.Gen.PyIRTr.untranslatable.map (·.1) = ["Connection.registerProducer"] := by decide

theorem translated_pin : WV.Gen.PyIRTr.translated =
    ["Connection._cancel", "Connection._check_and_remove", "Connection._dataReceived", "Connection._decrypt_record",
     "Connection._deliverRecords", "Connection._negotiationSuccessful", "Connection._writeToConsumer", "Connection.close",
     "Connection.connectConsumer", "Connection.connectionLost", "Connection.connectionMade", "Connection.dataReceived",
     "Connection.dataReceivedRECORDS", "Connection.describe", "Connection.disconnectConsumer", "Connection.pauseProducing",
     "Connection.receive_record", "Connection.recordReceived", "Connection.resumeProducing", "Connection.send_record",
     "Connection.startNegotiation", "Connection.stopProducing", "Connection.timeoutConnection",
     "Connection.unregisterProducer", "Connection.write", "Connection.writeToFile"] := by decide

/-! ## `send_record` -/

/-- `send_record(record)` = `C06.sendRecord`: both asserts before any change; the nonce is the counter BEFORE the
    increment, 24 bytes big-endian; the box is sealed under the sender record key with (record, nonce); the 4-byte length
    of nonce‖box, then nonce‖box, are written in this order; `binascii.Error` (after the increment) when the length does
    not fit.  `hlen` is `IdealFor.len_enc` (a box is 16 bytes longer than its plaintext). -/
theorem send_record_agrees (fuel : Nat) (E : C06.Env) (h : Store) (c : C06.Conn) (R : RelConn E h c) (record : Bytes)
    (hlen : ∀ k n m, (E.box.enc k n m).length = m.length + Gen.C06.MACBYTES) :
    let o := exec (fuel + 1) (envT E) tbl_Connection "send_record" [.bytes record] h
    RelConn E o.heap (C06.sendRecord E c record).1 ∧
    o.calls.map absTCall = ((C06.sendRecord E c record).1.app.log.drop c.app.log.length).map some ∧
    o.exc = (C06.sendRecord E c record).2.map C06.Err.name := by
  obtain ⟨hb, hsn, hrn, hsb, hrb, htr, hin, hw, hc⟩ := R
  intro o
  simp only [o]
  by_cases h1 : c.sendNonce < 256 ^ 24
  · have h1' := h1
    rw [pow_256_24] at h1'
    by_cases h2 : record.length < 256 ^ 4
    · have h2' := h2
      rw [pow_256_4] at h2'
      have hl : (C06.beFixed 24 c.sendNonce ++ E.box.enc (C06.senderRecordKey E c.isSender) (C06.beFixed 24 c.sendNonce) record).length
          = record.length + 40 := by
        simp [C06.beFixed_length, hlen, Gen.C06.MACBYTES]; omega
      by_cases h3 : record.length + 40 < 256 ^ 4
      · have h3' := h3
        rw [pow_256_4] at h3'
        tr_eval [m_Connection_send_record, hsn, hsb, htr, C06.sendRecord, h1, h2, h1', h2', C06.Err.name, hl, h3, h3',
          C06.beFixed_length, hlen, Gen.C06.MACBYTES, C06.App.emit, absTCall]
        rel_conn
      · have h3' := h3
        rw [pow_256_4] at h3'
        have h4 : record.length + 40 < 68719476736 := by omega
        tr_eval [m_Connection_send_record, hsn, hsb, htr, C06.sendRecord, h1, h2, h1', h2', C06.Err.name, hl, h3, h3', h4,
          C06.beFixed_length, hlen, Gen.C06.MACBYTES, C06.App.emit, absTCall]
        rel_conn
    · have h2' := h2
      rw [pow_256_4] at h2'
      tr_eval [m_Connection_send_record, hsn, C06.sendRecord, h1, h2, h1', h2', C06.Err.name]
      exact ⟨hb, hsn, hrn, hsb, hrb, htr, hin, hw, hc⟩
  · have h1' := h1
    rw [pow_256_24] at h1'
    tr_eval [m_Connection_send_record, hsn, C06.sendRecord, h1, h1', C06.Err.name]
    exact ⟨hb, hsn, hrn, hsb, hrb, htr, hin, hw, hc⟩

/-- anything that is not `bytes` is refused before anything happens -/
theorem send_record_refuses_str (fuel : Nat) (E : C06.Env) (h : Store) (s : String) :
    let o := exec (fuel + 1) (envT E) tbl_Connection "send_record" [.str s] h
    o.heap = h ∧ o.calls = [] ∧ o.exc = some "InternalError" := by
  tr_eval [m_Connection_send_record]

/-! ## `_decrypt_record` -/

/-- `_decrypt_record(encrypted)` = `C06.decryptRecord`: the first 24 bytes are the nonce (ValueError when there are none),
    it must EQUAL the receive counter (BadNonce, nothing changed), the counter is advanced BEFORE the box is opened, the
    box is opened under the receiver record key; PyNaCl's wrapper decides the exception class. -/
theorem decrypt_record_agrees (fuel : Nat) (E : C06.Env) (h : Store) (c : C06.Conn) (R : RelConn E h c) (enc : Bytes) :
    let o := exec (fuel + 1) (envT E) tbl_Connection "_decrypt_record" [.bytes enc] h
    RelConn E o.heap (C06.decryptRecord E c enc).1 ∧ o.calls = [] ∧
    (match (C06.decryptRecord E c enc).2 with
     | .ok r => o.exc = none ∧ o.ret = .bytes r
     | .error e => o.exc = some e.name) := by
  obtain ⟨hb, hsn, hrn, hsb, hrb, htr, hin, hw, hc⟩ := R
  intro o
  simp only [o]
  by_cases h1 : (enc.take 24).isEmpty = true
  · tr_eval [m_Connection__decrypt_record, C06.decryptRecord, Gen.C06.NONCE_SIZE, h1, C06.Err.name]
    exact ⟨hb, hsn, hrn, hsb, hrb, htr, hin, hw, hc⟩
  · by_cases h2 : C06.beDecode (enc.take 24) = c.nextReceiveNonce
    · cases h3 : C06.secretBoxDecrypt E.box (C06.receiverRecordKey E c.isSender) enc with
      | ok p =>
        tr_eval [m_Connection__decrypt_record, C06.decryptRecord, Gen.C06.NONCE_SIZE, h1, h2, h3, hrn, hrb, C06.Err.name]
        rel_conn
      | error e =>
        tr_eval [m_Connection__decrypt_record, C06.decryptRecord, Gen.C06.NONCE_SIZE, h1, h2, h3, hrn, hrb, C06.Err.name]
        rel_conn
    · tr_eval [m_Connection__decrypt_record, C06.decryptRecord, Gen.C06.NONCE_SIZE, h1, h2, hrn, C06.Err.name]
      exact ⟨hb, hsn, hrn, hsb, hrb, htr, hin, hw, hc⟩

/-! ## the inbound record loop -/

/-- `dataReceivedRECORDS()` = `C06.dataReceivedRECORDS` for EVERY buffer — any number of complete frames followed by an
    incomplete one — with no consumer attached and no read waiting (every accepted record is queued in
    `_inbound_records`): the loop takes the 4-byte big-endian length, waits when the frame is incomplete, cuts exactly
    `buf[4:4+length]`, checks the nonce against the counter (`_decrypt_record`), advances it, opens the box and queues
    the plaintext, frame after frame; the first bad nonce / unopenable box ends the loop with that exception, the buffer
    already cut and the earlier records kept.  Induction over the fuel of the model's loop (`records_loop`); fuel
    sufficiency is part of the statement: `len(buf) + 3` suffices (model side: `C06.fuel_mono`). -/
theorem dataReceivedRECORDS_agrees (fuel : Nat) (E : C06.Env) (h : Store) (c : C06.Conn) (R : RelConn E h c)
    (hcn : c.app.consumer = none) (hwn : c.app.waiting = []) (hf : c.buf.length + 3 ≤ fuel) :
    let o := exec fuel (envT E) tbl_Connection "dataReceivedRECORDS" [] h
    let m := C06.dataReceivedRECORDS E (c.buf.length + 1) c
    RelConn E o.heap m.1 ∧ o.calls = [] ∧ o.exc = m.2.map C06.Err.name := by
  obtain ⟨g, rfl⟩ : ∃ g, fuel = g + 3 := ⟨fuel - 3, by omega⟩
  intro o m
  have key := records_loop E 0 g (envT E) rfl (g + 3) ⟨h, [], []⟩ c R hcn hwn (by show c.buf.length < g + 3; omega)
  rw [C06.fuel_mono E (g + 3) (c.buf.length + 1) c (by omega) (by omega)] at key
  obtain ⟨k1, k2, k3, _, _, _⟩ := key
  simp only [o, m]
  rw [exec, callM]
  simp only [tbl_Connection, dataReceivedRECORDS_shape, execB, execS, andThen, bindParams,
    List.length_nil, List.zip_nil_right, List.foldl_nil, if_true]
  generalize hw : whileLoop _ _ _ _ = w at k1 k2 k3
  obtain ⟨σ', fl⟩ := w
  simp only at k1 k2 k3
  subst k1
  cases hm2 : (C06.dataReceivedRECORDS E (c.buf.length + 1) c).2 with
  | none => simp at k2 k3 ⊢; exact ⟨k2, k3⟩
  | some e => simp at k2 k3 ⊢; exact ⟨k2, k3⟩

/-! ## consumer mode (passive consumer callback), `close`, `connectionLost` -/

/-- `_writeToConsumer(record)` = `C06.writeToConsumer`: `consumer.write(record)`, the byte counter, and AT the threshold
    (`written >= expected`, only when `expected` was given) `unregisterProducer()`, the three attributes cleared, and the
    Deferred — taken BEFORE `disconnectConsumer()` — fired with the byte count -/
theorem writeToConsumer_agrees (fuel : Nat) (E : C06.Env) (h : Store) (c : C06.Conn) (R : RelConn E h c)
    (k : C06.Consumer) (hk : c.app.consumer = some k) (hcb : k.cb = none) (hfc : c.app.fcConsumer = false) (r : Bytes) :
    let o := exec (fuel + 2) (envT E) tbl_Connection "_writeToConsumer" [.bytes r] h
    RelConn E o.heap { c with app := (C06.writeToConsumer c.app k r false).1 } ∧
      (C06.writeToConsumer c.app k r false).2 = [] ∧ o.calls = wtcCalls k r ∧ o.exc = none := by
  have key := callM_writeToConsumer fuel E h c R k hk hcb hfc r []
  simp only at key
  intro o
  simp only [o, exec]
  generalize callM _ _ _ _ _ _ _ = w at key
  obtain ⟨h1, cs1, res⟩ := w
  obtain ⟨k1, k2, k3, k4⟩ := key
  simp only at k1 k3 k4
  subst k3 k4
  exact ⟨k1, k2, by simp, rfl⟩

/-- `recordReceived(record)` with a consumer attached = `C06.recordReceived`: the record goes to the consumer, never to the queue -/
theorem recordReceived_consumer_agrees (fuel : Nat) (E : C06.Env) (h : Store) (c : C06.Conn) (R : RelConn E h c)
    (k : C06.Consumer) (hk : c.app.consumer = some k) (hcb : k.cb = none) (hfc : c.app.fcConsumer = false) (r : Bytes) :
    let o := exec (fuel + 3) (envT E) tbl_Connection "recordReceived" [.bytes r] h
    RelConn E o.heap { c with app := C06.recordReceived c.app r } ∧ o.calls = wtcCalls k r ∧ o.exc = none := by
  have key := callM_writeToConsumer fuel E h c R k hk hcb hfc r []
  simp only at key
  have hc1 : h.get "_consumer" = some (.ref "Consumer" k.cid) := by
    have := R.cons; rw [hk] at this; exact this.1
  intro o
  simp only [o, exec]
  rw [callM]
  tr_eval_nc [tbl_Connection, m_Connection_recordReceived, hc1]
  generalize callM _ _ _ _ _ _ _ = w at key
  obtain ⟨h1, cs1, res⟩ := w
  obtain ⟨k1, k2, k3, k4⟩ := key
  simp only at k1 k3 k4
  subst k3 k4
  have hm : C06.recordReceived c.app r = (C06.writeToConsumer c.app k r false).1 := by
    simp only [C06.recordReceived, hk]
    generalize C06.writeToConsumer c.app k r false = p at k2 ⊢
    obtain ⟨a1, fs⟩ := p
    simp only at k2
    subst k2
    exact C06.settle_nil a1
  rw [hm]
  simp
  exact k1

/-- `close()` = `C06.close`: `transport.loseConnection()` first, then every waiting read is failed with
    `ConnectionClosed`, oldest first, for every number of waiting reads; queue and consumer untouched -/
theorem close_agrees (fuel : Nat) (E : C06.Env) (h : Store) (c : C06.Conn) (R : RelConn E h c)
    (hf : c.app.waiting.length + 2 ≤ fuel) :
    let o := exec fuel (envT E) tbl_Connection "close" [] h
    RelConn E o.heap { c with app := C06.close c.app } ∧
    o.calls = ⟨"transport", "loseConnection", []⟩ :: c.app.waiting.map errCall ∧ o.exc = none := by
  obtain ⟨g, rfl⟩ : ∃ g, fuel = g + 2 := ⟨fuel - 2, by omega⟩
  obtain ⟨hb, hsn, hrn, hsb, hrb, htr, hin, hw, hc⟩ := R
  intro o
  simp only [o, exec]
  rw [callM]
  simp only [tbl_Connection, close_shape, List.length_nil, if_true, bindParams, List.zip_nil_right, List.foldl_nil]
  simp only [execB, execS]
  tr_eval_nc [htr]
  have L := errback_loop (envT E) rfl rfl (callM (envT E) tbl_Connection (g + 1)) (g + 2) c.app.waiting (g + 2) h []
    [⟨"transport", "loseConnection", []⟩] hw (by omega)
  simp only at L
  generalize whileLoop _ _ _ _ = w at L ⊢
  obtain ⟨⟨h1, l1, cs1⟩, fl⟩ := w
  obtain ⟨e1, e2, e3, e4⟩ := L
  simp only at e1 e2 e3 e4
  subst e1 e2
  obtain ⟨f1, f2, f3⟩ := foldl_failRead_fields c.app.waiting ({ c.app with waiting := [] }.emit [.lose])
  simp
  refine ⟨?_, ?_, ?_, ?_, ?_, ?_, ?_, ?_, ?_⟩
  · rw [e4 _ (by decide)]; exact hb
  · rw [e4 _ (by decide)]; exact hsn
  · rw [e4 _ (by decide)]; exact hrn
  · rw [e4 _ (by decide)]; exact hsb
  · rw [e4 _ (by decide)]; exact hrb
  · rw [e4 _ (by decide)]; exact htr
  · rw [e4 _ (by decide)]; simp only [C06.close]; rw [f1]; exact hin
  · rw [e3]; simp only [C06.close]; rw [f2]; rfl
  · simp only [C06.close]; rw [f3]
    show RelCons h1 c.app.consumer
    cases hcc : c.app.consumer with
    | none => rw [hcc] at hc; exact ⟨by rw [e4 _ (by decide)]; exact hc.1, by rw [e4 _ (by decide)]; exact hc.2⟩
    | some k =>
      rw [hcc] at hc
      exact ⟨by rw [e4 _ (by decide)]; exact hc.1, by rw [e4 _ (by decide)]; exact hc.2.1,
        by rw [e4 _ (by decide)]; exact hc.2.2.1, by rw [e4 _ (by decide)]; exact hc.2.2.2⟩

/-- `connectionLost(reason)` after negotiation (`_negotiation_d` is `None`) = `C06.connectionLost`: `setTimeout(None)`,
    every waiting read failed (oldest first, any number), nothing sent to the negotiation Deferred, the consumer's
    Deferred — present iff `expected` was given — errbacked with `ConnectionClosed`; `reason` is never looked at -/
theorem connectionLost_agrees (fuel : Nat) (E : C06.Env) (h : Store) (c : C06.Conn) (R : RelConn E h c) (reason : Val)
    (hnd : h.get "_negotiation_d" = some .none) (hf : c.app.waiting.length + 2 ≤ fuel) :
    let o := exec fuel (envT E) tbl_Connection "connectionLost" [reason] h
    RelConn E o.heap { c with app := C06.connectionLost c.app } ∧
    o.calls = ⟨"self", "setTimeout", [.none]⟩ :: c.app.waiting.map errCall ++
      (match c.app.consumer with
       | some ⟨_, _, some _, _⟩ => [⟨"_consumer_deferred", "errback", [.obj "ConnectionClosed" []]⟩]
       | _ => []) ∧
    o.exc = none := by
  obtain ⟨g, rfl⟩ : ∃ g, fuel = g + 2 := ⟨fuel - 2, by omega⟩
  obtain ⟨hb, hsn, hrn, hsb, hrb, htr, hin, hw, hc⟩ := R
  intro o
  simp only [o, exec]
  rw [callM]
  simp only [tbl_Connection, connectionLost_shape, List.length_cons, List.length_nil, if_true]
  simp only [execB, execS]
  tr_eval_nc []
  have L := errback_loop (envT E) rfl rfl (callM (envT E) tbl_Connection (g + 1)) (g + 2) c.app.waiting (g + 2) h
    [("reason", reason)] [⟨"self", "setTimeout", [.none]⟩] hw (by omega)
  simp only at L
  generalize whileLoop _ _ _ _ = w at L ⊢
  obtain ⟨⟨h1, l1, cs1⟩, fl⟩ := w
  obtain ⟨e1, e2, e3, e4⟩ := L
  simp only at e1 e2 e3 e4
  subst e1 e2
  have hnd1 : h1.get "_negotiation_d" = some .none := by rw [e4 _ (by decide)]; exact hnd
  obtain ⟨f1, f2, f3⟩ := foldl_failRead_fields c.app.waiting { c.app with waiting := [] }
  have hmI : (C06.connectionLost c.app).inbound = c.app.inbound := by
    simp only [C06.connectionLost]; split <;> simp [C06.App.emit, f1]
  have hmW : (C06.connectionLost c.app).waiting = [] := by
    simp only [C06.connectionLost]; split <;> simp [C06.App.emit, f2]
  have hmC : (C06.connectionLost c.app).consumer = c.app.consumer := by
    simp only [C06.connectionLost]; split <;> simp [C06.App.emit, f3]
  have fin : ∀ h2 : Store, (∀ a, "_waiting_reads" ≠ a → "_negotiation_d" ≠ a → h2.get a = h1.get a) →
      h2.get "_waiting_reads" = some (.list []) →
      RelConn E h2 { c with app := C06.connectionLost c.app } := by
    intro h2 q qw
    have q' : ∀ a, "_waiting_reads" ≠ a → "_negotiation_d" ≠ a → h2.get a = h.get a :=
      fun a a1 a2 => by rw [q a a1 a2, e4 a a1]
    refine ⟨?_, ?_, ?_, ?_, ?_, ?_, ?_, ?_, ?_⟩
    · rw [q' _ (by decide) (by decide)]; exact hb
    · rw [q' _ (by decide) (by decide)]; exact hsn
    · rw [q' _ (by decide) (by decide)]; exact hrn
    · rw [q' _ (by decide) (by decide)]; exact hsb
    · rw [q' _ (by decide) (by decide)]; exact hrb
    · rw [q' _ (by decide) (by decide)]; exact htr
    · rw [q' _ (by decide) (by decide)]; show _ = some (Val.list (List.map Val.bytes (C06.connectionLost c.app).inbound)); rw [hmI]; exact hin
    · rw [qw]; show _ = some (Val.list (List.map encReader (C06.connectionLost c.app).waiting)); rw [hmW]; rfl
    · show RelCons h2 (C06.connectionLost c.app).consumer
      rw [hmC]
      cases hcc : c.app.consumer with
      | none => rw [hcc] at hc; exact ⟨by rw [q' _ (by decide) (by decide)]; exact hc.1, by rw [q' _ (by decide) (by decide)]; exact hc.2⟩
      | some k =>
        rw [hcc] at hc
        exact ⟨by rw [q' _ (by decide) (by decide)]; exact hc.1, by rw [q' _ (by decide) (by decide)]; exact hc.2.1,
          by rw [q' _ (by decide) (by decide)]; exact hc.2.2.1, by rw [q' _ (by decide) (by decide)]; exact hc.2.2.2⟩
  cases hcc : c.app.consumer with
  | none =>
    rw [hcc] at hc
    have hcd1 : h1.get "_consumer_deferred" = some .none := by rw [e4 _ (by decide)]; exact hc.2
    tr_eval_nc [lostTail, m_Connection_connectionLost, hnd1, hcd1]
    exact fin _ (fun a a1 a2 => by simp [get_set, a2]) (by simp [get_set, e3])
  | some k =>
    obtain ⟨cid, written, expected, cb⟩ := k
    rw [hcc] at hc
    cases expected with
    | none =>
      have hcd1 : h1.get "_consumer_deferred" = some .none := by rw [e4 _ (by decide)]; exact hc.2.2.2
      tr_eval_nc [lostTail, m_Connection_connectionLost, hnd1, hcd1]
      exact fin _ (fun a a1 a2 => by simp [get_set, a2]) (by simp [get_set, e3])
    | some n =>
      have hcd1 : h1.get "_consumer_deferred" = some (.ref "ConsumerDeferred" cid) := by rw [e4 _ (by decide)]; exact hc.2.2.2
      tr_eval_nc [lostTail, m_Connection_connectionLost, hnd1, hcd1]
      exact fin _ (fun a a1 a2 => by simp [get_set, a2]) (by simp [get_set, e3])

/-- `_deliverRecords()` = the model's `deliver` frame run to completion, for every queue length and every number of
    waiting reads whose callbacks are not attached yet (`cb = none`: the Deferred stores the result): records and
    Deferreds are paired oldest-with-oldest, `d.callback(r)` in that order, until one of the two deques is empty -/
theorem deliverRecords_agrees (fuel : Nat) (E : C06.Env) (h : Store) (c : C06.Conn) (R : RelConn E h c)
    (hcb : ∀ d ∈ c.app.waiting, d.cb = none) (hf : c.app.inbound.length + 2 ≤ fuel) :
    let o := exec fuel (envT E) tbl_Connection "_deliverRecords" [] h
    let m := C06.settle c.app [.deliver]
    RelConn E o.heap { c with app := m } ∧
    o.calls.map absTCall = (m.log.drop c.app.log.length).map some ∧ o.exc = none := by
  obtain ⟨g, rfl⟩ : ∃ g, fuel = g + 2 := ⟨fuel - 2, by omega⟩
  obtain ⟨hb, hsn, hrn, hsb, hrb, htr, hin, hw, hc⟩ := R
  intro o m
  simp only [o, m, exec]
  rw [callM]
  simp only [tbl_Connection, deliver_shape, List.length_nil, if_true, bindParams, List.zip_nil_right, List.foldl_nil]
  simp only [execB, execS, andThen]
  have L := deliver_loop (envT E) rfl rfl (callM (envT E) tbl_Connection (g + 1)) (g + 2) c.app.inbound c.app.waiting
    (g + 2) h [] [] c.app rfl rfl hcb hin hw (by omega)
  simp only at L
  generalize whileLoop _ _ _ _ = w at L ⊢
  obtain ⟨⟨h1, l1, cs1⟩, fl⟩ := w
  obtain ⟨e1, e2, e3, e4, ⟨evs, e5, e5'⟩, e6⟩ := L
  simp only at e1 e2 e3 e4 e5' 
  subst e1
  simp only [e5, List.drop_left, List.map_nil, List.nil_append] at e5' ⊢
  refine ⟨⟨?_, ?_, ?_, ?_, ?_, ?_, e2, e3, ?_⟩, e5', trivial⟩
  · rw [e4 _ (by decide) (by decide)]; exact hb
  · rw [e4 _ (by decide) (by decide)]; exact hsn
  · rw [e4 _ (by decide) (by decide)]; exact hrn
  · rw [e4 _ (by decide) (by decide)]; exact hsb
  · rw [e4 _ (by decide) (by decide)]; exact hrb
  · rw [e4 _ (by decide) (by decide)]; exact htr
  · show RelCons h1 (C06.settle c.app [.deliver]).consumer
    rw [e6]
    cases hcc : c.app.consumer with
    | none => rw [hcc] at hc; exact ⟨by rw [e4 _ (by decide) (by decide)]; exact hc.1, by rw [e4 _ (by decide) (by decide)]; exact hc.2⟩
    | some k =>
      rw [hcc] at hc
      exact ⟨by rw [e4 _ (by decide) (by decide)]; exact hc.1, by rw [e4 _ (by decide) (by decide)]; exact hc.2.1,
        by rw [e4 _ (by decide) (by decide)]; exact hc.2.2.1, by rw [e4 _ (by decide) (by decide)]; exact hc.2.2.2⟩

/-! ## non-vacuity: a concrete heap in the relation, and concrete runs of the generated bodies -/

/-- a toy box (16 bytes of tag appended; opens anything long enough) and a toy HKDF (key ‖ CTXinfo) -/
def toyE : C06.Env :=
  { box := { enc := fun _ _ m => m ++ List.replicate 16 7,
             dec := fun _ _ c => if 16 ≤ c.length then some (c.take (c.length - 16)) else none },
    hkdf := fun key _ info => key ++ info, transitKey := [1, 2, 3] }

def demoConn : C06.Conn :=
  { isSender := true, state := .records, buf := [], sendNonce := 5, nextReceiveNonce := 0, error := none,
    app := { inbound := [[9]], waiting := [], consumer := none, nextId := 0, nextCid := 0, storedReads := [],
             storedDone := [], fcConsumer := false, log := [] } }

/-- frame of nonce `i` around the payload `p` under the toy box -/
def toyFrame (i : Nat) (p : Bytes) : Bytes := C06.frame (C06.blob toyE [] i p)

def demoHeap (buf : Bytes) : Store :=
  [("buf", .bytes buf), ("send_nonce", .int 5), ("next_receive_nonce", .int 0),
   ("send_box", boxVal (C06.senderRecordKey toyE true)), ("receive_box", boxVal (C06.receiverRecordKey toyE true)),
   ("transport", .ref "Transport" 0), ("_inbound_records", .list [.bytes [9]]), ("_waiting_reads", .list []),
   ("_consumer", .none), ("_consumer_deferred", .none)]

example (buf : Bytes) : RelConn toyE (demoHeap buf) { demoConn with buf := buf } := by
  refine ⟨?_, ?_, ?_, ?_, ?_, ?_, ?_, ?_, ?_⟩ <;>
    simp [demoHeap, demoConn, Store.get, RelCons, encReader]

def bytesOf : Option Val → List (List Nat)
  | some (.list vs) => vs.map fun v => match v with | .bytes b => b | _ => [999]
  | _ => [[998]]

def natOf : Option Val → Nat
  | some (.int n) => n
  | some (.bytes b) => b.length
  | _ => 999

/-- two complete frames (nonces 0, 1) and two bytes of a third: both records are queued behind the one that was there,
    the counter is 2, the two bytes stay in the buffer -/
example : let o := exec 100 (envT toyE) tbl_Connection "dataReceivedRECORDS" []
                     (demoHeap (toyFrame 0 [4, 5] ++ toyFrame 1 [] ++ [0, 0]))
    bytesOf (o.heap.get "_inbound_records") = [[9], [4, 5], []] ∧ natOf (o.heap.get "next_receive_nonce") = 2 ∧
      natOf (o.heap.get "buf") = 2 ∧ o.calls.length = 0 ∧ o.exc = none := by decide

/-- a replayed frame (nonce 0 twice): the first record is queued, then `BadNonce`, the replay cut from the buffer -/
example : let o := exec 100 (envT toyE) tbl_Connection "dataReceivedRECORDS" []
                     (demoHeap (toyFrame 0 [4, 5] ++ toyFrame 0 [4, 5]))
    bytesOf (o.heap.get "_inbound_records") = [[9], [4, 5]] ∧ natOf (o.heap.get "next_receive_nonce") = 1 ∧
      natOf (o.heap.get "buf") = 0 ∧ o.exc = some "BadNonce" := by decide

/-- `send_record(b"hi")` with the counter at 5: two writes, the 4-byte length (24 + 2 + 16 = 42) and nonce‖box -/
example : let o := exec 3 (envT toyE) tbl_Connection "send_record" [.bytes [104, 105]] (demoHeap [])
    o.calls.map absTCall = [some (.tx [0, 0, 0, 42]), some (.tx (C06.beFixed 24 5 ++ [104, 105] ++ List.replicate 16 7))] ∧
      natOf (o.heap.get "send_nonce") = 6 ∧ o.exc = none := by decide


/-- consumer mode: 3 of 5 expected bytes written, a 2-byte record arrives: write, unregister, Deferred fired with 5 -/
def demoConsHeap : Store :=
  [("buf", .bytes []), ("send_nonce", .int 5), ("next_receive_nonce", .int 0),
   ("send_box", boxVal (C06.senderRecordKey toyE true)), ("receive_box", boxVal (C06.receiverRecordKey toyE true)),
   ("transport", .ref "Transport" 0), ("_inbound_records", .list []),
   ("_waiting_reads", .list [.ref "Deferred" 3, .ref "Deferred" 4]),
   ("_consumer", .ref "Consumer" 0), ("_consumer_bytes_written", .int 3), ("_consumer_bytes_expected", .int 5),
   ("_consumer_deferred", .ref "ConsumerDeferred" 0), ("_negotiation_d", .none)]

example : let o := exec 5 (envT toyE) tbl_Connection "recordReceived" [.bytes [8, 9]] demoConsHeap
    o.calls.map absTCall = [some (.cwrite [8, 9]), some .unreg, none] ∧
      o.calls.map (·.meth) = ["write", "unregisterProducer", "callback"] ∧
      natOf (o.heap.get "_consumer_bytes_written") = 5 ∧ o.exc = none := by decide

/-- `close()` with two reads waiting: loseConnection, then both failed in order -/
example : let o := exec 5 (envT toyE) tbl_Connection "close" [] demoConsHeap
    o.calls.map (·.meth) = ["loseConnection", "errback", "errback"] ∧
      bytesOf (o.heap.get "_waiting_reads") = [] ∧ o.exc = none := by decide

/-- two queued records, two reads waiting: paired oldest-with-oldest -/
example : let o := exec 6 (envT toyE) tbl_Connection "_deliverRecords" []
                     (demoConsHeap.set "_inbound_records" (.list [.bytes [1], .bytes [2], .bytes [3]]))
    o.calls.map absTCall = [some (.assigned 3 [1]), some (.assigned 4 [2])] ∧
      bytesOf (o.heap.get "_inbound_records") = [[3]] ∧ o.exc = none := by decide

#print axioms all_translated
#print axioms translated_pin
#print axioms send_record_agrees
#print axioms send_record_refuses_str
#print axioms decrypt_record_agrees
#print axioms dataReceivedRECORDS_agrees
#print axioms writeToConsumer_agrees
#print axioms recordReceived_consumer_agrees
#print axioms close_agrees
#print axioms connectionLost_agrees
#print axioms deliverRecords_agrees

end WV.Props.PyIRTrC06
