import WV.Proofs.C11Cert
import WV.Proofs.C11_Buf
import Mathlib.Data.String.Basic
import WV.Gen.Skel

/-!
# C11 — Dilation peers agree on roles, use one connection at a time, re-converge

* `roles_agree`, `roles_equal_raise`: data level, all strings (kernel only).
* `dilate_msgs_in_order`, `dilate_msgs_all_delivered`: the Boss' strict-order buffer, all arrival
  orders, all lengths (kernel only, induction).
* `at_most_one_selected`, `follower_only_confirmed`, `no_undeclared_input_partial`,
  `reconverge_no_trap`: for EVERY state of the two-sided control system `WV.C11` reachable by ANY
  finite interleaving of its events (`Cert.Reach`: dilate()/key/versions timing on both sides,
  FIFO-per-sender mailbox delivery, connection attempts, handshake completion, KCM deliveries,
  selection turns one eventual call at a time, loss of either end of any link at any time —
  except of the LAST candidate of the newest generation, the property's proviso —, timer-style
  disconnects), with at most `K = 2` links existing at the same time, in EVERY network in which at
  least one direction of dialling works (`Sys.ra` / `Sys.rb`: both sides can dial, only A, only B —
  NAT, firewall, `no_listen` on the other side).  They rest on the finite
  certificates of `WV.Proofs.C11Cert` (evaluated by `native_decide`, disclosed) lifted to all runs
  by kernel-checked induction (`Cert.cert_sound`, `Cert.converge_sound`).
* `no_undeclared_input_fails_on_current`: the full statement is FALSE for the current code — a
  concrete run (kernel-checked) drives `Connector.add_candidate` into a `stopped` Connector.
-/
namespace WV.Props.C11
open WV.C11 WV.C11.Cert WV.Gen

/-! ## roles -/

/-- `Manager.choose_role` on the two side strings (Python `str` order = code-point lexicographic) -/
def chooseRole (mine theirs : String) : Except Exn Role :=
  if theirs < mine then .ok .leader else if mine < theirs then .ok .follower else .error .valueError

/-- **roles_agree**: for different sides exactly one is Leader and the two answers are complementary -/
theorem roles_agree (a b : String) (h : a ≠ b) :
    (chooseRole a b = .ok .leader ∧ chooseRole b a = .ok .follower) ∨
    (chooseRole a b = .ok .follower ∧ chooseRole b a = .ok .leader) := by
  unfold chooseRole
  rcases lt_trichotomy a b with hlt | heq | hgt
  · right
    have : ¬ b < a := lt_asymm hlt
    simp [hlt, this]
  · exact absurd heq h
  · left
    have : ¬ a < b := lt_asymm hgt
    simp [hgt, this]

/-- equal sides (a reflected `please`) raise on both -/
theorem roles_equal_raise (a : String) : chooseRole a a = .error .valueError := by
  simp [chooseRole]

/-- the model's `choose_role` output computes exactly `chooseRole` on each side -/
theorem model_role_A (a b : String) (s : Sys) (hc : s.cmp = cmpSides a b) (fuel : Nat) :
    (mgrOutput (fuel + 1) .A false .choose_role s).2 = (match chooseRole a b with | .ok _ => none | .error e => some e) ∧
    ∀ r, chooseRole a b = .ok r → ((mgrOutput (fuel + 1) .A false .choose_role s).1.side .A).role = some r := by
  unfold mgrOutput chooseRole cmpSides at *
  by_cases h1 : b < a
  · simp [hc, h1, Sys.modSide, Sys.side, Sys.setSide]
  · by_cases h2 : a < b
    · simp [hc, h1, h2, Sys.modSide, Sys.side, Sys.setSide]
    · simp [hc, h1, h2]

theorem model_role_B (a b : String) (s : Sys) (hc : s.cmp = cmpSides a b) (fuel : Nat) :
    (mgrOutput (fuel + 1) .B false .choose_role s).2 = (match chooseRole b a with | .ok _ => none | .error e => some e) ∧
    ∀ r, chooseRole b a = .ok r → ((mgrOutput (fuel + 1) .B false .choose_role s).1.side .B).role = some r := by
  unfold mgrOutput chooseRole cmpSides at *
  by_cases h1 : b < a
  · have : ¬ a < b := lt_asymm h1
    simp [hc, h1, this, Ordering.swap, Sys.modSide, Sys.side, Sys.setSide]
  · by_cases h2 : a < b
    · simp [hc, h1, h2, Ordering.swap, Sys.modSide, Sys.side, Sys.setSide]
    · simp [hc, h1, h2, Ordering.swap]

example : chooseRole "b" "a" = .ok .leader ∧ chooseRole "a" "b" = .ok .follower := by decide
example : chooseRole "10" "9" = .ok .follower := by decide      -- lexicographic, not numeric

/-! ## tie: the call skeletons (generated from the source by `ast`) the hand-written semantics mirrors -/

/-- **skeletons_agree**: the ordered outgoing calls of the methods whose bodies `WV.C11` re-states by
    hand (`conOutput`, `connectionMade`, `connectionLost`, `mgrOutput`, `dcpGotKcm`, `Boss.drain`,
    `apply (.dilate _)`) are what they were written against: a dropped, added or re-ordered call in
    the source breaks this obligation. -/
theorem skeletons_agree :
    Skel.skeleton "Connector.select_and_stop_remaining" =
      [("-", "_contenders.clear"), ("-", "self.stop_listeners"), ("-", "self.stop_pending_connectors"),
       ("-", "self.stop_pending_connections"), ("-", "c.select"), ("if", "KCM"), ("if", "c.send_record"),
       ("-", "_manager.connector_connection_made")] ∧
    Skel.skeleton "Connector.consider" = [("if", "_eventual_queue.eventually"), ("else", "_eventual_queue.eventually")] ∧
    Skel.skeleton "Connector.stop_everything" =
      [("-", "self.stop_listeners"), ("-", "self.stop_pending_connectors"), ("-", "self.stop_pending_connections"), ("-", "self.break_cycles")] ∧
    Skel.skeleton "Connector.stop_pending_connections" = [("-", "_pending_connections.when_next_empty"), ("-", "c.disconnect")] ∧
    Skel.skeleton "Connector._publish_hints" = [("-", "encode_hint"), ("-", "_manager.send_hints")] ∧
    Skel.skeleton "Manager._start_connecting" = [("-", "Connector"), ("if", "_eventual_queue.eventually"), ("-", "_connector.start")] ∧
    Skel.skeleton "Manager.connector_connection_made" =
      [("if/if", "TrafficTimer"), ("if", "_traffic.got_connection"), ("-", "self.connection_made"), ("-", "_inbound.use_connection"),
       ("-", "_outbound.use_connection"), ("if", "_main_channel.fire")] ∧
    Skel.skeleton "Manager.connector_connection_lost" =
      [("if", "_traffic.lost_connection"), ("-", "self._stop_using_connection"), ("if", "self.connection_lost_leader"),
       ("else", "self.connection_lost_follower")] ∧
    Skel.skeleton "Manager.abandon_connection" = [("if", "_timer.cancel"), ("-", "_connection.disconnect")] ∧
    Skel.skeleton "Manager._signal_reconnect" = [("if", "_connection.disconnect")] ∧
    Skel.skeleton "Manager.choose_role" = [("else/else", "ValueError")] ∧
    Skel.skeleton "Manager.received_dilation_message" =
      [("if", "self.rx_PLEASE"), ("else/if", "self.rx_HINTS"), ("else/else/if", "self.rx_RECONNECT"),
       ("else/else/else/if", "self.rx_RECONNECTING"), ("else/else/else/else", "UnknownDilationMessageType")] ∧
    Skel.skeleton "Manager.send_dilation_generation" = [("-", "_S.send")] ∧
    Skel.skeleton "DilatedConnectionProtocol.dataReceived" =
      [("try", "_record.add_and_unframe"), ("try/for/if/if", "KCM"), ("try/for/if/if", "_record.send_record"),
       ("try/for/else/if", "self.got_kcm"), ("try/for/else/else", "self.got_record"), ("except", "transport.loseConnection")] ∧
    Skel.skeleton "DilatedConnectionProtocol.set_manager" = [("-", "self.when_disconnected"), ("-", "?.addCallback")] ∧
    Skel.skeleton "DilatedConnectionProtocol.connectionLost" = [("-", "_disconnected.fire")] ∧
    Skel.skeleton "Dilator.dilate" =
      [("-", "self._did_dilate"), ("if", "make_side"), ("if", "Manager"), ("if/if", "m.got_dilation_key"),
       ("if/if", "m.got_wormhole_versions"), ("if/while", "m.received_dilation_message")] ∧
    Skel.skeleton "Dilator.received_dilate" = [("else", "_manager.received_dilation_message")] ∧
    Skel.skeleton "Boss.D_received_dilate" = [("while", "_D.received_dilate")] := by
  refine ⟨?_, ?_, ?_, ?_, ?_, ?_, ?_, ?_, ?_, ?_, ?_, ?_, ?_, ?_, ?_, ?_, ?_, ?_, ?_⟩ <;> rfl

/-! ## the strict-order buffer of `Boss.D_received_dilate` -/

/-- **dilate_msgs_in_order**: whatever the arrival order of distinct `dilate-N` messages, what has
    been handed to the Dilator is exactly 0, 1, …, next-1 — in order, once each, no gaps —, every
    message that arrived is either delivered or still held, and nothing deliverable is withheld
    (`next` itself has not arrived). -/
theorem dilate_msgs_in_order (arr : List Nat) (hnd : arr.Nodup) :
    (Buf.runArr arr {} []).2 = List.range (Buf.runArr arr {} []).1.next ∧
    (∀ k, k ∈ arr ↔ k < (Buf.runArr arr {} []).1.next ∨ k ∈ (Buf.runArr arr {} []).1.held) ∧
    (Buf.runArr arr {} []).1.next ∉ arr := by
  have h := Buf.runArr_spec arr {} [] (fun _ => False) Buf.inv_init (by simp) hnd
  obtain ⟨h1, h2, _, h4⟩ := h
  refine ⟨h1, ?_, ?_⟩
  · intro k; have := h4 k; simpa using this
  · intro hmem
    have := (h4 _).1 (Or.inl hmem)
    rcases this with h | h
    · omega
    · have := h2 _ h; omega

/-- once 0 … n-1 have all arrived (in any order) all of them have been delivered, in order -/
theorem dilate_msgs_all_delivered (arr : List Nat) (hnd : arr.Nodup) (n : Nat) (hperm : ∀ k, k ∈ arr ↔ k < n) :
    (Buf.runArr arr {} []).2 = List.range n := by
  obtain ⟨h1, h2, h3⟩ := dilate_msgs_in_order arr hnd
  have hge : n ≤ (Buf.runArr arr {} []).1.next := by
    by_contra hlt
    exact h3 ((hperm _).2 (by omega))
  have hle : (Buf.runArr arr {} []).1.next ≤ n := by
    by_contra hgt
    have : n ∈ arr := (h2 n).2 (Or.inl (by omega))
    have := (hperm n).1 this
    omega
  rw [h1, show (Buf.runArr arr {} []).1.next = n by omega]

example : (Buf.runArr [2, 0, 3, 1] {} []).2 = [0, 1, 2, 3] := by decide
example : (Buf.runArr [2, 3, 1] {} []) = ({ next := 0, held := [1, 3, 2] }, []) := by decide

/-! ## the two-sided system: safety -/

theorem inv_of_reach (s : Sys) (hr : Reach s) : inv s = true := by
  cases hr with
  | init h =>
    have hall : ∀ t ∈ inits, inv t = true := by decide
    exact hall _ h
  | step e hr he =>
    have := Certs.reach_safe _ hr e he
    unfold safeStep at this
    simp only [Bool.and_eq_true] at this
    exact this.2

/-- **at_most_one_selected**: on each side, in every reachable state, every protocol that is
    `selected` and not yet lost is `Manager._connection` (so there is at most one), and
    `Manager._connection`, when set, is a `selected` protocol, held only in CONNECTED / ABANDONING;
    a CONNECTED Manager has one. -/
theorem at_most_one_selected (s : Sys) (hr : Reach s) (x : SideId) : oneSelectedSide s x = true := by
  have := inv_of_reach s hr
  unfold inv at this
  simp only [Bool.and_eq_true] at this
  cases x
  · exact this.1.1.1.1.1
  · exact this.1.1.1.1.2

/-- **follower_only_confirmed**: in every reachable state, a follower protocol that has left
    `unselected` — and even a leader KCM still in flight — exists only on a link whose leader end
    has run `select`, which only `Connector.select_and_stop_remaining` calls. -/
theorem follower_only_confirmed (s : Sys) (hr : Reach s) : followerConfirmed s = true := by
  have := inv_of_reach s hr
  unfold inv at this
  simp only [Bool.and_eq_true] at this
  exact this.1.1.1.2

/-- both sides hold complementary roles, the larger side string leads; old listeners are closed -/
theorem roles_in_system (s : Sys) (hr : Reach s) : rolesOK s = true ∧ s.a.stale = false ∧ s.b.stale = false := by
  have := inv_of_reach s hr
  unfold inv at this
  simp only [Bool.and_eq_true, Bool.not_eq_true'] at this
  exact ⟨this.1.1.2, this.1.2, this.2⟩

/-- what the full statement would be: no reachable (state, input) pair of Manager / Connector / DCP /
    TrafficTimer lacks a row, other than `accept` delivered by the eventual queue to a stopped
    Connector (logged and swallowed by `EventualQueue._turn`) -/
def no_undeclared_input_full : Prop :=
  ∀ s, Reach s → ∀ e, enabledK s e = true →
    isFailure (step s e).2 = true → isStoppedAccept (step s e).2 = true

/-- **no_undeclared_input_partial**: in every reachable state, whatever happens next, the only
    undeclared inputs (and the only exceptions of any kind) are
    (1) `accept` run by the eventual queue on a Connector that `Manager.stop_connecting` stopped in
        the meantime — logged and swallowed; and
    (2) `add_candidate` on a stopped Connector: the leader's KCM arriving on an INBOUND link of a
        Connector the follower stopped on `rx_RECONNECT` (`stop_pending_connections` only closes
        outbound links) — this one escapes `dataReceived`; see `no_undeclared_input_fails_on_current`.
    In particular no Manager input ever lacks a row, `connection_made` always finds CONNECTING, and
    no assertion of `_start_connecting` fails. -/
theorem no_undeclared_input_partial (s : Sys) (hr : Reach s) (e : Event) (he : enabledK s e = true)
    (hf : isFailure (step s e).2 = true) :
    isStoppedAccept (step s e).2 = true ∨ isStoppedCandidate (step s e).2 = true := by
  have := Certs.reach_safe s hr e he
  unfold safeStep at this
  simp only [Bool.and_eq_true, Bool.or_eq_true, Bool.not_eq_true'] at this
  rcases this.1 with (h | h) | h
  · rw [hf] at h; exact absurd h (by simp)
  · exact Or.inl h
  · exact Or.inr h

/-- the run that defeats the full statement: the leader selects a link it dialled, its end dies, it
    sends `reconnect`; the follower processes `reconnect` (stops its Connector; the inbound end stays
    open) before the leader's KCM, already on the wire, arrives -/
def witnessRun : List Event :=
  [.key .A, .key .B, .vers .A, .vers .B, .dilate .A, .dilate .B, .deliver .A, .deliver .B, .deliver .A,
   .connect .A, .hs 0, .kcmf 0, .turn1 .A, .lose .A 0, .turn1 .A, .deliver .B, .deliver .B]

def runFrom (s : Sys) (es : List Event) : Sys := es.foldl (fun s e => (step s e).1) s

theorem reach_run {p : Abs} (s : Sys) (hr : ReachP p s) : ∀ (es : List Event),
    (es.foldl (fun (acc : Sys × Bool) e => ((step acc.1 e).1, acc.2 && enabledP p acc.1 e)) (s, true)).2 = true →
    ReachP p (runFrom s es) := by
  intro es
  induction es generalizing s with
  | nil => intro _; exact hr
  | cons e es ih =>
    intro h
    simp only [List.foldl_cons, Bool.true_and] at h
    by_cases he : enabledP p s e = true
    · rw [he] at h
      exact ih _ (ReachP.step e hr he) h
    · exfalso
      have hfalse : enabledP p s e = false := by simpa using he
      rw [hfalse] at h
      have : ∀ (l : List Event) (t : Sys), (l.foldl (fun (acc : Sys × Bool) e => ((step acc.1 e).1, acc.2 && enabledP p acc.1 e)) (t, false)).2 = false := by
        intro l
        induction l with
        | nil => intro t; rfl
        | cons a l ihl => intro t; simp only [List.foldl_cons, Bool.false_and]; exact ihl _
      rw [this] at h
      exact absurd h (by simp)

theorem witness_reach : Reach (runFrom { cmp := .gt } witnessRun) :=
  reach_run (p := absK) _ (ReachP.init (by decide +kernel)) witnessRun (by decide +kernel)

/-- **no_undeclared_input_fails_on_current** (kernel-checked witness): `kcml 0` in the state reached
    by `witnessRun` raises `NoTransition` (Connector `stopped` × `add_candidate`) out of `dataReceived`. -/
theorem no_undeclared_input_fails_on_current : ¬ no_undeclared_input_full := by
  intro h
  have := h _ witness_reach (.kcml 0) (by decide +kernel) (by decide +kernel)
  exact absurd this (by decide +kernel)

example : (step (runFrom { cmp := .gt } witnessRun) (.kcml 0)).2 = .exn (.ntConnector .stopped .add_candidate) := by decide +kernel

/-! ## the two-sided system: re-convergence -/

/-- **reconverge_no_trap**: from EVERY reachable state — in particular after any loss of the
    connection in use, noticed by either side first, or while an earlier reconnect is still in
    progress — there is a finite cooperative continuation (`coop`: deliver control messages, run the
    eventual queues, let connection attempts and one candidate of the newest generation complete,
    let links one of whose ends is gone die) that ends with both Managers CONNECTED on the two open,
    selected ends of ONE link.  (`enabledK` never lets the network kill the last candidate of the
    newest generation: the property's proviso, `killOK`.) -/
theorem reconverge_no_trap (s : Sys) (hr : Reach s) : CanConverge s := Certs.reach_converges s hr

/-- the reachability of the network never changes during a run, and in every reachable state at
    least one direction of dialling works (the property's proviso; `inits`) -/
theorem one_direction_reachable (s : Sys) (hr : Reach s) : s.ra = true ∨ s.rb = true := by
  induction hr with
  | init h =>
    have hall : ∀ t ∈ inits, (t.ra || t.rb) = true := by decide +kernel
    have := hall _ h
    simpa using this
  | step e _ he ih =>
    have hmem := Certs.reach_mem _ (ReachP.step e ‹_› he)
    have hall : ∀ t ∈ Certs.R, (t.ra || t.rb) = true := Certs.reach_flags
    have := hall _ hmem
    simpa using this

/-- non-vacuity for the restricted networks: only the LEADER can dial, the connection in use is lost
    while the follower is still CONNECTING (it never read the leader's KCM), `reconnect` arrives there -/
def afterLossLeaderDialsOnly : Sys :=
  runFrom { cmp := .gt, rb := false }
    [.key .A, .key .B, .vers .A, .vers .B, .dilate .A, .dilate .B, .deliver .A, .deliver .B, .deliver .A,
     .connect .A, .hs 0, .kcmf 0, .turn1 .A, .lose .A 0, .turn1 .A, .deliver .B, .deliver .B]

example : Reach afterLossLeaderDialsOnly := reach_run (p := absK) _ (ReachP.init (by decide +kernel)) _ (by decide +kernel)
/-- the follower answered `reconnecting` FIRST, then its new hints: the leader (FLUSHING) will use them -/
example : afterLossLeaderDialsOnly.a.mgr = .FLUSHING ∧ afterLossLeaderDialsOnly.b.mgr = .CONNECTING ∧
    afterLossLeaderDialsOnly.ba = [.reconnecting, .hints true] ∧ afterLossLeaderDialsOnly.rb = false := by decide +kernel
example : CanConverge afterLossLeaderDialsOnly := reconverge_no_trap _ (reach_run (p := absK) _ (ReachP.init (by decide +kernel)) _ (by decide +kernel))

/-- non-vacuity: a reachable state right after the loss of the connection in use, noticed by the
    leader first (leader FLUSHING, `reconnect` on its way, follower still CONNECTED on the dead link) -/
def afterLoss : Sys :=
  runFrom { cmp := .gt }
    [.key .A, .key .B, .vers .A, .vers .B, .dilate .A, .dilate .B, .deliver .A, .deliver .B, .deliver .A,
     .connect .A, .hs 0, .kcmf 0, .turn1 .A, .kcml 0, .turn1 .B, .lose .A 0, .turn1 .A]

example : Reach afterLoss := reach_run (p := absK) _ (ReachP.init (by decide +kernel)) _ (by decide +kernel)
example : afterLoss.a.mgr = .FLUSHING ∧ afterLoss.b.mgr = .CONNECTED ∧ afterLoss.ab = [.hints true, .reconnect] := by decide +kernel
example : CanConverge afterLoss := reconverge_no_trap _ (reach_run (p := absK) _ (ReachP.init (by decide +kernel)) _ (by decide +kernel))

/-- non-vacuity of the goal: CONNECTED/CONNECTED on one link is reachable -/
example : goal (runFrom { cmp := .gt }
    [.key .A, .key .B, .vers .A, .vers .B, .dilate .A, .dilate .B, .deliver .A, .deliver .B, .deliver .A,
     .connect .A, .hs 0, .kcmf 0, .turn1 .A, .kcml 0, .turn1 .B]) = true := by decide +kernel

/-! ## silent loss, the ping timer, records that are re-sent (`absS`: one link at a time)

`ReachP absS` = every state reachable by any interleaving of ALL the events above plus: either direction of
the link silently stops delivering (neither end is told), the leader's ping interval DelayedCall fires
(`tick`: `TrafficTimer.interval_elapsed` over the generated table → a Ping on the wire, or
`_signal_reconnect`), Ping / Pong / Ack travel, and each side's application writes one record with a seqnum
(queued in `Outbound` until acked; `Outbound.use_connection` sends it again on every new connection, after
the leader's KCM) — with at most one link existing at a time, in every network, A leading. -/

/-- **silent_loss_safe**: also with silent loss, ping-timer expiry and re-sent records, every enabled step from
    every reachable state raises nothing but the two classified NoTransitions and keeps the invariant: one
    selected connection per side, a follower protocol off `unselected` only on a link the leader selected, —
    in particular no record ever reaches a protocol that is still `unselected` (`got_record` has no row
    there), i.e. the leader's KCM precedes everything it re-sends. -/
theorem silent_loss_safe (s : Sys) (hr : ReachP absS s) (e : Event) (he : enabledP absS s e = true) :
    (isFailure (step s e).2 = true → isStoppedAccept (step s e).2 = true ∨ isStoppedCandidate (step s e).2 = true) ∧
    inv (step s e).1 = true := by
  have := Certs.reachS_safe s hr e he
  unfold safeStep at this
  simp only [Bool.and_eq_true, Bool.or_eq_true, Bool.not_eq_true'] at this
  refine ⟨fun hf => ?_, this.2⟩
  rcases this.1 with (h | h) | h
  · rw [hf] at h; exact absurd h (by simp)
  · exact Or.inl h
  · exact Or.inr h

/-- **reconverge_after_silent_loss**: from every such state there is a cooperative continuation (`coop`: as
    before, and a ping interval may elapse unanswered only on a connection that no longer delivers) to
    CONNECTED/CONNECTED on the two open, selected, DELIVERING ends of one link: the leader's timer is what
    gets the two sides out of a black-holed connection. -/
theorem reconverge_after_silent_loss (s : Sys) (hr : ReachP absS s) : CanConvergeP absS s :=
  Certs.reachS_converges s hr

/-- non-vacuity: both sides CONNECTED, the leader has an un-acked record, the link turns into a black hole,
    two ping intervals elapse, the leader hangs up and its Manager is told -/
def afterSilentLoss : Sys :=
  runFrom { cmp := .gt }
    [.key .A, .key .B, .vers .A, .vers .B, .dilate .A, .dilate .B, .deliver .A, .deliver .B, .deliver .A,
     .connect .A, .hs 0, .kcmf 0, .turn1 .A, .kcml 0, .turn1 .B, .write .A, .silence .A 0, .silence .B 0,
     .tick .A, .tick .A, .lose .A 0, .turn1 .A]

example : ReachP absS afterSilentLoss := reach_run _ (ReachP.init (by decide +kernel)) _ (by decide +kernel)
example : afterSilentLoss.a.mgr = .FLUSHING ∧ afterSilentLoss.a.oq = [0] ∧ afterSilentLoss.a.timer = false ∧
    afterSilentLoss.b.mgr = .CONNECTED ∧ afterSilentLoss.ab = [.hints true, .reconnect] := by decide +kernel
example : CanConvergeP absS afterSilentLoss :=
  reconverge_after_silent_loss _ (reach_run _ (ReachP.init (by decide +kernel)) _ (by decide +kernel))

/-- the record written before the first connection is re-sent AFTER the leader's KCM -/
example : ((runFrom { cmp := .gt }
    [.key .A, .key .B, .vers .A, .vers .B, .dilate .A, .dilate .B, .deliver .A, .deliver .B, .deliver .A,
     .connect .A, .write .A, .hs 0, .kcmf 0, .turn1 .A]).link? 0).map (fun k => (k.kl, k.qa)) = some (true, [.open_ 0]) := by
  decide +kernel

/-! ## the transit relay (`absR`)

`ReachP absR` = every state reachable by any interleaving of the `absK` events (at most 2 links at a time) in
a network where ONE side was given `transit_relay_location` and direct dialling works in NO direction or only
for the other side; a connection attempt to the relay may stay in flight for any time (`dial`, then `connect`)
and is aborted by `stop_pending_connectors` when its generation ends.  The configured side's Connector publishes the relay hint in EVERY generation (`Connector.start`) and
dials the relay itself; the peer dials it when its Manager hands that hint to its current Connector; the
relay joins the two connections that wait there (both ends are then outbound: each side's
`stop_pending_connections` closes its own).  The proviso (`killOK`) counts the relay path as a candidate only
while both legs are still possible — a leg through a hint counts from the moment the hint of that
generation is SENT. -/

/-- **relay_safe**: with a relay, every enabled step from every reachable state raises nothing but the two
    classified NoTransitions and keeps the invariant (one selected connection per side, follower only on a
    confirmed link, roles). -/
theorem relay_safe (s : Sys) (hr : ReachP absR s) (e : Event) (he : enabledP absR s e = true) :
    (isFailure (step s e).2 = true → isStoppedAccept (step s e).2 = true ∨ isStoppedCandidate (step s e).2 = true) ∧
    inv (step s e).1 = true := by
  have := Certs.reachR_safe s hr e he
  unfold safeStep at this
  simp only [Bool.and_eq_true, Bool.or_eq_true, Bool.not_eq_true'] at this
  refine ⟨fun hf => ?_, this.2⟩
  rcases this.1 with (h | h) | h
  · rw [hf] at h; exact absurd h (by simp)
  · exact Or.inl h
  · exact Or.inr h

/-- **reconverge_via_relay**: from every such state — in particular in generation 2, 3, … when no direct
    path exists at all — a cooperative continuation reaches CONNECTED/CONNECTED on one link.  It would be
    false if the relay hint were published in the first generation only. -/
theorem reconverge_via_relay (s : Sys) (hr : ReachP absR s) : CanConvergeP absR s :=
  Certs.reachR_converges s hr

/-- non-vacuity: A (leader) has the relay, nobody can dial directly; first connection through the relay, lost,
    noticed by the leader first; both are CONNECTING in generation 2 and the relay hint is on its way AGAIN -/
def afterLossRelayOnly : Sys :=
  runFrom { cmp := .gt, relay := some .A, ra := false, rb := false }
    [.key .A, .key .B, .vers .A, .vers .B, .dilate .A, .dilate .B, .deliver .A, .deliver .B, .deliver .B, .deliver .B,
     .connect .A, .connect .B, .connect .B, .hs 0, .kcmf 0, .turn1 .A, .kcml 0, .turn1 .B, .lose .A 0, .turn1 .A,
     .deliver .B, .lose .B 0, .turn1 .B, .deliver .A, .deliver .A]

example : ReachP absR afterLossRelayOnly := reach_run _ (ReachP.init (by decide +kernel)) _ (by decide +kernel)
example : afterLossRelayOnly.a.mgr = .CONNECTING ∧ afterLossRelayOnly.b.mgr = .CONNECTING ∧
    afterLossRelayOnly.ab = [.hints true, .rhints true] ∧ afterLossRelayOnly.a.att = [.relay] ∧
    afterLossRelayOnly.links = [] := by decide +kernel
example : CanConvergeP absR afterLossRelayOnly :=
  reconverge_via_relay _ (reach_run _ (ReachP.init (by decide +kernel)) _ (by decide +kernel))

/-- an attempt in flight when its generation ends is aborted: after the selection turn nothing of that Connector
    is left in flight (`stop_pending_connectors` reaches it through the chained Deferred) -/
example : ((runFrom { cmp := .gt, relay := some .A, ra := false }
    [.key .A, .key .B, .vers .A, .vers .B, .dilate .A, .dilate .B, .deliver .A, .deliver .B, .deliver .B, .deliver .B,
     .dial .A, .connect .B, .hs 0, .kcmf 0]).a.fly, (runFrom { cmp := .gt, relay := some .A, ra := false }
    [.key .A, .key .B, .vers .A, .vers .B, .dilate .A, .dilate .B, .deliver .A, .deliver .B, .deliver .B, .deliver .B,
     .dial .A, .connect .B, .hs 0, .kcmf 0, .turn1 .A]).a.fly) = ([.relay], []) := by decide +kernel

end WV.Props.C11
