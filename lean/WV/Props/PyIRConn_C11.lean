import WV.Proofs.PyIRConn

set_option linter.unusedSimpArgs false
set_option linter.unusedVariables false

/-!
Translation validation of the Dilation Connector's method bodies (`src/wormhole/_dilation/connector.py`): for every heap
related to the Connector bookkeeping `ConnD` by `RelConn`, every argument and every fuel above the stated constant,
`WV.PyIR.exec` of the body GENERATED from the working tree (`WV.Gen.PyIRConn`, translator `extract_pyir_conn`) has the
final state, the ordered collaborator calls with their arguments and the exception of the hand-written Connector-level
semantics (`considerD`, `selectD`, `stopEverythingD` … in `WV.Proofs.PyIRConn`); those semantics are then projected onto
the models: `WV.C17` (`*_is_C17`: `stopListeners`, `stopPendingConnectors`, `stopPendingConnections`, `breakCycles`,
`stopEverything`, and the shutdown part of `cOut … .select_and_stop_remaining`) and `WV.C11` (`*_is_C11`: what `conOutput` does for
`.consider` / `.publish_hints`).  The `for … in <set>` loops are proved by induction for every size; the order of a Python
set is arbitrary, the theorems hold for every order of the representing list.
-/
namespace WV.Props.PyIRConn
open WV WV.PyIR WV.Gen.PyIRConn WV.Proofs.PyIRC03 WV.Proofs.PyIRDil WV.Proofs.PyIRConn

/-! ## pins of the translator's method list -/

/-- the methods outside the subset (a rewrite that leaves the subset, or a new untranslatable helper, breaks this) -/
theorem all_translated : WV.Gen.PyIRConn.untranslatable.map (·.1) =
    ["Connector._connect", "Connector._get_listener_addresses", "Connector._start_listener", "Connector._use_hints",
     "Connector.build_protocol", "Connector.start", "Connector.use_hints"] := by decide

theorem translated_pin : WV.Gen.PyIRConn.translated =
    ["Connector._publish_hints", "Connector._schedule_connection", "Connector.break_cycles", "Connector.consider",
     "Connector.publish_hints", "Connector.select_and_stop_remaining", "Connector.stop_everything",
     "Connector.stop_listeners", "Connector.stop_pending_connections", "Connector.stop_pending_connectors"] := by decide

/-- every `@m.output` of `Connector` is translated, except `use_hints` (its helper `_use_hints` is outside the subset) -/
theorem outputs_covered : WV.Gen.PyIRConn.outputs.filter (fun o => !WV.Gen.PyIRConn.translated.contains o) =
    ["Connector.use_hints"] := by decide

/-- the outputs of the translated class are exactly the outputs of the generated Automat table the models use -/
theorem outputs_are_table_outputs : WV.Gen.PyIRConn.outputs =
    ([Gen.Connector.Output.consider, .publish_hints, .select_and_stop_remaining, .stop_everything, .use_hints].map
      fun o => "Connector." ++ Gen.Connector.Output.name o) := by decide

/-- `_pending_connections` is an `EmptyableSet`: a `set` that overrides only `discard` (plain discard + the
    `when_next_empty` observer) and adds `when_next_empty` — the interpreter reads it as a plain set -/
theorem set_subclass_pin : WV.Gen.PyIRConn.setSubclassMethods =
    [("EmptyableSet", ["__init__", "discard", "when_next_empty"])] := by decide

/-! ## agreement: one theorem per method -/

/-- `consider(c)`: the contender is remembered and `accept(c)` goes to the eventual queue — for both roles -/
theorem connector_consider (fuel : Nat) (h : Store) (d : ConnD) (c : Nat) (R : RelConn h d) :
    let o := exec (fuel + 1) envK tbl_Connector "consider" [encC c] h
    RelConn o.heap (considerD c d).1 ∧ o.calls.map absCall = (considerD c d).2.map some ∧ o.exc = none := by
  obtain ⟨hr, hl, hd, hc, hk, hw, hm, he⟩ := R
  cases hld : d.leader <;> rw [hld] at hr <;>
  by_cases hin : c ∈ d.contenders <;>
  conn_eval [exec, callM, tbl_Connector, m_Connector_consider, hr, hl, hd, hc, hk, hw, hm, he, encRole, considerD,
    memKeys_C, hin, eqV, abs_accept, encC]
  all_goals (constructor <;> simp [get_set, encC, hld, *])

/-- `stop_everything()` = its four parts in order: every tracked port is told to stop (then forgotten), every pending
    Deferred is cancelled, `when_next_empty()` then every tracked protocol is disconnected, all sets are emptied — for every
    size of the three sets and every iteration order; fuel ≥ 2 -/
theorem connector_stop_everything (fuel : Nat) (h : Store) (d : ConnD) (R : RelConn h d) :
    let o := exec (fuel + 2) envK tbl_Connector "stop_everything" [] h
    RelConn o.heap (stopEverythingD d).1 ∧ o.calls.map absCall = (stopEverythingD d).2.map some ∧ o.exc = none := by
  obtain ⟨hr, hl, hd, hc, hk, hw, hm, he⟩ := R
  simp only [exec]
  rw [callM]
  conn_eval [tbl_Connector, m_Connector_stop_everything, stop_listeners_callM _ d.listeners,
    stop_pending_connectors_callM _ d.connectors, stop_pending_connections_callM _ d.connections,
    break_cycles_callM _ [] (d.connectors.map encD) (d.connections.map encC), hl, hd, hc,
    stopEverythingD, seqD, stopListenersD, stopPendingConnectorsD, stopPendingConnectionsD, breakCyclesD,
    abs_mkStop, abs_mkCancel, abs_mkDisc, abs_mkWNE, Function.comp_def]
  constructor <;> simp [get_set, encWin, *]

/-- `select_and_stop_remaining(c)`: the winner is recorded and REMOVED from `_pending_connections` before the losers are
    disconnected; listeners stopped, connectors cancelled; then `c.select(manager)`, the Leader's KCM (only the Leader),
    `manager.connector_connection_made(c)` — in this order -/
theorem connector_select_and_stop_remaining (fuel : Nat) (h : Store) (d : ConnD) (c : Nat) (R : RelConn h d) :
    let o := exec (fuel + 2) envK tbl_Connector "select_and_stop_remaining" [encC c] h
    RelConn o.heap (selectD c d).1 ∧ o.calls.map absCall = (selectD c d).2.map some ∧ o.exc = none := by
  obtain ⟨hr, hl, hd, hc, hk, hw, hm, he⟩ := R
  simp only [exec]
  rw [callM]
  cases hld : d.leader <;> rw [hld] at hr <;>
  conn_eval [tbl_Connector, m_Connector_select_and_stop_remaining, stop_listeners_callM _ d.listeners,
    stop_pending_connectors_callM _ d.connectors, stop_pending_connections_callM _ (C15.sDel c d.connections),
    hl, hd, hc, hk, hr, hm, setDel_C, encRole, envK_KCM, mgrV, encC,
    selectD, seqD, stopListenersD, stopPendingConnectorsD, stopPendingConnectionsD, hld,
    abs_mkStop, abs_mkCancel, abs_mkDisc, abs_mkWNE, Function.comp_def, abs_select, abs_kcm, abs_made]
  all_goals (constructor <;> simp [get_set, encWin, encC, encRole, *])

/-- when `c.select(manager)` itself raises (e.g. the protocol's machine has no transition), the winner is ALREADY recorded
    and removed from `_pending_connections`, every loser is already disconnected, and neither the Leader's KCM nor
    `manager.connector_connection_made(c)` happens — the order `C17.cOut` gives (`andThen (dcpSelect arg w2) (made arg)`); this is
    the theorem that sees a state update moved behind the call (a normal run cannot tell) -/
theorem connector_select_when_select_raises (fuel : Nat) (h : Store) (d : ConnD) (c : Nat) (cls : String) (R : RelConn h d) :
    let k := d.listeners.length + d.connectors.length + 1 + (C15.sDel c d.connections).length
    let o := exec (fuel + 2) (envKr k cls) tbl_Connector "select_and_stop_remaining" [encC c] h
    RelConn o.heap (selectD c d).1 ∧
      o.calls.map absCall = (d.listeners.map CEff.stopListening ++ d.connectors.map CEff.cancel ++
        CEff.whenNextEmpty :: (C15.sDel c d.connections).map CEff.disconnect ++ [CEff.select c]).map some ∧
      o.exc = some cls := by
  intro k
  obtain ⟨hr, hl, hd, hc, hk, hw, hm, he⟩ := R
  let H1 : Store := ((h.set "_winning_connection" (Val.ref "DCP" c)).set "_contenders" (Val.set [])).set
    "_pending_connections" (Val.set (List.map encC (C15.sDel c d.connections)))
  have h1 := stop_listeners_callMQ (envKr k cls) (envKr_like k cls) fuel d.listeners H1 []
    (by simp [H1, get_set, hl]) (by intro i hi; simp [envKr_raises]; omega)
  have h2 := stop_pending_connectors_callMQ (envKr k cls) (envKr_like k cls) fuel d.connectors
    (H1.set "_listeners" (.set [])) ([] ++ d.listeners.map mkStop)
    (by simp [H1, get_set, hd]) (by intro i hi; simp [envKr_raises]; omega)
  have h3 := stop_pending_connections_callMQ (envKr k cls) (envKr_like k cls) fuel (C15.sDel c d.connections)
    (H1.set "_listeners" (.set [])) (([] ++ d.listeners.map mkStop) ++ d.connectors.map mkCancel)
    (by simp [H1, get_set]) (by intro i hi; simp [envKr_raises]; omega)
  simp only [H1, List.nil_append] at h1 h2 h3
  have hk' : d.listeners.length + (d.connectors.length + ((C15.sDel c d.connections).length + 1)) = k := by
    simp only [k]; omega
  simp only [exec]
  rw [callM]
  conn_eval [tbl_Connector, m_Connector_select_and_stop_remaining, h1, h2, h3, hk',
    hl, hd, hc, hk, hr, hm, setDel_C, mgrV, encC, envKr_raises, envKr_reenter,
    selectD, seqD, stopListenersD, stopPendingConnectorsD, stopPendingConnectionsD,
    abs_mkStop, abs_mkCancel, abs_mkDisc, abs_mkWNE, Function.comp_def, abs_select, abs_kcm, abs_made]
  constructor <;> simp [get_set, encWin, encC, *]

/-- `publish_hints(hint_objs)` → `_publish_hints`: one `manager.send_hints` with every hint encoded, in order -/
theorem connector_publish_hints (fuel : Nat) (h : Store) (d : ConnD) (hs : List Val) (R : RelConn h d) :
    let o := exec (fuel + 2) envK tbl_Connector "publish_hints" [.list hs] h
    RelConn o.heap d ∧ o.calls.map absCall = [some (.sendHints (hs.map fun v => .obj "encoded_hint" [v]))] ∧
      o.exc = none := by
  have R' := R
  obtain ⟨hr, hl, hd, hc, hk, hw, hm, he⟩ := R
  conn_eval [exec, callM, tbl_Connector, m_Connector_publish_hints, m_Connector__publish_hints, hm, mgrV,
    mapExtL_hint, abs_hints]
  exact R'

/-- `stop_listeners()`: `stopListening()` on every port of `_listeners` (any order), then the set is emptied; returns the
    `DeferredList` of the results -/
theorem connector_stop_listeners (fuel : Nat) (h : Store) (d : ConnD) (R : RelConn h d) :
    let o := exec (fuel + 1) envK tbl_Connector "stop_listeners" [] h
    RelConn o.heap (stopListenersD d).1 ∧ o.calls.map absCall = (stopListenersD d).2.map some ∧ o.exc = none ∧
      o.ret = lcRet d.listeners.length := by
  obtain ⟨hr, hl, hd, hc, hk, hw, hm, he⟩ := R
  simp [exec, stop_listeners_callM fuel d.listeners h [] hl, stopListenersD, abs_mkStop, Function.comp_def]
  constructor <;> simp [get_set, *]

/-- `stop_pending_connectors()`: `cancel()` on every Deferred of `_pending_connectors`; the set is left as it is -/
theorem connector_stop_pending_connectors (fuel : Nat) (h : Store) (d : ConnD) (R : RelConn h d) :
    let o := exec (fuel + 1) envK tbl_Connector "stop_pending_connectors" [] h
    RelConn o.heap (stopPendingConnectorsD d).1 ∧ o.calls.map absCall = (stopPendingConnectorsD d).2.map some ∧
      o.exc = none := by
  have R' := R
  obtain ⟨hr, hl, hd, hc, hk, hw, hm, he⟩ := R
  simp [exec, stop_pending_connectors_callM fuel d.connectors h [] hd, stopPendingConnectorsD, abs_mkCancel,
    Function.comp_def]
  exact R'

/-- `stop_pending_connections()`: `when_next_empty()` FIRST, then `disconnect()` on every protocol of
    `_pending_connections`; the set is left as it is (the protocols remove themselves when they are lost) -/
theorem connector_stop_pending_connections (fuel : Nat) (h : Store) (d : ConnD) (R : RelConn h d) :
    let o := exec (fuel + 1) envK tbl_Connector "stop_pending_connections" [] h
    RelConn o.heap (stopPendingConnectionsD d).1 ∧ o.calls.map absCall = (stopPendingConnectionsD d).2.map some ∧
      o.exc = none := by
  have R' := R
  obtain ⟨hr, hl, hd, hc, hk, hw, hm, he⟩ := R
  simp [exec, stop_pending_connections_callM fuel d.connections h [] hc, stopPendingConnectionsD, abs_mkDisc, abs_mkWNE,
    Function.comp_def]
  exact R'

/-- `break_cycles()`: the three sets are emptied, the winner is forgotten; no call -/
theorem connector_break_cycles (fuel : Nat) (h : Store) (d : ConnD) (R : RelConn h d) :
    let o := exec (fuel + 1) envK tbl_Connector "break_cycles" [] h
    RelConn o.heap (breakCyclesD d).1 ∧ o.calls = [] ∧ o.exc = none := by
  obtain ⟨hr, hl, hd, hc, hk, hw, hm, he⟩ := R
  simp [exec, break_cycles_callM fuel _ _ _ h [] hl hd hc, breakCyclesD]
  constructor <;> simp [get_set, encWin, *]


/-- `_schedule_connection(delay, h, is_relay)`: endpoint and description are built from the hint, `deferLater(reactor,
    delay, self._connect, ep, desc, is_relay)` is called with the delay and the relay flag passed through, the three errbacks are
    attached in order (their trap lists are part of the recorded call), and the Deferred is remembered in
    `_pending_connectors` (what `stop_pending_connectors` cancels) -/
theorem connector_schedule_connection (fuel fresh : Nat) (h : Store) (d : ConnD) (tor rc delay hint isRelay : Val) (R : RelConn h d)
    (ht : h.get "_tor" = some tor) (hrc : h.get "_reactor" = some rc) (hf : fresh ∉ d.connectors) :
    let o := exec (fuel + 1) (envS fresh) tbl_Connector "_schedule_connection" [delay, hint, isRelay] h
    RelConn o.heap { d with connectors := d.connectors ++ [fresh] } ∧
      o.calls = scheduleCalls fresh tor rc delay hint isRelay ∧ o.exc = none := by
  obtain ⟨hr, hl, hd, hc, hk, hw, hm, he⟩ := R
  conn_eval [exec, callM, tbl_Connector, m_Connector__schedule_connection, ht, hrc, hd, envS_raises, envS_rets, envS_reenter,
    envS_ep, envS_desc, encD, memKeys_D, hf, scheduleCalls]
  constructor <;> simp [get_set, encD, *]


/-! ## the Connector-level semantics is what the models do: projection onto `WV.C17.World` -/

theorem stop_listeners_is_C17 (g : Nat) (d : ConnD) (w : C17.World) (R : RelW g d w) :
    worldAfter g (stopListenersD d) w = C17.stopListeners g w := by
  simp only [worldAfter, foldl_netEff, track, C17.stopListeners, stopListenersD]
  congr 1
  · apply List.ext_getElem?
    intro i
    rw [mapIdx_foldl_get _ _ markStopped_idem, List.getElem?_map, any_sel_map selStop _ (fun _ => rfl)]
    cases hl : w.listeners[i]? with
    | none => simp
    | some l =>
      have := R.listeners i
      simp [hl] at this
      rcases l with ⟨lg, lr, lt, ls⟩
      by_cases hin : i ∈ d.listeners <;> by_cases h1 : lg = g <;> cases lt <;> simp_all [markStopped]
  · apply List.ext_getElem?
    intro j
    rw [mapIdx_foldl_get _ _ markCancelled_idem, any_sel_map_none selCancel _ (fun _ => rfl)]
    cases ha : w.attempts[j]? with
    | none => simp
    | some a =>
      have := R.connectors j
      simp [ha] at this
      rcases a with ⟨ag, ap, ac, ai⟩
      by_cases hin : j ∈ d.connectors <;> by_cases h1 : ag = g <;> cases ai <;> simp_all
  · apply List.ext_getElem?
    intro c
    rw [mapIdx_foldl_get _ _ markClosing_idem, any_sel_map_none selDisc _ (fun _ => rfl)]
    cases hx : w.conns[c]? with
    | none => simp
    | some x =>
      have := R.connections c
      simp [hx] at this
      rcases x with ⟨xg, xi, xs, xc, xl, xt, xo, xm⟩
      by_cases hin : c ∈ d.connections <;> by_cases h1 : xg = g <;> cases xt <;> simp_all

theorem stop_pending_connectors_is_C17 (g : Nat) (d : ConnD) (w : C17.World) (R : RelW g d w) :
    worldAfter g (stopPendingConnectorsD d) w = C17.stopPendingConnectors g w := by
  simp only [worldAfter, foldl_netEff, track, C17.stopPendingConnectors, stopPendingConnectorsD]
  congr 1
  · fld_listeners R, w, d, g
  · fld_attempts R, w, d, g
  · fld_conns R, w, d, g

theorem stop_pending_connections_is_C17 (g : Nat) (d : ConnD) (w : C17.World) (R : RelW g d w) :
    worldAfter g (stopPendingConnectionsD d) w = C17.stopPendingConnections g w := by
  simp only [worldAfter, foldl_netEff, track, C17.stopPendingConnections, stopPendingConnectionsD]
  congr 1
  · fld_listeners R, w, d, g
  · fld_attempts R, w, d, g
  · fld_conns R, w, d, g

theorem break_cycles_is_C17 (g : Nat) (d : ConnD) (w : C17.World) (R : RelW g d w) :
    worldAfter g (breakCyclesD d) w = C17.breakCycles g w := by
  simp only [worldAfter, foldl_netEff, track, C17.breakCycles, breakCyclesD]
  congr 1
  · fld_listeners R, w, d, g
  · fld_attempts R, w, d, g
  · fld_conns R, w, d, g

theorem stop_everything_is_C17 (g : Nat) (d : ConnD) (w : C17.World) (R : RelW g d w) :
    worldAfter g (stopEverythingD d) w = C17.stopEverything g w := by
  simp only [worldAfter, foldl_netEff, track, C17.stopEverything, C17.breakCycles, C17.stopPendingConnections,
    C17.stopPendingConnectors, C17.stopListeners, stopEverythingD, seqD, breakCyclesD, stopPendingConnectionsD,
    stopPendingConnectorsD, stopListenersD]
  congr 1
  · fld_listeners R, w, d, g
  · fld_attempts R, w, d, g
  · fld_conns R, w, d, g

/-- the world in which `cOut … .select_and_stop_remaining` runs `c.select(manager)` and `connector_connection_made(c)` is
    the world after the body's shutdown part (`selectD`): the winner untracked and NOT closed, every other tracked
    protocol closing, listeners stopped, connectors cancelled -/
theorem select_is_C17 (made : Nat → C17.World → C17.Res) (g c : Nat) (d : ConnD) (w : C17.World) (R : RelW g d w)
    (hown : ∀ x, w.conns[c]? = some x → x.gen = g) :
    C17.cOut made g c .select_and_stop_remaining w =
      C17.andThen (C17.dcpSelect c (worldAfter g (selectD c d) w)) (made c) := by
  have key : worldAfter g (selectD c d) w =
      C17.stopPendingConnections g (C17.stopPendingConnectors g (C17.stopListeners g
        { w with conns := w.conns.modify c fun x => { x with tracked := false } })) := by
    cases hld : d.leader <;>
    simp only [worldAfter, foldl_netEff, track, C17.stopPendingConnections,
      C17.stopPendingConnectors, C17.stopListeners, selectD, seqD, stopPendingConnectionsD,
      stopPendingConnectorsD, stopListenersD, hld, if_true, if_false, Bool.false_eq_true] <;>
    congr 1
    · fld_listeners R, w, d, g
    · fld_attempts R, w, d, g
    · apply List.ext_getElem?
      intro c'
      rw [mapIdx_foldl_get _ _ markClosing_idem]
      any_norm
      cases hx : w.conns[c']? with
      | none => simp [hx, List.getElem?_modify]
      | some x =>
        have := R.connections c'
        simp [hx] at this
        rcases x with ⟨xg, xi, xs, xc, xl, xt, xo, xm⟩
        by_cases hcc : c' = c
        · subst hcc
          have hg := hown _ hx
          simp at hg
          by_cases hin : c' ∈ d.connections <;> by_cases h1 : xg = g <;> cases xt <;>
            simp_all [markClosing, mem_sDel, List.getElem?_modify]
        · have hcc' : ¬ c = c' := fun e => hcc e.symm
          by_cases hin : c' ∈ d.connections <;> by_cases h1 : xg = g <;> cases xt <;>
            simp_all [markClosing, mem_sDel, List.getElem?_modify]
    · fld_listeners R, w, d, g
    · fld_attempts R, w, d, g
    · apply List.ext_getElem?
      intro c'
      rw [mapIdx_foldl_get _ _ markClosing_idem]
      any_norm
      cases hx : w.conns[c']? with
      | none => simp [hx, List.getElem?_modify]
      | some x =>
        have := R.connections c'
        simp [hx] at this
        rcases x with ⟨xg, xi, xs, xc, xl, xt, xo, xm⟩
        by_cases hcc : c' = c
        · subst hcc
          have hg := hown _ hx
          simp at hg
          by_cases hin : c' ∈ d.connections <;> by_cases h1 : xg = g <;> cases xt <;>
            simp_all [markClosing, mem_sDel, List.getElem?_modify]
        · have hcc' : ¬ c = c' := fun e => hcc e.symm
          by_cases hin : c' ∈ d.connections <;> by_cases h1 : xg = g <;> cases xt <;>
            simp_all [markClosing, mem_sDel, List.getElem?_modify]
  simp only [C17.cOut, key]

/-- one `_schedule_connection` is one attempt of `C17.cOut … .use_hints` (the Deferred is kept in `_pending_connectors`): the
    tracking relation is preserved with the new Deferred = the new attempt's index -/
theorem schedule_is_C17 (made : Nat → C17.World → C17.Res) (g : Nat) (d : ConnD) (w : C17.World) (R : RelW g d w) :
    RelW g { d with connectors := d.connectors ++ [w.attempts.length] } (C17.cOut made g 1 .use_hints w).1 := by
  obtain ⟨h1, h2, h3⟩ := R
  refine ⟨by simpa [C17.cOut] using h1, ?_, by simpa [C17.cOut] using h3⟩
  intro j
  simp only [C17.cOut, List.replicate_one, List.mem_append, List.mem_singleton, h2 j]
  by_cases hj : j < w.attempts.length
  · have hne : j ≠ w.attempts.length := Nat.ne_of_lt hj
    simp [List.getElem?_append_left hj, hne]
  · have hge : w.attempts.length ≤ j := Nat.le_of_not_lt hj
    have hnone : w.attempts[j]? = none := List.getElem?_eq_none hge
    by_cases he : j = w.attempts.length
    · subst he; simp [hnone]
    · have : ¬ j - w.attempts.length = 0 := by omega
      simp [hnone, he, List.getElem?_append_right hge]
      intro a ha
      rcases hk : j - w.attempts.length with _ | k
      · omega
      · simp [hk] at ha

/-! ## projection onto the `Side` of C11 -/

theorem consider_is_C11 (fuel : Nat) (x : C11.SideId) (l : Nat) (fresh : C11.Att) (s : C11.Sys) (d : ConnD) :
    C11.conOutput (fuel + 1) x l fresh .consider s =
      (s.modSide x (fun sd => { sd with eq := sd.eq ++ (considerD l d).2.filterMap absEq }), none) := by
  simp [C11.conOutput, considerD, absEq]

theorem publish_hints_is_C11 (fuel : Nat) (x : C11.SideId) (l : Nat) (fresh : C11.Att) (s : C11.Sys) (hs : List Val) :
    C11.conOutput (fuel + 1) x l fresh .publish_hints s =
      (s.setChanFrom x (s.chanFrom x ++ [CEff.sendHints hs].filterMap absMsg), none) := by
  simp [C11.conOutput, C11.send, absMsg]

/-- `select_and_stop_remaining(c)` never disconnects the winner, and disconnects every other tracked protocol, cancels every
    pending connector and stops every listener (what `C11.stopPendingConnections x (some l)` and `lst := false, att := [],
    fly := []` abstract) -/
theorem select_spares_only_winner (c : Nat) (d : ConnD) :
    CEff.disconnect c ∉ (selectD c d).2 ∧ (∀ x ∈ d.connections, x ≠ c → CEff.disconnect x ∈ (selectD c d).2) ∧
    (∀ j ∈ d.connectors, CEff.cancel j ∈ (selectD c d).2) ∧ (∀ i ∈ d.listeners, CEff.stopListening i ∈ (selectD c d).2) ∧
    (selectD c d).1.listeners = [] ∧ (selectD c d).1.winning = some c ∧ c ∉ (selectD c d).1.connections := by
  cases hld : d.leader <;>
  simp [selectD, seqD, stopListenersD, stopPendingConnectorsD, stopPendingConnectionsD, hld, mem_sDel] <;>
  intro x hx hne <;> exact ⟨hx, hne⟩

/-- `stop_everything()` stops, cancels and disconnects everything it tracks and forgets it -/
theorem stop_everything_total (d : ConnD) :
    (∀ x ∈ d.connections, CEff.disconnect x ∈ (stopEverythingD d).2) ∧
    (∀ j ∈ d.connectors, CEff.cancel j ∈ (stopEverythingD d).2) ∧ (∀ i ∈ d.listeners, CEff.stopListening i ∈ (stopEverythingD d).2) ∧
    (stopEverythingD d).1.listeners = [] ∧ (stopEverythingD d).1.connectors = [] ∧ (stopEverythingD d).1.connections = [] ∧
    (stopEverythingD d).1.winning = none := by
  simp [stopEverythingD, seqD, stopListenersD, stopPendingConnectorsD, stopPendingConnectionsD, breakCyclesD]

/-! ## non-vacuity: a concrete heap in the relation, concrete runs of the generated bodies -/

def demoD : ConnD := { leader := true, listeners := [3], connectors := [5, 6], connections := [7, 8, 9], contenders := [8],
                       winning := none }

def demoHeap : Store :=
  [("_role", .obj "LEADER" []), ("_listeners", .set [encL 3]), ("_pending_connectors", .set [encD 5, encD 6]),
   ("_pending_connections", .set [encC 7, encC 8, encC 9]), ("_contenders", .set [encC 8]),
   ("_winning_connection", .none), ("_manager", mgrV), ("_eventual_queue", eqV)]

example : RelConn demoHeap demoD := ⟨rfl, rfl, rfl, rfl, rfl, rfl, rfl, rfl⟩

/-- a summary of a decoded call that has decidable equality -/
def code : Option CEff → String × Nat
  | some (.stopListening i) => ("stopListening", i)
  | some (.cancel j) => ("cancel", j)
  | some (.disconnect c) => ("disconnect", c)
  | some .whenNextEmpty => ("when_next_empty", 0)
  | some (.eventuallyAccept c) => ("eventually accept", c)
  | some (.select c) => ("select", c)
  | some (.sendKCM c) => ("send KCM", c)
  | some (.made c) => ("connection_made", c)
  | some (.sendHints hs) => ("send_hints", hs.length)
  | none => ("?", 0)

/-- the Leader selects 8: port 3 stopped, Deferreds 5 and 6 cancelled, 7 and 9 (not 8) disconnected, then select, KCM, made -/
example : ((exec 2 envK tbl_Connector "select_and_stop_remaining" [encC 8] demoHeap).calls.map fun c => code (absCall c)) =
    [("stopListening", 3), ("cancel", 5), ("cancel", 6), ("when_next_empty", 0), ("disconnect", 7), ("disconnect", 9),
     ("select", 8), ("send KCM", 8), ("connection_made", 8)] := by decide +kernel

/-- a Follower sends no KCM -/
example : ((exec 2 envK tbl_Connector "select_and_stop_remaining" [encC 8]
      (demoHeap.set "_role" (.obj "FOLLOWER" []))).calls.map fun c => code (absCall c)) =
    [("stopListening", 3), ("cancel", 5), ("cancel", 6), ("when_next_empty", 0), ("disconnect", 7), ("disconnect", 9),
     ("select", 8), ("connection_made", 8)] := by decide +kernel

example : ((exec 2 envK tbl_Connector "stop_everything" [] demoHeap).calls.map fun c => code (absCall c)) =
    [("stopListening", 3), ("cancel", 5), ("cancel", 6), ("when_next_empty", 0), ("disconnect", 7), ("disconnect", 8),
     ("disconnect", 9)] := by decide +kernel

example : ((exec 1 envK tbl_Connector "consider" [encC 7] demoHeap).calls.map fun c => code (absCall c)) =
    [("eventually accept", 7)] := by decide

example : ((exec 2 envK tbl_Connector "publish_hints" [.list [.str "h1", .str "h2"]] demoHeap).calls.map fun c =>
    code (absCall c)) = [("send_hints", 2)] := by decide


def isWinner8 : Option Val → Bool
  | some (.ref "DCP" 8) => true
  | _ => false

def lacks8 : Option Val → Bool
  | some (.set [.ref "DCP" 7, .ref "DCP" 9]) => true
  | _ => false

/-- decided run (a test on `demoHeap`, not a theorem): when `c.select(manager)` — call number 6 — raises, the winner is already
    recorded and already removed from `_pending_connections`, the losers are already disconnected, and neither the KCM nor
    `connector_connection_made` happens (the order `C17.cOut` gives: `andThen (dcpSelect arg w2) (made arg)`) -/
example :
    let o := exec 2 (envKr 6 "NoTransition") tbl_Connector "select_and_stop_remaining" [encC 8] demoHeap
    (o.exc, isWinner8 (o.heap.get "_winning_connection"), lacks8 (o.heap.get "_pending_connections"),
      o.calls.map fun c => code (absCall c)) =
    (some "NoTransition", true, true,
      [("stopListening", 3), ("cancel", 5), ("cancel", 6), ("when_next_empty", 0), ("disconnect", 7), ("disconnect", 9),
       ("select", 8)]) := by decide +kernel

/-- decided run: when the first `stopListening()` of `stop_everything` raises, nothing else has happened yet and the port is
    still tracked -/
example :
    let o := exec 2 (envKr 0 "RuntimeError") tbl_Connector "stop_everything" [] demoHeap
    (o.exc, o.calls.map fun c => code (absCall c),
      (match o.heap.get "_listeners" with | some (.set [.ref "Port" 3]) => true | _ => false)) =
    (some "RuntimeError", [("stopListening", 3)], true) := by decide +kernel

/-- a C17 world that `RelW` relates to `demoD` for generation 1 (indices 3, 5, 6, 7, 8, 9 tracked) -/
example : ∃ w : C17.World, RelW 1 { demoD with listeners := [0], connectors := [0, 1], connections := [1] } w := by
  refine ⟨{ C17.World.init false false "a" with
      listeners := [{ gen := 1, ready := true, tracked := true, stopped := false }],
      attempts := [{ gen := 1, phase := .scheduled, cancelled := false, inSet := true },
                   { gen := 1, phase := .dialing, cancelled := false, inSet := true }],
      conns := [{ gen := 0, inbound := false, st := Gen.DCP.init, closing := false, lost := false, tracked := true,
                  obsDiscard := false, obsMgr := false },
                { gen := 1, inbound := false, st := Gen.DCP.init, closing := false, lost := false, tracked := true,
                  obsDiscard := false, obsMgr := false }] }, ?_, ?_, ?_⟩ <;>
  intro i <;> rcases i with _ | _ | _ | i <;> simp [demoD]

#print axioms all_translated
#print axioms translated_pin
#print axioms outputs_covered
#print axioms outputs_are_table_outputs
#print axioms set_subclass_pin
#print axioms connector_consider
#print axioms connector_stop_everything
#print axioms connector_select_and_stop_remaining
#print axioms connector_select_when_select_raises
#print axioms connector_publish_hints
#print axioms connector_stop_listeners
#print axioms connector_stop_pending_connectors
#print axioms connector_stop_pending_connections
#print axioms connector_break_cycles
#print axioms stop_listeners_is_C17
#print axioms stop_pending_connectors_is_C17
#print axioms stop_pending_connections_is_C17
#print axioms break_cycles_is_C17
#print axioms stop_everything_is_C17
#print axioms select_is_C17
#print axioms connector_schedule_connection
#print axioms schedule_is_C17
#print axioms consider_is_C11
#print axioms publish_hints_is_C11
#print axioms select_spares_only_winner
#print axioms stop_everything_total

end WV.Props.PyIRConn
