import WV.Model.C06
import WV.Proofs.C06

/-!
C06 — Transit delivers exactly the records sent, or drops the connection.

All theorems are about the definitions the driver executes (`WV.C06.dataReceived`, `sendRecord`,
`recordReceived`, …) for an arbitrary `Env` (box, hkdf, transit key); none bounds the number or size of
records, the number of chunks, or the length of the history, beyond what the code itself asserts
(`send_nonce < 2^192`, `len(record) + 40 < 2^32`).

`E.box` is never assumed ideal globally: each theorem names the `IdealFor` instance (key, history) it
needs; `idealBox_ideal` shows that hypothesis satisfiable for every key and every history.
-/
namespace WV.Props.C06
open WV WV.C06

/-! ## tie to the source: call skeletons and protocol constants as regenerated from /repo -/

/-- the call structure the model mirrors is the one the translator finds in `transit.Connection` today -/
theorem skeleton_agrees : ∀ m ∈ skeletonMethods, modelSkeleton m = Gen.C06.skeleton m := by decide

def ascii (s : String) : Bytes := s.toList.map Char.toNat

/-- the four key derivations use the two documented `CTXinfo`s, crosswise, with 32-byte keys; the nonce is
    24 bytes, the MAC 16 -/
theorem record_keys_match_spec :
    Gen.C06.ctx_sender_sendkey = ascii "transit_record_sender_key" ∧
    Gen.C06.ctx_sender_recvkey = ascii "transit_record_receiver_key" ∧
    Gen.C06.ctx_receiver_sendkey = ascii "transit_record_receiver_key" ∧
    Gen.C06.ctx_receiver_recvkey = ascii "transit_record_sender_key" ∧
    Gen.C06.len_sender_sendkey = 32 ∧ Gen.C06.len_sender_recvkey = 32 ∧
    Gen.C06.len_receiver_sendkey = 32 ∧ Gen.C06.len_receiver_recvkey = 32 ∧
    Gen.C06.NONCE_SIZE = 24 ∧ Gen.C06.MACBYTES = 16 ∧ Gen.C06.KEY_SIZE = 32 ∧
    Gen.C06.is_sender_sender = true ∧ Gen.C06.is_sender_receiver = false := by decide

/-! ## directions -/

/-- what one side seals with is what the other side opens with … -/
theorem peer_keys_agree (E : Env) (b : Bool) : senderRecordKey E b = receiverRecordKey E (!b) :=
  sendKey_eq_peer_recvKey E b

/-- … and never what it opens with itself: the two directions have different keys (dies if the two
    `CTXinfo`s are merged or swapped in one method only), so a reflected record is a forgery for the
    direction it comes back on and falls under `tamper_prefix` / `first_bad_frame_drops` -/
theorem directions_separated (E : Env) (hk : HkdfInjective E.hkdf) (b : Bool) :
    senderRecordKey E b ≠ receiverRecordKey E b := by
  intro h
  cases b with
  | true =>
    have := hk _ _ _ _ h
    revert this; decide
  | false =>
    have := hk _ _ _ _ h
    revert this; decide

example : HkdfInjective (fun _ _ info => info) := fun _ _ _ _ h => h

/-! ## framing: fuel and chunking -/

/-- `buf.length + 1` turns of the receive loop are enough: more fuel changes nothing -/
theorem fuel_sufficient (E : Env) (c : Conn) (f : Nat) (h : c.buf.length + 1 ≤ f) :
    dataReceivedRECORDS E f c = dataReceivedRECORDS E (c.buf.length + 1) c :=
  fuel_mono E f _ c (by omega) (by omega)

/-- However TCP fragments or coalesces the stream, the connection ends in the same state — delivered
    events, queue, buffer, counters, hung-up flag, `_error`, `loseConnection` calls — as if all bytes
    had arrived in one `dataReceived`.  `c` is any state (any readers, consumer, leftover buffer). -/
theorem chunking_invariant (E : Env) (c : Conn) (x : Bytes) (cs : List Bytes) :
    feed E c (x :: cs) = (dataReceived E c (x ++ cs.flatten)).1 :=
  feed_cons_eq E cs c x

theorem chunking_invariant_any (E : Env) (c : Conn) (cs cs' : List Bytes) (h : cs ≠ []) (h' : cs' ≠ [])
    (hf : cs.flatten = cs'.flatten) : feed E c cs = feed E c cs' := by
  cases cs with
  | nil => exact absurd rfl h
  | cons x cs =>
    cases cs' with
    | nil => exact absurd rfl h'
    | cons y cs' =>
      rw [chunking_invariant, chunking_invariant]
      simp only [List.flatten_cons] at hf
      rw [hf]

/-! ## honest runs -/

/-- what `send_record` puts on the wire for `rs`: for each record the 4-byte length, the 24-byte
    big-endian counter, the box sealed under this side's send key with that counter as nonce -/
theorem sender_wire (E : Env) (b : Bool) (rs : List Bytes) (hcount : rs.length ≤ 256 ^ 24) (hsz : SizesOK rs)
    (hid : IdealFor E.box (senderRecordKey E b) rs) :
    (sendMany E (Conn.init b) rs).2 = none ∧
    (sendMany E (Conn.init b) rs).1.app.wire = wireOf E (senderRecordKey E b) 0 rs ∧
    (sendMany E (Conn.init b) rs).1.sendNonce = rs.length := by
  obtain ⟨h1, h2, h3, _⟩ := sendMany_wire E rs (Conn.init b) (by simpa [Conn.init] using hcount) hsz
    (fun n m => hid.len_enc n m)
  refine ⟨h1, ?_, ?_⟩
  · simpa [Conn.init, App.init, App.wire] using h2
  · simpa [Conn.init] using h3

/-- **roundtrip.**  Whatever one side sends (any number of records up to the code's own `2^192`, any sizes
    the 4-byte prefix can carry), in whatever chunks the bytes arrive, the other side — in any
    application state `app0` (readers waiting, chained readers, a consumer attached, records queued) —
    ends alive with an empty buffer, counter `= |rs|`, and has handed exactly `rs`, whole and in order, to
    `recordReceived`; so exactly `rs` is appended to what the application has seen or will see.
    Both directions: `b` is the sender's role, the receiver is `!b`. -/
theorem roundtrip (E : Env) (b : Bool) (rs : List Bytes) (hcount : rs.length ≤ 256 ^ 24) (hsz : SizesOK rs)
    (hid : IdealFor E.box (senderRecordKey E b) rs) (app0 : App) (h0 : ConsInv app0)
    (cs : List Bytes) (hcs : cs.flatten = (sendMany E (Conn.init b) rs).1.app.wire) :
    let c0 : Conn := { Conn.init (!b) with app := app0 }
    feed E c0 cs = { c0 with nextReceiveNonce := rs.length, app := rs.foldl recordReceived app0 } ∧
    (feed E c0 cs).app.surfaced = app0.surfaced ++ rs := by
  intro c0
  have hkey : receiverRecordKey E c0.isSender = senderRecordKey E b := by
    simp [c0, Conn.init, sendKey_eq_peer_recvKey]
  rw [(sender_wire E b rs hcount hsz hid).2.1] at hcs
  have hfinal : (rx E { c0 with buf := wireOf E (receiverRecordKey E c0.isSender) 0 rs ++ [] }) =
      ({ c0 with nextReceiveNonce := rs.length, app := rs.foldl recordReceived app0 }, none) := by
    rw [rx_honest E [] rs 0 c0 rfl (by omega) hsz
      (by intro n m; rw [hkey]; simpa [macbytes_eq] using hid.len_enc n m)
      (by intro j hj; rw [hkey]; simpa using hid.opens j hj)]
    rw [rx_unfold]
    simp [parseFrame, c0, Conn.init]
  have hmain : feed E c0 cs = { c0 with nextReceiveNonce := rs.length, app := rs.foldl recordReceived app0 } := by
    cases cs with
    | nil =>
      -- no bytes at all: then nothing was sent
      have : rs = [] := by
        cases rs with
        | nil => rfl
        | cons r rs =>
          exfalso
          have hl := congrArg List.length hcs
          simp [wireOf, frame, beFixed_length] at hl
          omega
      subst this
      simp [feed, run, c0, Conn.init]
    | cons x cs =>
      simp only [List.flatten_cons] at hcs
      rw [chunking_invariant, hcs, dataReceived_records E (by rfl)]
      have : ({ c0 with buf := c0.buf ++ wireOf E (senderRecordKey E b) 0 rs } : Conn) =
          { c0 with buf := wireOf E (receiverRecordKey E c0.isSender) 0 rs ++ [] } := by
        rw [hkey]; simp [c0, Conn.init]
      rw [this, hfinal]
  refine ⟨hmain, ?_⟩
  rw [hmain]
  exact (foldl_recordReceived_spec rs app0 h0).1

/-! ## tampering -/

/-- **prefix.**  Let the peer have sent `rs`, and let `only the peer's sealings open under our receive
    key` (the adversary does not hold the key).  Then for *every* sequence of events — arbitrary bytes in
    arbitrary chunks (flip, delete, duplicate, swap, truncate, inject, reflect, anything), interleaved
    arbitrarily with `receive_record()`, `connectConsumer()`, `connectionLost()`, `close()` — the records
    handed to the application plus those queued are a prefix of `rs`: nothing altered, nothing out of
    order, nothing twice, nothing skipped. -/
theorem tamper_prefix (E : Env) (b : Bool) (rs : List Bytes) (hcount : rs.length ≤ 256 ^ 24)
    (hid : IdealFor E.box (receiverRecordKey E b) rs) (leftover : Bytes) (ops : List Op) :
    (run E (Conn.init b leftover) ops).app.surfaced <+: rs :=
  (run_inv E rs b hcount hid.onlyHonest ops (Conn.init b leftover) rfl (init_inv rs b leftover)).1

/-- **nonce must equal counter**, before and regardless of any cryptography: a non-empty blob whose first
    24 bytes do not decode to the receive counter is `BadNonce` even if the box would open it — so an
    authentic record replayed, reordered, or presented after a deletion is refused -/
theorem nonce_must_equal_counter (E : Env) (b : Bool) (rn : Nat) (enc : Bytes) (hne : enc ≠ [])
    (h : beDecode (enc.take 24) ≠ rn) : verdict E b rn enc = .error .badNonce :=
  verdict_badNonce E b rn enc hne h

/-- in particular the honest blob of record `i` is refused at every other position `j` (any box) -/
theorem honest_blob_elsewhere_rejected (E : Env) (b : Bool) (key : Bytes) (i j : Nat) (r : Bytes)
    (hi : i < 256 ^ 24) (hij : i ≠ j) : verdict E b j (blob E key i r) = .error .badNonce := by
  apply verdict_badNonce
  · intro h
    have := congrArg List.length h
    simp [blob, beFixed_length] at this
  · rw [blob_take, beDecode_beFixed_lt hi]; exact hij

/-- **then drop.**  The stream starts with the honest frames of `rs.take j` and continues with one
    complete frame `e` that is not the honest frame `j` (any other bytes: altered, replayed, from the
    other direction, invented, empty), followed by anything (`tail`), in any chunking.  Then exactly
    `rs.take j` was handed on, the connection is hung up with `_error` set and `loseConnection()` called
    once (the last event), and `tail` lies unparsed. -/
theorem first_bad_frame_drops (E : Env) (b : Bool) (rs : List Bytes) (hcount : rs.length ≤ 256 ^ 24)
    (hsz : SizesOK rs) (hid : IdealFor E.box (receiverRecordKey E b) rs)
    (j : Nat) (hj : j ≤ rs.length) (e tail : Bytes) (he : e.length < 256 ^ 4)
    (hbad : ∀ h : j < rs.length, e ≠ blob E (receiverRecordKey E b) j rs[j])
    (app0 : App) (x : Bytes) (cs : List Bytes)
    (hwire : x ++ cs.flatten = wireOf E (receiverRecordKey E b) 0 (rs.take j) ++ (frame e ++ tail)) :
    let c := feed E { Conn.init b with app := app0 } (x :: cs)
    c.state = .hungUp ∧ c.error.isSome ∧ c.buf = tail ∧
    c.app = ((rs.take j).foldl recordReceived app0).emit [.lose] := by
  intro c
  obtain ⟨err, herr⟩ := unsealed_rejected E b rs j e hid hcount hbad
  have hlen : (rs.take j).length = j := by simp [List.length_take]; omega
  have h := drop_at E { Conn.init b with app := app0 } (rs.take j) 0 e tail err rfl rfl rfl
    (by rw [hlen]; omega) (fun r hr => hsz r (List.mem_of_mem_take hr))
    (fun n m => hid.len_enc n m)
    (by
      intro i hi
      have hi' : i < rs.length := by rw [hlen] at hi; omega
      have h1 := hid.opens i hi'
      have h2 : (rs.take j)[i] = rs[i] := by simp [List.getElem_take]
      rw [h2, Nat.zero_add]
      exact h1)
    he (by rw [hlen, Nat.zero_add]; exact herr) x cs hwire
  obtain ⟨h1, h2, h3, h4⟩ := h
  exact ⟨h1, by rw [h2]; rfl, h3, h4⟩

/-- **hung up is final.**  Once hung up, no sequence of events whatsoever (more bytes, reads, consumers,
    loss, close) revives the connection or adds a record to what the application sees; more bytes only
    pile up in `buf`. -/
theorem hung_up_is_final (E : Env) (c : Conn) (h : c.state = .hungUp) (hc : ConsInv c.app) (ops : List Op) :
    (run E c ops).state = .hungUp ∧ (run E c ops).app.surfaced = c.app.surfaced ∧
    (run E c ops).nextReceiveNonce = c.nextReceiveNonce ∧ (run E c ops).error = c.error :=
  run_hung E ops c h hc

theorem hung_up_ignores_data (E : Env) (c : Conn) (h : c.state = .hungUp) (d : Bytes) :
    dataReceived E c d = ({ c with buf := c.buf ++ d }, none) :=
  dataReceived_hung E h d

/-- **pending reads fail.**  `connectionLost` errbacks every waiting read, in order, and the consumer's
    Deferred if one is outstanding; nothing stays waiting. -/
theorem pending_reads_fail_on_loss (a : App) :
    (connectionLost a).waiting = [] ∧
    ∃ tailEvs, (connectionLost a).log = a.log ++ a.waiting.map (fun (d : Reader) => Ev.failed d.id) ++ tailEvs ∧
      (tailEvs = [.cfail] ↔ ∃ w n, a.consumer = some ⟨w, some n⟩) ∧ (tailEvs = [] ∨ tailEvs = [.cfail]) := by
  unfold connectionLost
  simp only
  split
  · rename_i w n heq
    exact ⟨rfl, [.cfail], by simp [App.emit], ⟨fun _ => ⟨w, n, heq⟩, fun _ => rfl⟩, .inr rfl⟩
  · rename_i hno
    refine ⟨rfl, [], by simp, ⟨fun h => by simp at h, fun ⟨w, n, h⟩ => absurd h (hno w n)⟩, .inl rfl⟩

/-! ## consumer mode -/

set_option linter.unusedSimpArgs false in
/-- **consumer mode, same bytes.**  Attach a consumer expecting `N > 0` bytes to a fresh connection and let
    the honest stream of `rs` arrive in any chunking.  The consumer is given `rs.take k`, record by record
    (so its file holds the concatenation of exactly that prefix); either the threshold is never reached
    (`k = |rs|`, total `< N`, Deferred still pending) or the Deferred fires exactly once, with the byte count
    written, at the first record that brings the total to `≥ N`; the records after it are not lost: all
    of `rs` is surfaced, in order (`rs.drop k` is queued for `receive_record`). -/
theorem consumer_mode_same_bytes (E : Env) (b : Bool) (rs : List Bytes) (hcount : rs.length ≤ 256 ^ 24)
    (hsz : SizesOK rs) (hid : IdealFor E.box (senderRecordKey E b) rs) (N : Nat) (hN : 0 < N)
    (cs : List Bytes) (hcs : cs.flatten = (sendMany E (Conn.init b) rs).1.app.wire) :
    let c := feed E (step E (Conn.init (!b)) (.consume (some N))) cs
    c.state = .records ∧ c.app.surfaced = rs ∧
    ∃ k, k ≤ rs.length ∧ c.app.consumerWrites = rs.take k ∧
      ((k = rs.length ∧ rs.flatten.length < N ∧ c.app.dones = [] ∧
          c.app.consumer = some ⟨(rs.take k).flatten.length, some N⟩) ∨
       (0 < k ∧ (rs.take (k - 1)).flatten.length < N ∧ N ≤ (rs.take k).flatten.length ∧
          c.app.dones = [(rs.take k).flatten.length] ∧ c.app.consumer = none)) := by
  intro c
  let a1 : App := { App.init with consumer := some ⟨0, some N⟩, log := [.reg] }
  have hne : (some N = some 0) = False := by simp; omega
  have happ : (connectConsumer App.init (some N)).1 = a1 := by
    simp [connectConsumer, App.init, hne, drain, a1]
  have hstep : step E (Conn.init (!b)) (.consume (some N)) = { Conn.init (!b) with app := a1 } := by
    simp only [step, Conn.init]; rw [happ]
  have hci : ConsInv a1 := by intro _; rfl
  obtain ⟨r1, r2⟩ := roundtrip E b rs hcount hsz hid a1 hci cs hcs
  simp only at r1 r2
  have hc : c = { Conn.init (!b) with nextReceiveNonce := rs.length, app := rs.foldl recordReceived a1 } := by
    show feed E (step E (Conn.init (!b)) (.consume (some N))) cs = _
    rw [hstep]; exact r1
  obtain ⟨k, hk, e1, e2⟩ := consumer_fold N rs a1 0 rfl hN
  refine ⟨by rw [hc]; rfl, ?_, k, hk, ?_, ?_⟩
  · have : c.app.surfaced = a1.surfaced ++ rs := by
      show (feed E (step E (Conn.init (!b)) (.consume (some N))) cs).app.surfaced = _
      rw [hstep]; exact r2
    rw [this]; simp [App.surfaced, App.delivered, App.init, Ev.payload, a1]
  · rw [hc]; simp only; rw [e1]; simp [App.consumerWrites, App.init, Ev.cw, a1]
  · rw [hc]; simp only
    rcases e2 with ⟨f1, f2, f3, f4⟩ | ⟨f1, f2, f3, f4, f5⟩
    · refine .inl ⟨f2, by simpa using f3, ?_, ?_⟩
      · rw [f4]; simp [App.dones, App.init, Ev.doneVal, a1]
      · rw [f1]; simp
    · refine .inr ⟨f2, by simpa using f3, by simpa using f4, ?_, f1⟩
      rw [f5]; simp [App.dones, App.init, Ev.doneVal, a1]

/-! ## the hypotheses are satisfiable, on non-trivial states -/

/-- for every key and every history there is a box that is ideal for them -/
theorem ideal_box_exists (k0 : Bytes) (rs : List Bytes) : ∃ B : Box, IdealFor B k0 rs :=
  ⟨idealBox k0 rs, idealBox_ideal k0 rs⟩

/-- a concrete world: S sends three records (one empty) to R -/
def exRs : List Bytes := [[1, 2, 3], [], [9]]
def exKey : Bytes := Gen.C06.ctx_sender_sendkey
def exEnv : Env := { box := idealBox exKey exRs, hkdf := fun _ _ info => info, transitKey := [7] }

example : IdealFor exEnv.box (senderRecordKey exEnv true) exRs := idealBox_ideal _ _
example : IdealFor exEnv.box (receiverRecordKey exEnv false) exRs := idealBox_ideal _ _
example : SizesOK exRs := by intro r hr; simp [exRs] at hr; rcases hr with rfl | rfl | rfl <;> simp

/-- honest run, bytes arriving one at a time, two chained reads: all three records fire in order -/
example :
    let wire := (sendMany exEnv (Conn.init true) exRs).1.app.wire
    let c := feed exEnv (step exEnv (Conn.init false) (.read 2)) (wire.map fun x => [x])
    c.app.log = [.fired 0 [1, 2, 3], .fired 1 [], .fired 2 [9]] ∧ c.state = .records ∧ c.buf = [] := by decide +kernel

/-- record 1 deleted from the stream: record 0 is delivered, then `BadNonce`, hung up, `loseConnection` -/
example :
    let k := senderRecordKey exEnv true
    let wire := frame (blob exEnv k 0 [1, 2, 3]) ++ frame (blob exEnv k 2 [9])
    let c := feed exEnv (step exEnv (Conn.init false) (.read 2)) [wire]
    c.app.log = [.fired 0 [1, 2, 3], .lose] ∧ c.state = .hungUp ∧ c.error = some .badNonce := by decide +kernel

/-- one byte of record 1's body altered: `CryptoError`, hung up; the waiting read then fails on loss -/
example :
    let k := senderRecordKey exEnv true
    let wire := frame (blob exEnv k 0 [1, 2, 3]) ++ frame (beFixed 24 1 ++ List.replicate 16 0 ++ [5]) ++
                frame (blob exEnv k 2 [9])
    let c := run exEnv (Conn.init false) [.read 2, .data wire, .lost]
    c.app.log = [.fired 0 [1, 2, 3], .lose, .failed 1] ∧ c.error = some .cryptoError ∧
    c.app.surfaced = [[1, 2, 3]] := by decide +kernel

/-- consumer expecting 3 bytes: gets record 0, fires with 3; the other two records stay queued -/
example :
    let wire := (sendMany exEnv (Conn.init true) exRs).1.app.wire
    let c := feed exEnv (step exEnv (Conn.init false) (.consume (some 3))) [wire]
    c.app.log = [.reg, .cwrite [1, 2, 3], .unreg, .cdone 3] ∧ c.app.inbound = [[], [9]] := by decide +kernel

end WV.Props.C06
