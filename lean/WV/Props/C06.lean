import WV.Model.C06
import WV.Gen.Skel
import WV.Proofs.C06
import WV.Proofs.C06_App
import WV.Proofs.C06_Order
import WV.Proofs.C06_Inv
import WV.Proofs.C06_Nonce
import WV.Proofs.C06_Cons
import WV.Proofs.C06_Hold

/-!
C06 — Transit delivers exactly the records sent, or drops the connection.

All theorems are about the definitions the driver executes (`WV.C06.dataReceived`, `sendRecord`,
`recordReceived`, …) for an arbitrary `Env` (box, hkdf, transit key); none bounds the number or size of
records, the number of chunks, or the length of the history, beyond what the code itself asserts
(`send_nonce < 2^192`, `len(record) + 40 < 2^32`).

`E.box` is never assumed ideal globally: each theorem names the `IdealFor` instance (key, history) it
needs; `idealBox_ideal` shows that hypothesis satisfiable for every key and every history.
-/
namespace WV.Props.C06
open WV WV.C06

/-! ## tie to the source: call skeletons and protocol constants as regenerated from /repo -/

/-- the call structure the model mirrors is the one the translator finds in `transit.Connection` today -/
theorem skeleton_agrees : ∀ m ∈ skeletonMethods, modelSkeleton m = Gen.C06.skeleton m := by decide

def ascii (s : String) : Bytes := s.toList.map Char.toNat

/-- the four key derivations use the two documented `CTXinfo`s, crosswise, with 32-byte keys; the nonce is
    24 bytes, the MAC 16 -/
theorem record_keys_match_spec :
    Gen.C06.ctx_sender_sendkey = ascii "transit_record_sender_key" ∧
    Gen.C06.ctx_sender_recvkey = ascii "transit_record_receiver_key" ∧
    Gen.C06.ctx_receiver_sendkey = ascii "transit_record_receiver_key" ∧
    Gen.C06.ctx_receiver_recvkey = ascii "transit_record_sender_key" ∧
    Gen.C06.len_sender_sendkey = 32 ∧ Gen.C06.len_sender_recvkey = 32 ∧
    Gen.C06.len_receiver_sendkey = 32 ∧ Gen.C06.len_receiver_recvkey = 32 ∧
    Gen.C06.NONCE_SIZE = 24 ∧ Gen.C06.MACBYTES = 16 ∧ Gen.C06.KEY_SIZE = 32 ∧
    Gen.C06.is_sender_sender = true ∧ Gen.C06.is_sender_receiver = false := by decide

/-! ## directions -/

/-- what one side seals with is what the other side opens with … -/
theorem peer_keys_agree (E : Env) (b : Bool) : senderRecordKey E b = receiverRecordKey E (!b) :=
  sendKey_eq_peer_recvKey E b

/-- … and never what it opens with itself: the two directions have different keys (dies if the two
    `CTXinfo`s are merged or swapped in one method only), so a reflected record is a forgery for the
    direction it comes back on and falls under `tamper_prefix` / `first_bad_frame_drops` -/
theorem directions_separated (E : Env) (hk : HkdfInjective E.hkdf) (b : Bool) :
    senderRecordKey E b ≠ receiverRecordKey E b := by
  intro h
  cases b with
  | true =>
    have := hk _ _ _ _ h
    revert this; decide
  | false =>
    have := hk _ _ _ _ h
    revert this; decide

example : HkdfInjective (fun _ _ info => info) := fun _ _ _ _ h => h

/-! ## framing: fuel and chunking -/

/-- `buf.length + 1` turns of the receive loop are enough: more fuel changes nothing -/
theorem fuel_sufficient (E : Env) (c : Conn) (f : Nat) (h : c.buf.length + 1 ≤ f) :
    dataReceivedRECORDS E f c = dataReceivedRECORDS E (c.buf.length + 1) c :=
  fuel_mono E f _ c (by omega) (by omega)

/-- However TCP fragments or coalesces the stream, the connection ends in the same state — delivered
    events, queue, buffer, counters, hung-up flag, `_error`, `loseConnection` calls — as if all bytes
    had arrived in one `dataReceived`.  `c` is any state (any readers, consumer, leftover buffer). -/
theorem chunking_invariant (E : Env) (c : Conn) (x : Bytes) (cs : List Bytes) :
    feed E c (x :: cs) = (dataReceived E c (x ++ cs.flatten)).1 :=
  feed_cons_eq E cs c x

theorem chunking_invariant_any (E : Env) (c : Conn) (cs cs' : List Bytes) (h : cs ≠ []) (h' : cs' ≠ [])
    (hf : cs.flatten = cs'.flatten) : feed E c cs = feed E c cs' := by
  cases cs with
  | nil => exact absurd rfl h
  | cons x cs =>
    cases cs' with
    | nil => exact absurd rfl h'
    | cons y cs' =>
      rw [chunking_invariant, chunking_invariant]
      simp only [List.flatten_cons] at hf
      rw [hf]

/-! ## honest runs -/

/-- what `send_record` puts on the wire for `rs`: for each record the 4-byte length, the 24-byte
    big-endian counter, the box sealed under this side's send key with that counter as nonce -/
theorem sender_wire (E : Env) (b : Bool) (rs : List Bytes) (hcount : rs.length ≤ 256 ^ 24) (hsz : SizesOK rs)
    (hid : IdealFor E.box (senderRecordKey E b) rs) :
    (sendMany E (Conn.init b) rs).2 = none ∧
    (sendMany E (Conn.init b) rs).1.app.wire = wireOf E (senderRecordKey E b) 0 rs ∧
    (sendMany E (Conn.init b) rs).1.sendNonce = rs.length :=
  sender_wire_core E b rs hcount hsz hid

/-- **roundtrip.**  Whatever one side sends (any number of records up to the code's own `2^192`, any sizes
    the 4-byte prefix can carry), in whatever chunks the bytes arrive, the other side — in any
    application state `app0` (readers waiting, chained readers, a consumer attached, records queued) —
    ends alive with an empty buffer, counter `= |rs|`, and has handed exactly `rs`, whole and in order, to
    `recordReceived`; so exactly `rs` is appended to what the application has seen or will see.
    Both directions: `b` is the sender's role, the receiver is `!b`. -/
theorem roundtrip (E : Env) (b : Bool) (rs : List Bytes) (hcount : rs.length ≤ 256 ^ 24) (hsz : SizesOK rs)
    (hid : IdealFor E.box (senderRecordKey E b) rs) (app0 : App) (h0 : ConsInv app0)
    (cs : List Bytes) (hcs : cs.flatten = (sendMany E (Conn.init b) rs).1.app.wire) :
    let c0 : Conn := { Conn.init (!b) with app := app0 }
    feed E c0 cs = { c0 with nextReceiveNonce := rs.length, app := rs.foldl recordReceived app0 } ∧
    (feed E c0 cs).app.surfaced = app0.surfaced ++ rs := by
  intro c0
  have hmain := roundtrip_core E b rs hcount hsz hid app0 cs hcs
  refine ⟨hmain, ?_⟩
  show (feed E { Conn.init (!b) with app := app0 } cs).app.surfaced = _
  rw [hmain]
  exact (foldl_recordReceived_spec rs app0 h0).1

/-! ## application callbacks that re-enter the connection -/

/-- **the call stack always unwinds** (fuel sufficiency for `runAgenda`): whatever the callbacks do —
    read again, attach / detach / re-attach consumers, close, nested to any depth — `potential a ag` steps
    empty the stack, and more fuel changes nothing: `settle` is the state Python reaches. -/
theorem agenda_fuel_sufficient (a : App) (ag : List Frame) (fuel : Nat) (h : potential a ag ≤ fuel) :
    runAgenda fuel a ag = (settle a ag, []) := by
  have h1 := runAgenda_more (potential a ag) fuel a ag (Nat.le_refl _) h
  have h2 := runAgenda_empties (potential a ag) a ag (Nat.le_refl _)
  rw [h1]
  exact Prod.ext rfl h2

/-- **FIFO at every step**, also in the middle of a callback: one step of the call stack — an
    iteration of `_deliverRecords`' or `connectConsumer`'s loop, one API call of a callback, the
    attaching of a callback to a Deferred that may have fired meanwhile — leaves `handed out ++ queued`
    as it was: a record leaves the queue only from its head, to the reader or consumer that is next,
    and a consumer sits over a non-empty queue only while `connectConsumer` is still draining it. -/
theorem fifo_at_every_step (a : App) (fr : Frame) (ag : List Frame) (h : DrainInv a (fr :: ag)) :
    (appStep a fr).1.surfaced = a.surfaced ∧ DrainInv (appStep a fr).1 ((appStep a fr).2 ++ ag) :=
  appStep_spec a fr ag h

/-- … hence for a whole API call made by the application, whatever callbacks it sets off: nothing is
    lost, duplicated or reordered, and afterwards a consumer is attached only over an empty queue (so the
    next arriving record cannot overtake a queued one) -/
theorem api_call_keeps_order (a : App) (acts : List Act) (h : ConsInv a) :
    (appCall a acts).surfaced = a.surfaced ∧ ConsInv (appCall a acts) :=
  appCall_spec a acts h

/-- … and for an arriving record: it is appended behind everything handed out or queued before -/
theorem arrival_keeps_order (a : App) (r : Bytes) (h : ConsInv a) :
    (recordReceived a r).surfaced = a.surfaced ++ [r] ∧ ConsInv (recordReceived a r) :=
  recordReceived_spec a r h

/-- **reads are served in the order they were issued**, whatever arrives and whatever callbacks do:
    the ids (= issue order) of the read Deferreds that `_deliverRecords` calls back, in the order in which
    their records left the connection, followed by the ids of the reads still waiting, are strictly
    increasing.  Together with `delivery_exact` / `tamper_prefix`: the i-th read to be served is the i-th
    issued among those served and obtains the next record of the stream. -/
theorem reads_served_in_issue_order (E : Env) (b : Bool) (leftover : Bytes) (ops : List Op) :
    ((run E (Conn.init b leftover) ops).app.assignedIds ++ ids (run E (Conn.init b leftover) ops).app.waiting).Pairwise
      (· < ·) :=
  (run_order E ops (Conn.init b leftover) init_order).1

/-- **a backlog of any size is kept whole.**  The honest stream of `rs` — however many records — arrives
    before the application has read anything or attached a consumer: every record is parked, in order, none
    is discarded; whatever the application does afterwards is covered by `delivery_exact`.  (The model's queue
    is a list without capacity; `parked_queue_unbounded` ties that to the container the code builds.) -/
theorem backlog_kept_whole (E : Env) (b : Bool) (rs : List Bytes) (hcount : rs.length ≤ 256 ^ 24) (hsz : SizesOK rs)
    (hid : IdealFor E.box (senderRecordKey E b) rs)
    (cs : List Bytes) (hcs : cs.flatten = (sendMany E (Conn.init b) rs).1.app.wire) :
    (feed E (Conn.init (!b)) cs).app.inbound = rs ∧ (feed E (Conn.init (!b)) cs).app.delivered = [] ∧
    (feed E (Conn.init (!b)) cs).state = .records := by
  have h := roundtrip_core E b rs hcount hsz hid App.init cs hcs
  have h0 : ({ Conn.init (!b) with app := App.init } : Conn) = Conn.init (!b) := rfl
  rw [h0] at h
  rw [h]
  obtain ⟨_, _, _, g4⟩ := foldl_idle rs App.init rfl rfl
  have hs := (foldl_recordReceived_spec rs App.init (by intro hc; rfl)).1
  refine ⟨by simpa [App.init] using g4, ?_, rfl⟩
  have g4' : (rs.foldl recordReceived App.init).inbound = rs := by simpa [App.init] using g4
  simp only [App.surfaced, g4'] at hs
  have : (rs.foldl recordReceived App.init).delivered ++ rs = [] ++ rs := by
    simpa [App.init, App.delivered] using hs
  exact List.append_cancel_right this

/-- **flow control only forwards to the transport.**  In the call skeletons regenerated from /repo,
    `Connection.pauseProducing` / `resumeProducing` / `stopProducing` make exactly one call each, on the
    transport — in particular `resumeProducing` does not run the record parser itself, outside `dataReceived`'s
    catch-all — and in the model a `pause` / `resume` made by the application (at top level, from a read
    callback, from a consumer-Deferred callback, or by a flow-controlled consumer inside `write()`) changes
    nothing but the transport-call trace.  So `tamper_prefix`, `delivery_exact`, `first_bad_frame_drops`,
    `reads_served_in_issue_order`, … — which quantify over *all* scripts, `pause`, `resume` and `consumeFC`
    included — hold unchanged under any back-pressure: a manipulated frame is judged by `dataReceived` whether
    or not the receiver was paused when it arrived. -/
theorem flow_control_only_forwards :
    Gen.Skel.skeleton "Connection.pauseProducing" = [("-", "transport.pauseProducing")] ∧
    Gen.Skel.skeleton "Connection.resumeProducing" = [("-", "transport.resumeProducing")] ∧
    Gen.Skel.skeleton "Connection.stopProducing" = [("-", "transport.stopProducing")] ∧
    (∀ a : App, appCall a [.pause] = a.emit [.tpause]) ∧ (∀ a : App, appCall a [.resume] = a.emit [.tresume]) := by
  refine ⟨by decide, by decide, by decide, ?_, ?_⟩
  · intro a
    have hp : potential a [.script [.pause]] =
        (2 * a.inbound.length + (a.waiting.map (fun d => szOpt d.cb)).sum + consumerWeight a.consumer) + 3 := by
      simp [potential, agendaWeight, Frame.weight, szList, Act.sz]
    simp only [appCall, settle, hp]
    simp [runAgenda, appStep]
  · intro a
    have hp : potential a [.script [.resume]] =
        (2 * a.inbound.length + (a.waiting.map (fun d => szOpt d.cb)).sum + consumerWeight a.consumer) + 3 := by
      simp [potential, agendaWeight, Frame.weight, szList, Act.sz]
    simp only [appCall, settle, hp]
    simp [runAgenda, appStep]

/-- the wire side (buffer, counters, state, `_error`) after any run is that of feeding the run's bytes
    alone: no read, consumer, callback or loss report influences what is accepted -/
theorem wire_side_independent (E : Env) (ops : List Op) (c : Conn) :
    ∃ a', run E c ops = { feed E c (dataOf ops) with app := a' } :=
  run_wire E ops c c.app

/-- **delivery, exactly** (every interleaving).  The honest stream of `rs` arrives in any chunks,
    interleaved in any way with any application activity — reads, pipelined reads, reads issued from inside
    read callbacks, consumers attached mid-stream over queued records or outstanding reads, detached,
    re-attached from their own Deferred's callback, loss reports.  Afterwards the connection is alive with
    an empty buffer, and the records obtained by reads and consumers, in the order they left the
    connection, followed by those still queued, are exactly `rs`: each whole, once, in order. -/
theorem delivery_exact (E : Env) (b : Bool) (rs : List Bytes) (hcount : rs.length ≤ 256 ^ 24) (hsz : SizesOK rs)
    (hid : IdealFor E.box (senderRecordKey E b) rs) (ops : List Op)
    (hdata : (dataOf ops).flatten = (sendMany E (Conn.init b) rs).1.app.wire) :
    (run E (Conn.init (!b)) ops).app.surfaced = rs ∧ (run E (Conn.init (!b)) ops).state = .records ∧
    (run E (Conn.init (!b)) ops).buf = [] ∧ (run E (Conn.init (!b)) ops).nextReceiveNonce = rs.length :=
  delivery_exact_core E b rs hcount hsz hid ops hdata

/-! ## tampering -/

/-- **prefix.**  Let the peer have sent `rs`, and let `only the peer's sealings open under our receive
    key` (the adversary does not hold the key).  Then for *every* sequence of events — arbitrary bytes in
    arbitrary chunks (flip, delete, duplicate, swap, truncate, inject, reflect, anything), interleaved
    arbitrarily with application calls and re-entrant callbacks (`receive_record()`, `connectConsumer()`,
    `disconnectConsumer()`, `close()`) and `connectionLost()` — the records
    handed to the application plus those queued are a prefix of `rs`: nothing altered, nothing out of
    order, nothing twice, nothing skipped. -/
theorem tamper_prefix (E : Env) (b : Bool) (rs : List Bytes) (hcount : rs.length ≤ 256 ^ 24)
    (hid : IdealFor E.box (receiverRecordKey E b) rs) (leftover : Bytes) (ops : List Op) :
    (run E (Conn.init b leftover) ops).app.surfaced <+: rs :=
  (run_inv E rs b hcount hid.onlyHonest ops (Conn.init b leftover) rfl (init_inv rs b leftover)).1

/-- **prefix, with a transport that holds bytes back.**  The transport keeps what arrives while paused and hands
    it to `dataReceived` *synchronously* from `resumeProducing()` — called by the application, or by a consumer
    from inside its `registerProducer()` while `connectConsumer` is still running.  Because `connectConsumer`
    registers the producer *before* it sets `_consumer`, whatever those held bytes yield is queued behind the
    records already queued, and the consumer then gets all of them in order: for every schedule of arrivals,
    holds, resumes, "ready" consumers, application calls and losses, and any bytes whatsoever, what was handed
    out plus what is queued is a prefix of what the peer sent. -/
theorem holding_transport_prefix (E : Env) (b : Bool) (rs : List Bytes) (hcount : rs.length ≤ 256 ^ 24)
    (hid : IdealFor E.box (receiverRecordKey E b) rs) (leftover : Bytes) (ops : List HOp) :
    (hrun E { c := Conn.init b leftover, held := [] } ops).c.app.surfaced <+: rs :=
  (hrun_inv E rs b hcount hid.onlyHonest ops { c := Conn.init b leftover, held := [] } rfl (init_inv rs b leftover)).1

/-- **nonce must equal counter**, before and regardless of any cryptography: a non-empty blob whose first
    24 bytes do not decode to the receive counter is `BadNonce` even if the box would open it — so an
    authentic record replayed, reordered, or presented after a deletion is refused -/
theorem nonce_must_equal_counter (E : Env) (b : Bool) (rn : Nat) (enc : Bytes) (hne : enc ≠ [])
    (h : beDecode (enc.take 24) ≠ rn) : verdict E b rn enc = .error .badNonce :=
  verdict_badNonce E b rn enc hne h

/-- in particular the honest blob of record `i` is refused at every other position `j` (any box) -/
theorem honest_blob_elsewhere_rejected (E : Env) (b : Bool) (key : Bytes) (i j : Nat) (r : Bytes)
    (hi : i < 256 ^ 24) (hij : i ≠ j) : verdict E b j (blob E key i r) = .error .badNonce := by
  apply verdict_badNonce
  · intro h
    have := congrArg List.length h
    simp [blob, beFixed_length] at this
  · rw [blob_take, beDecode_beFixed_lt hi]; exact hij

/-- **nonce discipline, byte by byte** (keyed on the generated `NONCE_SIZE`): whatever
    `_decrypt_record` accepts at counter `rn` has, as its first `NONCE_SIZE` bytes, exactly the big-endian
    encoding of `rn` — all 24 of them, for any box.  (A check of the low-order bytes only, or decrypting
    under a nonce rebuilt from the counter, breaks this line or the correspondence.) -/
theorem accepted_nonce_is_counter (E : Env) (b : Bool) (rn : Nat) (enc r : Bytes)
    (h : verdict E b rn enc = .ok r) (hwf : WFBytes (enc.take Gen.C06.NONCE_SIZE)) :
    enc.take Gen.C06.NONCE_SIZE = beFixed Gen.C06.NONCE_SIZE rn ∧ Gen.C06.NONCE_SIZE = 24 :=
  ⟨accepted_nonce_is_counter_core E b rn enc r h hwf, rfl⟩

/-- … and with the ideal AEAD the whole accepted blob — nonce, MAC and ciphertext — is byte for byte the one
    the peer sealed for this position: a byte altered anywhere in it means rejection -/
theorem accepted_blob_is_the_sealed_one (E : Env) (b : Bool) (rs : List Bytes) (j : Nat) (e r : Bytes)
    (hid : IdealFor E.box (receiverRecordKey E b) rs) (hcount : rs.length ≤ 256 ^ 24)
    (h : verdict E b j e = .ok r) :
    ∃ hj : j < rs.length, e = blob E (receiverRecordKey E b) j rs[j] ∧ r = rs[j] :=
  accepted_is_honest_blob E b rs j e r hid hcount h

/-- **a stream that leaves the honest one anywhere.**  After the honest frames of `rs.take j` the bytes go
    on with `rest`, which does not begin with the honest frame `j`.  In any chunking, into any application
    state: exactly `rs.take j` is handed on — record `j` and everything after it never — and if `rest` holds a
    complete frame the connection is hung up, else it waits with `rest` buffered. -/
theorem diverging_stream_stops (E : Env) (b : Bool) (rs : List Bytes) (hcount : rs.length ≤ 256 ^ 24)
    (hsz : SizesOK rs) (hid : IdealFor E.box (receiverRecordKey E b) rs)
    (j : Nat) (hj : j ≤ rs.length) (rest : Bytes) (hwf : WFBytes rest)
    (hdiv : ∀ h : j < rs.length, ¬ (frame (blob E (receiverRecordKey E b) j rs[j]) <+: rest))
    (app0 : App) (h0 : ConsInv app0) (x : Bytes) (cs : List Bytes)
    (hwire : x ++ cs.flatten = wireOf E (receiverRecordKey E b) 0 (rs.take j) ++ rest) :
    (feed E { Conn.init b with app := app0 } (x :: cs)).app.surfaced = app0.surfaced ++ rs.take j ∧
    ((parseFrame rest).isSome = true → (feed E { Conn.init b with app := app0 } (x :: cs)).state = .hungUp) ∧
    ((parseFrame rest).isSome = false → (feed E { Conn.init b with app := app0 } (x :: cs)).state = .records ∧
        (feed E { Conn.init b with app := app0 } (x :: cs)).buf = rest) :=
  diverging_stream_core E b rs hcount hsz hid j hj rest hwf hdiv app0 h0 x cs hwire

/-- **one altered byte, anywhere in a frame** — length prefix, any of the 24 nonce bytes, MAC, ciphertext:
    byte `q` of the honest frame `j` replaced by a different value, anything behind it.  Records `0..j-1` are
    handed on and nothing else, ever; the connection hangs up as soon as a complete frame is there. -/
theorem altered_byte_anywhere_stops (E : Env) (b : Bool) (rs : List Bytes) (hcount : rs.length ≤ 256 ^ 24)
    (hsz : SizesOK rs) (hid : IdealFor E.box (receiverRecordKey E b) rs)
    (j : Nat) (hj : j < rs.length) (q v : Nat) (tail : Bytes)
    (hq : q < (frame (blob E (receiverRecordKey E b) j rs[j])).length)
    (hv : v ≠ (frame (blob E (receiverRecordKey E b) j rs[j]))[q])
    (hwf : WFBytes ((frame (blob E (receiverRecordKey E b) j rs[j])).set q v ++ tail))
    (app0 : App) (h0 : ConsInv app0) (x : Bytes) (cs : List Bytes)
    (hwire : x ++ cs.flatten = wireOf E (receiverRecordKey E b) 0 (rs.take j) ++
      ((frame (blob E (receiverRecordKey E b) j rs[j])).set q v ++ tail)) :
    (feed E { Conn.init b with app := app0 } (x :: cs)).app.surfaced = app0.surfaced ++ rs.take j ∧
    ((parseFrame ((frame (blob E (receiverRecordKey E b) j rs[j])).set q v ++ tail)).isSome = true →
      (feed E { Conn.init b with app := app0 } (x :: cs)).state = .hungUp) := by
  have h := diverging_stream_core E b rs hcount hsz hid j (Nat.le_of_lt hj) _ hwf
    (fun _ => altered_frame_diverges _ tail q v hq hv) app0 h0 x cs hwire
  exact ⟨h.1, h.2.1⟩

/-- **then drop.**  The stream starts with the honest frames of `rs.take j` and continues with one
    complete frame `e` that is not the honest frame `j` (any other bytes: altered, replayed, from the
    other direction, invented, empty), followed by anything (`tail`), in any chunking.  Then exactly
    `rs.take j` was handed on, the connection is hung up with `_error` set and `loseConnection()` called
    once (the last event), and `tail` lies unparsed. -/
theorem first_bad_frame_drops (E : Env) (b : Bool) (rs : List Bytes) (hcount : rs.length ≤ 256 ^ 24)
    (hsz : SizesOK rs) (hid : IdealFor E.box (receiverRecordKey E b) rs)
    (j : Nat) (hj : j ≤ rs.length) (e tail : Bytes) (he : e.length < 256 ^ 4)
    (hbad : ∀ h : j < rs.length, e ≠ blob E (receiverRecordKey E b) j rs[j])
    (app0 : App) (x : Bytes) (cs : List Bytes)
    (hwire : x ++ cs.flatten = wireOf E (receiverRecordKey E b) 0 (rs.take j) ++ (frame e ++ tail)) :
    let c := feed E { Conn.init b with app := app0 } (x :: cs)
    c.state = .hungUp ∧ c.error.isSome ∧ c.buf = tail ∧
    c.app = ((rs.take j).foldl recordReceived app0).emit [.lose] := by
  intro c
  obtain ⟨err, herr⟩ := unsealed_rejected E b rs j e hid hcount hbad
  have hlen : (rs.take j).length = j := by simp [List.length_take]; omega
  have h := drop_at E { Conn.init b with app := app0 } (rs.take j) 0 e tail err rfl rfl rfl
    (by rw [hlen]; omega) (fun r hr => hsz r (List.mem_of_mem_take hr))
    (fun n m => hid.len_enc n m)
    (by
      intro i hi
      have hi' : i < rs.length := by rw [hlen] at hi; omega
      have h1 := hid.opens i hi'
      have h2 : (rs.take j)[i] = rs[i] := by simp [List.getElem_take]
      rw [h2, Nat.zero_add]
      exact h1)
    he (by rw [hlen, Nat.zero_add]; exact herr) x cs hwire
  obtain ⟨h1, h2, h3, h4⟩ := h
  exact ⟨h1, by rw [h2]; rfl, h3, h4⟩

/-- **hung up is final.**  Once hung up, no sequence of events whatsoever (more bytes, reads, consumers,
    loss, close) revives the connection or adds a record to what the application sees; more bytes only
    pile up in `buf`. -/
theorem hung_up_is_final (E : Env) (c : Conn) (h : c.state = .hungUp) (hc : ConsInv c.app) (ops : List Op) :
    (run E c ops).state = .hungUp ∧ (run E c ops).app.surfaced = c.app.surfaced ∧
    (run E c ops).nextReceiveNonce = c.nextReceiveNonce ∧ (run E c ops).error = c.error :=
  run_hung E ops c h hc

theorem hung_up_ignores_data (E : Env) (c : Conn) (h : c.state = .hungUp) (d : Bytes) :
    dataReceived E c d = ({ c with buf := c.buf ++ d }, none) :=
  dataReceived_hung E h d

/-- **pending reads fail.**  `connectionLost` leaves nothing waiting: every waiting read is errbacked —
    its errback runs (`failed`), or, if the application has not attached one yet, the failure waits in the
    Deferred — and so is the consumer's Deferred if one is outstanding. -/
theorem pending_reads_fail_on_loss (a : App) :
    (connectionLost a).waiting = [] ∧
    (∀ d ∈ a.waiting, (d.cb.isSome = true → Ev.failed d.id ∈ (connectionLost a).log) ∧
        (d.cb = none → (d.id, none) ∈ (connectionLost a).storedReads)) ∧
    ((∃ cid w n cb, a.consumer = some ⟨cid, w, some n, cb⟩) → Ev.cfail ∈ (connectionLost a).log) :=
  connectionLost_fails_all a

/-- **`connectionLost` does not look at its `reason`.**  In the call skeleton regenerated from /repo no call is
    made on `reason` (`reason.check(…)`, `reason.trap(…)`, …), the consumer's Deferred is only ever *errbacked*
    there, and no Deferred is called back — so the model's `connectionLostR` may ignore the reason: a FIN
    (`ConnectionDone`) cut into the stream anywhere by someone without the key fails the pending consumer-mode
    read exactly like a reset does (`pending_reads_fail_on_loss`); it never completes it with a short count. -/
theorem connectionLost_ignores_reason :
    (∀ p ∈ Gen.C06.skeleton "connectionLost", p.2 ∈ ["self.setTimeout", "error.ConnectionClosed", "d.errback",
        "BadHandshake", "_consumer_deferred.errback"]) ∧
    ("if", "_consumer_deferred.errback") ∈ Gen.C06.skeleton "connectionLost" ∧
    ∀ (a : App) (r : LossReason), connectionLostR a r = connectionLost a := by
  refine ⟨by decide, by decide, fun _ _ => rfl⟩

/-! ## consumer mode -/

set_option linter.unusedSimpArgs false in
/-- **consumer mode, same bytes.**  Attach a consumer expecting `N > 0` bytes to a fresh connection and let
    the honest stream of `rs` arrive in any chunking.  The consumer is given `rs.take k`, record by record
    (so its file holds the concatenation of exactly that prefix); either the threshold is never reached
    (`k = |rs|`, total `< N`, Deferred still pending) or the Deferred fires exactly once, with the byte count
    written, at the first record that brings the total to `≥ N`; the records after it are not lost:
    `rs.drop k` is queued, in order, for `receive_record`.  (This is the fresh-connection instance.  Consumers
    attached in any reachable state — over a backlog of queued records, with reads served or outstanding, after
    earlier consumers that finished or were disconnected by the application, from inside callbacks — with any
    callback script on the Deferred: `consumer_threshold_exact`, `consumer_mode_same_bytes_anywhere`,
    `connectConsumer_over_backlog_reached`, … in `WV.Props.C06_Thresh`.) -/
theorem consumer_mode_same_bytes (E : Env) (b : Bool) (rs : List Bytes) (hcount : rs.length ≤ 256 ^ 24)
    (hsz : SizesOK rs) (hid : IdealFor E.box (senderRecordKey E b) rs) (N : Nat) (hN : 0 < N)
    (cs : List Bytes) (hcs : cs.flatten = (sendMany E (Conn.init b) rs).1.app.wire) :
    let c := feed E (step E (Conn.init (!b)) (.call [.consume (some N) []])) cs
    c.state = .records ∧ c.app.surfaced = rs ∧
    ∃ k, k ≤ rs.length ∧ c.app.consumerWrites = rs.take k ∧ c.app.inbound = rs.drop k ∧
      ((k = rs.length ∧ rs.flatten.length < N ∧ c.app.dones = [] ∧
          c.app.consumer = some ⟨0, (rs.take k).flatten.length, some N, some []⟩) ∨
       (0 < k ∧ (rs.take (k - 1)).flatten.length < N ∧ N ≤ (rs.take k).flatten.length ∧
          c.app.dones = [(rs.take k).flatten.length] ∧ c.app.consumer = none)) := by
  intro c
  let a1 : App := { App.init with consumer := some ⟨0, 0, some N, some []⟩, nextCid := 1, log := [.reg] }
  have hne : (some N = some 0) = False := by simp; omega
  have happ : appCall App.init [.consume (some N) []] = a1 := by
    have hp : potential App.init [.script [.consume (some N) []]] = 6 := by
      simp [potential, App.init, agendaWeight, Frame.weight, szList, Act.sz, consumerWeight]
    simp only [appCall, settle, hp]
    simp [runAgenda, appStep, attachConsumer, finishAttach, App.init, hne, lookupDone, a1]
  have hstep : step E (Conn.init (!b)) (.call [.consume (some N) []]) = { Conn.init (!b) with app := a1 } := by
    simp only [step, Conn.init]; rw [happ]
  have hci : ConsInv a1 := by intro _; rfl
  obtain ⟨r1, r2⟩ := roundtrip E b rs hcount hsz hid a1 hci cs hcs
  simp only at r1 r2
  have hc : c = { Conn.init (!b) with nextReceiveNonce := rs.length, app := rs.foldl recordReceived a1 } := by
    show feed E (step E (Conn.init (!b)) (.call [.consume (some N) []])) cs = _
    rw [hstep]; exact r1
  obtain ⟨k, hk, e1, e1', e2⟩ := consumer_fold N 0 rs a1 0 rfl rfl hN
  refine ⟨by rw [hc]; rfl, ?_, k, hk, ?_, ?_, ?_⟩
  · have : c.app.surfaced = a1.surfaced ++ rs := by
      show (feed E (step E (Conn.init (!b)) (.call [.consume (some N) []])) cs).app.surfaced = _
      rw [hstep]; exact r2
    rw [this]; simp [App.surfaced, App.delivered, App.init, Ev.payload, a1]
  · rw [hc]; simp only; rw [e1]; simp [App.consumerWrites, App.init, Ev.cw, a1]
  · rw [hc]; simp only; rw [e1']; simp [App.init, a1]
  · rw [hc]; simp only
    rcases e2 with ⟨f1, f2, f3, f4⟩ | ⟨f1, f2, f3, f4, f5⟩
    · refine .inl ⟨f2, by simpa using f3, ?_, ?_⟩
      · rw [f4]; simp [App.dones, App.init, Ev.doneVal, a1]
      · rw [f1]; simp
    · refine .inr ⟨f2, by simpa using f3, by simpa using f4, ?_, f1⟩
      rw [f5]; simp [App.dones, App.init, Ev.doneVal, a1]

/-- `expected = 0`: the consumer gets one empty write and its Deferred fires at once with 0; nothing is taken
    from the queue -/
theorem consume_zero_fires_at_once (a : App) (hc : a.consumer = none) (hs : a.storedDone = []) :
    (appCall a [.consume (some 0) []]).log = a.log ++ [.reg, .ckick, .unreg, .cdone 0] ∧
    (appCall a [.consume (some 0) []]).consumer = none ∧
    (appCall a [.consume (some 0) []]).inbound = a.inbound := by
  have hp : potential a [.script [.consume (some 0) []]] =
      (2 * a.inbound.length + (a.waiting.map (fun d => szOpt d.cb)).sum) + 6 := by
    simp [potential, agendaWeight, Frame.weight, szList, Act.sz, consumerWeight, hc]
  simp only [appCall, settle, hp]
  simp [runAgenda, appStep, attachConsumer, finishAttach, writeEvents, hc, hs, writeToConsumer, consumerDone, disconnectConsumer,
    lookupDone, App.emit]

/-- the bytes that ride behind the handshake in the same `dataReceived` call are simply the first chunk
    (the model starts at `_negotiationSuccessful`; `Conn.init b leftover` is that state) -/
theorem leftover_is_first_chunk (E : Env) (b : Bool) (leftover : Bytes) :
    dataReceived E (Conn.init b leftover) [] = dataReceived E (Conn.init b) leftover := by
  simp [dataReceived, Conn.init]

/-! ## the hypotheses are satisfiable, on non-trivial states -/

/-- for every key and every history there is a box that is ideal for them -/
theorem ideal_box_exists (k0 : Bytes) (rs : List Bytes) : ∃ B : Box, IdealFor B k0 rs :=
  ⟨idealBox k0 rs, idealBox_ideal k0 rs⟩

/-- a concrete world: S sends five records (one empty) to R -/
def exRs : List Bytes := [[1, 2, 3], [], [9], [4, 4], [7]]
def exKey : Bytes := Gen.C06.ctx_sender_sendkey
def exEnv : Env := { box := idealBox exKey exRs, hkdf := fun _ _ info => info, transitKey := [7] }
def exWire : Bytes := (sendMany exEnv (Conn.init true) exRs).1.app.wire

/-- the `yield receive_record()` loop: a read whose callback reads again, `n` times -/
def chainRead : Nat → Act
  | 0 => .read []
  | n + 1 => .read [chainRead n]

/-- the events the application and the consumer see (without the internal `assigned` marks) -/
def seen (c : Conn) : List Ev := c.app.log.filter (fun e => match e with | .assigned _ _ => false | _ => true)

example : IdealFor exEnv.box (senderRecordKey exEnv true) exRs := idealBox_ideal _ _
example : IdealFor exEnv.box (receiverRecordKey exEnv false) exRs := idealBox_ideal _ _
example : SizesOK exRs := by
  intro r hr; simp [exRs] at hr; rcases hr with rfl | rfl | rfl | rfl | rfl <;> simp

/-- honest run, bytes arriving one at a time, a chained read of depth 4: all five records fire in order -/
example :
    let c := feed exEnv (step exEnv (Conn.init false) (.call [chainRead 4])) (exWire.map fun x => [x])
    seen c = [.fired 0 [1, 2, 3], .fired 1 [], .fired 2 [9], .fired 3 [4, 4], .fired 4 [7]] ∧
    c.state = .records ∧ c.buf = [] ∧ c.app.surfaced = exRs := by decide +kernel

/-- two reads outstanding, each callback reads again (pipelined and re-entrant): reads are served in the
    order they were issued -/
example :
    let c := run exEnv (Conn.init false) [.call [.read [.read []]], .call [.read [.read []]], .data exWire]
    seen c = [.fired 0 [1, 2, 3], .fired 1 [], .fired 2 [9], .fired 3 [4, 4]] ∧ c.app.inbound = [[7]] ∧
    c.app.surfaced = exRs := by decide +kernel

/-- a callback that issues two reads while records are queued: each Deferred fires inside its own
    `receive_record()` call, before a callback can be attached; the callbacks run when the calls return, and
    each read obtains the record of its turn -/
example :
    let c := run exEnv (Conn.init false) [.data exWire, .call [.read [.read [.read []], .read []]]]
    seen c = [.fired 0 [1, 2, 3], .fired 1 [], .fired 2 [9], .fired 3 [4, 4]] ∧
    c.app.delivered = [[1, 2, 3], [], [9], [4, 4]] ∧ c.app.surfaced = exRs := by decide +kernel

/-- consumer attached mid-stream over queued records and an outstanding read; its Deferred's callback
    re-attaches another consumer, whose callback reads -/
example :
    let c := run exEnv (Conn.init false)
      [.data (exWire.take 100), .call [.consume (some 3) [.consume (some 1) [.read []]]], .data (exWire.drop 100)]
    seen c = [.reg, .cwrite [1, 2, 3], .unreg, .cdone 3, .reg, .cwrite [], .cwrite [9], .unreg, .cdone 1,
              .fired 0 [4, 4]] ∧ c.app.inbound = [[7]] ∧ c.app.surfaced = exRs := by decide +kernel

/-- detach with nothing attached raises inside the callback and ends it; attach twice raises -/
example :
    let c := run exEnv (Conn.init false)
      [.call [.read [.detach, .read []]], .call [.consume none [], .consume (some 5) []], .data exWire]
    seen c = [.reg, .raised .runtimeError, .cwrite [1, 2, 3], .cwrite [], .cwrite [9], .cwrite [4, 4], .cwrite [7]] ∧
    c.app.surfaced = exRs := by decide +kernel

/-- record 1 deleted from the stream: record 0 is delivered, then `BadNonce`, hung up, `loseConnection` -/
example :
    let k := senderRecordKey exEnv true
    let wire := frame (blob exEnv k 0 [1, 2, 3]) ++ frame (blob exEnv k 2 [9])
    let c := feed exEnv (step exEnv (Conn.init false) (.call [chainRead 2])) [wire]
    seen c = [.fired 0 [1, 2, 3], .lose] ∧ c.state = .hungUp ∧ c.error = some .badNonce := by decide +kernel

/-- one byte of record 1's body altered: `CryptoError`, hung up; the waiting read then fails on loss -/
example :
    let k := senderRecordKey exEnv true
    let wire := frame (blob exEnv k 0 [1, 2, 3]) ++ frame (beFixed 24 1 ++ List.replicate 16 0 ++ [5]) ++
                frame (blob exEnv k 2 [9])
    let c := run exEnv (Conn.init false) [.call [chainRead 2], .data wire, .lost]
    seen c = [.fired 0 [1, 2, 3], .lose, .failed 1] ∧ c.error = some .cryptoError ∧
    c.app.surfaced = [[1, 2, 3]] := by decide +kernel

/-- a high-order nonce byte altered (byte 0 of the 24): `BadNonce`, although the low-order bytes match -/
example :
    let k := senderRecordKey exEnv true
    let bad := (blob exEnv k 0 [1, 2, 3]).set 0 1
    let c := feed exEnv (Conn.init false) [frame bad]
    c.state = .hungUp ∧ c.error = some .badNonce ∧ c.app.surfaced = [] := by decide +kernel

/-- back-pressure and tampering together: a flow-controlled consumer pauses in its first `write()`, the altered
    frame 1 is already in the same segment; the connection hangs up at once all the same, and the later resume
    changes nothing -/
example :
    let k := senderRecordKey exEnv true
    let wire := frame (blob exEnv k 0 [1, 2, 3]) ++ frame (beFixed 24 1 ++ List.replicate 16 0 ++ [5]) ++
                frame (blob exEnv k 2 [9])
    let c := run exEnv (Conn.init false) [.call [.consumeFC none []], .data wire, .call [.resume]]
    seen c = [.reg, .cwrite [1, 2, 3], .tpause, .lose, .tresume] ∧ c.state = .hungUp ∧
    c.error = some .cryptoError ∧ c.app.surfaced = [[1, 2, 3]] := by decide +kernel

/-- a read callback pauses the connection and reads again; a replayed frame 0 follows in the same segment -/
example :
    let k := senderRecordKey exEnv true
    let wire := frame (blob exEnv k 0 [1, 2, 3]) ++ frame (blob exEnv k 0 [1, 2, 3]) ++ frame (blob exEnv k 1 [])
    let c := run exEnv (Conn.init false) [.call [.read [.pause, .read []]], .data wire, .call [.resume], .lost]
    seen c = [.fired 0 [1, 2, 3], .tpause, .lose, .tresume, .failed 1] ∧ c.state = .hungUp ∧
    c.error = some .badNonce := by decide +kernel

/-- records 0,1 queued; the transport, paused, holds 2,3,4; a consumer that resumes its producer from
    `registerProducer()` is attached: the held records are decrypted before `_consumer` is set, so the consumer
    gets 0,1,2,3,4 in order -/
example :
    let k := senderRecordKey exEnv true
    let w01 := frame (blob exEnv k 0 [1, 2, 3]) ++ frame (blob exEnv k 1 [])
    let w234 := frame (blob exEnv k 2 [9]) ++ frame (blob exEnv k 3 [4, 4]) ++ frame (blob exEnv k 4 [7])
    let h := hrun exEnv { c := Conn.init false, held := [] }
      [.op (.data w01), .op (.call [.pause]), .hold w234, .attachReady none []]
    seen h.c = [.tpause, .reg, .tresume, .cwrite [1, 2, 3], .cwrite [], .cwrite [9], .cwrite [4, 4], .cwrite [7]] ∧
    h.c.app.surfaced = exRs ∧ h.held = [] := by decide +kernel

/-- consumer expecting 3 bytes: gets record 0, fires with 3; the other records stay queued -/
example :
    let c := feed exEnv (step exEnv (Conn.init false) (.call [.consume (some 3) []])) [exWire]
    seen c = [.reg, .cwrite [1, 2, 3], .unreg, .cdone 3] ∧ c.app.inbound = [[], [9], [4, 4], [7]] := by
  decide +kernel

end WV.Props.C06
