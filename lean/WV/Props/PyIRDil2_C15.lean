import WV.Proofs.PyIRDil2
import WV.Proofs.PyIRDil2_Loop
import WV.Proofs.PyIRDil2_Inb
import WV.Props.PyIR_C15

/-!
Translation validation of method BODIES, C15 part 2 (Dilation back-pressure): the producer bookkeeping of `Outbound`
(`_check_invariants`, `subchannel_registerProducer`, `subchannel_unregisterProducer`, `subchannel_closed`, `stopProducing`,
`_get_next_unpaused_producer` and the producer branch of `resumeProducing`) — the bodies generated from the working tree
(`WV.Gen.PyIRDil`) against `WV.C15` (`checkInv`, `opReg`, `opUnreg`, `opClose`, `pauseProducing`, `loopStep`/`nextTurn`).

`AgreeOut cls o c c'`: the final heap is related to the model's new bookkeeping (`RelProd`), the calls made on producer
objects are exactly the `pause`/`resume`/`stop` entries the model appended to its log, in order, and the exception is the
one the model logged.  Producers' own methods are recorded calls that do not call back (`noRe`), as in `WV.Props.PyIRC15`.
-/
set_option linter.unusedSimpArgs false

namespace WV.Props.PyIRDil2C15
open WV WV.PyIR WV.C15 WV.Gen.PyIRDil WV.Proofs.PyIRC03 WV.Proofs.PyIRDil WV.Proofs.PyIRDil2

/-- the methods this file covers are translated (a rewrite that leaves the subset moves them to `untranslatable`) -/
theorem all_translated :
    ["Outbound._check_invariants", "Outbound._get_next_unpaused_producer", "Outbound.resumeProducing",
     "Outbound.stopProducing", "Outbound.subchannel_closed", "Outbound.subchannel_registerProducer",
     "Outbound.subchannel_unregisterProducer", "PullToPush.pauseProducing", "PullToPush.resumeProducing",
     "PullToPush.stopProducing", "PullToPush.stopStreaming", "Inbound.subchannel_local_open",
     "Inbound.subchannel_closed"].all (fun m => WV.Gen.PyIRDil.translated.contains m) = true := by decide

/-- `_check_invariants()` = `checkInv`: nothing changes, `AssertionError` exactly when the model's invariant is false -/
theorem outbound_check_invariants (cls : Nat → String) (fuel : Nat) (h : Store) (o : Out) (R : RelProd cls h o) :
    let r := exec (fuel + 1) (envD noRe) tbl_Outbound "_check_invariants" [] h
    r.heap = h ∧ r.calls = [] ∧ r.exc = if checkInv o then none else some "AssertionError" := by
  simp only [PyIR.exec, checkInv_callM cls fuel (envD noRe) h o R []]
  cases checkInv o <;> simp

/-- `subchannel_unregisterProducer(sc)` = `opUnreg`: `KeyError` when nothing is registered on `sc`; otherwise the entry is
    popped, a `PullToPush` adapter is told `stopStreaming()`, the producer leaves the rotation (`ValueError` if it is not
    there) and BOTH sets, then the invariant is checked.  `hP`: the object found is a `PullToPush` exactly when the model
    lists it as a live adapter. -/
theorem outbound_subchannel_unregisterProducer (cls : Nat → String) (fuel : Nat) (h : Store) (c : Cfg)
    (R : RelProd cls h c.o) (sc : Nat)
    (hP : ∀ p, c.o.scp.lookup sc = some p → (cls p = "PullToPush" ↔ p ∈ c.o.pulls)) :
    AgreeOut cls (exec (fuel + 2) (envD noRe) tbl_Outbound "subchannel_unregisterProducer" [encSc sc] h) c (opUnreg c sc) := by
  obtain ⟨h', evs, e, hR, hl⟩ := unregister_callM cls fuel (envD noRe) rfl rfl h c R sc hP []
  exact agree_of_callM e hR hl

/-- `subchannel_closed(scid, sc)` = `opClose`: invariant first, then the unregistration iff a producer is registered -/
theorem outbound_subchannel_closed (cls : Nat → String) (fuel : Nat) (h : Store) (c : Cfg)
    (R : RelProd cls h c.o) (sc scid : Nat)
    (hP : ∀ p, c.o.scp.lookup sc = some p → (cls p = "PullToPush" ↔ p ∈ c.o.pulls)) :
    AgreeOut cls (exec (fuel + 3) (envD noRe) tbl_Outbound "subchannel_closed" [.int scid, encSc sc] h) c (opClose c sc) := by
  obtain ⟨h', evs, e, hR, hl⟩ := closed_callM cls fuel (envD noRe) rfl rfl h c R sc (.int scid) hP []
  exact agree_of_callM e hR hl

/-- `stopProducing()` = `pauseProducing()` (`C15.exec c .stopProducing`): it does not shut anything down -/
theorem outbound_stopProducing (cls : Nat → String) (fuel : Nat) (h : Store) (c : Cfg) (R : RelProd cls h c.o) :
    let o := exec (fuel + 2) (envD noRe) tbl_Outbound "stopProducing" [] h
    let c' := C15.exec c .stopProducing
    RelProd cls o.heap c'.o ∧ o.calls.map absPCall = ((c'.log.take (c'.log.length - c.log.length)).reverse).map some ∧
      o.exc = none := by
  have H := WV.Props.PyIRC15.outbound_pauseProducing cls fuel h c R
  simp only [PyIR.exec] at H
  rcases hcm : callM (envD noRe) tbl_Outbound (fuel + 1) "pauseProducing" [] h [] with ⟨h', cs', r⟩
  rw [hcm] at H
  cases r with
  | ok v =>
    simp only at H
    rw [PyIR.exec, callM]
    dil2_nc [tbl_Outbound, m_Outbound_stopProducing, hcm, C15.exec]
    exact ⟨H.1, by simpa using H.2.1⟩
  | exc x => simp at H

/-- `subchannel_registerProducer(sc, producer, True)` = `opReg c sc p true`: `ValueError` while another producer is
    registered on `sc` (nothing changes); otherwise the producer enters the map, the END of the rotation and the set that
    matches `_paused`, the invariant is checked, and a push producer is paused at once iff `Outbound` is paused -/
theorem outbound_subchannel_registerProducer_push (cls : Nat → String) (fuel a : Nat) (h : Store) (c : Cfg)
    (R : RelProd cls h c.o) (sc p : Nat) :
    AgreeOut cls (PyIR.exec (fuel + 2) (envP a) tbl_Outbound "subchannel_registerProducer" [encSc sc, encP cls p, .bool true] h)
      c (opReg c sc p true) := by
  obtain ⟨h', evs, e, hR, hl⟩ := register_push_callM cls fuel (envP a) rfl rfl (fun _ => rfl) h c R sc p []
  exact agree_of_callM e hR hl

/-- `subchannel_registerProducer(sc, producer, False)` = `opReg c sc a false` where `a` is the new `PullToPush` adapter
    built around the pull producer `raw` (any value): the ADAPTER is what enters the bookkeeping, and it is started with
    `startStreaming(self._paused)` -/
theorem outbound_subchannel_registerProducer_pull (cls : Nat → String) (fuel a : Nat) (h : Store) (c : Cfg)
    (R : RelProd cls h c.o) (sc : Nat) (raw coop : Val) (hcls : cls a = "PullToPush")
    (hcoop : h.get "_cooperator" = some coop) :
    AgreePull cls (PyIR.exec (fuel + 2) (envP a) tbl_Outbound "subchannel_registerProducer" [encSc sc, raw, .bool false] h)
      c (opReg c sc a false) := by
  obtain ⟨h', evs, e, hR, hl⟩ := register_pull_callM cls fuel (envP a) rfl rfl (fun _ => rfl) h c R sc a []
    raw (.obj "closure" [.str "subchannel_unregisterProducer", encSc sc]) coop hcls hcoop rfl rfl
  exact agreePull_of_callM e hR hl

/-- `_get_next_unpaused_producer()`: the heap afterwards, the returned value and the exception are those of `getNextRes`
    (invariant, `None` when nobody is paused, `IndexError` on an empty rotation, else the head moves to the END of the
    rotation and is returned — `AssertionError` if it is not a paused one); no calls -/
theorem outbound_get_next_unpaused_producer (cls : Nat → String) (fuel : Nat) (h : Store) (o : Out) (R : RelProd cls h o) :
    let r := PyIR.exec (fuel + 2) (envD noRe) tbl_Outbound "_get_next_unpaused_producer" [] h
    RelProd cls r.heap (getNextRes cls o).1 ∧ r.calls = [] ∧
      (match (getNextRes cls o).2 with
       | .ok v => r.exc = none ∧ r.ret = v
       | .exc e => r.exc = some e) := by
  obtain ⟨h', e, hR, _⟩ := getNext_callM cls fuel (envD noRe) h o R []
  simp only [PyIR.exec, e]
  cases (getNextRes cls o).2 <;> simp [hR]

/-- `getNextRes` is the model: case by case it is what `loopStep` (below `| [] =>`) and `nextTurn` do -/
theorem getNextRes_is_loopStep (cls : Nat → String) (c : Cfg) (k : List Frame) (hp : c.o.paused = false)
    (hu : c.o.unsent = []) :
    (checkInv c.o = false → getNextRes cls c.o = (c.o, .exc "AssertionError") ∧ loopStep c k = c.raiseLoop .assertion) ∧
    (checkInv c.o = true → c.o.pausedSet.isEmpty = true →
      getNextRes cls c.o = (c.o, .ok .none) ∧ loopStep c k = { c with stack := k }) ∧
    (checkInv c.o = true → c.o.pausedSet.isEmpty = false → c.o.allp = [] →
      getNextRes cls c.o = (c.o, .exc "IndexError") ∧ loopStep c k = c.raiseLoop .index) ∧
    (∀ p rest, checkInv c.o = true → c.o.pausedSet.isEmpty = false → c.o.allp = p :: rest →
      loopStep c k = nextTurn c p rest ∧
      (p ∈ c.o.pausedSet → getNextRes cls c.o = ({ c.o with allp := rest ++ [p] }, .ok (encP cls p))) ∧
      (p ∉ c.o.pausedSet → getNextRes cls c.o = ({ c.o with allp := rest ++ [p] }, .exc "AssertionError") ∧
        nextTurn c p rest = Cfg.raiseLoop { c with o := { c.o with allp := rest ++ [p] } } .assertion)) := by
  refine ⟨fun h1 => ?_, fun h1 h2 => ?_, fun h1 h2 h3 => ?_, fun p rest h1 h2 h3 => ⟨?_, fun h4 => ?_, fun h4 => ?_⟩⟩ <;>
    simp [getNextRes, loopStep, nextTurn, *]

/-- `resumeProducing()` with registered producers, nothing queued for replay, producers whose `resumeProducing()` does not
    call back (the model's turns have empty scripts): the guard, the flag, then — for EVERY number of paused producers —
    the rotation: invariant check, head of `_all_producers` moved to the end, moved from `_paused_producers` to
    `_unpaused_producers`, told to resume, until nobody is paused; it ends exactly where the model's call-stack semantics
    (`C15.run`) ends, including its `AssertionError`/`IndexError` exits.  Fuel: one unit per paused producer. -/
theorem outbound_resumeProducing_producers (cls : Nat → String) (fuel : Nat) (h : Store) (c : Cfg)
    (hst : c.stack = []) (hsc : c.scripts = []) (hun : c.o.unsent = [])
    (R : RelProd cls h c.o) (hu : h.get "_queued_unsent" = some (.list [])) (hf : c.o.pausedSet.length + 5 ≤ fuel) :
    AgreeOut cls (PyIR.exec fuel (envD noRe) tbl_Outbound "resumeProducing" [] h) c (run (resumeProducing c)) := by
  obtain ⟨f, rfl⟩ : ∃ f, fuel = f + 4 := ⟨fuel - 4, by omega⟩
  obtain ⟨h', evs, e, hR, hl⟩ := resume_callM cls f (envD noRe) rfl rfl c h [] hst hsc hun R hu (by omega)
  exact agree_of_callM e hR hl

/-! ## `Inbound`: the open-subchannel map against `C15.Inb.openSc` -/

/-- `Inbound.subchannel_local_open(scid, sc)` = the first two lines of `C15.openSub`: `AssertionError` (nothing changes)
    when `scid` is already open, else the object is entered under `scid` -/
theorem inbound_subchannel_local_open (fuel : Nat) (h : Store) (s : Inb) (R : RelOpenSc h s) (sc : Nat) :
    let r := PyIR.exec (fuel + 1) envI tbl_Inbound "subchannel_local_open" [.int sc, encSc sc] h
    r.calls = [] ∧
      (if sc ∈ s.openSc then r.exc = some "AssertionError" ∧ r.heap = h
       else r.exc = none ∧ RelOpenSc r.heap { s with openSc := sAdd sc s.openSc }) := by
  obtain ⟨l', hd, hm⟩ := R
  by_cases hin : sc ∈ s.openSc
  · have hin' : sc ∈ l' := (hm sc).2 hin
    dil_eval15 [tbl_Inbound, m_Inbound_subchannel_local_open, envI, envD, noRe, hd, dictGet_enc keyEnc_int, dget_diag, hin, hin', encSc]
  · have hin' : sc ∉ l' := fun hx => hin ((hm sc).1 hx)
    have hl : List.lookup sc (l'.map fun n => (n, n)) = none := by rw [← dget_eq_lookup, dget_diag]; simp [hin']
    have hset : dictSet (.int sc) (.ref "SubChannel" sc) (encDict Val.int encSc (l'.map fun n => (n, n))) =
        .ok (encDict Val.int encSc ((l' ++ [sc]).map fun n => (n, n))) := by
      have := dictSet_enc keyEnc_int encSc (l'.map fun n => (n, n)) sc sc
      rw [dset_absent _ _ _ hl] at this
      simpa [encSc] using this
    dil_eval15 [tbl_Inbound, m_Inbound_subchannel_local_open, envI, envD, noRe, hd, dictGet_enc keyEnc_int, dget_diag, hin, hin', encSc,
      hset]
    refine ⟨l' ++ [sc], by simp [get_set], fun x => ?_⟩
    rw [sAdd_mem, List.mem_append, hm]
    simp [or_comm]

/-- `Inbound.subchannel_closed(scid, sc)` = `Inb.closeSub`: `KeyError` (nothing changes) when `scid` is not open; otherwise
    the entry is deleted and — a closed subchannel must not keep the connection paused — its pause is dropped, the
    connection being resumed iff it was the last pauser (`subchannel_stopProducing`, interpreted as a sibling call) -/
theorem inbound_subchannel_closed (fuel : Nat) (h : Store) (s : Inb) (RO : RelOpenSc h s) (RP : RelPause h s) (sc : Nat) :
    let r := PyIR.exec (fuel + 2) (envD noRe) tbl_Inbound "subchannel_closed" [.int sc, encSc sc] h
    if sc ∈ s.openSc then
      RelOpenSc r.heap (s.closeSub sc) ∧ RelPause r.heap (s.closeSub sc) ∧
        (∀ g, s.conn = some g → r.calls.map (absICall g) = (tNew s (s.closeSub sc)).map some) ∧
        (s.conn = none → r.calls = []) ∧ r.exc = none
    else r.exc = some "KeyError" ∧ r.heap = h ∧ r.calls = [] := by
  obtain ⟨l', hd, hm⟩ := RO
  obtain ⟨⟨v, hv, lq, rfl, hmq⟩, hc⟩ := RP
  by_cases hin : sc ∈ s.openSc
  · have hin' : sc ∈ l' := (hm sc).2 hin
    have hemp : lq.isEmpty = s.pausedSc.isEmpty := by
      have := SetRel.isEmpty (enc := encSc) ⟨lq, rfl, hmq⟩
      simpa [truthy_set] using this
    have hemp2 : (sDel sc lq).isEmpty = (sDel sc s.pausedSc).isEmpty := by
      have := SetRel.isEmpty (SetRel.del (kf := encSc) hmq sc)
      simpa [truthy_set] using this
    have hmo : ∀ x, x ∈ sDel sc l' ↔ x ∈ sDel sc s.openSc := fun x => by rw [sDel_mem, sDel_mem, hm]
    have hgetP : dictGet (.int sc) (encDict Val.int encSc (l'.map fun n => (n, n))) = .ok (some (.ref "SubChannel" sc)) := by
      rw [dictGet_enc keyEnc_int, dget_diag]; simp [hin', encSc]
    have hdelP := dictDel_enc keyEnc_int encSc (l'.map fun n => (n, n)) sc
    rw [dpop_diag] at hdelP
    have hsd : setDel (.ref "SubChannel" sc) (lq.map encSc) = .ok ((sDel sc lq).map encSc) := setDel_enc keyEnc_sc lq sc
    simp only [hin, if_true]
    rw [Inb.closeSub, if_pos hin, discard_eq WV.Props.PyIRC15.dcp_forwards.2]
    cases hconn : s.conn with
    | none =>
      rw [hconn] at hc
      dil_eval15 [tbl_Inbound, m_Inbound_subchannel_closed, m_Inbound_subchannel_stopProducing, envD, noRe, hd, hgetP, hdelP, hv, hc,
        hsd, encSc, discT, hconn]
      exact ⟨⟨sDel sc l', by simp [get_set], hmo⟩, ⟨⟨_, by simp [get_set], SetRel.del hmq sc⟩, by simp [get_set, hc]⟩⟩
    | some g =>
      rw [hconn] at hc
      cases he : s.pausedSc.isEmpty <;> rw [he] at hemp <;>
      cases he2 : (sDel sc s.pausedSc).isEmpty <;> rw [he2] at hemp2 <;>
        dil_eval15 [tbl_Inbound, m_Inbound_subchannel_closed, m_Inbound_subchannel_stopProducing, envD, noRe, hd, hgetP, hdelP, hv, hc,
          hsd, encSc, discT, hconn, he, hemp, he2, hemp2, tNew, isT, absICall, len_sub1, len_sub2, len_sub0]
      all_goals first
        | exact ⟨⟨sDel sc l', by simp [get_set], hmo⟩, ⟨⟨_, by simp [get_set], SetRel.del hmq sc⟩, by simp [get_set, hc]⟩⟩
        | (refine ⟨⟨sDel sc l', ?_, hmo⟩, ⟨⟨_, ?_, SetRel.del hmq sc⟩, ?_⟩, ?_⟩ <;> first | rfl | simp [get_set, hc, isT])
  · have hin' : sc ∉ l' := fun hx => hin ((hm sc).1 hx)
    have hgetP : dictGet (.int sc) (encDict Val.int encSc (l'.map fun n => (n, n))) = .ok none := by
      rw [dictGet_enc keyEnc_int, dget_diag]; simp [hin']
    simp only [hin, if_false]
    dil_eval15 [tbl_Inbound, m_Inbound_subchannel_closed, envD, noRe, hd, hgetP]

example : RelOpenSc [("_open_subchannels", .dict [(.int 4, encSc 4), (.int 6, encSc 6)])] { openSc := [6, 4] } :=
  ⟨[4, 6], rfl, fun x => by simp [or_comm]⟩

/-- non-vacuity: subchannels 4 and 6 open, 4 paused on connection 1; closing 4 deletes it and resumes the connection -/
example : let h : Store := [("_open_subchannels", .dict [(.int 4, encSc 4), (.int 6, encSc 6)]),
      ("_paused_subchannels", .set [encSc 4]), ("_connection", .ref "Connection" 1)]
    let r := PyIR.exec 3 (envD noRe) tbl_Inbound "subchannel_closed" [.int 4, encSc 4] h
    r.calls.map (absICall 1) = [some (.tResume 1)] ∧ r.exc = none ∧
    (PyIR.exec 3 (envD noRe) tbl_Inbound "subchannel_closed" [.int 5, encSc 5] h).exc = some "KeyError" := by decide

/-! ## `PullToPush` (the adapter object `p`): `_finished` ⟷ "p is no longer a live adapter of the model" -/

/-- heap of the `PullToPush` adapter `p` ⟷ the model's `pulls` -/
structure RelPTP (p : Nat) (h : Store) (o : Out) : Prop where
  finished : h.get "_finished" = some (.bool (decide (p ∉ o.pulls)))
  task : ∃ i, h.get "_coopTask" = some (.ref "CooperativeTask" i)
  producer : ∃ i, h.get "_producer" = some (.ref "PullProducer" i)

/-- `PullToPush.stopStreaming()` = the adapter part of `unregPop`: `_coopTask.stop()` exactly when the adapter is still
    live (`p ∈ pulls`), after which it is not; a second call does nothing -/
theorem pulltopush_stopStreaming (fuel p : Nat) (h : Store) (o : Out) (R : RelPTP p h o) :
    let r := PyIR.exec (fuel + 1) (envD noRe) tbl_PullToPush "stopStreaming" [] h
    RelPTP p r.heap { o with pulls := sDel p o.pulls } ∧ r.exc = none ∧
      r.calls.map (fun x => (x.obj, x.meth, x.args.length)) = (if p ∈ o.pulls then [("_coopTask", "stop", 0)] else []) := by
  obtain ⟨hf, ⟨i, ht⟩, ⟨j, hpr⟩⟩ := R
  have hnot : p ∉ sDel p o.pulls := by simp [sDel]
  by_cases hp : p ∈ o.pulls
  · simp only [hp, not_true_eq_false, decide_false] at hf
    dil_eval15 [tbl_PullToPush, m_PullToPush_stopStreaming, envD, noRe, hf, ht, hp]
    exact ⟨by simp [get_set, hnot], ⟨i, by simp [get_set, ht]⟩, ⟨j, by simp [get_set, hpr]⟩⟩
  · simp only [hp, not_false_eq_true, decide_true] at hf
    dil_eval15 [tbl_PullToPush, m_PullToPush_stopStreaming, envD, noRe, hf, ht, hp]
    exact ⟨by simp [hf, hnot], ⟨i, ht⟩, ⟨j, hpr⟩⟩

/-- `PullToPush.pauseProducing()` / `resumeProducing()`: only the Cooperator task is paused / resumed — nothing is called
    on `Outbound` or on the pull producer synchronously (the model's `giveTurn` for `p ∈ pulls` does nothing) -/
theorem pulltopush_pause_resume (fuel p : Nat) (h : Store) (o : Out) (R : RelPTP p h o) :
    let r1 := PyIR.exec (fuel + 1) (envD noRe) tbl_PullToPush "pauseProducing" [] h
    let r2 := PyIR.exec (fuel + 1) (envD noRe) tbl_PullToPush "resumeProducing" [] h
    r1.heap = h ∧ r1.exc = none ∧ r1.calls.map (fun x => (x.obj, x.meth, x.args.length)) = [("_coopTask", "pause", 0)] ∧
    r2.heap = h ∧ r2.exc = none ∧ r2.calls.map (fun x => (x.obj, x.meth, x.args.length)) = [("_coopTask", "resume", 0)] := by
  obtain ⟨hf, ⟨i, ht⟩, ⟨j, hpr⟩⟩ := R
  dil_eval15 [tbl_PullToPush, m_PullToPush_pauseProducing, m_PullToPush_resumeProducing, envD, noRe, ht]

/-- `PullToPush.stopProducing()`: `stopStreaming()` first, then the pull producer is told `stopProducing()` -/
theorem pulltopush_stopProducing (fuel p : Nat) (h : Store) (o : Out) (R : RelPTP p h o) :
    let r := PyIR.exec (fuel + 2) (envD noRe) tbl_PullToPush "stopProducing" [] h
    RelPTP p r.heap { o with pulls := sDel p o.pulls } ∧ r.exc = none ∧
      r.calls.map (fun x => (x.obj, x.meth, x.args.length)) =
        (if p ∈ o.pulls then [("_coopTask", "stop", 0)] else []) ++ [("_producer", "stopProducing", 0)] := by
  obtain ⟨hf, ⟨i, ht⟩, ⟨j, hpr⟩⟩ := R
  have hnot : p ∉ sDel p o.pulls := by simp [sDel]
  by_cases hp : p ∈ o.pulls
  · simp only [hp, not_true_eq_false, decide_false] at hf
    dil_eval15 [tbl_PullToPush, m_PullToPush_stopStreaming, m_PullToPush_stopProducing, envD, noRe, hf, ht, hp, hpr]
    exact ⟨by simp [get_set, hnot], ⟨i, by simp [get_set, ht]⟩, ⟨j, by simp [get_set, hpr]⟩⟩
  · simp only [hp, not_false_eq_true, decide_true] at hf
    dil_eval15 [tbl_PullToPush, m_PullToPush_stopStreaming, m_PullToPush_stopProducing, envD, noRe, hf, ht, hp, hpr]
    exact ⟨by simp [hf, hnot], ⟨i, ht⟩, ⟨j, hpr⟩⟩

example : RelPTP 12 [("_finished", .bool false), ("_coopTask", .ref "CooperativeTask" 0), ("_producer", .ref "PullProducer" 1)]
    WV.Props.PyIRC15.demoOut := ⟨rfl, ⟨0, rfl⟩, ⟨1, rfl⟩⟩

/-! ## non-vacuity: the demo heap of `WV.Props.PyIRC15` (producers 10, 11, 12 on subchannels 1, 2, 3; 12 is an adapter) -/

open WV.Props.PyIRC15 in
example : ∀ p, demoOut.scp.lookup 3 = some p → (demoCls p = "PullToPush" ↔ p ∈ demoOut.pulls) := by decide

open WV.Props.PyIRC15 in
/-- unregistering subchannel 3 stops its adapter and removes it everywhere; the invariant holds afterwards -/
example : let o := PyIR.exec 2 (envD noRe) tbl_Outbound "subchannel_unregisterProducer" [encSc 3] demoProdHeap
    o.calls.map absPCall = [some (.stop 12)] ∧ o.exc = none ∧
    (o.heap.get "_all_producers").map (fun v => match v with | .list l => l.length | _ => 0) = some 2 ∧
    (o.heap.get "_unpaused_producers").map (fun v => match v with | .set l => l.length | _ => 0) = some 1 := by decide

open WV.Props.PyIRC15 in
example : (PyIR.exec 2 (envD noRe) tbl_Outbound "subchannel_unregisterProducer" [encSc 7] demoProdHeap).exc = some "KeyError" := by
  decide

open WV.Props.PyIRC15 in
/-- a second registration on subchannel 1 is refused; a pull registration on subchannel 4 starts adapter 13 unpaused -/
example : (PyIR.exec 2 (envP 13) tbl_Outbound "subchannel_registerProducer" [encSc 1, encP demoCls 14, .bool true] demoProdHeap).exc
    = some "ValueError" := by decide

open WV.Props.PyIRC15 in
example : let hp : Store := demoProdHeap ++ [("_cooperator", .ref "Cooperator" 0)]
    let o := PyIR.exec 2 (envP 13) tbl_Outbound "subchannel_registerProducer" [encSc 4, .ref "Pull" 99, .bool false] hp
    o.calls.map (fun c => (c.meth, c.args.length)) = [("startStreaming", 2)] ∧ o.exc = none ∧
    (o.heap.get "_all_producers").map (fun v => match v with | .list l => l.length | _ => 0) = some 4 := by decide

open WV.Props.PyIRC15 in
/-- pause everybody, then resume: 10, 11, 12 are resumed in rotation order and the rotation is back where it was -/
example : let h1 : Store :=
      [("_paused", .bool true), ("_all_producers", .list [encP demoCls 10, encP demoCls 11, encP demoCls 12]),
       ("_paused_producers", .set [encP demoCls 11, encP demoCls 10, encP demoCls 12]), ("_unpaused_producers", .set []),
       ("_queued_unsent", .list [])]
    let o := PyIR.exec 8 (envD noRe) tbl_Outbound "resumeProducing" [] h1
    o.calls.map absPCall = [some (.resume 10), some (.resume 11), some (.resume 12)] ∧ o.exc = none := by decide +kernel

/-- the hypotheses of `outbound_resumeProducing_producers` are met by a concrete paused configuration with three
    registered producers, and the theorem then gives the model's three `resume` entries -/
def demoPausedCfg : Cfg :=
  { o := { paused := true, allp := [10, 11, 12], pausedSet := [11, 10, 12], unpausedSet := [],
           scp := [(1, 10), (2, 11), (3, 12)], pulls := [12] } }

def demoPausedHeap : Store :=
  [("_paused", .bool true),
   ("_all_producers", .list [encP WV.Props.PyIRC15.demoCls 10, encP WV.Props.PyIRC15.demoCls 11, encP WV.Props.PyIRC15.demoCls 12]),
   ("_paused_producers", .set [encP WV.Props.PyIRC15.demoCls 12, encP WV.Props.PyIRC15.demoCls 10, encP WV.Props.PyIRC15.demoCls 11]),
   ("_unpaused_producers", .set []),
   ("_subchannel_producers", .dict [(encSc 1, encP WV.Props.PyIRC15.demoCls 10), (encSc 2, encP WV.Props.PyIRC15.demoCls 11),
      (encSc 3, encP WV.Props.PyIRC15.demoCls 12)]),
   ("_queued_unsent", .list [])]

example : RelProd WV.Props.PyIRC15.demoCls demoPausedHeap demoPausedCfg.o := by
  refine ⟨rfl, rfl, ⟨_, rfl, [12, 10, 11], rfl, fun x => ?_⟩, ⟨_, rfl, [], rfl, fun _ => Iff.rfl⟩, rfl⟩
  simp [demoPausedCfg]; omega

example : AgreeOut WV.Props.PyIRC15.demoCls (PyIR.exec 8 (envD noRe) tbl_Outbound "resumeProducing" [] demoPausedHeap)
    demoPausedCfg (run (resumeProducing demoPausedCfg)) := by
  refine outbound_resumeProducing_producers _ 8 _ _ rfl rfl rfl ?_ rfl (by decide)
  refine ⟨rfl, rfl, ⟨_, rfl, [12, 10, 11], rfl, fun x => ?_⟩, ⟨_, rfl, [], rfl, fun _ => Iff.rfl⟩, rfl⟩
  simp [demoPausedCfg]; omega

open WV.Props.PyIRC15 in
/-- the defect path the model keeps: an unpaused producer at the head of the rotation while another one is paused makes
    `_get_next_unpaused_producer` fail its assertion (heap = the demo heap with `_paused = True`) -/
example : (PyIR.exec 8 (envD noRe) tbl_Outbound "resumeProducing" []
    ((demoProdHeap.set "_paused" (.bool true)) ++ [("_queued_unsent", .list [])])).exc = some "AssertionError" := by
  decide +kernel

#print axioms inbound_subchannel_local_open
#print axioms inbound_subchannel_closed
#print axioms pulltopush_stopStreaming
#print axioms pulltopush_pause_resume
#print axioms pulltopush_stopProducing
#print axioms outbound_get_next_unpaused_producer
#print axioms getNextRes_is_loopStep
#print axioms outbound_resumeProducing_producers
#print axioms outbound_subchannel_registerProducer_push
#print axioms outbound_subchannel_registerProducer_pull
#print axioms all_translated
#print axioms outbound_check_invariants
#print axioms outbound_subchannel_unregisterProducer
#print axioms outbound_subchannel_closed
#print axioms outbound_stopProducing

end WV.Props.PyIRDil2C15
