import WV.Proofs.PyIR_C03

/-!
Translation validation of method BODIES, C03 part (continued): `Send`, `Receive`, and the data-bearing methods of
`Boss`.  Conventions as in `WV.Props.PyIR_C03`.
-/
set_option linter.unusedSimpArgs false
set_option linter.unusedVariables false

namespace WV.Props.PyIRC03
open WV WV.Gen WV.PyIR WV.C03 WV.Gen.PyIR WV.Proofs.PyIRC03

/-! ## Send -/

macro "send_rel" : tactic =>
  `(tactic| (constructor <;> first | assumption | (simp [get_set, enc2, *]; done) | (simp [get_set]; assumption)))

set_option hygiene false in
macro "send_open" R:ident : tactic => `(tactic| obtain ⟨hsd, hq, hkY, hkN, ⟨vM, hM⟩⟩ := $R)

/-- `queue(phase, plaintext)`; argument types asserted by the body -/
theorem send_queue (C : Crypto) (side : String) (fuel : Nat) (h : Store) (s : SendD) (R : RelSend side h s)
    (p : String) (m : Bytes) :
    AgreeS side (exec (fuel + 1) (envC C) tbl_Send "queue" [.str p, .bytes m] h)
      (sendOut C side .queue (.send p m) s) := by
  send_open R
  pyir_eval [tbl_Send, m_Send_queue, sendOut, AgreeS, envC, hq]
  send_rel

/-- `record_key(key)`.  Caller: `Receive.S_got_verified_key`, which asserts that the key is truthy. -/
theorem send_record_key (C : Crypto) (side : String) (fuel : Nat) (h : Store) (s : SendD) (R : RelSend side h s)
    (k : Val) (hk : k.truthy = true) :
    AgreeS side (exec (fuel + 1) (envC C) tbl_Send "record_key" [k] h)
      (sendOut C side .record_key .key s) := by
  send_open R
  pyir_eval [tbl_Send, m_Send_record_key, sendOut, AgreeS, envC]
  send_rel

/-- `deliver(phase, plaintext)` = `_encrypt_and_send`: derive the (side, phase) key, seal, hand to the Mailbox.
    `s.key = true` is guaranteed by the table: `deliver` only runs in `S1_verified_key`, which is entered by the row
    whose first output is `record_key` (see `send_deliver_without_key` for what happens otherwise). -/
theorem send_deliver (C : Crypto) (side : String) (fuel : Nat) (h : Store) (s : SendD) (R : RelSend side h s)
    (hk : s.key = true) (p : String) (m : Bytes) :
    AgreeS side (exec (fuel + 2) (envC C) tbl_Send "deliver" [.str p, .bytes m] h)
      (sendOut C side .deliver (.send p m) s) := by
  send_open R
  obtain ⟨kv, hkv, hkt⟩ := hkY hk
  pyir_eval [tbl_Send, m_Send_deliver, m_Send__encrypt_and_send, sendOut, encryptAndSend, AgreeS, envC, hkv, hkt, hsd, hM,
    hk, absSCall]
  send_rel

/-- on the unreachable path "no key yet" the model says `AssertionError`, the code raises `AttributeError` (`Send` has
    no `_key` attribute before `record_key`); nothing else differs (no call, no state change) -/
theorem send_deliver_without_key (C : Crypto) (side : String) (fuel : Nat) (h : Store) (s : SendD)
    (R : RelSend side h s) (hk : s.key = false) (p : String) (m : Bytes) :
    let o := exec (fuel + 2) (envC C) tbl_Send "deliver" [.str p, .bytes m] h
    o.exc = some "AttributeError" ∧ o.calls = [] ∧ o.heap = h ∧
      sendOut C side .deliver (.send p m) s = (s, [], some .assertion) := by
  send_open R
  have := hkN hk
  pyir_eval [tbl_Send, m_Send_deliver, m_Send__encrypt_and_send, sendOut, encryptAndSend, envC, this, hk]

/-- `drain(key)`: every queued plaintext sealed under its own phase, in order, then the queue is emptied — for every
    queue length.  `s.key = true`: `record_key` is the output before `drain` in the only row that has it. -/
theorem send_drain (C : Crypto) (side : String) (fuel : Nat) (h : Store) (s : SendD) (R : RelSend side h s)
    (hk : s.key = true) (k : Val) :
    AgreeS side (exec (fuel + 2) (envC C) tbl_Send "drain" [k] h)
      (sendOut C side .drain .key s) := by
  send_open R
  obtain ⟨kv, hkv, hkt⟩ := hkY hk
  pyir_eval [tbl_Send, m_Send_drain, sendOut, AgreeS, envC, hq, sendDrainLoop_key C side s hk]
  rw [forLoop_calls h (gAddMessage C side)]
  · pyir_eval [hq, gAddMessage, absSCall, Function.comp_def, enc2]
    send_rel
  · intro v hv L cs
    simp only [List.mem_map] at hv
    obtain ⟨e, he, rfl⟩ := hv
    pyir_eval [tbl_Send, m_Send__encrypt_and_send, hkv, hkt, hsd, hM, patLocals, gAddMessage, enc2]

/-- `drain` when `Mailbox.add_message` fails on the `k`-th queued message: the queue is NOT emptied — what `cSend`
    restores in the model -/
theorem send_drain_abort (C : Crypto) (side : String) (fuel : Nat) (h : Store) (s : SendD) (R : RelSend side h s)
    (hk : s.key = true) (k : Val) (pre : List (String × Bytes)) (x : String × Bytes) (post : List (String × Bytes))
    (hqueue : s.queue = pre ++ x :: post) (c : String) :
    let o := exec (fuel + 2) (envCR C (fun k => if k = pre.length then some c else none)) tbl_Send "drain" [k] h
    RelSend side o.heap s ∧
      o.calls.map absSCall = ((pre ++ [x]).map fun e => some (e.1, C.enc side e.1 e.2)) ∧ o.exc = some c := by
  send_open R
  obtain ⟨kv, hkv, hkt⟩ := hkY hk
  rw [hqueue] at hq
  pyir_eval [tbl_Send, m_Send_drain, envCR, envC, hq]
  rw [forLoop_calls_abort h (gAddMessage C side) c pre.length]
  · pyir_eval [gAddMessage, absSCall, Function.comp_def, enc2]
    send_rel
  · intro v hv L cs hlt
    simp only [List.mem_map] at hv
    obtain ⟨e, he, rfl⟩ := hv
    pyir_eval [tbl_Send, m_Send__encrypt_and_send, hkv, hkt, hsd, hM, patLocals, gAddMessage, enc2, Nat.ne_of_lt hlt]
  · intro L cs hlen
    pyir_eval [tbl_Send, m_Send__encrypt_and_send, hkv, hkt, hsd, hM, patLocals, gAddMessage, enc2, hlen]
  · simp

/-! ## Receive -/

macro "recv_rel" : tactic =>
  `(tactic| (constructor <;> first | assumption | (simp [get_set, *]; done) | (simp [get_set]; assumption)))

set_option hygiene false in
macro "recv_open" R:ident : tactic => `(tactic| obtain ⟨⟨kv, hkv, hkc⟩, ⟨vB, hB⟩, ⟨vS, hS⟩⟩ := $R)

/-- `record_key(key)`.  Caller: `Key`/`_SortedKey.compute_key` with the 32-byte SPAKE2-derived session key. -/
theorem recv_record_key (C : Crypto) (fuel : Nat) (h : Store) (r : RecvD) (R : RelRecv h r) (kb : Bytes) (hkb : kb ≠ []) :
    AgreeR (exec (fuel + 1) (envC C) tbl_Receive "record_key" [.bytes kb] h) (recvOut .record_key .key r) := by
  recv_open R
  pyir_eval [tbl_Receive, m_Receive_record_key, recvOut, AgreeR, envC]
  exact ⟨⟨_, by simp [get_set], Or.inr ⟨kb, rfl, hkb, rfl⟩⟩, ⟨vB, by simp [get_set, hB]⟩, ⟨vS, by simp [get_set, hS]⟩⟩

theorem recv_S_got_verified_key (C : Crypto) (fuel : Nat) (h : Store) (r : RecvD) (R : RelRecv h r) (p : String) (m : Bytes) :
    AgreeR (exec (fuel + 1) (envC C) tbl_Receive "S_got_verified_key" [.str p, .bytes m] h)
      (recvOut .S_got_verified_key (.good p m) r) := by
  have R' := R
  recv_open R
  rcases hkc with ⟨rfl, hk⟩ | ⟨kb, rfl, hkb, hk⟩
  · pyir_eval [tbl_Receive, m_Receive_S_got_verified_key, recvOut, AgreeR, envC, hkv, hk, hS, absRCall, Err.name]
    exact R'
  · pyir_eval [tbl_Receive, m_Receive_S_got_verified_key, recvOut, AgreeR, envC, hkv, hk, hS, absRCall, hkb, Err.name]
    exact R'

theorem recv_W_happy (C : Crypto) (fuel : Nat) (h : Store) (r : RecvD) (R : RelRecv h r) (p : String) (m : Bytes) :
    AgreeR (exec (fuel + 1) (envC C) tbl_Receive "W_happy" [.str p, .bytes m] h) (recvOut .W_happy (.good p m) r) := by
  have R' := R
  recv_open R
  pyir_eval [tbl_Receive, m_Receive_W_happy, recvOut, AgreeR, envC, hB, absRCall]
  exact R'

theorem recv_W_got_verifier (C : Crypto) (fuel : Nat) (h : Store) (r : RecvD) (R : RelRecv h r) (p : String) (m : Bytes) :
    AgreeR (exec (fuel + 1) (envC C) tbl_Receive "W_got_verifier" [.str p, .bytes m] h)
      (recvOut .W_got_verifier (.good p m) r) := by
  have R' := R
  recv_open R
  pyir_eval [tbl_Receive, m_Receive_W_got_verifier, recvOut, AgreeR, envC, hB, hkv, absRCall]
  exact R'

/-- `W_got_message(phase, plaintext)` hands exactly its two arguments to the Boss; types asserted by the body -/
theorem recv_W_got_message (C : Crypto) (fuel : Nat) (h : Store) (r : RecvD) (R : RelRecv h r) (p : String) (m : Bytes) :
    AgreeR (exec (fuel + 1) (envC C) tbl_Receive "W_got_message" [.str p, .bytes m] h)
      (recvOut .W_got_message (.good p m) r) := by
  have R' := R
  recv_open R
  pyir_eval [tbl_Receive, m_Receive_W_got_message, recvOut, AgreeR, envC, hB, absRCall]
  exact R'

theorem recv_W_scared (C : Crypto) (fuel : Nat) (h : Store) (r : RecvD) (R : RelRecv h r) :
    AgreeR (exec (fuel + 1) (envC C) tbl_Receive "W_scared" [] h) (recvOut .W_scared .bad r) := by
  have R' := R
  recv_open R
  pyir_eval [tbl_Receive, m_Receive_W_scared, recvOut, AgreeR, envC, hB, absRCall]
  exact R'

/-- `got_message(side, phase, body)`: no key → bad; decrypt under the (side, phase) key; `CryptoError` → bad; otherwise
    good with exactly (phase, plaintext).  One Automat input, nothing else.  Argument types asserted by the body. -/
theorem recv_got_message (C : Crypto) (fuel : Nat) (h : Store) (r : RecvD) (R : RelRecv h r) (sd p : String) (b : Bytes) :
    let o := exec (fuel + 1) (envC C) tbl_Receive "got_message" [.str sd, .str p, .bytes b] h
    ∃ i a, o.calls.map absRInput = [some (i, a)] ∧ recvGotMessage C r sd p b = recvStep r i a ∧
      o.heap = h ∧ o.exc = none := by
  recv_open R
  rcases hkc with ⟨rfl, hk⟩ | ⟨kb, rfl, hkb, hk⟩
  · refine ⟨.got_message_bad, .bad, ?_⟩
    pyir_eval [tbl_Receive, m_Receive_got_message, envC, hkv, hk, absRInput, recvGotMessage]
  · cases hd : C.dec sd p b with
    | none =>
      refine ⟨.got_message_bad, .bad, ?_⟩
      pyir_eval [tbl_Receive, m_Receive_got_message, envC, hkv, hk, hd, absRInput, recvGotMessage]
    | some m =>
      refine ⟨.got_message_good, .good p m, ?_⟩
      pyir_eval [tbl_Receive, m_Receive_got_message, envC, hkv, hk, hd, absRInput, recvGotMessage]

/-! ## Boss -/

macro "boss_rel" : tactic =>
  `(tactic| (constructor <;> first | assumption | (simp [get_set, encRx, *]; done) | (simp [get_set]; assumption)))

set_option hygiene false in
macro "boss_open" R:ident : tactic =>
  `(tactic| obtain ⟨hTx, hRn, hRp, hDn, hDp, ⟨vRes, hRes⟩, ⟨vS, hS⟩, ⟨vW, hW⟩, ⟨vD, hD⟩, ⟨vT, hT⟩⟩ := $R)

/-- `S_send(plaintext)`: the phase is the counter *before* the increment, formatted with `"%d"`; type asserted by
    the body -/
theorem boss_S_send (C : Crypto) (fuel : Nat) (h : Store) (b : BossD) (R : RelBoss h b) (m : Bytes) :
    AgreeB (exec (fuel + 1) (envC C) tbl_Boss "S_send" [.bytes m] h) (bossOut .S_send (.pt m) b) := by
  boss_open R
  pyir_eval [tbl_Boss, m_Boss_S_send, bossOut, takeTxPhase, AgreeB, envC, hTx, hS, absBCall]
  boss_rel

/-- the ORDER inside `S_send`: the counter is already incremented when `Send.send` is called, so a failure below
    (`cBossRes` keeps the updated Boss state) or a re-entrant `send` from inside it never reuses the phase -/
theorem boss_S_send_when_Send_fails (C : Crypto) (fuel : Nat) (h : Store) (b : BossD) (R : RelBoss h b) (m : Bytes)
    (c : String) :
    let o := exec (fuel + 1) (envCR C (fun k => if k = 0 then some c else none)) tbl_Boss "S_send" [.bytes m] h
    RelBoss o.heap (bossOut .S_send (.pt m) b).1 ∧ o.calls.map absBCall = [some (.sSend (showPhase b.nextTx) m)] ∧
      o.exc = some c := by
  boss_open R
  pyir_eval [tbl_Boss, m_Boss_S_send, bossOut, takeTxPhase, envCR, envC, hTx, hS, absBCall]
  boss_rel

/-- `W_received(phase, plaintext)`: park the plaintext under its phase, then hand the longest gap-free run starting at
    `_next_rx_phase` to the application, in order — the model's `wReceived`/`rxLoop`, for every buffer size.
    `phase` is an int: asserted by the body.  Fuel: the loop runs at most `len(_rx_phases) + 1` times. -/
theorem boss_W_received (C : Crypto) (fuel : Nat) (h : Store) (b : BossD) (R : RelBoss h b) (n : Nat) (m : Bytes)
    (hf : b.rx.phases.length + 3 ≤ fuel) :
    AgreeB (exec fuel (envC C) tbl_Boss "W_received" [.int n, .bytes m] h) (bossOut .W_received (.phase n m) b) := by
  boss_open R
  obtain ⟨f, rfl⟩ : ∃ f, fuel = f + 1 := ⟨fuel - 1, by omega⟩
  pyir_eval [tbl_Boss, m_Boss_W_received, hRp, encRx, dictSet_enc keyEnc_int, bossOut, wReceived, envC]
  generalize hw : whileLoop _ _ _ _ = w
  refine whileLoop_rx (fun h' rx => RelBoss h' { b with rx := rx }) (fun v => ⟨"_W", "received", [.bytes v]⟩) hw
    ⟨b.rx.next, dset b.rx.phases n m⟩ ?hcond ?hbody ?hI ?hF ?cont
  case hcond =>
    intro h' rx L cs hI
    obtain ⟨hTx, hRn, hRp, hDn, hDp, ⟨vRes, hRes⟩, ⟨vS, hS⟩, ⟨vW, hW⟩, ⟨vD, hD⟩, ⟨vT, hT⟩⟩ := hI
    simp only at hRn hRp
    pyir_eval [hRn, hRp, encRx, dictGet_enc keyEnc_int]
  case hbody =>
    intro h' rx L cs v hI hg
    obtain ⟨hTx, hRn, hRp, hDn, hDp, ⟨vRes, hRes⟩, ⟨vS, hS⟩, ⟨vW, hW⟩, ⟨vD, hD⟩, ⟨vT, hT⟩⟩ := hI
    simp only at hRn hRp
    pyir_eval [hRn, hRp, hW, encRx, dictGet_enc keyEnc_int, dictDel_enc keyEnc_int, hg]
    boss_rel
  case hI => boss_rel
  case hF => have := dset_length_le b.rx.phases n m; simp only; omega
  case cont =>
    intro h' L' hI' hw'
    subst hw'
    simp [AgreeB, absBCall, Function.comp_def]
    exact hI'

/-- `D_received_dilate(seqnum, plaintext)`: the same strict-order loop on the dilation buffer -/
theorem boss_D_received_dilate (C : Crypto) (fuel : Nat) (h : Store) (b : BossD) (R : RelBoss h b) (n : Nat) (m : Bytes)
    (hf : b.drx.phases.length + 3 ≤ fuel) :
    AgreeB (exec fuel (envC C) tbl_Boss "D_received_dilate" [.int n, .bytes m] h)
      (bossOut .D_received_dilate (.phase n m) b) := by
  boss_open R
  obtain ⟨f, rfl⟩ : ∃ f, fuel = f + 1 := ⟨fuel - 1, by omega⟩
  pyir_eval [tbl_Boss, m_Boss_D_received_dilate, hDp, encRx, dictSet_enc keyEnc_int, bossOut, wReceived, envC]
  generalize hw : whileLoop _ _ _ _ = w
  refine whileLoop_rx (fun h' rx => RelBoss h' { b with drx := rx }) (fun v => ⟨"_D", "received_dilate", [.bytes v]⟩) hw
    ⟨b.drx.next, dset b.drx.phases n m⟩ ?hcond ?hbody ?hI ?hF ?cont
  case hcond =>
    intro h' rx L cs hI
    obtain ⟨hTx, hRn, hRp, hDn, hDp, ⟨vRes, hRes⟩, ⟨vS, hS⟩, ⟨vW, hW⟩, ⟨vD, hD⟩, ⟨vT, hT⟩⟩ := hI
    simp only at hDn hDp
    pyir_eval [hDn, hDp, encRx, dictGet_enc keyEnc_int]
  case hbody =>
    intro h' rx L cs v hI hg
    obtain ⟨hTx, hRn, hRp, hDn, hDp, ⟨vRes, hRes⟩, ⟨vS, hS⟩, ⟨vW, hW⟩, ⟨vD, hD⟩, ⟨vT, hT⟩⟩ := hI
    simp only at hDn hDp
    pyir_eval [hDn, hDp, hD, encRx, dictGet_enc keyEnc_int, dictDel_enc keyEnc_int, hg]
    boss_rel
  case hI => boss_rel
  case hF => have := dset_length_le b.drx.phases n m; simp only; omega
  case cont =>
    intro h' L' hI' hw'
    subst hw'
    simp [AgreeB, absBCall, Function.comp_def]
    exact hI'

/-- `got_message(phase, plaintext)`: "version" → `_got_version`, `dilate-N` → `_got_dilate(N, …)`, digits →
    `_got_phase(int(phase), …)`, anything else is logged and ignored — the model's `classifyPhase`/`bossGotMessage`
    (`re.search` and `int` are the model's phase parsers, see `envC`).  One Automat input (or one `log.err`), nothing
    else.  Argument types asserted by the body. -/
theorem boss_got_message (C : Crypto) (fuel : Nat) (h : Store) (b : BossD) (ph : String) (m : Bytes) :
    let o := exec (fuel + 1) (envC C) tbl_Boss "got_message" [.str ph, .bytes m] h
    o.heap = h ∧ o.exc = none ∧
    match bossGotMessage b ph m with
    | some r => ∃ i a, o.calls.map absBInput = [some (i, a)] ∧ r = bossStep b i a
    | none => o.calls.map (fun c => (c.obj, c.meth)) = [("log", "err")] := by
  by_cases hv : ph = "version"
  · subst hv
    have hd : parseDilate "version" = none := by decide
    pyir_eval [tbl_Boss, m_Boss_got_message, envC, bossGotMessage, classifyPhase, hd]
    exact ⟨_, _, rfl, rfl⟩
  · cases hd : parseDilate ph with
    | some n =>
      pyir_eval [tbl_Boss, m_Boss_got_message, envC, bossGotMessage, classifyPhase, hv, hd]
      exact ⟨_, _, rfl, rfl⟩
    | none =>
      cases hn : parseDigits ph with
      | some n =>
        pyir_eval [tbl_Boss, m_Boss_got_message, envC, bossGotMessage, classifyPhase, hv, hd, hn]
        exact ⟨_, _, rfl, rfl⟩
      | none =>
        pyir_eval [tbl_Boss, m_Boss_got_message, envC, bossGotMessage, classifyPhase, hv, hd, hn]

/-! the Boss outputs that only pass a call on (their arguments are opaque to the model) -/

theorem boss_close_unwelcome (C : Crypto) (fuel : Nat) (h : Store) (b : BossD) (R : RelBoss h b) (v : Val) :
    AgreeB (exec (fuel + 1) (envC C) tbl_Boss "close_unwelcome" [v] h) (bossOut .close_unwelcome .one b) := by
  boss_open R
  pyir_eval [tbl_Boss, m_Boss_close_unwelcome, bossOut, AgreeB, envC, hT, absBCall]
  boss_rel

theorem boss_close_error (C : Crypto) (fuel : Nat) (h : Store) (b : BossD) (R : RelBoss h b) (v w : Val) :
    AgreeB (exec (fuel + 1) (envC C) tbl_Boss "close_error" [v, w] h) (bossOut .close_error .two b) := by
  boss_open R
  pyir_eval [tbl_Boss, m_Boss_close_error, bossOut, AgreeB, envC, hT, absBCall]
  boss_rel

theorem boss_close_scared (C : Crypto) (fuel : Nat) (h : Store) (b : BossD) (R : RelBoss h b) :
    AgreeB (exec (fuel + 1) (envC C) tbl_Boss "close_scared" [] h) (bossOut .close_scared .none b) := by
  boss_open R
  pyir_eval [tbl_Boss, m_Boss_close_scared, bossOut, AgreeB, envC, hT, absBCall]
  boss_rel

theorem boss_close_lonely (C : Crypto) (fuel : Nat) (h : Store) (b : BossD) (R : RelBoss h b) :
    AgreeB (exec (fuel + 1) (envC C) tbl_Boss "close_lonely" [] h) (bossOut .close_lonely .none b) := by
  boss_open R
  pyir_eval [tbl_Boss, m_Boss_close_lonely, bossOut, AgreeB, envC, hT, absBCall]
  boss_rel

theorem boss_close_happy (C : Crypto) (fuel : Nat) (h : Store) (b : BossD) (R : RelBoss h b) :
    AgreeB (exec (fuel + 1) (envC C) tbl_Boss "close_happy" [] h) (bossOut .close_happy .none b) := by
  boss_open R
  pyir_eval [tbl_Boss, m_Boss_close_happy, bossOut, AgreeB, envC, hT, absBCall]
  boss_rel

theorem boss_do_got_code (C : Crypto) (fuel : Nat) (h : Store) (b : BossD) (R : RelBoss h b) (v : Val) :
    AgreeB (exec (fuel + 1) (envC C) tbl_Boss "do_got_code" [v] h) (bossOut .do_got_code .one b) := by
  boss_open R
  pyir_eval [tbl_Boss, m_Boss_do_got_code, bossOut, AgreeB, envC, hW, absBCall]
  boss_rel

theorem boss_W_got_key (C : Crypto) (fuel : Nat) (h : Store) (b : BossD) (R : RelBoss h b) (v : Val) :
    AgreeB (exec (fuel + 1) (envC C) tbl_Boss "W_got_key" [v] h) (bossOut .W_got_key .one b) := by
  boss_open R
  pyir_eval [tbl_Boss, m_Boss_W_got_key, bossOut, AgreeB, envC, hW, absBCall]
  boss_rel

theorem boss_D_got_key (C : Crypto) (fuel : Nat) (h : Store) (b : BossD) (R : RelBoss h b) (v : Val) :
    AgreeB (exec (fuel + 1) (envC C) tbl_Boss "D_got_key" [v] h) (bossOut .D_got_key .one b) := by
  boss_open R
  pyir_eval [tbl_Boss, m_Boss_D_got_key, bossOut, AgreeB, envC, hD, absBCall]
  boss_rel

theorem boss_W_got_verifier (C : Crypto) (fuel : Nat) (h : Store) (b : BossD) (R : RelBoss h b) (v : Val) :
    AgreeB (exec (fuel + 1) (envC C) tbl_Boss "W_got_verifier" [v] h) (bossOut .W_got_verifier .one b) := by
  boss_open R
  pyir_eval [tbl_Boss, m_Boss_W_got_verifier, bossOut, AgreeB, envC, hW, absBCall]
  boss_rel

theorem boss_W_close_with_error (C : Crypto) (fuel : Nat) (h : Store) (b : BossD) (R : RelBoss h b) (v : Val) :
    AgreeB (exec (fuel + 1) (envC C) tbl_Boss "W_close_with_error" [v] h) (bossOut .W_close_with_error .one b) := by
  boss_open R
  pyir_eval [tbl_Boss, m_Boss_W_close_with_error, bossOut, AgreeB, envC, hW, absBCall]
  boss_rel

theorem boss_W_closed (C : Crypto) (fuel : Nat) (h : Store) (b : BossD) (R : RelBoss h b) :
    AgreeB (exec (fuel + 1) (envC C) tbl_Boss "W_closed" [] h) (bossOut .W_closed .none b) := by
  boss_open R
  pyir_eval [tbl_Boss, m_Boss_W_closed, bossOut, AgreeB, envC, hW, hRes, absBCall]
  boss_rel

/-! non-vacuity: a concrete Boss heap (phases 2 and 4 parked, 1 missing) in the relation, and concrete runs -/
def demoBoss : BossD := { st := .S2_happy, nextTx := 3, rx := { next := 1, phases := [(2, [22]), (4, [44])] }, drx := rxInit }
def demoBossHeap : Store :=
  [("_next_tx_phase", .int 3), ("_next_rx_phase", .int 1), ("_rx_phases", .dict [(.int 2, .bytes [22]), (.int 4, .bytes [44])]),
   ("_next_rx_dilate_seqnum", .int 0), ("_rx_dilate_seqnums", .dict []), ("_result", .str "empty"),
   ("_S", .obj "Send" []), ("_W", .obj "Wormhole" []), ("_D", .obj "Dilator" []), ("_T", .obj "Terminator" [])]
example : RelBoss demoBossHeap demoBoss := by
  constructor <;> simp [demoBossHeap, demoBoss, Store.get, encRx, encDict, rxInit]
example : (exec 5 (envC toyCrypto) tbl_Boss "W_received" [.int 1, .bytes [11]] demoBossHeap).calls.map absBCall
    = [some (.wReceived [11]), some (.wReceived [22])] := by decide
example : (exec 1 (envC toyCrypto) tbl_Boss "S_send" [.bytes [7]] demoBossHeap).calls.map absBCall
    = [some (.sSend "3" [7])] := by decide

end WV.Props.PyIRC03
