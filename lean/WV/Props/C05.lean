import WV.Proofs.C05

/-!
C05 — `wormhole receive` writes only where it said it would, and never clobbers.

All theorems are about the definitions of `WV.Model.C05` that the driver executes
(`decideDest`, `handleFile`, `handleDirectory`, `extractGuard`, `extractFile`, `writeDirectory`, …),
for every offered name / archive member name (arbitrary `List Char`), every file system (an arbitrary
function `Path → Option Kind`) and every `Args`.
-/
namespace WV.Props.C05
open WV WV.C05

/-- the call structure the model mirrors is the one the translator reads off the source today
    (a dropped `basename`, a dropped guard, a reordered call changes `WV.Gen.Recv.calls`) -/
theorem skeleton_agrees : ∀ m ∈ WV.Gen.Recv.methods, modelCalls m = WV.Gen.Recv.calls m := by
  decide

/-- **the working directory is the process' working directory.**  `cli.Config.__init__` is still the
    single assignment `self.cwd = os.getcwd()` (read off the source by the translator): the `cwd` of
    every theorem below is the directory the receiver actually runs in, not something taken from the
    environment (`$PWD`, …).  `configCwd` in the model is justified only while this holds. -/
theorem config_cwd_is_process_cwd : WV.Gen.Recv.config_cwd_is_os_getcwd = true := by decide

/-- what is assumed about the working directory: it is what `os.getcwd()` returns (absolute,
    normalised, not the root), and it and its parent exist -/
structure CwdOK (fs : FS) (a : Args) : Prop where
  norm : Norm a.cwd
  exists_cwd : fs.pathExists a.cwd = true
  exists_parent : fs.pathExists (abspath a.proc (join2 a.cwd dotdot)) = true

/-- **dest_is_child.**  Without `--output-file`, for EVERY offered name, `_decide_destname` either
    rejects, or returns `cwd/b` where `b = basename(name)` is an ordinary name (not `""`, `"."`,
    `".."`, no `/`) and `cwd/b` does not exist; the file system is not touched either way. -/
theorem dest_is_child (fs : FS) (a : Args) (name : Path) (h : CwdOK fs a) (hno : a.outputFile = []) :
    decideDest fs a name = (fs, .error .transferRejected) ∨
    (IsName (basename name) ∧ fs.pathExists (a.cwd ++ '/' :: basename name) = false ∧
      decideDest fs a name = (fs, .ok (a.cwd ++ '/' :: basename name))) := by
  rw [decideDest_no_output fs a name hno]
  have hnr : normpath a.cwd ≠ ['/'] ∧ normpath a.cwd ≠ ['/', '/'] := by rw [h.norm.fix]; exact h.norm.notRoot
  rcases candidate_cases a.proc h.norm.abs hnr name with ⟨hn, e⟩ | ⟨_, e⟩ | ⟨_, e⟩
  · rw [e, h.norm.fix]
    by_cases hex : fs.pathExists (a.cwd ++ '/' :: basename name) = true
    · left; simp [hex]
    · right
      have hex' : fs.pathExists (a.cwd ++ '/' :: basename name) = false := by simpa using hex
      exact ⟨hn, hex', by simp [hex']⟩
  · left; rw [e, h.norm.fix]; simp [h.exists_cwd]
  · left; rw [e]; simp [h.exists_parent]

/-- `dest_is_child` for the arguments the real entry point builds: whatever `$PWD` says, the
    destination is a fresh child of the directory the process runs in -/
theorem dest_is_child_of_process_cwd (fs : FS) (proc envPWD : Path) (acc : Bool) (ans name : Path)
    (hn : Norm proc) (h1 : fs.pathExists proc = true)
    (h2 : fs.pathExists (abspath proc (join2 proc dotdot)) = true) :
    decideDest fs (entryArgs proc envPWD [] acc ans) name = (fs, .error .transferRejected) ∨
    (IsName (basename name) ∧ fs.pathExists (proc ++ '/' :: basename name) = false ∧
      decideDest fs (entryArgs proc envPWD [] acc ans) name = (fs, .ok (proc ++ '/' :: basename name))) :=
  dest_is_child fs (entryArgs proc envPWD [] acc ans) name ⟨hn, h1, h2⟩ rfl

/-- **an existing destination is refused** (the converse half of `dest_is_child`): without
    `--output-file`, whenever `os.path.exists(cwd/basename)` — a regular file, a directory, a special
    node, a link that resolves — the offer is rejected and nothing is touched -/
theorem existing_destination_refused (fs : FS) (a : Args) (name : Path) (h : CwdOK fs a) (hno : a.outputFile = [])
    (hex : fs.pathExists (a.cwd ++ '/' :: basename name) = true) :
    decideDest fs a name = (fs, .error .transferRejected) := by
  rcases dest_is_child fs a name h hno with e | ⟨_, hne, _⟩
  · exact e
  · rw [hne] at hex; exact absurd hex (by decide)

/-- … in particular a **special node** (named pipe, unix socket, device: exists, not a file, not a
    directory) at the destination name is refused — "neither file nor directory" is not "nothing there" -/
theorem special_destination_refused (fs : FS) (a : Args) (name : Path) (h : CwdOK fs a) (hno : a.outputFile = [])
    (hk : fs.kind (a.cwd ++ '/' :: basename name) = some .other) :
    decideDest fs a name = (fs, .error .transferRejected) ∧
    fs.isFile (a.cwd ++ '/' :: basename name) = false ∧ fs.isDir (a.cwd ++ '/' :: basename name) = false :=
  ⟨existing_destination_refused fs a name h hno (by simp [FS.pathExists, hk]),
   by simp [FS.isFile, hk], by simp [FS.isDir, hk]⟩

/-- … and so the whole offer fails (as `TransferError`) with the file system untouched -/
theorem special_destination_offer_fails (fs : FS) (a : Args) (name : Path) (dropped : Bool) (h : CwdOK fs a)
    (hno : a.outputFile = []) (hk : fs.kind (a.cwd ++ '/' :: basename name) = some .other) :
    offerFile fs a name dropped = (fs, .error .transferError) := by
  have hd := (special_destination_refused fs a name h hno hk).1
  simp [offerFile, handleFile, hd, goErr]

/-- the decided destination is again a normal absolute path (so `extract_inside` applies to it) -/
theorem dest_is_normal (fs : FS) (a : Args) (name : Path) (h : CwdOK fs a) (hno : a.outputFile = [])
    (fs' : FS) (d : Path) (hd : decideDest fs a name = (fs', .ok d)) : Norm d := by
  rcases dest_is_child fs a name h hno with e | ⟨hn, _, e⟩
  · rw [e] at hd; simp at hd
  · rw [e] at hd
    have : d = a.cwd ++ '/' :: basename name := by simpa using (congrArg Prod.snd hd).symm
    rw [this]; exact h.norm.child hn

/-- **the whole `_handle_file` path without `--output-file`**: failure leaves the file system alone;
    success means the destination is the fresh child `cwd/basename`, and the only thing written is
    the staging file `cwd/basename.tmp` -/
theorem handle_file_no_output (fs : FS) (a : Args) (name : Path) (h : CwdOK fs a) (hno : a.outputFile = [])
    (fs' : FS) (r : Except Err (Path × Path)) (hr : handleFile fs a name = (fs', r)) :
    ((∃ e, r = .error e) ∧ fs' = fs) ∨
    (IsName (basename name) ∧ fs.pathExists (a.cwd ++ '/' :: basename name) = false ∧
      r = .ok (a.cwd ++ '/' :: basename name, a.cwd ++ '/' :: basename name ++ tmpSuffix) ∧
      fs' = fs.openWrite (a.cwd ++ '/' :: basename name ++ tmpSuffix)) := by
  unfold handleFile at hr
  rcases dest_is_child fs a name h hno with e | ⟨hn, hex, e⟩
  · rw [e] at hr
    simp only at hr
    left
    exact ⟨⟨_, (congrArg Prod.snd hr).symm⟩, (congrArg Prod.fst hr).symm⟩
  · rw [e] at hr
    simp only at hr
    have hask : askPermission fs a (a.cwd ++ '/' :: basename name) = (fs, .ok ()) ∨
        askPermission fs a (a.cwd ++ '/' :: basename name) = (fs, .error .transferRejected) := by
      unfold askPermission
      by_cases h1 : a.acceptFile = true
      · left; simp [h1]
      · by_cases h2 : answerYes a.answer = true
        · left; simp [h1, h2, hex]
        · right; simp [h1, h2]
    cases hfree : freeSpaceProbe fs a (a.cwd ++ '/' :: basename name) with
    | error e =>
      rw [hfree] at hr
      left
      exact ⟨⟨_, (congrArg Prod.snd hr).symm⟩, (congrArg Prod.fst hr).symm⟩
    | ok u =>
      rw [hfree] at hr
      rcases hask with ha | ha <;> rw [ha] at hr <;> simp only at hr
      · split at hr
        · left
          exact ⟨⟨_, (congrArg Prod.snd hr).symm⟩, (congrArg Prod.fst hr).symm⟩
        · right
          exact ⟨hn, hex, (congrArg Prod.snd hr).symm, (congrArg Prod.fst hr).symm⟩
      · left
        exact ⟨⟨_, (congrArg Prod.snd hr).symm⟩, (congrArg Prod.fst hr).symm⟩

/-- the staging name is a sibling of the destination: same directory, ordinary name `b.tmp` -/
theorem tmp_is_sibling {b : Path} (hb : IsName b) : IsName (b ++ tmpSuffix) := by
  have hs : tmpSuffix = ['.', 't', 'm', 'p'] := by decide
  rw [hs]
  refine ⟨?_, ?_, ?_, ?_⟩
  · simp
  · intro e
    have := congrArg List.length e
    simp [dot] at this
  · intro e
    have := congrArg List.length e
    simp [dotdot] at this
  · intro hm
    simp at hm
    exact hb.noslash hm

/-- **the whole `_handle_directory` path without `--output-file`**: the file system is never
    touched; success means the destination is the fresh child `cwd/basename` -/
theorem handle_directory_no_output (fs : FS) (a : Args) (mode name : Path) (h : CwdOK fs a)
    (hno : a.outputFile = []) (fs' : FS) (r : Except Err Path)
    (hr : handleDirectory fs a mode name = (fs', r)) :
    fs' = fs ∧ ((∃ e, r = .error e) ∨
      (IsName (basename name) ∧ fs.pathExists (a.cwd ++ '/' :: basename name) = false ∧
        r = .ok (a.cwd ++ '/' :: basename name))) := by
  unfold handleDirectory at hr
  split at hr
  · exact ⟨(congrArg Prod.fst hr).symm, Or.inl ⟨_, (congrArg Prod.snd hr).symm⟩⟩
  · rcases dest_is_child fs a name h hno with e | ⟨hn, hex, e⟩
    · rw [e] at hr
      simp only at hr
      exact ⟨(congrArg Prod.fst hr).symm, Or.inl ⟨_, (congrArg Prod.snd hr).symm⟩⟩
    · rw [e] at hr
      simp only at hr
      have hask : askPermission fs a (a.cwd ++ '/' :: basename name) = (fs, .ok ()) ∨
          askPermission fs a (a.cwd ++ '/' :: basename name) = (fs, .error .transferRejected) := by
        unfold askPermission
        by_cases h1 : a.acceptFile = true
        · left; simp [h1]
        · by_cases h2 : answerYes a.answer = true
          · left; simp [h1, h2, hex]
          · right; simp [h1, h2]
      cases hfree : freeSpaceProbe fs a (a.cwd ++ '/' :: basename name) with
      | error e =>
        rw [hfree] at hr
        exact ⟨(congrArg Prod.fst hr).symm, Or.inl ⟨_, (congrArg Prod.snd hr).symm⟩⟩
      | ok u =>
        rw [hfree] at hr
        rcases hask with ha | ha <;> rw [ha] at hr <;> simp only at hr
        · exact ⟨(congrArg Prod.fst hr).symm, Or.inr ⟨hn, hex, (congrArg Prod.snd hr).symm⟩⟩
        · exact ⟨(congrArg Prod.fst hr).symm, Or.inl ⟨_, (congrArg Prod.snd hr).symm⟩⟩

/-! ### `--output-file` -/

/-- **output_file_cases (1/3)**: `--output-file o` names nothing that exists ⇒ exactly
    `abspath(o)`, whatever the sender offered, and nothing is touched -/
theorem output_file_new (fs : FS) (a : Args) (name : Path) (ho : a.outputFile ≠ [])
    (hne : fs.pathExists (abspath a.proc (join2 a.cwd a.outputFile)) = false) :
    decideDest fs a name = (fs, .ok (abspath a.proc (join2 a.cwd a.outputFile))) := by
  simp [decideDest, confirmOverwrite, ho, hne]

/-- **output_file_cases (2/3)**: `o` names something that exists and is not a directory ⇒ that very
    path, whatever the sender offered; with `--accept-file` it is removed now if it is a regular
    file, otherwise nothing is touched yet -/
theorem output_file_existing_file (fs : FS) (a : Args) (name : Path) (ho : a.outputFile ≠ [])
    (hex : fs.pathExists (abspath a.proc (join2 a.cwd a.outputFile)) = true)
    (hnd : fs.isDir (abspath a.proc (join2 a.cwd a.outputFile)) = false) :
    decideDest fs a name =
      (if a.acceptFile = true ∧ fs.isFile (abspath a.proc (join2 a.cwd a.outputFile)) = true
        then fs.remove (abspath a.proc (join2 a.cwd a.outputFile)) else fs,
       .ok (abspath a.proc (join2 a.cwd a.outputFile))) := by
  have hd : decideDest fs a name = confirmOverwrite fs a (abspath a.proc (join2 a.cwd a.outputFile)) true := by
    simp [decideDest, ho, hex, hnd]
  rw [hd]
  unfold confirmOverwrite
  rw [if_pos hex]
  by_cases hacc : a.acceptFile = true
  · rcases removeExisting_spec fs (abspath a.proc (join2 a.cwd a.outputFile)) with ⟨hf, e⟩ | ⟨_, hdir, _⟩ | ⟨hf, _, e⟩
    · simp [hacc, e, hf]
    · rw [hnd] at hdir; exact absurd hdir (by decide)
    · simp [hacc, e, hf]
  · simp [hacc]

/-- **output_file_cases (3/3)**: `o` names an existing directory `O` ⇒ the same child lemma relative
    to `O`: the result is a rejection, or `O/basename(name)` with an ordinary basename (and the only
    thing that may have been removed is a regular file at exactly that path), or — only without
    `--accept-file` and only for a degenerate basename — an existing *directory*, which
    `_ask_permission` then refuses (`ask_permission_refuses_directory`). -/
theorem output_file_existing_dir (fs : FS) (a : Args) (name : Path) (ho : a.outputFile ≠ [])
    (hcwd : a.cwd.head? = some '/')
    (hdir : fs.isDir (abspath a.proc (join2 a.cwd a.outputFile)) = true)
    (hnr : abspath a.proc (join2 a.cwd a.outputFile) ≠ ['/'] ∧ abspath a.proc (join2 a.cwd a.outputFile) ≠ ['/', '/'])
    (hpar : fs.isDir (abspath a.proc (join2 (join2 a.cwd a.outputFile) dotdot)) = true)
    (fs' : FS) (r : Except Err Path) (hr : decideDest fs a name = (fs', r)) :
    (r = .error .transferRejected ∧ fs' = fs) ∨
    (IsName (basename name) ∧ r = .ok (abspath a.proc (join2 a.cwd a.outputFile) ++ '/' :: basename name) ∧
      (fs' = fs ∨ (fs.isFile (abspath a.proc (join2 a.cwd a.outputFile) ++ '/' :: basename name) = true ∧
        fs' = fs.remove (abspath a.proc (join2 a.cwd a.outputFile) ++ '/' :: basename name)))) ∨
    (a.acceptFile = false ∧ ¬ IsName (basename name) ∧ fs' = fs ∧ ∃ d, r = .ok d ∧ fs.isDir d = true) := by
  have hx : (join2 a.cwd a.outputFile).head? = some '/' := join2_abs hcwd
  have hO : abspath a.proc (join2 a.cwd a.outputFile) = normpath (join2 a.cwd a.outputFile) := abspath_abs _ hx
  have hex : fs.pathExists (abspath a.proc (join2 a.cwd a.outputFile)) = true := isDir_exists hdir
  have hd : decideDest fs a name =
      confirmOverwrite fs a (abspath a.proc (join2 (join2 a.cwd a.outputFile) (basename name))) true := by
    simp [decideDest, ho, hex, hdir, join3]
  rw [hd] at hr
  -- a uniform description of `confirmOverwrite … true` on a candidate `D`
  have conf : ∀ D : Path,
      confirmOverwrite fs a D true = (fs', r) →
      (r = .error .transferRejected ∧ fs' = fs ∧ fs.isDir D = true) ∨
      (r = .ok D ∧ (fs' = fs ∨ (fs.isFile D = true ∧ fs' = fs.remove D)) ∧ (a.acceptFile = true → fs.isDir D = false)) := by
    intro D hc
    unfold confirmOverwrite at hc
    by_cases hexD : fs.pathExists D = true
    · rw [if_pos hexD] at hc
      by_cases hacc : a.acceptFile = true
      · rcases removeExisting_spec fs D with ⟨hf, e⟩ | ⟨_, hdD, e⟩ | ⟨_, hdD, e⟩
        · simp [hacc, e] at hc
          exact Or.inr ⟨hc.2.symm, Or.inr ⟨hf, hc.1.symm⟩, fun _ => isFile_not_isDir hf⟩
        · simp [hacc, e] at hc
          exact Or.inl ⟨hc.2.symm, hc.1.symm, hdD⟩
        · simp [hacc, e] at hc
          exact Or.inr ⟨hc.2.symm, Or.inl hc.1.symm, fun _ => hdD⟩
      · simp [hacc] at hc
        exact Or.inr ⟨hc.2.symm, Or.inl hc.1.symm, fun h => absurd h hacc⟩
    · rw [if_neg hexD] at hc
      simp at hc
      refine Or.inr ⟨hc.2.symm, Or.inl hc.1.symm, fun _ => ?_⟩
      exact not_exists_not_isDir (by simpa using hexD)
  rcases candidate_cases a.proc hx (by rw [← hO]; exact hnr) name with ⟨hn, e⟩ | ⟨hn, e⟩ | ⟨hn, e⟩
  · rw [e, ← hO] at hr
    rcases conf _ hr with ⟨h1, h2, _⟩ | ⟨h1, h2, _⟩
    · exact Or.inl ⟨h1, h2⟩
    · exact Or.inr (Or.inl ⟨hn, h1, h2⟩)
  · rw [e, ← hO] at hr
    rcases conf _ hr with ⟨h1, h2, _⟩ | ⟨h1, h2, h3⟩
    · exact Or.inl ⟨h1, h2⟩
    · by_cases hacc : a.acceptFile = true
      · rw [h3 hacc] at hdir; exact absurd hdir (by decide)
      · have hacc' : a.acceptFile = false := by simpa using hacc
        rcases h2 with h2 | ⟨hf, _⟩
        · exact Or.inr (Or.inr ⟨hacc', hn, h2, _, h1, hdir⟩)
        · rw [isFile_not_isDir hf] at hdir; exact absurd hdir (by decide)
  · rw [e] at hr
    rcases conf _ hr with ⟨h1, h2, _⟩ | ⟨h1, h2, h3⟩
    · exact Or.inl ⟨h1, h2⟩
    · by_cases hacc : a.acceptFile = true
      · rw [h3 hacc] at hpar; exact absurd hpar (by decide)
      · have hacc' : a.acceptFile = false := by simpa using hacc
        rcases h2 with h2 | ⟨hf, _⟩
        · exact Or.inr (Or.inr ⟨hacc', hn, h2, _, h1, hpar⟩)
        · rw [isFile_not_isDir hf] at hpar; exact absurd hpar (by decide)

/-- `_ask_permission` never lets a transfer proceed onto an existing directory unless
    `--accept-file` already made `_decide_destname` deal with it -/
theorem ask_permission_refuses_directory (fs : FS) (a : Args) (d : Path) (hacc : a.acceptFile = false)
    (hd : fs.isDir d = true) : askPermission fs a d = (fs, .error .transferRejected) := by
  have hex : fs.pathExists d = true := isDir_exists hd
  unfold askPermission
  by_cases h2 : answerYes a.answer = true
  · rcases removeExisting_spec fs d with ⟨hf, _⟩ | ⟨_, _, e⟩ | ⟨_, hdd, _⟩
    · rw [isFile_not_isDir hf] at hd; exact absurd hd (by decide)
    · simp [hacc, h2, hex, e]
    · rw [hdd] at hd; exact absurd hd (by decide)
  · simp [hacc, h2]

/-! ### the interactive receiver: whatever is answered at `ok? (Y/n):`, an existing directory is refused

The prompt's answer is an input like the offered name: `a.answer` below is ANY string (`y`, `Y`, just Enter, `n`, …), and
`s.answer` is the answer of one receive of a sequence.  These theorems are the end-to-end form of
`ask_permission_refuses_directory`: the refusal raised by `_remove_existing` behind the prompt REACHES the caller — the
offer is over, nothing is opened, removed, created or unpacked. -/

/-- **a file offer that is accepted did not name a directory**: whenever `_handle_file` returns (any options, any answer,
    any name), its destination was not a directory — nor a link to one — when the offer arrived -/
theorem accepted_file_destination_was_no_directory (fs fs' : FS) (a : Args) (name d t : Path)
    (h : handleFile fs a name = (fs', .ok (d, t))) : fs.isDir d = false :=
  handleFile_ok_not_dir h

/-- … and the same for a directory offer: `_handle_directory` never hands an existing directory to the unpacking -/
theorem accepted_directory_destination_was_no_directory (fs fs' : FS) (a : Args) (mode name d : Path)
    (h : handleDirectory fs a mode name = (fs', .ok d)) : fs.isDir d = false :=
  handleDirectory_ok_not_dir h

/-- **existing directory ⇒ the whole offer fails and nothing is touched, whatever the user answers.**  Without
    `--accept-file`: if the destination `_decide_destname` settles on is an existing directory (`-o DIR` with a same-named
    sub-directory, or a sender-chosen `..`, `.`, `x/.`, trailing slash — see `output_file_existing_dir`), then for every
    answer at the prompt the file offer ends in an error with the file system exactly as it was. -/
theorem existing_directory_destination_fails_untouched (fs : FS) (a : Args) (name d : Path) (dropped : Bool)
    (hacc : a.acceptFile = false) (hd : (decideDest fs a name).2 = .ok d) (hdir : fs.isDir d = true) :
    ∃ e, offerFile fs a name dropped = (fs, .error e) := by
  have hdd : decideDest fs a name = (fs, .ok d) :=
    Prod.ext (decideDest_noaccept (fs := fs) name hacc) hd
  have hh : ∃ e, handleFile fs a name = (fs, .error e) := by
    unfold handleFile
    rw [hdd]
    simp only [askPermission_dir hacc hdir]
    cases freeSpaceProbe fs a d with
    | error e => exact ⟨e, rfl⟩
    | ok u => exact ⟨.transferRejected, rfl⟩
  obtain ⟨e, he⟩ := hh
  exact ⟨goErr e, by simp only [offerFile, he]⟩

/-- … and the directory offer likewise: nothing is unpacked into the directory the user already has -/
theorem existing_directory_destination_fails_untouched_dir (fs : FS) (a : Args) (mode name d : Path) (dropped extracted : Bool)
    (hacc : a.acceptFile = false) (hd : (decideDest fs a name).2 = .ok d) (hdir : fs.isDir d = true) :
    ∃ e, offerDirectory fs a mode name dropped extracted = (fs, .error e) := by
  have hdd : decideDest fs a name = (fs, .ok d) :=
    Prod.ext (decideDest_noaccept (fs := fs) name hacc) hd
  have hh : ∃ e, handleDirectory fs a mode name = (fs, .error e) := by
    unfold handleDirectory
    split
    · exact ⟨_, rfl⟩
    · rw [hdd]
      simp only [askPermission_dir hacc hdir]
      cases freeSpaceProbe fs a d with
      | error e => exact ⟨e, rfl⟩
      | ok u => exact ⟨.transferRejected, rfl⟩
  obtain ⟨e, he⟩ := hh
  exact ⟨goErr e, by simp only [offerDirectory, he]⟩

/-- **receive_never_onto_existing_directory.**  One whole `cmd_receive.receive(args)` — any options, any offer, any
    answer at the prompt: if it ends well, its destination was not a directory (nor a link to one) when it started.
    So no receive replaces, or unpacks into, a directory the user already had. -/
theorem receive_never_onto_existing_directory (a : Args) (fs : FS) (s : Step) (d : Path)
    (h : (receive a fs s).2.2 = .ok d) : fs.isDir d = false := by
  unfold receive at h
  cases ho : s.offer with
  | file n dr =>
    rw [ho] at h
    obtain ⟨fs1, t, hh⟩ := offerFile_ok h
    exact handleFile_ok_not_dir hh
  | dir m n dr ex =>
    rw [ho] at h
    obtain ⟨fs1, hh⟩ := offerDirectory_ok h
    exact handleDirectory_ok_not_dir hh

/-- … and after ANY history of receives with the same `args` object, judged on the file system as the history left it -/
theorem every_receive_never_onto_existing_directory (a : Args) (fs : FS) (hist : List Step) (s : Step) (d : Path)
    (h : (receive a (receives a fs hist).2.1 s).2.2 = .ok d) : (receives a fs hist).2.1.isDir d = false :=
  receive_never_onto_existing_directory a _ s d h

/-! ### never clobbers -/

/-- **never_removes_dir.**  `_remove_existing` deletes only regular files, and rejects directories -/
theorem remove_existing_only_files (fs : FS) (p : Path) :
    (fs.isFile p = true ∧ removeExisting fs p = (fs.remove p, .ok ())) ∨
    (fs.isDir p = true ∧ removeExisting fs p = (fs, .error .transferRejected)) ∨
    (fs.isFile p = false ∧ fs.isDir p = false ∧ removeExisting fs p = (fs, .ok ())) := by
  rcases removeExisting_spec fs p with h | ⟨_, h2, h3⟩ | h
  · exact Or.inl h
  · exact Or.inr (Or.inl ⟨h2, h3⟩)
  · exact Or.inr (Or.inr h)

/-- … and so no path through `_decide_destname` removes or replaces a directory, for any arguments,
    offered name and file system, whether it returns or raises -/
theorem never_removes_dir_decide (fs fs' : FS) (a : Args) (name : Path) (r : Except Err Path)
    (h : decideDest fs a name = (fs', r)) : ∀ p, fs.isRealDir p = true → fs'.isRealDir p = true :=
  decideDest_keepsDirs h

/-- … nor any path through `_handle_file` (including opening the staging file) -/
theorem never_removes_dir_file (fs fs' : FS) (a : Args) (name : Path) (r : Except Err (Path × Path))
    (h : handleFile fs a name = (fs', r)) : ∀ p, fs.isRealDir p = true → fs'.isRealDir p = true := by
  unfold handleFile at h
  cases hd : decideDest fs a name with
  | mk fs1 r1 =>
    have k1 := decideDest_keepsDirs hd
    rw [hd] at h
    cases r1 with
    | error e =>
      simp only at h
      have : fs' = fs1 := (congrArg Prod.fst h).symm
      rw [this]; exact k1
    | ok dest =>
      simp only at h
      cases hf : freeSpaceProbe fs1 a dest with
      | error e =>
        rw [hf] at h
        have : fs' = fs1 := (congrArg Prod.fst h).symm
        rw [this]; exact k1
      | ok u =>
        rw [hf] at h
        simp only at h
        cases ha : askPermission fs1 a dest with
        | mk fs2 r2 =>
          have k2 := askPermission_keepsDirs ha
          rw [ha] at h
          cases r2 with
          | error e =>
            simp only at h
            have : fs' = fs2 := (congrArg Prod.fst h).symm
            rw [this]; exact k1.trans k2
          | ok u2 =>
            simp only at h
            split at h
            · have : fs' = fs2 := (congrArg Prod.fst h).symm
              rw [this]; exact k1.trans k2
            · rename_i hc
              have : fs' = fs2.openWrite (dest ++ tmpSuffix) := (congrArg Prod.fst h).symm
              rw [this]
              have hnd : fs2.isDir (dest ++ tmpSuffix) = false := by
                cases hh : fs2.isDir (dest ++ tmpSuffix)
                · rfl
                · exact absurd (Or.inl hh) hc
              exact (k1.trans k2).trans (keepsDirs_openWrite hnd)

/-- … nor any path through `_handle_directory` -/
theorem never_removes_dir_directory (fs fs' : FS) (a : Args) (mode name : Path) (r : Except Err Path)
    (h : handleDirectory fs a mode name = (fs', r)) : ∀ p, fs.isRealDir p = true → fs'.isRealDir p = true := by
  unfold handleDirectory at h
  split at h
  · have : fs' = fs := (congrArg Prod.fst h).symm
    rw [this]; exact KeepsDirs.refl fs
  · cases hd : decideDest fs a name with
    | mk fs1 r1 =>
      have k1 := decideDest_keepsDirs hd
      rw [hd] at h
      cases r1 with
      | error e =>
        simp only at h
        have : fs' = fs1 := (congrArg Prod.fst h).symm
        rw [this]; exact k1
      | ok dest =>
        simp only at h
        cases hf : freeSpaceProbe fs1 a dest with
        | error e =>
          rw [hf] at h
          have : fs' = fs1 := (congrArg Prod.fst h).symm
          rw [this]; exact k1
        | ok u =>
          rw [hf] at h
          simp only at h
          cases ha : askPermission fs1 a dest with
          | mk fs2 r2 =>
            have k2 := askPermission_keepsDirs ha
            rw [ha] at h
            cases r2 with
            | error e =>
              simp only at h
              have : fs' = fs2 := (congrArg Prod.fst h).symm
              rw [this]; exact k1.trans k2
            | ok u2 =>
              simp only at h
              have : fs' = fs2 := (congrArg Prod.fst h).symm
              rw [this]; exact k1.trans k2

/-- … nor any path through a whole file offer as `Receiver._go` runs it — refusal by
    `_decide_destname`, refusal at the prompt (any answer), a connection dropped mid-way, a failing
    rename, or success: every directory that existed before still exists afterwards.  (`goErr`, the
    only exception handler around `_parse_offer`, has no file-system effect; `skeleton_agrees` ties
    that to the source of `_go`.) -/
theorem never_removes_dir_offer_file (fs fs' : FS) (a : Args) (name : Path) (dropped : Bool)
    (r : Except Err Path) (h : offerFile fs a name dropped = (fs', r)) :
    ∀ p, fs.isRealDir p = true → fs'.isRealDir p = true := by
  unfold offerFile at h
  cases hh : handleFile fs a name with
  | mk fs1 r1 =>
    have k1 : KeepsDirs fs fs1 := never_removes_dir_file fs fs1 a name r1 hh
    rw [hh] at h
    cases r1 with
    | error e =>
      simp only at h
      have : fs' = fs1 := (congrArg Prod.fst h).symm
      rw [this]; exact k1
    | ok dt =>
      obtain ⟨d, t⟩ := dt
      simp only at h
      split at h
      · have : fs' = fs1 := (congrArg Prod.fst h).symm
        rw [this]; exact k1
      · cases hw : writeFile fs1 d t with
        | mk fs2 r2 =>
          have k2 : KeepsDirs fs1 fs2 := writeFile_keepsDirs (handleFile_ok_tmp hh) hw
          rw [hw] at h
          cases r2 with
          | error e =>
            simp only at h
            have : fs' = fs2 := (congrArg Prod.fst h).symm
            rw [this]; exact k1.trans k2
          | ok u =>
            simp only at h
            have : fs' = fs2 := (congrArg Prod.fst h).symm
            rw [this]; exact k1.trans k2

/-- … nor any path through a whole directory offer -/
theorem never_removes_dir_offer_directory (fs fs' : FS) (a : Args) (mode name : Path) (dropped extracted : Bool)
    (r : Except Err Path) (h : offerDirectory fs a mode name dropped extracted = (fs', r)) :
    ∀ p, fs.isRealDir p = true → fs'.isRealDir p = true := by
  unfold offerDirectory at h
  cases hh : handleDirectory fs a mode name with
  | mk fs1 r1 =>
    have k1 : KeepsDirs fs fs1 := never_removes_dir_directory fs fs1 a mode name r1 hh
    rw [hh] at h
    cases r1 with
    | error e =>
      simp only at h
      have : fs' = fs1 := (congrArg Prod.fst h).symm
      rw [this]; exact k1
    | ok d =>
      simp only at h
      split at h
      · have : fs' = fs1 := (congrArg Prod.fst h).symm
        rw [this]; exact k1
      · have : fs' = (if extracted = true then fs1.set d .dir else fs1) := (congrArg Prod.fst h).symm
        rw [this]
        split
        · exact k1.trans (keepsDirs_set_dir fs1 d)
        · exact k1

/-- without `--output-file`, a refused or failed file offer leaves every pre-existing path exactly
    as it was; the only thing it can leave behind is the staging file `cwd/basename.tmp` -/
theorem failed_offer_file_no_output (fs : FS) (a : Args) (name : Path) (dropped : Bool) (h : CwdOK fs a)
    (hno : a.outputFile = []) (fs' : FS) (e : Err) (hr : offerFile fs a name dropped = (fs', .error e)) :
    fs' = fs ∨ (IsName (basename name) ∧ fs' = fs.openWrite (a.cwd ++ '/' :: basename name ++ tmpSuffix)) := by
  unfold offerFile at hr
  cases hh : handleFile fs a name with
  | mk fs1 r1 =>
    rw [hh] at hr
    rcases handle_file_no_output fs a name h hno fs1 r1 hh with ⟨⟨e1, he1⟩, hfs⟩ | ⟨hn, hex, hr1, hfs⟩
    · subst he1
      simp only at hr
      left
      rw [← hfs]; exact (congrArg Prod.fst hr).symm
    · subst hr1
      simp only at hr
      split at hr
      · right
        refine ⟨hn, ?_⟩
        rw [← hfs]; exact (congrArg Prod.fst hr).symm
      · -- the rename cannot fail: the destination does not exist, the staging file does
        exfalso
        have hreal : fs1.isRealDir (a.cwd ++ '/' :: basename name) = false := by
          rw [hfs]
          have hs : tmpSuffix = ['.', 't', 'm', 'p'] := by decide
          have e2 : a.cwd ++ '/' :: basename name ≠ a.cwd ++ '/' :: basename name ++ tmpSuffix := by
            intro e
            have := congrArg List.length e
            rw [hs] at this
            simp at this
          have := not_exists_not_real hex
          unfold FS.isRealDir at this ⊢
          rw [openWrite_kind_other e2]; exact this
        obtain ⟨k, hk⟩ := openWrite_kind_self fs (a.cwd ++ '/' :: basename name ++ tmpSuffix)
        rw [← hfs] at hk
        unfold writeFile at hr
        rw [if_neg (by simp [hreal]), hk] at hr
        simp at hr

/-! ### a refused offer touches nothing -/

/-- **refused ⇒ untouched (file offers).**  Whenever `_handle_file` ends in `TransferRejectedError` — the
    destination exists and `--output-file` does not allow it, the user says no, or the destination is a
    directory (found by `_decide_destname` or only behind the prompt) — the file system is exactly what it
    was: nothing is opened, truncated, removed or created before the refusal, for any offered name. -/
theorem refused_file_offer_touches_nothing (fs fs' : FS) (a : Args) (name : Path)
    (h : handleFile fs a name = (fs', .error .transferRejected)) : fs' = fs := by
  unfold handleFile at h
  cases hd : decideDest fs a name with
  | mk fs1 r1 =>
    rw [hd] at h
    cases r1 with
    | error e =>
      simp only at h
      have : fs' = fs1 := (congrArg Prod.fst h).symm
      rw [this]; exact decideDest_error hd
    | ok dest =>
      simp only at h
      cases hf : freeSpaceProbe fs1 a dest with
      | error e =>
        rw [hf] at h
        simp only [freeSpaceProbe] at hf
        split at hf
        · simp at hf
        · simp only [Except.error.injEq] at hf
          subst hf
          simp at h
      | ok u =>
        rw [hf] at h
        simp only at h
        cases ha : askPermission fs1 a dest with
        | mk fs2 r2 =>
          rw [ha] at h
          cases r2 with
          | error e =>
            simp only at h
            obtain ⟨h2, hacc⟩ := askPermission_error ha
            have h1 : fs1 = fs := by
              have := decideDest_noaccept (fs := fs) name hacc
              rw [hd] at this; exact this
            have : fs' = fs2 := (congrArg Prod.fst h).symm
            rw [this, h2, h1]
          | ok u2 =>
            simp only at h
            split at h <;> simp at h

/-- **refused ⇒ untouched (directory offers)**, including the unknown-mode `RespondError` -/
theorem refused_directory_offer_touches_nothing (fs fs' : FS) (a : Args) (mode name : Path) (e : Err)
    (he : e = .transferRejected ∨ e = .respondError)
    (h : handleDirectory fs a mode name = (fs', .error e)) : fs' = fs := by
  unfold handleDirectory at h
  split at h
  · exact (congrArg Prod.fst h).symm
  · cases hd : decideDest fs a name with
    | mk fs1 r1 =>
      rw [hd] at h
      cases r1 with
      | error e1 =>
        simp only at h
        have : fs' = fs1 := (congrArg Prod.fst h).symm
        rw [this]; exact decideDest_error hd
      | ok dest =>
        simp only at h
        cases hf : freeSpaceProbe fs1 a dest with
        | error e1 =>
          rw [hf] at h
          simp only [freeSpaceProbe] at hf
          split at hf
          · simp at hf
          · simp only [Except.error.injEq] at hf
            subst hf
            simp only [Prod.mk.injEq, Except.error.injEq] at h
            rcases he with he | he <;> rw [he] at h <;> simp at h
        | ok u =>
          rw [hf] at h
          simp only at h
          cases ha : askPermission fs1 a dest with
          | mk fs2 r2 =>
            rw [ha] at h
            cases r2 with
            | error e1 =>
              simp only at h
              obtain ⟨h2, hacc⟩ := askPermission_error ha
              have h1 : fs1 = fs := by
                have := decideDest_noaccept (fs := fs) name hacc
                rw [hd] at this; exact this
              have : fs' = fs2 := (congrArg Prod.fst h).symm
              rw [this, h2, h1]
            | ok u2 => simp at h

/-! ### more than one receive per process: the same `args` (Config) object, receive after receive

A library embedding, a GUI or a retry loop calls `cmd_receive.receive(cfg)` again and again with ONE Config object.
The property quantifies over the configuration *the user gave*; it must hold for the second and third receive exactly
as for the first — a receive may not leave anything behind (in `args`, in the class, in the module) that changes what a
later receive decides. -/

/-- **nothing the receive path stores outlives one receive.**  Read off the source by the translator: no assignment
    into the shared `args` object (`self.args.output_file = …`, `setattr`, an alias), no `global`, no class attribute, no
    mutable default, no write into a module-level container anywhere in `receive()` / `Receiver`.  `receive` in the model
    hands `args` back unchanged only while this holds. -/
theorem no_state_outlives_a_receive : WV.Gen.Recv.outlives_receive = [] := by decide

/-- **receive_leaves_args_unchanged.**  Whatever is offered, whatever the user answers, however the receive ends
    (success, refusal, dropped connection, failing rename): the `args` object comes back as it went in. -/
theorem receive_leaves_args_unchanged (a : Args) (fs : FS) (s : Step) : (receive a fs s).1 = a :=
  receive_args a fs s

/-- … and so after any number of receives -/
theorem receives_leave_args_unchanged (a : Args) (fs : FS) (steps : List Step) : (receives a fs steps).1 = a := by
  unfold receives
  rw [foldl_recvStep_args]

/-- **decision_independent_of_history.**  After ANY history of receives with the same `args` object, the next receive
    is `receive a fs' s` — a function of the options the user gave (`a`, not something an earlier receive made of them),
    of THIS offer and answer, and of the file system as it is now.  Nothing else of the history enters. -/
theorem decision_independent_of_history (a : Args) (fs : FS) (hist : List Step) (s : Step) :
    receives a fs (hist ++ [s]) =
      (a, (receive a (receives a fs hist).2.1 s).2.1,
       (receives a fs hist).2.2 ++ [(receive a (receives a fs hist).2.1 s).2.2]) := by
  rw [receives_snoc]
  unfold recvStep
  rw [receives_leave_args_unchanged, receive_leaves_args_unchanged]

/-- one receive never removes or replaces a directory … -/
theorem never_removes_dir_receive (a : Args) (fs : FS) (s : Step) :
    ∀ p, fs.isRealDir p = true → (receive a fs s).2.1.isRealDir p = true := by
  unfold receive
  cases s.offer with
  | file n dr => exact never_removes_dir_offer_file fs _ _ n dr _ rfl
  | dir m n dr ex => exact never_removes_dir_offer_directory fs _ _ m n dr ex _ rfl

/-- … nor does any sequence of them -/
theorem never_removes_dir_receives (a : Args) (fs : FS) (steps : List Step) :
    ∀ p, fs.isRealDir p = true → (receives a fs steps).2.1.isRealDir p = true := by
  have gen : ∀ (steps : List Step) (st : Args × FS × List (Except Err Path)),
      KeepsDirs st.2.1 (steps.foldl recvStep st).2.1 := by
    intro steps
    induction steps with
    | nil => intro st; exact KeepsDirs.refl _
    | cons s rest ih =>
      intro st
      rw [List.foldl_cons]
      exact KeepsDirs.trans (never_removes_dir_receive st.1 st.2.1 s) (ih (recvStep st s))
  exact gen steps (a, fs, [])

/-- **every receive of a sequence goes to the basename of ITS OWN offer, and never clobbers.**  Without `--output-file`,
    after any history of receives (refused, failed or successful ones, file or directory offers, any names): if the next
    receive succeeds, its destination is `cwd/basename(name of this offer)`, an ordinary name, and nothing of that name
    existed when it started — in particular not what an earlier receive of the same process wrote or was refused for. -/
theorem every_receive_dest_is_child (a : Args) (fs : FS) (hist : List Step) (s : Step)
    (hn : Norm a.cwd) (hno : a.outputFile = [])
    (h1 : fs.isRealDir a.cwd = true) (h2 : fs.isRealDir (abspath a.proc (join2 a.cwd dotdot)) = true)
    (d : Path) (hd : (receive a (receives a fs hist).2.1 s).2.2 = .ok d) :
    IsName (basename s.offer.name) ∧ d = a.cwd ++ '/' :: basename s.offer.name ∧
      (receives a fs hist).2.1.pathExists d = false := by
  have hc : CwdOK (receives a fs hist).2.1 { a with answer := s.answer } :=
    ⟨hn, isRealDir_exists (never_removes_dir_receives a fs hist _ h1),
     isRealDir_exists (never_removes_dir_receives a fs hist _ h2)⟩
  unfold receive at hd
  cases ho : s.offer with
  | file n dr =>
    rw [ho] at hd
    obtain ⟨fs1, t, hh⟩ := offerFile_ok hd
    rcases handle_file_no_output _ _ n hc hno fs1 _ hh with ⟨⟨e, he⟩, _⟩ | ⟨hnm, hex, hr, _⟩
    · simp at he
    · simp only [Except.ok.injEq, Prod.mk.injEq] at hr
      exact ⟨hnm, hr.1, by rw [hr.1]; exact hex⟩
  | dir m n dr ex =>
    rw [ho] at hd
    obtain ⟨fs1, hh⟩ := offerDirectory_ok hd
    rcases (handle_directory_no_output _ _ m n hc hno fs1 _ hh).2 with ⟨e, he⟩ | ⟨hnm, hex, hr⟩
    · simp at he
    · simp only [Except.ok.injEq] at hr
      exact ⟨hnm, hr, by rw [hr]; exact hex⟩

/-! ### archives -/

/-- **extract_inside.**  `_extract_file`'s guard accepts a member only if
    `normpath(join(dest, name))` — the path that is then `chmod`-ed — is strictly below `dest`:
    `dest/c₁/…/cₖ` with k ≥ 1 and every `cᵢ` an ordinary name (no `..`, no empty, no separator). -/
theorem extract_inside (proc dest name out : Path) (hd : Norm dest)
    (h : extractGuard proc dest name = .ok out) :
    out = normpath (join2 dest name) ∧ Below dest out := by
  unfold extractGuard at h
  have hj : (join2 dest name).head? = some '/' := join2_abs hd.abs
  rw [abspath_abs proc hj] at h
  simp only at h
  split at h
  · rename_i hp
    have : out = normpath (join2 dest name) := by simpa using h.symm
    rw [this]
    exact ⟨rfl, prefix_slash_below hd hj hp⟩
  · simp at h

/-- zipfile's own sanitisation (modelled library code): the written path is strictly below `dest` -/
theorem zip_target_inside (dest name tgt : Path) (hd : Norm dest) (h : zipTarget dest name = .ok tgt) :
    Below dest tgt := by
  unfold zipTarget at h
  split at h
  · simp at h
  · rename_i hne
    have ht : tgt = normpath (join2 dest (zipArcname name)) := by simpa using h.symm
    -- the sanitised components are ordinary names
    have hnames : ∀ c ∈ (comps name).filter (fun x => x ≠ [] ∧ x ≠ dot ∧ x ≠ dotdot), IsName c := by
      intro c hc
      simp only [List.mem_filter, decide_eq_true_eq] at hc
      exact ⟨hc.2.1, hc.2.2.1, hc.2.2.2, comps_mem_noslash name c hc.1⟩
    have hl : (comps name).filter (fun x => x ≠ [] ∧ x ≠ dot ∧ x ≠ dotdot) ≠ [] := by
      intro e
      apply hne
      unfold zipArcname
      rw [e]; rfl
    refine ⟨_, hl, hnames, ?_⟩
    rw [ht, normpath_abs (join2_abs hd.abs)]
    unfold zipArcname
    rw [normParts_join2_names hd.abs _ hl hnames, render_snoc _ hd.parts_ne_nil hl, ← hd.eq_render]

/-- every member `_write_directory` gets through — up to the first exception — is written and
    `chmod`-ed strictly below the destination -/
theorem write_directory_inside (proc dest : Path) (hd : Norm dest) :
    ∀ (members : List Path), ∀ w ∈ (writeDirectory proc dest members).1, Below dest w.1 ∧ Below dest w.2
  | [], w, hw => by simp [writeDirectory] at hw
  | m :: ms, w, hw => by
    unfold writeDirectory at hw
    cases he : extractFile proc dest m with
    | error e => rw [he] at hw; simp at hw
    | ok p =>
      rw [he] at hw
      simp only [List.mem_cons] at hw
      rcases hw with rfl | hw
      · unfold extractFile at he
        cases hg : extractGuard proc dest m with
        | error e => rw [hg] at he; simp at he
        | ok out =>
          rw [hg] at he
          simp only at he
          cases hz : zipTarget dest m with
          | error e => rw [hz] at he; simp at he
          | ok tgt =>
            rw [hz] at he
            simp only [Except.ok.injEq] at he
            rw [← he]
            exact ⟨zip_target_inside dest m tgt hd hz, (extract_inside proc dest m out hd hg).2⟩
      · exact write_directory_inside proc dest hd ms w hw

/-! ### a statement the current code does NOT satisfy (reported, see the harness corpus) -/

/-- "the staging file never replaces something the user already had" -/
def staging_never_clobbers : Prop :=
  ∀ (fs : FS) (a : Args) (name : Path) (fs' : FS) (d t : Path),
    handleFile fs a name = (fs', .ok (d, t)) → fs.pathExists t = false

def witnessFS : FS :=
  ⟨fun p => if p = "/home/u".toList ∨ p = "/home".toList then some .dir
            else if p = "/home/u/foo.tmp".toList then some .file else none⟩
def witnessArgs : Args :=
  { cwd := "/home/u".toList, outputFile := [], acceptFile := true, answer := [], proc := "/".toList }

/-- receiving an offer named `x/../foo` into `/home/u` truncates the user's existing, unrelated
    `/home/u/foo.tmp` (`open(…, "wb")`) and then renames it away: `_handle_file` never looks at
    the staging name.  Replayed on the real code by the first corpus case of the harness. -/
theorem staging_never_clobbers_fails_on_current : ¬ staging_never_clobbers := by
  intro h
  have e : (handleFile witnessFS witnessArgs "x/../foo".toList).2
      = .ok ("/home/u/foo".toList, "/home/u/foo.tmp".toList) := by decide
  have := h witnessFS witnessArgs "x/../foo".toList (handleFile witnessFS witnessArgs "x/../foo".toList).1
    "/home/u/foo".toList "/home/u/foo.tmp".toList (by rw [← e])
  revert this
  decide

/-! ### symbolic links (`os.path.exists` follows them, `os.rename` and `os.remove` do not) -/

/-- **what HEAD does for a dangling symbolic link at the destination**: `os.path.exists` says "no",
    so `_decide_destname` does not refuse — it returns the link's own path `cwd/basename` (it never
    resolves the link: the destination stays the child of the working directory) and touches nothing. -/
theorem dangling_link_at_destination (fs : FS) (a : Args) (name : Path) (h : CwdOK fs a) (hno : a.outputFile = [])
    (hn : IsName (basename name)) (hl : fs.kind (a.cwd ++ '/' :: basename name) = some (.link none)) :
    decideDest fs a name = (fs, .ok (a.cwd ++ '/' :: basename name)) := by
  have hex : fs.pathExists (a.cwd ++ '/' :: basename name) = false := by simp [FS.pathExists, hl]
  rcases dest_is_child fs a name h hno with e | ⟨_, _, e⟩
  · rw [decideDest_no_output fs a name hno] at e
    have hc := abspath_child a.proc h.norm.abs hn (by rw [h.norm.fix]; exact h.norm.notRoot)
    rw [h.norm.fix] at hc
    rw [hc, hex] at e
    simp at e
  · exact e

/-- "without `--output-file`, anything that already has the destination's name makes the transfer fail" -/
def existing_entry_refused : Prop :=
  ∀ (fs : FS) (a : Args) (name : Path), CwdOK fs a → a.outputFile = [] →
    fs.lexists (a.cwd ++ '/' :: basename name) = true → (decideDest fs a name).2 = .error .transferRejected

def linkFS : FS :=
  ⟨fun p => if p = "/home/u".toList ∨ p = "/home".toList then some .dir
            else if p = "/home/u/latest.log".toList then some (.link none)
            else if p = "/home/u/foo.tmp".toList then some (.link (some .file)) else none⟩

/-- a working directory holding a named pipe -/
def linkFS' : FS :=
  ⟨fun p => if p = "/home/u".toList ∨ p = "/home".toList then some .dir
            else if p = "/home/u/pipe".toList then some .other else none⟩

/-- HEAD does not satisfy it: the user's dangling link `/home/u/latest.log -> vault/2024.log` is not
    refused … -/
theorem existing_entry_refused_fails_on_current : ¬ existing_entry_refused := by
  intro h
  have := h linkFS witnessArgs "latest.log".toList ⟨⟨by decide, by decide, by decide⟩, by decide, by decide⟩ rfl
    (by decide)
  revert this
  decide

/-- … and the file offer then REPLACES the link by the received regular file (the link is gone; nothing
    is written where it pointed).  Replayed on the real code by the harness corpus
    (signature `dangling-symlink-destination-replaced`). -/
theorem dangling_link_is_replaced_on_current :
    (offerFile linkFS witnessArgs "latest.log".toList false).2 = .ok "/home/u/latest.log".toList ∧
    (offerFile linkFS witnessArgs "latest.log".toList false).1.kind "/home/u/latest.log".toList = some .file := by
  decide

/-- "the staging file is a fresh regular file of the receiver's own" -/
def staging_is_own_file : Prop :=
  ∀ (fs : FS) (a : Args) (name : Path) (fs' : FS) (d t : Path),
    handleFile fs a name = (fs', .ok (d, t)) → fs'.kind t = some .file

/-- HEAD does not satisfy it either: `open(NAME.tmp, "wb")` follows a symbolic link the user has at the
    staging name — the received bytes go to whatever it points at, anywhere on the system — and the rename
    then puts that link at the destination.  (Same root as `staging_never_clobbers`; harness signature
    `tmp-symlink-followed`.) -/
theorem staging_is_own_file_fails_on_current : ¬ staging_is_own_file := by
  intro h
  have e : (handleFile linkFS witnessArgs "foo".toList).2
      = .ok ("/home/u/foo".toList, "/home/u/foo.tmp".toList) := by decide
  have := h linkFS witnessArgs "foo".toList (handleFile linkFS witnessArgs "foo".toList).1
    "/home/u/foo".toList "/home/u/foo.tmp".toList (by rw [← e])
  revert this
  decide

/-! ### the hypotheses are satisfiable, the conclusions are not vacuous -/

example : Norm "/home/u".toList := ⟨by decide, by decide, by decide⟩
example : CwdOK witnessFS witnessArgs := ⟨⟨by decide, by decide, by decide⟩, by decide, by decide⟩
example : IsName (basename "../../.ssh/authorized_keys".toList) := by decide
example : (decideDest witnessFS witnessArgs "../../.ssh/authorized_keys".toList).2
    = .ok "/home/u/authorized_keys".toList := by decide
example : (decideDest witnessFS witnessArgs "a/..".toList).2 = .error .transferRejected := by decide
example : extractGuard [] "/home/u/d".toList "a/./b".toList = .ok "/home/u/d/a/b".toList := by decide
example : extractGuard [] "/home/u/d".toList "../d-plus/haha".toList = .error .valueError := by decide
example : extractGuard [] "/home/u/d".toList "/home/u/d".toList = .error .valueError := by decide
example : CwdOK linkFS' witnessArgs := ⟨⟨by decide, by decide, by decide⟩, by decide, by decide⟩
example : linkFS'.kind (witnessArgs.cwd ++ '/' :: basename "x/pipe".toList) = some .other := by decide
example : (decideDest linkFS' witnessArgs "x/pipe".toList).2 = .error .transferRejected := by decide
example : zipTarget "/home/u/d".toList "/../x//y".toList = .ok "/home/u/d/x/y".toList := by decide

/-- a working directory with the user's own `notes.txt` -/
def notesFS : FS :=
  ⟨fun p => if p = "/home/u".toList ∨ p = "/home".toList then some .dir
            else if p = "/home/u/notes.txt".toList then some .file else none⟩

-- refused, then retried with the same `args`: the second offer goes to ITS basename, `notes.txt` stays the user's file
example : (receives witnessArgs notesFS
      [⟨[], .file "notes.txt".toList false⟩, ⟨[], .file "../../somewhere/else.txt".toList false⟩]).2.2
    = [.error .transferError, .ok "/home/u/else.txt".toList] := by decide
example : (receives witnessArgs notesFS
      [⟨[], .file "notes.txt".toList false⟩, ⟨[], .file "../../somewhere/else.txt".toList false⟩]).2.1.kind
        "/home/u/notes.txt".toList = some .file := by decide
-- two transfers, file then directory: each lands at its own name
example : (receives witnessArgs witnessFS
      [⟨[], .file "first.txt".toList false⟩, ⟨[], .dir "zipfile/deflated".toList "x/second".toList false true⟩]).2.2
    = [.ok "/home/u/first.txt".toList, .ok "/home/u/second".toList] := by decide
-- … and the same name a second time is refused (the first receive made it an existing destination)
example : (receives witnessArgs witnessFS
      [⟨[], .file "first.txt".toList false⟩, ⟨[], .file "first.txt".toList false⟩]).2.2
    = [.ok "/home/u/first.txt".toList, .error .transferError] := by decide
example : witnessFS.isRealDir witnessArgs.cwd = true ∧
    witnessFS.isRealDir (abspath witnessArgs.proc (join2 witnessArgs.cwd dotdot)) = true := by decide

/-- `cd /home/u && wormhole receive -o inbox` (no `--accept-file`), where `inbox/` and `inbox/photos/` exist -/
def inboxFS : FS :=
  ⟨fun p => if p = "/home/u".toList ∨ p = "/home".toList ∨ p = "/home/u/inbox".toList ∨ p = "/home/u/inbox/photos".toList
              then some .dir
            else if p = "/home/u/inbox/photos/keep.txt".toList ∨ p = "/home/u/notes.txt".toList then some .file else none⟩
def inboxArgs : Args :=
  { cwd := "/home/u".toList, outputFile := "inbox".toList, acceptFile := false, answer := "y".toList, proc := "/".toList }

-- the hypotheses of `existing_directory_destination_fails_untouched` are met by the four shapes of name: a same-named
-- sub-directory, `..` (the working directory), `sub/.` and a trailing slash (the -o directory itself) …
example : (decideDest inboxFS inboxArgs "photos".toList).2 = .ok "/home/u/inbox/photos".toList ∧
    inboxFS.isDir "/home/u/inbox/photos".toList = true := by decide
example : (decideDest inboxFS inboxArgs "..".toList).2 = .ok "/home/u".toList ∧ inboxFS.isDir "/home/u".toList = true := by decide
example : (decideDest inboxFS inboxArgs "sub/.".toList).2 = .ok "/home/u/inbox".toList := by decide
example : (decideDest inboxFS inboxArgs "photos/".toList).2 = .ok "/home/u/inbox".toList := by decide
-- … each is refused when the user types `y`, `Y` or just Enter (and a fresh name is accepted: the conclusion is not vacuous)
example : ∀ ans ∈ ["y".toList, "Y".toList, [], "n".toList], ∀ nm ∈ ["photos".toList, "..".toList, "sub/.".toList, "photos/".toList, []],
    (receive inboxArgs inboxFS ⟨ans, .dir "zipfile/deflated".toList nm false true⟩).2.2 = .error .transferError ∧
    (receive inboxArgs inboxFS ⟨ans, .file nm false⟩).2.2 = .error .transferError := by decide
example : (receive inboxArgs inboxFS ⟨[], .dir "zipfile/deflated".toList "x/new".toList false true⟩).2.2
    = .ok "/home/u/inbox/new".toList := by decide

end WV.Props.C05
