import WV.Proofs.C07_Inv
import WV.Proofs.C07_Once
import WV.Proofs.C07_Deadline
import WV.Proofs.C07_Live
import WV.Proofs.C07_Cancel
import WV.Proofs.C07_Duo

/-!
C07 — transit picks exactly one connection, chosen by the sender, key holders only.

All theorems are about `WV.C07.run (initWorld …) evs`: the world the driver executes, after an
*arbitrary* finite sequence of events — any number of inbound and outbound connections, bytes in
any chunking and interleaving (including bytes on connections that were already cancelled, timed
out or lost), connection losses, connect failures, clock advances, `connect()` at any point.
The handshake strings are parameters; the only thing assumed about them is `Distinct`.
`c.rx` is the history variable "every byte ever given to `dataReceived`" (`rx_history`).
-/
namespace WV.Props.C07
open WV WV.C07 WV.Proofs.C07

/-- the generated dispatch order of `_dataReceived` is the one the proofs were done for -/
theorem arms_order : WV.C07.arms = [some .relay, some .start, some .handshake, some .wait, some .go,
    some .nevermind, some .records, some .hungUp] := by decide

theorem connection_ready_shape :
    Gen.Transit.connection_ready_returns = ["wait-for-decision", "nevermind", "go"] := by decide

/-- `connect()` gives up after 2·TIMEOUT, a connection after TIMEOUT (the generated constants) -/
theorem deadline_constants :
    Gen.Transit.CONNECT_DEADLINE_s = 2 * Gen.Transit.TIMEOUT_s ∧ 0 < Gen.Transit.TIMEOUT_s := by decide

section
variable (cfg : Cfg) (listener : Bool) (directs : Nat) (relays : List Nat) (evs : List Event)

/-- **`go` only to the winner, only after the exact receiver handshake.**  On whatever connection
    `go\n` was written: we are the sender, that connection is `_winner`, the bytes received on it
    start with (the relay's `ok\n` and) the exact expected handshake, and what we wrote on it is
    exactly (relay request,) our handshake, `go\n`. -/
theorem go_only_after_handshake (hd : Distinct cfg) (i : Nat) (c : Conn)
    (hc : (run (initWorld cfg listener directs relays) evs).conns i = some c)
    (hgo : Gen.Transit.GO ∈ c.out) :
    cfg.isSender = true ∧ (run (initWorld cfg listener directs relays) evs).winner = some i ∧
    (pre c ++ cfg.expectThis) <+: c.rx ∧ c.out = hsOut c ++ [cfg.sendThis, Gen.Transit.GO] := by
  obtain ⟨hI, hcfg⟩ := reach cfg listener directs relays evs
  have hci := hI.conns i c hc
  have hrel := hI.rel i c hc
  rw [hcfg] at hci hrel
  have hout := go_mem hd hci hrel hgo
  obtain ⟨a, b, c'⟩ := hci.go hout
  exact ⟨a, b, c', hout⟩

/-- **at most one `go`** over all interleavings on any number of connections -/
theorem sender_at_most_one_go (hd : Distinct cfg) (i j : Nat) (ci cj : Conn)
    (hi : (run (initWorld cfg listener directs relays) evs).conns i = some ci)
    (hj : (run (initWorld cfg listener directs relays) evs).conns j = some cj)
    (hgi : Gen.Transit.GO ∈ ci.out) (hgj : Gen.Transit.GO ∈ cj.out) : i = j := by
  have h1 := (go_only_after_handshake cfg listener directs relays evs hd i ci hi hgi).2.1
  have h2 := (go_only_after_handshake cfg listener directs relays evs hd j cj hj hgj).2.1
  rw [h1] at h2; cases h2; rfl

/-- **exactly one**: as soon as any connection has been decided (`_winner` is set), the winner has
    `go\n` written on it -/
theorem winner_wrote_go (j : Nat) (c : Conn)
    (hw : (run (initWorld cfg listener directs relays) evs).winner = some j)
    (hc : (run (initWorld cfg listener directs relays) evs).conns j = some c) :
    c.out = hsOut c ++ [cfg.sendThis, Gen.Transit.GO] := by
  obtain ⟨hI, hcfg⟩ := reach cfg listener directs relays evs
  have := (hI.conns j c hc).win hw
  rw [hcfg] at this; exact this

/-- **`nevermind` on every other connection that completes**: it is written only after the exact
    handshake, only when another connection is the winner, never together with `go`, and the
    connection is hung up and `loseConnection()` was called. -/
theorem nevermind_only_loser (hd : Distinct cfg) (i : Nat) (c : Conn)
    (hc : (run (initWorld cfg listener directs relays) evs).conns i = some c)
    (hnm : Gen.Transit.NEVERMIND ∈ c.out) :
    cfg.isSender = true ∧ (pre c ++ cfg.expectThis) <+: c.rx ∧ c.state = .hungUp ∧ 1 ≤ c.lost ∧
    Gen.Transit.GO ∉ c.out ∧ c.negD ≠ .ok ∧
    ∃ j, (run (initWorld cfg listener directs relays) evs).winner = some j ∧ j ≠ i := by
  obtain ⟨hI, hcfg⟩ := reach cfg listener directs relays evs
  have hci := hI.conns i c hc
  have hrel := hI.rel i c hc
  rw [hcfg] at hci hrel
  have hout := nm_mem hd hci hrel hnm
  obtain ⟨a, b, c', d, j, hj, hji⟩ := hci.nm hout
  refine ⟨a, b, c', d, ?_, ?_, j, hj, hji⟩
  · intro hgo
    have h2 := (hci.go (go_mem hd hci hrel hgo)).2.1
    rw [hj] at h2; cases h2; exact hji rfl
  · intro hok
    have h2 := (hci.go (hci.okS hok a)).2.1
    rw [hj] at h2; cases h2; exact hji rfl

/-- **the sender always decides**: a sender connection is never left undecided once the full
    handshake has arrived — in the two waiting states the bytes received are a *strict* prefix of
    what is expected; the only other states that persist are `records` (then `go\n` was written)
    and `hung up`. -/
theorem sender_decides (hs : cfg.isSender = true) (i : Nat) (c : Conn)
    (hc : (run (initWorld cfg listener directs relays) evs).conns i = some c) :
    ((c.state = .relay ∨ c.state = .handshake) ∧ ¬ (pre c ++ cfg.expectThis) <+: c.rx) ∨
    (c.state = .records ∧ c.out = hsOut c ++ [cfg.sendThis, Gen.Transit.GO]) ∨
    c.state = .hungUp := by
  obtain ⟨hI, hcfg⟩ := reach cfg listener directs relays evs
  have hci := hI.conns i c hc
  rw [hcfg] at hci
  cases hst : c.state with
  | tooEarly => exact absurd hst hci.st_ok.1
  | start => exact absurd hst hci.st_ok.2.1
  | go => exact absurd hst hci.st_ok.2.2.1
  | nevermind => exact absurd hst hci.st_ok.2.2.2
  | waitForDecision => have := (hci.wait hst).1; rw [hs] at this; cases this
  | records => exact Or.inr (Or.inl ⟨rfl, hci.okS (hci.recs hst) hs⟩)
  | hungUp => exact Or.inr (Or.inr rfl)
  | relay =>
    obtain ⟨_, hrel, hrx, hp, hl⟩ := hci.relay hst
    refine Or.inl ⟨Or.inl rfl, ?_⟩
    intro hpre
    have hlen := hpre.length_le
    have : pre c = Gen.Transit.RELAY_OK := by
      unfold pre; cases hr : c.relayHs with
      | none => exact absurd hr hrel
      | some _ => rfl
    rw [this, hrx] at hlen
    simp at hlen; omega
  | handshake =>
    obtain ⟨_, hrx, hp, hl⟩ := hci.hs hst
    refine Or.inl ⟨Or.inr rfl, ?_⟩
    intro hpre
    have hlen := hpre.length_le
    rw [hrx] at hlen
    simp at hlen; omega

/-- **the receiver uses a connection only after the exact sender handshake followed by `go\n`**,
    and never writes a decision itself -/
theorem receiver_only_after_go (hd : Distinct cfg) (hr : cfg.isSender = false) (i : Nat) (c : Conn)
    (hc : (run (initWorld cfg listener directs relays) evs).conns i = some c) :
    ((c.state = .records ∨ c.negD = .ok) →
        (pre c ++ cfg.expectThis ++ Gen.Transit.GO_EXPECTED) <+: c.rx) ∧
    Gen.Transit.GO ∉ c.out ∧ Gen.Transit.NEVERMIND ∉ c.out := by
  obtain ⟨hI, hcfg⟩ := reach cfg listener directs relays evs
  have hci := hI.conns i c hc
  have hrel := hI.rel i c hc
  rw [hcfg] at hci hrel
  refine ⟨?_, ?_, ?_⟩
  · intro h
    have hok : c.negD = .ok := by
      rcases h with h | h
      · exact hci.recs h
      · exact h
    exact hci.okR hok hr
  · intro hgo
    have := (hci.go (go_mem hd hci hrel hgo)).1
    rw [hr] at this; cases this
  · intro hnm
    have := (hci.nm (nm_mem hd hci hrel hnm)).1
    rw [hr] at this; cases this

/-- **key holders only** (both roles): a connection whose negotiation succeeded — the only kind
    `connect()` can return — received the exact expected handshake first -/
theorem selected_holds_key (i : Nat) (c : Conn)
    (hc : (run (initWorld cfg listener directs relays) evs).conns i = some c) (hok : c.negD = .ok) :
    (pre c ++ cfg.expectThis) <+: c.rx := by
  obtain ⟨hI, hcfg⟩ := reach cfg listener directs relays evs
  have hci := hI.conns i c hc
  rw [hcfg] at hci
  cases hs : cfg.isSender with
  | true => exact (hci.go (hci.okS hok hs)).2.2
  | false =>
    have := hci.okR hok hs
    exact (List.prefix_append _ _).trans this


/-- the whole byte stream a connection must receive before it is used -/
def expected (c : Conn) : Bytes :=
  pre c ++ cfg.expectThis ++ (if cfg.isSender then [] else Gen.Transit.GO_EXPECTED)

/-- **`handshake_prefix_exact`** (soundness and first-divergent-byte halves; for all chunkings and
    interleavings, since `evs` is arbitrary).  For every connection: (1) it is accepted only if the
    received stream starts with the whole expected string; (2) while it is still waiting, the
    received stream is a strict prefix of the expected string — so no divergent byte has been
    tolerated and no complete handshake is being sat on; (3) hence a stream that diverges from the
    expected one has been rejected (`hung up`) by the time its first divergent byte was delivered.
    The converse of (1) for a connection that nobody cancels is `handshake_prefix_exact_live` /
    `handshake_accepts_iff` below. -/
theorem handshake_prefix_exact_partial (i : Nat) (c : Conn)
    (hc : (run (initWorld cfg listener directs relays) evs).conns i = some c) :
    (c.negD = .ok → expected cfg c <+: c.rx) ∧
    ((c.state = .relay ∨ c.state = .handshake ∨ c.state = .waitForDecision) →
        c.rx <+: expected cfg c ∧ c.rx.length < (expected cfg c).length) ∧
    ((¬ c.rx <+: expected cfg c ∧ ¬ expected cfg c <+: c.rx) → c.state = .hungUp) := by
  obtain ⟨hI, hcfg⟩ := reach cfg listener directs relays evs
  have hci := hI.conns i c hc
  rw [hcfg] at hci
  have h1 : c.negD = .ok → expected cfg c <+: c.rx := by
    intro hok
    unfold expected
    cases hs : cfg.isSender with
    | true => simpa using (hci.go (hci.okS hok hs)).2.2
    | false => simpa using hci.okR hok hs
  have h2 : (c.state = .relay ∨ c.state = .handshake ∨ c.state = .waitForDecision) →
      c.rx <+: expected cfg c ∧ c.rx.length < (expected cfg c).length := by
    intro hst
    unfold expected
    rcases hst with hst | hst | hst
    · obtain ⟨_, hrel, hrx, hp, hl⟩ := hci.relay hst
      have hpre : pre c = Gen.Transit.RELAY_OK := by
        unfold pre; cases hr : c.relayHs with
        | none => exact absurd hr hrel
        | some _ => rfl
      rw [hpre, hrx]
      refine ⟨?_, by simp; omega⟩
      rw [List.append_assoc]
      exact hp.trans (List.prefix_append _ _)
    · obtain ⟨_, hrx, hp, hl⟩ := hci.hs hst
      rw [hrx]
      refine ⟨?_, by simp; omega⟩
      rw [List.append_assoc]
      apply (List.prefix_append_right_inj _).mpr
      exact hp.trans (List.prefix_append _ _)
    · obtain ⟨hr, _, hrx, hp, hl⟩ := hci.wait hst
      rw [hrx, hr]
      simp only [Bool.false_eq_true, if_false]
      refine ⟨?_, by simp; omega⟩
      exact (List.prefix_append_right_inj _).mpr hp
  refine ⟨h1, h2, ?_⟩
  intro ⟨hn1, hn2⟩
  cases hst : c.state with
  | tooEarly => exact absurd hst hci.st_ok.1
  | start => exact absurd hst hci.st_ok.2.1
  | go => exact absurd hst hci.st_ok.2.2.1
  | nevermind => exact absurd hst hci.st_ok.2.2.2
  | relay => exact absurd (h2 (Or.inl hst)).1 hn1
  | handshake => exact absurd (h2 (Or.inr (Or.inl hst))).1 hn1
  | waitForDecision => exact absurd (h2 (Or.inr (Or.inr hst))).1 hn1
  | records => exact absurd (h1 (hci.recs hst)) hn2
  | hungUp => rfl

/-- the liveness half of `handshake_prefix_exact`: a connection waiting for the handshake (nothing
    buffered, nobody decided yet) that is fed — in any chunking — a stream starting with the whole
    expected string, and that nobody cancels, is accepted. -/
def full_statement : Prop :=
  ∀ (cfg : Cfg) (w0 : Option Nat) (i : Nat) (c : Conn) (chunks : List Bytes),
    CInv cfg w0 i c → c.negD = .pending → c.state = .handshake → c.buf = [] → w0 = none →
    (cfg.expectThis ++ (if cfg.isSender then [] else Gen.Transit.GO_EXPECTED)) <+: chunks.flatten →
    (chunks.foldl (fun (p : Option Nat × Conn) d => let r := dataRecv cfg p.1 i p.2 d; (r.1.winner, r.1.c)) (w0, c)).2.negD = .ok

/-- **`handshake_prefix_exact`, liveness half** — for all chunkings -/
theorem handshake_prefix_exact_live : full_statement := by
  intro cfg w0 i c chunks hc hn hst hbuf hw hp
  exact feed_hs chunks w0 c hc hst hn (fun _ => hw) (by rw [hbuf]; simpa using hp)

/-- **accepts iff**: for every chunking of every byte stream, a connection waiting for the
    handshake ends up accepted (negotiation succeeded: the sender said `go`, the receiver saw
    `go`) if and only if the stream starts with the exact expected string. -/
theorem handshake_accepts_iff (cfg : Cfg) (i : Nat) (c : Conn) (chunks : List Bytes)
    (hc : CInv cfg none i c) (hn : c.negD = .pending) (hst : c.state = .handshake) (hbuf : c.buf = []) :
    (chunks.foldl (feedStep cfg i) (none, c)).2.negD = .ok ↔
      (cfg.expectThis ++ (if cfg.isSender then [] else Gen.Transit.GO_EXPECTED)) <+: chunks.flatten := by
  constructor
  · intro hok
    obtain ⟨hinv, hrx, hrel⟩ := feed_inv (cfg := cfg) (i := i) chunks none c hc
    have hpre : pre (chunks.foldl (feedStep cfg i) (none, c)).2 = pre c := by simp [pre, hrel]
    have hrx0 : c.rx = pre c := by rw [(hc.hs hst).2.1, hbuf]; simp
    cases hs : cfg.isSender with
    | true =>
      have := (hinv.go (hinv.okS hok hs)).2.2
      rw [hrx, hpre, hrx0] at this
      simpa using (List.prefix_append_right_inj _).mp this
    | false =>
      have := hinv.okR hok hs
      rw [hrx, hpre, hrx0, List.append_assoc] at this
      simpa using (List.prefix_append_right_inj _).mp this
  · intro hp
    exact feed_hs chunks none c hc hst hn (fun _ => rfl) (by rw [hbuf]; simpa using hp)

/-- **never acts on bytes after a rejection**: in `hung up`, `dataReceived` writes nothing, fires
    nothing, touches neither the state nor `_winner` — it only appends to the buffer. -/
theorem rejected_is_inert (w0 : Option Nat) (i : Nat) (c : Conn) (d : Bytes) (hst : c.state = .hungUp) :
    dataRecv cfg w0 i c d =
      ({ winner := w0, c := { c with buf := c.buf ++ d, rx := c.rx ++ d }, fired := none }, none) := by
  rw [dataRecv_eq]
  simp [arms_eq, runArms, runArm, hst, wrap]

/-- `rx` really is the history of received bytes: one `dataReceived` appends its argument -/
theorem rx_history (w0 : Option Nat) (i : Nat) (c : Conn) (d : Bytes) (h : CInv cfg w0 i c) :
    (dataRecv cfg w0 i c d).1.c.rx = c.rx ++ d :=
  (dataRecv_ok d h).rx

/-- **`only_one_fires_once`** (the "at most once" half): through every re-entrant cancel cascade
    of every event sequence, `_winner_d` is fired exactly once if `_fired` and never otherwise. -/
theorem only_one_fires_once_partial :
    (run (initWorld cfg listener directs relays) evs).firedCount =
      (if (run (initWorld cfg listener directs relays) evs).fired then 1 else 0) ∧
    (run (initWorld cfg listener directs relays) evs).firedCount ≤ 1 := by
  have h : FOK (run (initWorld cfg listener directs relays) evs) :=
    run_FOK _ evs (by simp [FOK, initWorld])
  refine ⟨h, ?_⟩
  unfold FOK at h
  rw [h]; split <;> simp

/-- **cancels the rest** (`_ThereCanBeOnlyOne._succeeded`, `InboundConnectionFactory._shutdown`,
    `Connection._cancel`): once `connect()` has succeeded, on *every* connection the negotiation is
    over — none stays pending — and every connection whose negotiation did not succeed is closed
    (`loseConnection()` was called on it, or its `connectionLost` has been delivered).  Invariant
    `TR`: a pending negotiation is always tracked (by `_pending_connections` or by the outbound
    contender chained to it), a contender leaves `_remaining` only after it fired, and the result
    is set only when `_remaining` is empty. -/
theorem cancels_the_rest (i : Nat)
    (hres : (run (initWorld cfg listener directs relays) evs).result = .ok i) (j : Nat) (c : Conn)
    (hc : (run (initWorld cfg listener directs relays) evs).conns j = some c) :
    c.negD ≠ .pending ∧ (c.negD ≠ .ok → 1 ≤ c.lost ∨ c.gone = true) := by
  have hI := WInv_init cfg listener directs relays
  have hT := TR_run hI (Port_init cfg listener directs relays) (K_init cfg listener directs relays) (TR_init cfg listener directs relays) evs
  have h8 := W8_run hI (by intro i c h; simp [initWorld] at h) evs
  have hnp := TR_no_pending hT hres j c hc
  refine ⟨hnp, ?_⟩
  intro hok
  cases hn : c.negD with
  | pending => exact absurd hn hnp
  | ok => exact absurd hn hok
  | fail e => exact h8 j c hc e hn

/-- … and every contender Deferred (listener, direct and relay connectors) has fired: nothing is
    left listening, delayed, connecting or negotiating -/
theorem contenders_all_done (i : Nat)
    (hres : (run (initWorld cfg listener directs relays) evs).result = .ok i) (k : Nat) (q : Phase)
    (hq : phaseOf (run (initWorld cfg listener directs relays) evs) k = some q) :
    ∃ r x, q = .done r x := by
  have hI := WInv_init cfg listener directs relays
  have hT := TR_run hI (Port_init cfg listener directs relays) (K_init cfg listener directs relays) (TR_init cfg listener directs relays) evs
  obtain ⟨hrem, hs⟩ := hT.t6 i hres
  have hk : k < (run (initWorld cfg listener directs relays) evs).cont.length := by
    unfold phaseOf at hq
    cases hck : (run (initWorld cfg listener directs relays) evs).cont[k]? with
    | none => rw [hck] at hq; cases hq
    | some _ => exact (List.getElem?_eq_some_iff.mp hck).1
  rcases hT.t3 hs k hk with h' | ⟨_, p, h2, h3⟩
  · rw [hrem] at h'; cases h'
  · have : p = q := by
      have : some p = some q := by rw [← h2]; exact hq
      cases this; rfl
    subst this
    cases p <;> simp [isDone] at h3
    exact ⟨_, _, rfl⟩

/-- the wiring of `Common._get_direct_hints`, from the source: the function that calls the port's
    `stopListening()` is attached to `_listener_d` for BOTH outcomes (`addBoth`) -/
theorem listener_stop_wiring :
    Gen.Transit.listener_stop_on_callback = true ∧ Gen.Transit.listener_stop_on_errback = true := by decide

/-- **listener lifetime**: in every reachable world, while the listening port is open (inbound
    connections are only possible then) `_listener_d` has not fired — so on every way it ends
    (an inbound connection won; it was cancelled because another contender won or because the
    `connect()` deadline fired) the port has been stopped. -/
theorem listener_lifetime
    (hopen : (run (initWorld cfg listener directs relays) evs).portOpen = true) :
    phaseOf (run (initWorld cfg listener directs relays) evs) 0 = some .listening :=
  (run_Port _ evs (Port_init cfg listener directs relays)).pl hopen

/-- … hence once `connect()` has returned a connection no later arrival is possible: the port is
    closed (with `contenders_all_done`: every contender Deferred, the listener's included, has
    fired) -/
theorem port_closed_after_success (i : Nat)
    (hres : (run (initWorld cfg listener directs relays) evs).result = .ok i) :
    (run (initWorld cfg listener directs relays) evs).portOpen = false := by
  cases hp : (run (initWorld cfg listener directs relays) evs).portOpen with
  | false => rfl
  | true =>
    have h1 := listener_lifetime cfg listener directs relays evs hp
    obtain ⟨r, x, h2⟩ := contenders_all_done cfg listener directs relays evs i hres 0 _ h1
    cases h2

/-- **once `connect()` has fired — with a connection OR with a failure (all contenders failed, or
    the deadline cancelled them) — the listening port is stopped**: no later arrival can be
    accepted, so a Sender whose `connect()` failed can never confirm a late Receiver with `go`.
    (Invariant `TR.t8`: a result implies `_listener_d` has fired — through `_maybe_done` because
    `_remaining` is empty, through the deadline because `_cancel` cancels it; then
    `listener_lifetime`.) -/
theorem port_closed_once_fired
    (hres : (run (initWorld cfg listener directs relays) evs).result ≠ .pending) :
    (run (initWorld cfg listener directs relays) evs).portOpen = false := by
  cases hp : (run (initWorld cfg listener directs relays) evs).portOpen with
  | false => rfl
  | true =>
    have h1 := listener_lifetime cfg listener directs relays evs hp
    have hI := WInv_init cfg listener directs relays
    have hT := TR_run hI (Port_init cfg listener directs relays) (K_init cfg listener directs relays)
      (TR_init cfg listener directs relays) evs
    exact absurd h1 (hT.t8 hres)

/-- `deadline` in the section's notation -/
theorem deadline_holds
    (hst : (run (initWorld cfg listener directs relays) evs).started = true)
    (hnow : (run (initWorld cfg listener directs relays) evs).t0 + Gen.Transit.CONNECT_DEADLINE_s ≤
      (run (initWorld cfg listener directs relays) evs).now) :
    (run (initWorld cfg listener directs relays) evs).result ≠ .pending := by
  have hK : K (run (initWorld cfg listener directs relays) evs) := K_run (K_init cfg listener directs relays) evs
  intro hp
  have hsome := hK.p2 hst hp
  cases hd : (run (initWorld cfg listener directs relays) evs).deadline with
  | none => rw [hd] at hsome; cases hsome
  | some t =>
    have h1 := (hK.p1.2 t hd).2
    have h2 := hK.future t hd
    omega

/-- with `deadline`: `2·TIMEOUT` after `connect()` was called the port is closed, whatever happened -/
theorem port_closed_by_deadline
    (hst : (run (initWorld cfg listener directs relays) evs).started = true)
    (hnow : (run (initWorld cfg listener directs relays) evs).t0 + Gen.Transit.CONNECT_DEADLINE_s ≤
      (run (initWorld cfg listener directs relays) evs).now) :
    (run (initWorld cfg listener directs relays) evs).portOpen = false :=
  port_closed_once_fired cfg listener directs relays evs
    (deadline_holds cfg listener directs relays evs hst hnow)

/-- the bookkeeping of `Common._connect`, from the source: `contenders` is a list that only grows
    by `.append` (one entry per started attempt, nothing keyed by description), and building an
    endpoint cannot make `_connect` raise between starting attempts and wrapping them (the call is
    in a `try`, or `endpoint_from_hint_obj` is total on a battery of delicate hostnames) -/
theorem connect_bookkeeping :
    Gen.Transit.connect_contenders_is_list = true ∧ Gen.Transit.connect_endpoint_errors_contained = true := by decide

/-- **started ⊆ contenders**: in every reachable world in which `connect()` was called, every
    contender — the listener, every direct and relay attempt `_connect` started, duplicates of a
    host:port included — is either still in `_ThereCanBeOnlyOne._remaining` (so its result is
    listened to, and `_cancel` / the deadline reach it) or has its only-one callbacks attached and
    has fired.  No attempt runs outside `there_can_be_only_one`. -/
theorem every_attempt_is_a_contender
    (hst : (run (initWorld cfg listener directs relays) evs).started = true) (k : Nat) (c : Contender)
    (hc : (run (initWorld cfg listener directs relays) evs).cont[k]? = some c) :
    k ∈ (run (initWorld cfg listener directs relays) evs).remaining ∨
      (c.attached = true ∧ ∃ r x, c.phase = .done r x) := by
  have hI := WInv_init cfg listener directs relays
  have hT := TR_run hI (Port_init cfg listener directs relays) (K_init cfg listener directs relays)
    (TR_init cfg listener directs relays) evs
  have hk : k < (run (initWorld cfg listener directs relays) evs).cont.length :=
    (List.getElem?_eq_some_iff.mp hc).1
  rcases hT.t3 hst k hk with h | ⟨h1, p, h2, h3⟩
  · exact Or.inl h
  · refine Or.inr ⟨?_, ?_⟩
    · unfold attC at h1; rw [hc] at h1; simpa using h1
    · unfold phC at h2; rw [hc] at h2; simp at h2; subst h2
      cases hp : c.phase <;> simp [hp, isDone] at h3
      exact ⟨_, _, rfl⟩

/-- **nothing outlives `connect()`**: once it has fired — with a connection OR with a failure
    (everything failed, the deadline, no contenders) —
    * the listening port is stopped;
    * every contender has fired or was never started (nothing is listening, delayed, connecting or
      negotiating any more);
    * on every connection the negotiation is over, and every connection whose negotiation did not
      succeed is closed (`loseConnection()` called, or `connectionLost` delivered).
    With `sender_at_most_one_go` / `result_is_negotiated`: after a failed `connect()` nothing is
    left that could still write `go`. -/
theorem nothing_outlives_connect
    (hres : (run (initWorld cfg listener directs relays) evs).result ≠ .pending) :
    (run (initWorld cfg listener directs relays) evs).portOpen = false ∧
    (∀ k q, phaseOf (run (initWorld cfg listener directs relays) evs) k = some q →
      (∃ r x, q = .done r x) ∨ q = .idle) ∧
    (∀ j c, (run (initWorld cfg listener directs relays) evs).conns j = some c →
      c.negD ≠ .pending ∧ (c.negD ≠ .ok → 1 ≤ c.lost ∨ c.gone = true)) := by
  have hI := WInv_init cfg listener directs relays
  have hT := TR_run hI (Port_init cfg listener directs relays) (K_init cfg listener directs relays)
    (TR_init cfg listener directs relays) evs
  have h8 := W8_run hI (by intro i c h; simp [initWorld] at h) evs
  refine ⟨port_closed_once_fired cfg listener directs relays evs hres, ?_, ?_⟩
  · intro k q hq
    rcases hT.t11 hres k q hq with h | h
    · left; cases q <;> simp [isDone] at h; exact ⟨_, _, rfl⟩
    · exact Or.inr h
  · intro j c hc
    have hnp := TR_no_pending_any hT hres j c hc
    refine ⟨hnp, ?_⟩
    intro hok
    cases hn : c.negD with
    | pending => exact absurd hn hnp
    | ok => exact absurd hn hok
    | fail e => exact h8 j c hc e hn

/-- the wiring of inbound connections, from the source: `InboundConnectionFactory.connectionWasMade`
    starts the negotiation at once, and `Connection.dataReceived` has no state in which it swallows
    bytes before the negotiation was started -/
theorem inbound_wiring :
    Gen.Transit.inbound_negotiates_at_once = true ∧ Gen.Transit.data_received_is_wrapper_only = true := by decide

/-- **an inbound connection that arrives before the transit key** (listener started by
    `get_connection_hints()` before `set_transit_key()`, the order of `wormhole send`) is dropped on
    the spot by the `assert self._transit_key` in `_send_this`: it is hung up, `loseConnection()` was
    called, its negotiation can only fail — and nothing else changes: it is not in
    `_pending_connections`, `_listener_d` has not fired, the port stays open, `_winner` and the
    result of `connect()` are untouched.  Whether that connection then stays, hangs up or times out
    is irrelevant to everybody else.  (All other theorems of this file hold for both orders:
    `Cfg.keyAtStart` is arbitrary and `setKey` is an event.) -/
theorem early_inbound_is_dropped (w : World) (hk : w.hasKey = false) (hp : w.portOpen = true) :
    ∃ w' c, evInbound w = some (w', some .assertion) ∧ w'.conns w.n = some c ∧
      c.state = .hungUp ∧ c.lost = 1 ∧ c.negD = .fail .assertion ∧ c.out = [] ∧
      w'.fPending = w.fPending ∧ w'.cont = w.cont ∧ w'.portOpen = true ∧ w'.winner = w.winner ∧
      w'.result = w.result ∧ (∀ j, j ≠ w.n → w'.conns j = w.conns j) := by
  refine ⟨(addOrphan w).1,
    { newConn none none (w.now + Gen.Transit.TIMEOUT_s, w.seq) with
      state := .hungUp, timer := none, err := some .assertion, lost := 1, negD := .fail .assertion },
    ?_, ?_, rfl, rfl, rfl, rfl, rfl, rfl, hp, rfl, rfl, ?_⟩
  · unfold evInbound; simp [hk, hp, addOrphan, inbound_wiring.1, inbound_wiring.2]
  · simp [addOrphan, World.setConn, inbound_wiring.1, inbound_wiring.2]
  · intro j hj; simp [addOrphan, World.setConn, hj]

/-- the wiring of `Common._start_connector`, from the source: nothing but `addCallback`s hangs on the
    endpoint's `connect()` Deferred — no errback that could turn a failure (of whatever class:
    refused, DNS, an illegal hostname's `ValueError`, a Tor stream error) into a "success" -/
theorem start_connector_wiring : Gen.Transit.start_connector_has_no_errback = true := by decide

/-- … so a failing `connect()` of contender `k` is exactly that contender failing with that
    error, for every error class; with `result_is_negotiated`, `connect()` can then only return a
    connection that completed the handshake — never `None`, never because something failed. -/
theorem connect_failure_is_contender_failure (w : World) (k : Nat) (e : Err)
    (hk : phaseOf w k = some .connecting) : evConnFail w k e = some (fireFail w k e) := by
  unfold evConnFail
  simp [hk, start_connector_wiring]

/-- the listener's stop hook is `lp.stopListening(); return res`: the outcome of `_listener_d` is
    passed on in the same step, it does not wait for the port to finish closing (which a real
    `tcp.Port` does a reactor turn later) — selection and reporting stay atomic -/
theorem listener_stop_fire_and_forget : Gen.Transit.listener_stop_is_fire_and_forget = true := by decide

/-- the deadline statement of the design: once the clock has reached `t0 + 2·TIMEOUT` (`t0` = the
    time `connect()` was called), `connect()` has completed — with a connection or with a failure —
    whatever else happened in between, in any order. -/
def deadline_statement : Prop :=
  ∀ (cfg : Cfg) (l : Bool) (d : Nat) (r : List Nat) (evs : List Event),
    let w := run (initWorld cfg l d r) evs
    w.started = true → w.t0 + Gen.Transit.CONNECT_DEADLINE_s ≤ w.now → w.result ≠ .pending

/-- **`deadline`**.  Invariant (`K`): while `connect()` is pending its `_not_forever` call is
    active, is scheduled at `t0 + CONNECT_DEADLINE_s`, and lies strictly in the future; the model's
    `Clock.advance` runs every due call, and running that one completes `connect()`. -/
theorem deadline : deadline_statement := by
  intro cfg l d r evs w hst hnow
  have hK : K w := K_run (K_init cfg l d r) evs
  intro hp
  have hsome := hK.p2 hst hp
  cases hd : w.deadline with
  | none => rw [hd] at hsome; cases hsome
  | some t =>
    have h1 := (hK.p1.2 t hd).2
    have h2 := hK.future t hd
    omega

/-- and `connect()`'s Deferred fires together with `_winner_d`: `_fired` implies a result -/
theorem fired_has_result :
    (run (initWorld cfg listener directs relays) evs).fired = true →
    (run (initWorld cfg listener directs relays) evs).result ≠ .pending :=
  (K_run (K_init cfg listener directs relays) evs).p1.1

end

/-! ## two sides: `same_link`

`WV.C07.Duo` puts a Sender world and a Receiver world side by side and adds *links*.  Environment
hypotheses, all explicit:
* **TCP** — built into the events: `fwdSR l n` / `fwdRS l n` deliver to one end of link `l` the next
  `n` bytes of what the other end has written, i.e. each end receives, in order and in arbitrary
  pieces, a prefix of the peer's output (through the relay: `ok\n` first, the request line withheld);
  losses, timers, connect failures and both `connect()` calls are independent events in any order.
* **`SharedKey`** — the two sides derived their handshakes from the same transit key.
* **`Keyless`** — a party without the key cannot produce the handshake: connections that are not an
  end of a link (strangers, peers with another key — they may send any bytes) never delivered the
  expected string.  This is the HKDF assumption, stated on the bytes the strangers sent. -/

section
variable (cfgS cfgR : Cfg) (ls : Bool) (ds : Nat) (rs : List Nat) (lr : Bool) (dr : Nat) (rr : List Nat)
  (evs : List DEvent)

/-- **`same_link`**.  For every schedule: if the Sender's `connect()` returned connection `a` and
    the Receiver's `connect()` returned connection `b`, then
    1. `a` and `b` are the two ends of ONE link;
    2. it is the link on which the Sender wrote `go` — `a` is `_winner`, what the Sender wrote on it
       is exactly (relay request,) handshake, `go`, and no other Sender connection has `go`;
    3. on it the Receiver saw the correct sender handshake followed by `go`;
    4. on both sides every other connection is finished and closed (negotiation not pending;
       `loseConnection()` called or `connectionLost` delivered).
    (`deadline` bounds, per side, the time by which its result is out.) -/
theorem same_link (hk : SharedKey cfgS cfgR)
    (hkl : Keyless (drun (initDuo cfgS cfgR ls ds rs lr dr rr) evs)) (a b : Nat)
    (hsa : (drun (initDuo cfgS cfgR ls ds rs lr dr rr) evs).s.result = .ok a)
    (hrb : (drun (initDuo cfgS cfgR ls ds rs lr dr rr) evs).r.result = .ok b) :
    ∃ L, L ∈ (drun (initDuo cfgS cfgR ls ds rs lr dr rr) evs).links ∧ L.sEnd = a ∧ L.rEnd = b ∧
      (drun (initDuo cfgS cfgR ls ds rs lr dr rr) evs).s.winner = some a ∧
      (∃ ca, (drun (initDuo cfgS cfgR ls ds rs lr dr rr) evs).s.conns a = some ca ∧
        ca.out = hsOut ca ++ [cfgS.sendThis, Gen.Transit.GO]) ∧
      (∀ i ci, (drun (initDuo cfgS cfgR ls ds rs lr dr rr) evs).s.conns i = some ci →
        ci.out = hsOut ci ++ [cfgS.sendThis, Gen.Transit.GO] → i = a) ∧
      (∃ cb, (drun (initDuo cfgS cfgR ls ds rs lr dr rr) evs).r.conns b = some cb ∧
        (pre cb ++ cfgS.sendThis ++ Gen.Transit.GO_EXPECTED) <+: cb.rx) ∧
      (∀ i ci, (drun (initDuo cfgS cfgR ls ds rs lr dr rr) evs).s.conns i = some ci → i ≠ a →
        ci.negD ≠ .pending ∧ (1 ≤ ci.lost ∨ ci.gone = true)) ∧
      (∀ j cj, (drun (initDuo cfgS cfgR ls ds rs lr dr rr) evs).r.conns j = some cj → j ≠ b →
        cj.negD ≠ .pending ∧ (1 ≤ cj.lost ∨ cj.gone = true)) := by
  have hL := LInv_drun (LInv_init cfgS cfgR ls ds rs lr dr rr) evs
  obtain ⟨⟨es, hes⟩, ⟨er, her⟩⟩ := drun_sides (initDuo cfgS cfgR ls ds rs lr dr rr) evs
  have hes' : (drun (initDuo cfgS cfgR ls ds rs lr dr rr) evs).s = run (initWorld cfgS ls ds rs) es := hes
  have her' : (drun (initDuo cfgS cfgR ls ds rs lr dr rr) evs).r = run (initWorld cfgR lr dr rr) er := her
  have hcs : (drun (initDuo cfgS cfgR ls ds rs lr dr rr) evs).s.cfg = cfgS := by rw [hes']; exact run_cfg _ _
  have hcr : (drun (initDuo cfgS cfgR ls ds rs lr dr rr) evs).r.cfg = cfgR := by rw [her']; exact run_cfg _ _
  have hk' : SharedKey (drun (initDuo cfgS cfgR ls ds rs lr dr rr) evs).s.cfg
      (drun (initDuo cfgS cfgR ls ds rs lr dr rr) evs).r.cfg := by rw [hcs, hcr]; exact hk
  -- one-sided invariants of both sides
  have hRSs : RS (drun (initDuo cfgS cfgR ls ds rs lr dr rr) evs).s := by
    rw [hes']; exact run_RS (WInv_init _ _ _ _) (RS_init _ _ _ _) es
  have hRSr : RS (drun (initDuo cfgS cfgR ls ds rs lr dr rr) evs).r := by
    rw [her']; exact run_RS (WInv_init _ _ _ _) (RS_init _ _ _ _) er
  have hTs : TR (drun (initDuo cfgS cfgR ls ds rs lr dr rr) evs).s := by
    rw [hes']; exact TR_run (WInv_init _ _ _ _) (Port_init _ _ _ _) (K_init _ _ _ _) (TR_init _ _ _ _) es
  have hTr : TR (drun (initDuo cfgS cfgR ls ds rs lr dr rr) evs).r := by
    rw [her']; exact TR_run (WInv_init _ _ _ _) (Port_init _ _ _ _) (K_init _ _ _ _) (TR_init _ _ _ _) er
  have h8s : W8 (drun (initDuo cfgS cfgR ls ds rs lr dr rr) evs).s := by
    rw [hes']; exact W8_run (WInv_init _ _ _ _) (by intro i c h; simp [initWorld] at h) es
  have h8r : W8 (drun (initDuo cfgS cfgR ls ds rs lr dr rr) evs).r := by
    rw [her']; exact W8_run (WInv_init _ _ _ _) (by intro i c h; simp [initWorld] at h) er
  obtain ⟨ca, hca, hoka⟩ := hRSs.r3 a hsa
  obtain ⟨cb, hcb, hokb⟩ := hRSr.r3 b hrb
  obtain ⟨hwa, houta, _⟩ := send_ok_link hL hk' hkl a ca hca hoka
  obtain ⟨L, hLm, hLb, hLw, _⟩ := recv_ok_link hL hk' hkl b cb hcb hokb
  have hLa : L.sEnd = a := by rw [hwa] at hLw; cases hLw; rfl
  refine ⟨L, hLm, hLa, hLb, hwa, ⟨ca, hca, by rw [← hcs]; exact houta⟩, ?_, ?_, ?_, ?_⟩
  · intro i ci hci hout
    have := ((hL.ws.conns i ci hci).go (by rw [hcs]; exact hout)).2.1
    rw [hwa] at this; cases this; rfl
  · refine ⟨cb, hcb, ?_⟩
    have := (hL.wr.conns b cb hcb).okR hokb hk'.receiver
    rw [hcr, ← hk.sr] at this; exact this
  · intro i ci hci hia
    have hnp := TR_no_pending hTs hsa i ci hci
    refine ⟨hnp, ?_⟩
    cases hn : ci.negD with
    | pending => exact absurd hn hnp
    | ok =>
      have := (send_ok_link hL hk' hkl i ci hci hn).1
      rw [hwa] at this; cases this; exact absurd rfl hia
    | fail e => exact h8s i ci hci e hn
  · intro j cj hcj hjb
    have hnp := TR_no_pending hTr hrb j cj hcj
    refine ⟨hnp, ?_⟩
    cases hn : cj.negD with
    | pending => exact absurd hn hnp
    | ok =>
      obtain ⟨L', hL'm, hL'j, hL'w, _⟩ := recv_ok_link hL hk' hkl j cj hcj hn
      have : L'.sEnd = L.sEnd := by rw [hLw] at hL'w; exact (Option.some.inj hL'w).symm
      have := hL.injS L' L hL'm hLm this
      subst this
      exact absurd (hL'j.symm.trans hLb) hjb
    | fail e => exact h8r j cj hcj e hn

/-- `nothing_outlives_connect` holds for each side of every two-sided run (each side of a `drun` is
    a one-sided `run`): a side whose `connect()` has fired — also with a failure, also while the
    other side is still trying — has its port stopped, no attempt running, every connection that
    was not selected closed. -/
theorem duo_nothing_outlives_connect :
    ((drun (initDuo cfgS cfgR ls ds rs lr dr rr) evs).s.result ≠ .pending →
      (drun (initDuo cfgS cfgR ls ds rs lr dr rr) evs).s.portOpen = false ∧
      (∀ k q, phaseOf (drun (initDuo cfgS cfgR ls ds rs lr dr rr) evs).s k = some q → (∃ r x, q = .done r x) ∨ q = .idle) ∧
      (∀ j c, (drun (initDuo cfgS cfgR ls ds rs lr dr rr) evs).s.conns j = some c →
        c.negD ≠ .pending ∧ (c.negD ≠ .ok → 1 ≤ c.lost ∨ c.gone = true))) ∧
    ((drun (initDuo cfgS cfgR ls ds rs lr dr rr) evs).r.result ≠ .pending →
      (drun (initDuo cfgS cfgR ls ds rs lr dr rr) evs).r.portOpen = false ∧
      (∀ k q, phaseOf (drun (initDuo cfgS cfgR ls ds rs lr dr rr) evs).r k = some q → (∃ r x, q = .done r x) ∨ q = .idle) ∧
      (∀ j c, (drun (initDuo cfgS cfgR ls ds rs lr dr rr) evs).r.conns j = some c →
        c.negD ≠ .pending ∧ (c.negD ≠ .ok → 1 ≤ c.lost ∨ c.gone = true))) := by
  obtain ⟨⟨es, hes⟩, ⟨er, her⟩⟩ := drun_sides (initDuo cfgS cfgR ls ds rs lr dr rr) evs
  have hes' : (drun (initDuo cfgS cfgR ls ds rs lr dr rr) evs).s = run (initWorld cfgS ls ds rs) es := hes
  have her' : (drun (initDuo cfgS cfgR ls ds rs lr dr rr) evs).r = run (initWorld cfgR lr dr rr) er := her
  constructor
  · rw [hes']; exact nothing_outlives_connect cfgS ls ds rs es
  · rw [her']; exact nothing_outlives_connect cfgR lr dr rr er

/-- the ingredient of `same_link` that was only judged by the oracle before: `connect()` returns
    only a connection whose negotiation succeeded (so, for the Sender, `_winner`) -/
theorem result_is_negotiated (cfg : Cfg) (l : Bool) (d : Nat) (r : List Nat) (es : List Event) (i : Nat)
    (hres : (run (initWorld cfg l d r) es).result = .ok i) :
    ∃ c, (run (initWorld cfg l d r) es).conns i = some c ∧ c.negD = .ok :=
  (run_RS (WInv_init _ _ _ _) (RS_init _ _ _ _) es).r3 i hres

end

/-! ## the hypotheses are satisfiable, the conclusions are not vacuous -/

def toyCfg (sender : Bool) : Cfg :=
  { isSender := sender, sendThis := [1, 2], expectThis := [7, 8, 9], relayHs := [5], recLayer := fun b => some b, recRest := fun b => b }

example : Distinct (toyCfg true) := ⟨by decide, by decide, by decide, by decide⟩

/-- two inbound connections finish byte by byte in an interleaved order: the first to finish gets
    `go`, the other one is cancelled by the cascade before its last byte -/
example :
    let w := run (initWorld (toyCfg true) true 0 [])
      [.inbound, .inbound, .connect, .data 0 [7], .data 1 [7, 8], .data 0 [8, 9], .data 1 [9]]
    ((w.conns 0).map (·.out) = some [[1, 2], Gen.Transit.GO]) ∧ w.winner = some 0 ∧ w.result = .ok 0 ∧
    ((w.conns 1).map (·.state) = some .hungUp) ∧ ((w.conns 1).map (·.lost) = some 1) ∧ w.firedCount = 1 := by
  decide

/-- `nevermind` is reachable in the model (a connection whose `connectionLost` was already
    delivered still gets its last handshake byte): `nevermind_only_loser` is not vacuous -/
example :
    let w := run (initWorld (toyCfg true) true 0 [])
      [.inbound, .inbound, .data 1 [7, 8], .lost 1, .data 0 [7, 8, 9], .data 1 [9]]
    ((w.conns 1).map (·.out) = some [[1, 2], Gen.Transit.NEVERMIND]) ∧ w.winner = some 0 := by
  decide

/-- a receiver connection via a relay: `ok`, sender handshake, `go` -/
example :
    let w := run (initWorld (toyCfg false) false 0 [0])
      [.connect, .advance 0, .connected 0, .data 0 [111, 107], .data 0 [10, 7, 8, 9, 103], .data 0 [111, 10]]
    ((w.conns 0).map (·.state) = some .records) ∧ ((w.conns 0).map (·.out) = some [[5], [1, 2]]) ∧
    w.result = .ok 0 := by
  decide

/-- the seeded scenario: the Sender's `connect()` fails at its deadline; the port is closed, so the
    late `inbound` event is not possible (the world does not change) and nobody gets `go` -/
example :
    let w := run (initWorld (toyCfg true) true 0 []) [.connect, .advance 120]
    w.result = .fail .cancelled ∧ w.portOpen = false ∧
    (run w [.inbound, .data 0 [7, 8, 9]]).n = 0 ∧ (run w [.inbound, .data 0 [7, 8, 9]]).winner = none := by
  decide

/-- nothing can be negotiated: after the deadline `connect()` has failed -/
example :
    let w := run (initWorld (toyCfg true) true 1 []) [.connect, .inbound, .data 0 [7, 7], .advance 119, .advance 1]
    w.result = .fail .cancelled ∧ w.firedCount = 1 := by
  decide


/-- the hypotheses of `handshake_accepts_iff` / `full_statement` hold for a freshly started
    connection (`startNegotiation` on a new `Connection`, no relay) -/
example : ∃ c, CInv (toyCfg true) none 0 c ∧ c.negD = .pending ∧ c.state = .handshake ∧ c.buf = [] := by
  refine ⟨(startNegotiation (toyCfg true) none 0 (newConn none none (60, 0))).1.c, ?_, by decide, by decide, by decide⟩
  have h := (startNeg_ok (cfg := toyCfg true) (w0 := none) (i := 0) none none (60, 0) (by simp)).1
  have hw : (startNegotiation (toyCfg true) none 0 (newConn none none (60, 0))).1.winner = none := by decide
  rw [hw] at h; exact h


/-! ### `same_link` is not vacuous -/

def toyR : Cfg :=
  { isSender := false, sendThis := [7, 8, 9], expectThis := [1, 2], relayHs := [6], recLayer := fun b => some b,
    recRest := fun b => b }

example : SharedKey (toyCfg true) toyR := ⟨rfl, rfl, rfl, rfl⟩

/-- the Sender listens, a stranger connects first and sends garbage, then the Receiver's direct
    connector reaches the port; bytes flow in pieces in both directions -/
def toyDuo : Duo :=
  drun (initDuo (toyCfg true) toyR true 0 [] false 1 [])
    [.s .connect, .r .connect, .s .inbound, .s (.data 0 [7, 7]), .link (.sListens 0),
     .fwdRS 0 2, .fwdRS 0 5, .fwdSR 0 1, .fwdSR 0 100]

example : toyDuo.s.result = .ok 1 ∧ toyDuo.r.result = .ok 0 ∧ toyDuo.links = [{ sEnd := 1, rEnd := 0, relay := false }] ∧
    (toyDuo.s.conns 0).map (·.state) = some .hungUp := by decide

example : Keyless toyDuo := by
  have hL : LInv toyDuo := LInv_drun (LInv_init _ _ _ _ _ _ _ _) _
  refine ⟨?_, ?_⟩
  · intro i c hc hl
    match i with
    | 0 =>
      have h0 : (toyDuo.s.conns 0).map (·.rx) = some [7, 7] := by decide
      have h1 : (toyDuo.s.conns 0).map (fun c => pre c) = some [] := by decide
      rw [hc] at h0 h1
      simp at h0 h1
      rw [h0, h1]
      decide
    | 1 => exact absurd hl (by decide)
    | k + 2 =>
      have hn : toyDuo.s.n = 2 := by decide
      have := hL.ws.bound (k + 2) (by omega)
      rw [this] at hc; cases hc
  · intro i c hc hl
    match i with
    | 0 => exact absurd hl (by decide)
    | k + 1 =>
      have hn : toyDuo.r.n = 1 := by decide
      have := hL.wr.bound (k + 1) (by omega)
      rw [this] at hc; cases hc

end WV.Props.C07
