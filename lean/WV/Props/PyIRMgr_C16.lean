import WV.Proofs.PyIRMgr

set_option linter.unusedSimpArgs false
set_option linter.unusedVariables false

/-!
Translation validation of method BODIES of the Dilation `Manager`, second part: the way INTO a connection
(`choose_role`, `_start_connecting` and the two outputs that call it) against `WV.C17`, and the Leader's ping timer
(`_send_ping_reset_timer`, its nested `timer_expired` / `got_pong`, `send_ping`, `abandon_connection`) against `WV.C17`
(`beginTiming`, the `.expire` step: `timer_handle_safe`) and `WV.C16` (`sendPingResetTimer`, `mgrOutput .abandon_connection`).
-/
namespace WV.Props.PyIRMgrC16
open WV WV.PyIR WV.Gen WV.Gen.PyIRMgr WV.Proofs.PyIRC03 WV.Proofs.PyIRDil WV.Proofs.PyIRMgr

/-- `Manager.choose_role(message)` = `C17.mOut side .choose_role`: Leader iff OUR side is the greater string, Follower iff
    theirs is, ValueError (nothing changed) when they are equal; the first subchannel id is 1 / 2 -/
theorem manager_choose_role (fuel : Nat) (h : Store) (w : C17.World) (side : String) (msg : List (Val × Val))
    (hm : dictGet (.str "side") msg = .ok (some (.str side))) (hside : h.get "_my_side" = some (.str w.mySide)) :
    let o := exec (fuel + 1) (envM noRaise) tbl_Manager "choose_role" [.dict msg] h
    let r := C17.mOut side 0 .choose_role w
    o.exc = r.2.map C17.Err.name ∧ o.calls = [] ∧
      o.heap = (if side < w.mySide then (h.set "_my_role" (encRole (some true))).set "_next_subchannel_id" (.int 1)
                else if w.mySide < side then (h.set "_my_role" (encRole (some false))).set "_next_subchannel_id" (.int 2)
                else h) ∧
      (r.2 = none → o.heap.get "_my_role" = some (encRole r.1.role)) := by
  by_cases h1 : side < w.mySide
  · mgr_eval [tbl_Manager, m_Manager_choose_role, envM, noRaise, hm, hside, h1, C17.mOut, encRole, C17.Err.name]
  · by_cases h2 : w.mySide < side
    · mgr_eval [tbl_Manager, m_Manager_choose_role, envM, noRaise, hm, hside, h1, h2, C17.mOut, encRole, C17.Err.name]
    · mgr_eval [tbl_Manager, m_Manager_choose_role, envM, noRaise, hm, hside, h1, h2, C17.mOut, encRole, C17.Err.name]


/-- `Manager._start_connecting` = `C17.startConnecting`: the two asserts (role chosen, key known; nothing happens
    otherwise), a NEW Connector built from (key, relay, self, reactor, eventual queue, no_listen, tor, timing, OUR side, OUR
    role) — appended to `ctors` — and then `start()` on THAT Connector (= `connectorStart g`) -/
theorem manager_start_connecting_body (fuel : Nat) (h : Store) (w : C17.World)
    (kv relay reactor eq nl tor timing side : Val)
    (hrole : h.get "_my_role" = some (encRole w.role)) (hkey : h.get "_dilation_key" = some kv) (hK : KeyRel kv w.key)
    (h1 : h.get "_transit_relay_location" = some relay) (h2 : h.get "_reactor" = some reactor)
    (h3 : h.get "_eventual_queue" = some eq) (h4 : h.get "_no_listen" = some nl) (h5 : h.get "_tor" = some tor)
    (h6 : h.get "_timing" = some timing) (h7 : h.get "_my_side" = some side)
    (hdbg : h.get "_debug_stall_connector" = some (.bool false)) :
    let g := w.ctors.length
    let o := exec (fuel + 1) (envM noRaise (g := g)) tbl_Manager "_start_connecting" [] h
    let r := C17.startConnecting w
    o.exc = r.2.map C17.Err.name ∧
      (r.2 = none →
        o.heap = h.set "_connector"
          (.obj "Connector" [.int g, kv, relay, .obj "self" [], reactor, eq, nl, tor, timing, side, encRole w.role]) ∧
        o.calls = [⟨"_connector", "start", []⟩] ∧
        r.1 = C17.connectorStart g { w with ctors := w.ctors ++ [Connector.init] }) ∧
      (r.2 ≠ none → o.heap = h ∧ o.calls = []) := by
  cases hr : w.role with
  | none =>
    rw [hr] at hrole
    mgr_eval [tbl_Manager, m_Manager__start_connecting, envM, noRaise, extM, hrole, encRole, C17.startConnecting, hr, C17.Err.name]
  | some b =>
    rw [hr] at hrole
    cases hk : w.key <;> rw [hk] at hK
    · have hkv : kv = .none := by
        rcases hK with ⟨_, e⟩ | ⟨c, _⟩
        · exact e
        · cases c
      subst hkv
      cases b <;>
        mgr_eval [tbl_Manager, m_Manager__start_connecting, envM, noRaise, extM, hrole, hkey, encRole, C17.startConnecting, hr, hk,
          C17.Err.name]
    · obtain ⟨kb, rfl⟩ : ∃ kb, kv = .bytes kb := by
        rcases hK with ⟨c, _⟩ | ⟨_, e⟩
        · cases c
        · exact e
      cases b <;>
        mgr_eval [tbl_Manager, m_Manager__start_connecting, envM, noRaise, extM, hrole, hkey, h1, h2, h3, h4, h5, h6, h7, hdbg,
          encRole, C17.startConnecting, hr, hk, C17.Err.name]

/-- the output `start_connecting` = `C17.mOut .start_connecting` = `startConnecting` -/
theorem manager_start_connecting (fuel : Nat) (h : Store) (w : C17.World)
    (kv relay reactor eq nl tor timing side : Val)
    (hrole : h.get "_my_role" = some (encRole w.role)) (hkey : h.get "_dilation_key" = some kv) (hK : KeyRel kv w.key)
    (h1 : h.get "_transit_relay_location" = some relay) (h2 : h.get "_reactor" = some reactor)
    (h3 : h.get "_eventual_queue" = some eq) (h4 : h.get "_no_listen" = some nl) (h5 : h.get "_tor" = some tor)
    (h6 : h.get "_timing" = some timing) (h7 : h.get "_my_side" = some side)
    (hdbg : h.get "_debug_stall_connector" = some (.bool false)) :
    let g := w.ctors.length
    let o := exec (fuel + 2) (envM noRaise (g := g)) tbl_Manager "start_connecting" [] h
    let r := C17.startConnecting w
    o.exc = r.2.map C17.Err.name ∧
      (r.2 = none →
        o.heap = h.set "_connector"
          (.obj "Connector" [.int g, kv, relay, .obj "self" [], reactor, eq, nl, tor, timing, side, encRole w.role]) ∧
        o.calls = [⟨"_connector", "start", []⟩] ∧
        r.1 = C17.connectorStart g { w with ctors := w.ctors ++ [Connector.init] }) ∧
      (r.2 ≠ none → o.heap = h ∧ o.calls = []) := by
  cases hr : w.role with
  | none =>
    rw [hr] at hrole
    mgr_eval [tbl_Manager, m_Manager_start_connecting, m_Manager__start_connecting, envM, noRaise, extM, hrole, encRole, C17.startConnecting, hr, C17.Err.name]
  | some b =>
    rw [hr] at hrole
    cases hk : w.key <;> rw [hk] at hK
    · have hkv : kv = .none := by
        rcases hK with ⟨_, e⟩ | ⟨c, _⟩
        · exact e
        · cases c
      subst hkv
      cases b <;>
        mgr_eval [tbl_Manager, m_Manager_start_connecting, m_Manager__start_connecting, envM, noRaise, extM, hrole, hkey, encRole, C17.startConnecting, hr, hk,
          C17.Err.name]
    · obtain ⟨kb, rfl⟩ : ∃ kb, kv = .bytes kb := by
        rcases hK with ⟨c, _⟩ | ⟨_, e⟩
        · cases c
        · exact e
      cases b <;>
        mgr_eval [tbl_Manager, m_Manager_start_connecting, m_Manager__start_connecting, envM, noRaise, extM, hrole, hkey, h1, h2, h3, h4, h5, h6, h7, hdbg,
          encRole, C17.startConnecting, hr, hk, C17.Err.name]

/-- the output `start_connecting_ignore_message(message)` = `C17.mOut .start_connecting_ignore_message` = `startConnecting`:
    the PLEASE message is dropped -/
theorem manager_start_connecting_ignore_message (fuel : Nat) (h : Store) (w : C17.World)
    (kv relay reactor eq nl tor timing side msg : Val)
    (hrole : h.get "_my_role" = some (encRole w.role)) (hkey : h.get "_dilation_key" = some kv) (hK : KeyRel kv w.key)
    (h1 : h.get "_transit_relay_location" = some relay) (h2 : h.get "_reactor" = some reactor)
    (h3 : h.get "_eventual_queue" = some eq) (h4 : h.get "_no_listen" = some nl) (h5 : h.get "_tor" = some tor)
    (h6 : h.get "_timing" = some timing) (h7 : h.get "_my_side" = some side)
    (hdbg : h.get "_debug_stall_connector" = some (.bool false)) :
    let g := w.ctors.length
    let o := exec (fuel + 2) (envM noRaise (g := g)) tbl_Manager "start_connecting_ignore_message" [msg] h
    let r := C17.startConnecting w
    o.exc = r.2.map C17.Err.name ∧
      (r.2 = none →
        o.heap = h.set "_connector"
          (.obj "Connector" [.int g, kv, relay, .obj "self" [], reactor, eq, nl, tor, timing, side, encRole w.role]) ∧
        o.calls = [⟨"_connector", "start", []⟩] ∧
        r.1 = C17.connectorStart g { w with ctors := w.ctors ++ [Connector.init] }) ∧
      (r.2 ≠ none → o.heap = h ∧ o.calls = []) := by
  cases hr : w.role with
  | none =>
    rw [hr] at hrole
    mgr_eval [tbl_Manager, m_Manager_start_connecting_ignore_message, m_Manager__start_connecting, envM, noRaise, extM, hrole, encRole, C17.startConnecting, hr, C17.Err.name]
  | some b =>
    rw [hr] at hrole
    cases hk : w.key <;> rw [hk] at hK
    · have hkv : kv = .none := by
        rcases hK with ⟨_, e⟩ | ⟨c, _⟩
        · exact e
        · cases c
      subst hkv
      cases b <;>
        mgr_eval [tbl_Manager, m_Manager_start_connecting_ignore_message, m_Manager__start_connecting, envM, noRaise, extM, hrole, hkey, encRole, C17.startConnecting, hr, hk,
          C17.Err.name]
    · obtain ⟨kb, rfl⟩ : ∃ kb, kv = .bytes kb := by
        rcases hK with ⟨c, _⟩ | ⟨_, e⟩
        · cases c
        · exact e
      cases b <;>
        mgr_eval [tbl_Manager, m_Manager_start_connecting_ignore_message, m_Manager__start_connecting, envM, noRaise, extM, hrole, hkey, h1, h2, h3, h4, h5, h6, h7, hdbg,
          encRole, C17.startConnecting, hr, hk, C17.Err.name]

/-! ## the ping timer -/

/-- the nested `timer_expired` of `_send_ping_reset_timer` = the first half of `C17.step .expire` / `C16.timerExpired`:
    the handle is cleared FIRST (so a later `cancel()`/`delay()` can never hit a DelayedCall that has fired:
    `timer_handle_safe`), then `self._traffic.interval_elapsed()`; whatever that input raises, the handle stays cleared -/
theorem manager_timer_expired (fuel : Nat) (h : Store) (w : C17.World) (R : RelTC h w) (i : Nat)
    (ht : h.get "_traffic" = some (.ref "TrafficTimer" i)) (raises : Nat → Option String) :
    let o := exec (fuel + 1) (envM raises) tbl_Manager "_send_ping_reset_timer.timer_expired" [] h
    RelTC o.heap { w with timer := if Flags.timer_expiry_clears_handle then C17.Timer.none else C17.Timer.fired } ∧
      o.calls.map mcall = [some .intervalElapsed] ∧ o.exc = raises 0 := by
  obtain ⟨⟨tv, htv, hT⟩, hc⟩ := R
  cases hr : raises 0 <;>
    mgr_eval [tbl_Manager, m_Manager__send_ping_reset_timer__timer_expired, envM, ht, hr, mcall, RelTC, hc,
      Flags.timer_expiry_clears_handle]
  all_goals exact TimerRel.none

/-- the nested `got_pong(_)` (the `on_pong` callback of every keep-alive Ping) = `C16.gotPong`'s `traffic_seen` -/
theorem manager_got_pong (fuel : Nat) (h : Store) (i : Nat) (x : Val)
    (ht : h.get "_traffic" = some (.ref "TrafficTimer" i)) :
    let o := exec (fuel + 1) (envM noRaise) tbl_Manager "_send_ping_reset_timer.got_pong" [x] h
    o.heap = h ∧ o.calls.map mcall = [some .trafficSeen] ∧ o.exc = none := by
  mgr_eval [tbl_Manager, m_Manager__send_ping_reset_timer__got_pong, envM, noRaise, ht, mcall]

/-- `Manager.send_ping(id, cb)` = `C16.sendPing` after the draw: a duplicate id is refused by the assert BEFORE anything
    is registered or written; otherwise the ping is registered under `id` with (callback, time of `reactor.seconds()`) and
    `Ping(id)` goes to `Outbound.send_if_connected` -/
theorem manager_send_ping (fuel : Nat) (h : Store) (d : List (List Nat × Val)) (id : List Nat) (cb now reactor : Val)
    (io : Nat) (hp : h.get "_pings_outstanding" = some (.dict (encPings d))) (hr : h.get "_reactor" = some reactor)
    (ho : h.get "_outbound" = some (.ref "Outbound" io)) :
    let o := exec (fuel + 1) (envM noRaise (rets := fun _ => now)) tbl_Manager "send_ping" [.bytes id, cb] h
    match C03.dget d id with
    | some _ => o.exc = some "AssertionError" ∧ o.heap = h ∧ o.calls = []
    | none => o.exc = none ∧
        o.heap = h.set "_pings_outstanding" (.dict (encPings (C03.dset d id (.tuple [cb, now])))) ∧
        o.calls.map mcall = [some .seconds, some (.sendPing id)] := by
  cases hg : C03.dget d id <;>
    mgr_eval [tbl_Manager, m_Manager_send_ping, envM, noRaise, extM, hp, hr, ho, dictGet_pings, dictSet_pings, hg, mcall]

/-- `Manager._send_ping_reset_timer` = `C17.beginTiming` (with a fresh ping id): the Ping first, then — no timer:
    `callLater(interval, timer_expired)` and the handle kept; a timer: `delay(interval)` on it, which raises AlreadyCalled
    (handle kept) iff that DelayedCall has fired -/
theorem manager_send_ping_reset_timer (fuel : Nat) (h : Store) (w : C17.World) (R : RelTC h w)
    (d : List (List Nat × Val)) (rnd : List Nat) (now reactor : Val) (io newTimer : Nat)
    (hp : h.get "_pings_outstanding" = some (.dict (encPings d))) (hr : h.get "_reactor" = some reactor)
    (ho : h.get "_outbound" = some (.ref "Outbound" io)) (hint : h.get "_ping_interval" = some (.obj "interval" []))
    (hfresh : C03.dget d rnd = none) :
    let env := envM (fun k => if k = 2 ∧ w.timer = .fired then some "AlreadyCalled" else none)
      (rets := fun k => if k = 0 then now else .ref "DelayedCall" newTimer) (rnd := rnd)
    let o := exec (fuel + 2) env tbl_Manager "_send_ping_reset_timer" [] h
    let r := C17.beginTiming w
    RelTC o.heap r.1 ∧ o.exc = r.2.map C17.Err.name ∧
      o.calls.map mcall = [some .seconds, some (.sendPing rnd)] ++
        (if w.timer = .none then [some (.callLater "_send_ping_reset_timer.timer_expired")] else [some .timerDelay]) := by
  obtain ⟨⟨tv, htv, hT⟩, hc⟩ := R
  cases htm : w.timer <;> rw [htm] at hT
  all_goals first
    | (have := hT.of_none; subst this)
    | (obtain ⟨id, rfl⟩ := hT.of_pending)
    | (obtain ⟨id, rfl⟩ := hT.of_fired)
  all_goals
    mgr_eval [tbl_Manager, m_Manager__send_ping_reset_timer, m_Manager_send_ping, envM, extM, hp, hr, ho, hint, htv, hc,
      dictGet_pings, dictSet_pings, hfresh, mcall, C17.beginTiming, Flags.ping_timer_checks_active, htm, RelTC,
      C17.Err.name]
  all_goals first | exact hT | exact TimerRel.pending _

/-- `abandon_connection` against C16 (`mgrOutput .abandon_connection`; there the expiry has cleared the handle, a
    DelayedCall in `_timer` is pending): timer cancelled and cleared, then `disconnect()` = one more entry of `abandons` -/
theorem manager_abandon_connection_C16 (fuel : Nat) (h : Store) (s : C16.St) (b : Bool) (tv : Val)
    (ht : h.get "_timer" = some tv)
    (hT : (s.timer = none ∧ tv = .none) ∨ (s.timer ≠ none ∧ ∃ id, tv = .ref "DelayedCall" id))
    (hc : h.get "_connection" = some (encConn s.conn)) :
    let o := exec (fuel + 1) (envM noRaise) tbl_Manager "abandon_connection" [] h
    let r := C16.mgrOutput b .abandon_connection s
    o.exc = r.2.map C16.Err.name ∧ o.heap.get "_timer" = some .none ∧ r.1.timer = none ∧
      o.heap.get "_connection" = some (encConn r.1.conn) ∧
      r.1.abandons = s.abandons ++ (o.calls.filter (fun c => c.obj == "_connection" && c.meth == "disconnect")).filterMap
        (fun _ => s.conn.map fun c => (c, s.now)) ∧
      (o.calls.filter (fun c => c.obj == "_timer")).map mcall = (if s.timer = none then [] else [some .timerCancel]) := by
  cases hcn : s.conn <;> rw [hcn] at hc <;> rcases hT with ⟨hs, rfl⟩ | ⟨hs, id, rfl⟩ <;>
    mgr_eval [tbl_Manager, m_Manager_abandon_connection, envM, noRaise, ht, hc, encConn, C16.mgrOutput, hcn, hs,
      C16.Err.name, mcall]

/-! ## the ping path against C16 -/

/-- an entry of `_pings_outstanding` for a ping of the C16 model: key = the 4 bytes of its id (`enc`, injective: the model's
    ids are first-occurrence indices of the byte strings), value = (the `got_pong` callback, the time it was sent) -/
def encPing16 (enc : Nat → List Nat) (cb : Val) (p : C16.PingRec) : List Nat × Val := (enc p.id, .tuple [cb, .int p.sent])

theorem dget_pings16 (enc : Nat → List Nat) (hinj : Function.Injective enc) (cb : Val) (id : Nat) :
    ∀ ps : List C16.PingRec, C16.hasId ps id = false → C03.dget (ps.map (encPing16 enc cb)) (enc id) = none
  | [], _ => rfl
  | p :: r, hh => by
    have h1 : ¬ p.id = id := by
      intro e; simp [C16.hasId, e] at hh
    have h2 : C16.hasId r id = false := by
      simp [C16.hasId] at hh ⊢; exact hh.2
    have h3 : ¬ enc p.id = enc id := fun e => h1 (hinj e)
    simp [C03.dget, encPing16, h3]
    exact dget_pings16 enc hinj cb id r h2

theorem dget_pings16_some (enc : Nat → List Nat) (cb : Val) (id : Nat) :
    ∀ ps : List C16.PingRec, C16.hasId ps id = true → ∃ v, C03.dget (ps.map (encPing16 enc cb)) (enc id) = some v
  | [], hh => by simp [C16.hasId] at hh
  | p :: r, hh => by
    by_cases h1 : p.id = id
    · exact ⟨.tuple [cb, .int p.sent], by simp [C03.dget, encPing16, h1]⟩
    · have h2 : C16.hasId r id = true := by
        simp [C16.hasId, h1] at hh ⊢; exact hh
      obtain ⟨v, hv⟩ := dget_pings16_some enc cb id r h2
      by_cases h3 : enc p.id = enc id
      · exact ⟨.tuple [cb, .int p.sent], by simp [C03.dget, encPing16, h3]⟩
      · exact ⟨v, by simp [C03.dget, encPing16, h3]; exact hv⟩

theorem dset_pings16 (enc : Nat → List Nat) (hinj : Function.Injective enc) (cb : Val) (id sent : Nat) (wire : Option Nat) :
    ∀ ps : List C16.PingRec, C16.hasId ps id = false →
      C03.dset (ps.map (encPing16 enc cb)) (enc id) (.tuple [cb, .int sent]) =
        (ps ++ [({ id := id, sent := sent, wire := wire } : C16.PingRec)]).map (encPing16 enc cb)
  | [], _ => by simp [C03.dset, encPing16]
  | p :: r, hh => by
    have h1 : ¬ p.id = id := by
      intro e; simp [C16.hasId, e] at hh
    have h2 : C16.hasId r id = false := by
      simp [C16.hasId] at hh ⊢; exact hh.2
    have h3 : ¬ enc p.id = enc id := fun e => h1 (hinj e)
    have ih := dset_pings16 enc hinj cb id sent wire r h2
    simp [C03.dset, encPing16, h3] at ih ⊢
    exact ih

/-- the `got_pong` callback every keep-alive Ping is registered with -/
def gotPongV : Val := .obj "closure" [.str "_send_ping_reset_timer.got_pong"]

/-- `Manager._send_ping_reset_timer` = `C16.sendPingResetTimer`: the id drawn is refused (AssertionError, nothing registered,
    nothing sent, the timer NOT re-armed) iff it is still outstanding (`¬ freshNext`); otherwise the ping is registered with
    the current time and the `got_pong` callback, `Ping(id)` goes to Outbound, and the timer is started (`callLater`) when
    there is none, else extended with `delay` (`Flags.ping_timer_uses_delay`) -/
theorem manager_send_ping_reset_timer_C16 (fuel : Nat) (h : Store) (cfg : C16.Cfg) (s : C16.St) (enc : Nat → List Nat)
    (hinj : Function.Injective enc) (tv reactor : Val) (io newTimer : Nat)
    (hp : h.get "_pings_outstanding" = some (.dict (encPings (s.pings.map (encPing16 enc gotPongV)))))
    (ht : h.get "_timer" = some tv)
    (hT : (s.timer = none ∧ tv = .none) ∨ (s.timer ≠ none ∧ ∃ id, tv = .ref "DelayedCall" id))
    (hr : h.get "_reactor" = some reactor) (ho : h.get "_outbound" = some (.ref "Outbound" io))
    (hint : h.get "_ping_interval" = some (.obj "interval" [])) :
    let id := C16.pingId s
    let env := envM noRaise (rets := fun k => if k = 0 then .int s.now else .ref "DelayedCall" newTimer) (rnd := enc id)
    let o := exec (fuel + 2) env tbl_Manager "_send_ping_reset_timer" [] h
    let r := C16.sendPingResetTimer cfg s
    o.exc = r.2.map C16.Err.name ∧
      o.heap.get "_pings_outstanding" = some (.dict (encPings (r.1.pings.map (encPing16 enc gotPongV)))) ∧
      ((o.heap.get "_timer" = some .none) ↔ r.1.timer = none) ∧
      o.calls.map mcall =
        (if C16.freshNext s then
          [some .seconds, some (.sendPing (enc id))] ++
            (if s.timer = none then [some (.callLater "_send_ping_reset_timer.timer_expired")] else [some .timerDelay])
         else []) := by
  cases hh : C16.hasId s.pings (C16.pingId s)
  · have hg := dget_pings16 enc hinj gotPongV (C16.pingId s) s.pings hh
    have hs := dset_pings16 enc hinj gotPongV (C16.pingId s) s.now (C16.sendIfConnected (C16.afterDraw s)) s.pings hh
    simp only [gotPongV] at hg hs hp ⊢
    rcases hT with ⟨hs0, rfl⟩ | ⟨hs0, tid, rfl⟩
    · mgr_eval [tbl_Manager, m_Manager__send_ping_reset_timer, m_Manager_send_ping, envM, noRaise, extM, hp, hr, ho, hint, ht,
        dictGet_pings, dictSet_pings, hg, hs, mcall, C16.sendPingResetTimer, C16.sendPing, C16.afterDraw, C16.outstanding,
        C16.freshNext, C16.Res.andThen, hh, hs0, C16.Err.name]
    · obtain ⟨dl, hdl⟩ : ∃ dl, s.timer = some dl := by
        cases hx : s.timer with
        | none => exact absurd hx hs0
        | some dl => exact ⟨dl, rfl⟩
      mgr_eval [tbl_Manager, m_Manager__send_ping_reset_timer, m_Manager_send_ping, envM, noRaise, extM, hp, hr, ho, hint, ht,
        dictGet_pings, dictSet_pings, hg, hs, mcall, C16.sendPingResetTimer, C16.sendPing, C16.afterDraw, C16.outstanding,
        C16.freshNext, C16.Res.andThen, hh, hdl, C16.Err.name, Flags.ping_timer_uses_delay]
  · obtain ⟨v, hg⟩ := dget_pings16_some enc gotPongV (C16.pingId s) s.pings hh
    simp only [gotPongV] at hg hp ⊢
    rcases hT with ⟨hs0, rfl⟩ | ⟨hs0, tid, rfl⟩
    · mgr_eval [tbl_Manager, m_Manager__send_ping_reset_timer, m_Manager_send_ping, envM, noRaise, extM, hp, hr, ho, hint, ht,
        dictGet_pings, hg, mcall, C16.sendPingResetTimer, C16.sendPing, C16.afterDraw, C16.outstanding,
        C16.freshNext, C16.Res.andThen, hh, hs0, C16.Err.name]
    · obtain ⟨dl, hdl⟩ : ∃ dl, s.timer = some dl := by
        cases hx : s.timer with
        | none => exact absurd hx hs0
        | some dl => exact ⟨dl, rfl⟩
      mgr_eval [tbl_Manager, m_Manager__send_ping_reset_timer, m_Manager_send_ping, envM, noRaise, extM, hp, hr, ho, hint, ht,
        dictGet_pings, hg, mcall, C16.sendPingResetTimer, C16.sendPing, C16.afterDraw, C16.outstanding,
        C16.freshNext, C16.Res.andThen, hh, hdl, C16.Err.name]

/-! ## non-vacuity: concrete heaps, concrete runs of the generated bodies -/

def demoHeap : Store :=
  [("_my_side", .str C17.MY_SIDE), ("_my_role", .none), ("_next_subchannel_id", .none), ("_dilation_key", .bytes [1, 2, 3]),
   ("_transit_relay_location", .str "tcp:relay:4001"), ("_reactor", .ref "Clock" 0), ("_eventual_queue", .ref "EventualQueue" 0),
   ("_no_listen", .bool false), ("_tor", .none), ("_timing", .none), ("_debug_stall_connector", .bool false),
   ("_timer", .none), ("_connection", .ref "Connection" 0), ("_traffic", .ref "TrafficTimer" 0),
   ("_pings_outstanding", .dict (encPings [([9, 9, 9, 9], .tuple [.none, .int 5])])), ("_outbound", .ref "Outbound" 0),
   ("_ping_interval", .obj "interval" [])]

def demoWorld : C17.World :=
  { C17.World.init false false C17.MY_SIDE with hasMgr := true, key := true, conn := some 0, tt := some .connected }

example : RelTC demoHeap demoWorld := ⟨⟨_, rfl, TimerRel.none⟩, rfl⟩
example : KeyRel (.bytes [1, 2, 3]) demoWorld.key := Or.inr ⟨rfl, _, rfl⟩

def isRole (which : String) : Option Val → Bool
  | some (.obj "_Role" [.str s]) => s == which
  | _ => false
def isIntV (n : Nat) : Option Val → Bool
  | some (.int m) => m == n
  | _ => false
def isNoneV : Option Val → Bool
  | some .none => true
  | _ => false
def isRefV (i : Nat) : Option Val → Bool
  | some (.ref _ j) => i == j
  | _ => false

def runRole (their : String) : Outcome :=
  exec 1 (envM noRaise) tbl_Manager "choose_role" [.dict [(.str "type", .str "please"), (.str "side", .str their)]] demoHeap

/-- our side is "8000000000000000": a peer "7fff…" makes us the Leader (odd subchannel ids), "9…" the Follower, the
    same side is a reflection -/
example : isRole "LEADER" ((runRole "7fffffffffffffff").heap.get "_my_role") = true ∧
    isIntV 1 ((runRole "7fffffffffffffff").heap.get "_next_subchannel_id") = true := by decide
example : isRole "FOLLOWER" ((runRole "9000000000000000").heap.get "_my_role") = true ∧
    isIntV 2 ((runRole "9000000000000000").heap.get "_next_subchannel_id") = true := by decide
example : (runRole C17.MY_SIDE).exc = some "ValueError" ∧ isNoneV ((runRole C17.MY_SIDE).heap.get "_my_role") = true := by
  decide

/-- no role yet: `_start_connecting` asserts, builds nothing -/
example : (exec 1 (envM noRaise) tbl_Manager "_start_connecting" [] demoHeap).exc = some "AssertionError" := by decide

def leaderHeap : Store := (runRole "7fffffffffffffff").heap

/-- with a role and a key: Connector number 3 is built and started -/
example : (exec 2 (envM noRaise (g := 3)) tbl_Manager "start_connecting" [] leaderHeap).calls.map
    (mcallW { demoWorld with ctors := [Connector.init, Connector.init, Connector.init, Connector.init] }) =
      [some (.connectorStart 3)] := by decide

def pingEnv (t : C17.Timer) : Env :=
  envM (fun k => if k = 2 ∧ t = .fired then some "AlreadyCalled" else none)
    (rets := fun k => if k = 0 then .int 17 else .ref "DelayedCall" 4) (rnd := [1, 2, 3, 4])

def runPing : Outcome := exec 2 (pingEnv .none) tbl_Manager "_send_ping_reset_timer" [] demoHeap

/-- no timer: Ping(01020304) is sent, the interval timer is started with the nested `timer_expired`, the handle is kept -/
example : runPing.calls.map mcall =
      [some .seconds, some (.sendPing [1, 2, 3, 4]), some (.callLater "_send_ping_reset_timer.timer_expired")] ∧
    isRefV 4 (runPing.heap.get "_timer") = true ∧ runPing.exc = none := by decide

def runPing2 (t : C17.Timer) : Outcome := exec 2 (pingEnv t) tbl_Manager "_send_ping_reset_timer" [] runPing.heap

/-- the id is still outstanding: the second draw of the same 4 bytes runs into `send_ping`'s assert, the timer is not touched -/
example : (runPing2 .pending).exc = some "AssertionError" ∧ (runPing2 .pending).calls = [] := by decide

def runExpire : Outcome := exec 1 (envM noRaise) tbl_Manager "_send_ping_reset_timer.timer_expired" [] runPing.heap

/-- the expiry clears the handle, then tells the TrafficTimer -/
example : isNoneV (runExpire.heap.get "_timer") = true ∧ runExpire.calls.map mcall = [some .intervalElapsed] := by decide

end WV.Props.PyIRMgrC16

#print axioms WV.Props.PyIRMgrC16.manager_choose_role
#print axioms WV.Props.PyIRMgrC16.manager_start_connecting_body
#print axioms WV.Props.PyIRMgrC16.manager_timer_expired
#print axioms WV.Props.PyIRMgrC16.manager_send_ping_reset_timer
#print axioms WV.Props.PyIRMgrC16.manager_send_ping_reset_timer_C16
