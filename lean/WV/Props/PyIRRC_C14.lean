import WV.Proofs.PyIRRC

/-!
Translation validation of the `RendezvousConnector` glue against the control model `WV.Client` (C08 / C09 / C14 / C18):
theorems.  Every theorem: for every heap in `RelRC`, every argument of the stated type, every fuel above the stated
constant, `WV.PyIR.exec` of the body *generated from the working tree* (`WV.Gen.PyIRRC`) agrees with the glue arm of
`WV.Client.exec` / `WV.Client.step` on final state, ordered control calls with their arguments, and exception.
-/
set_option linter.unusedSimpArgs false
set_option linter.unusedVariables false

namespace WV.Props.PyIRRC
open WV WV.Gen WV.PyIR WV.Client WV.Gen.PyIRRC WV.Proofs.PyIRC03 WV.Proofs.PyIRClient WV.Proofs.PyIRRC
open WV.C03 (dset dget)

/-- the method list of the translator section is pinned: a rewrite that leaves the subset moves a method into
    `untranslatable` and breaks this theorem -/
theorem all_translated :
    WV.Gen.PyIRRC.translated = ["RendezvousConnector._debug", "RendezvousConnector._initial_connection_failed",
      "RendezvousConnector._response_handle_nameplates", "RendezvousConnector._stopped", "RendezvousConnector._tx",
      "RendezvousConnector.stop", "RendezvousConnector.ws_close", "RendezvousConnector.ws_open",
      "Input._get_nameplate_completions", "Input.notify_wordlist_waiters", "Input.record_wordlist"] ∧
    WV.Gen.PyIRRC.untranslatable.map (·.1) = [] := by decide

/-! ## `_tx(mtype, **kwargs)` = the item `.tx cmd` -/

/-- no websocket: `assert self._ws` fails before anything is built or sent -/
theorem rc_tx_not_open (fuel : Nat) (h : Store) (s : RunSt) (R : RelRC h s.ctl) (a : Arg) (cmd : Cmd)
    (kw : List (String × Val)) (raises : Nat → Option String) (hopen : s.ctl.wsOpen = false) :
    let o := PyIR.exec (fuel + 2) (envRC raises) tbl_RendezvousConnector "_tx" [.str (cmdName cmd), .dict (encKw kw)] h
    o.heap = h ∧ o.calls = [] ∧ o.exc = some "AssertionError" ∧
      Client.exec s (.tx cmd) a = .fail s (.assertion "self._ws") := by
  openRC R
  rcases hwsc with ⟨rfl, _⟩ | ⟨cls, fs, rfl, ho⟩
  · rc_eval [m_RendezvousConnector__tx, hws, hopen]
  · simp [hopen] at ho

/-- websocket open and writable: exactly one frame, `dict_to_bytes(kwargs + id + type=mtype)`, is written; nothing else
    changes; the model makes `.tx cmd` observable -/
theorem rc_tx_sends (fuel : Nat) (h : Store) (s : RunSt) (R : RelRC h s.ctl) (a : Arg) (cmd : Cmd)
    (kw : List (String × Val)) (hopen : s.ctl.wsOpen = true) (hnc : s.ctl.wsClosing = false) :
    let o := PyIR.exec (fuel + 2) (envRC noRaise) tbl_RendezvousConnector "_tx" [.str (cmdName cmd), .dict (encKw kw)] h
    o.heap = h ∧ ctlCalls o = [⟨"_ws", "sendMessage", [frameOf (cmdName cmd) kw, .bool false]⟩] ∧ o.exc = none ∧
      Client.exec s (.tx cmd) a = .cont (emit s (.tx cmd)) [] := by
  openRC R
  rcases hwsc with ⟨rfl, ho⟩ | ⟨cls, fs, rfl, _⟩
  · simp [hopen] at ho
  · cases htt : tr.truthy <;>
      rc_eval [m_RendezvousConnector__tx, m_RendezvousConnector__debug, hws, htr, htt, hTm, hSide, hopen, hnc, frameOf, msgId]

/-- the websocket has left the OPEN state (closing handshake begun): autobahn's `sendMessage` raises `Disconnected`;
    `_tx` swallows it — no exception reaches the machine output that called `tx_*`, nothing changes (fix 335dc48); the
    model's `.tx cmd` with `wsClosing` does nothing.  `k` is the index of the `sendMessage` call among the recorded
    calls (2 with a debug trace installed, else 1). -/
theorem rc_tx_closing (fuel : Nat) (h : Store) (s : RunSt) (R : RelRC h s.ctl) (a : Arg) (cmd : Cmd)
    (kw : List (String × Val)) (hopen : s.ctl.wsOpen = true) (hc : s.ctl.wsClosing = true) (tr : Val)
    (htr : h.get "_trace" = some tr) :
    let k := if tr.truthy then 2 else 1
    let o := PyIR.exec (fuel + 2) (envRC (raiseAt k "Disconnected")) tbl_RendezvousConnector "_tx" [.str (cmdName cmd), .dict (encKw kw)] h
    o.heap = h ∧ o.exc = none ∧ o.calls.length = k + 1 ∧
      Client.exec s (.tx cmd) a = .cont s [] := by
  obtain ⟨⟨wsv, hws, hwsc⟩, hever, hstopping, _, ⟨vUrl, hUrl⟩, ⟨vSide, hSide⟩, ⟨vAppid, hAppid⟩,
      ⟨vVer, hVer⟩, ⟨vTm, hTm⟩, ⟨vSt, hSt⟩, ⟨vCn, hCn⟩, ⟨vB, hB⟩, ⟨vN, hN⟩, ⟨vM, hM⟩, ⟨vL, hL⟩, ⟨vA, hA⟩, ⟨vT, hT⟩⟩ := R
  rcases hwsc with ⟨rfl, ho⟩ | ⟨cls, fs, rfl, _⟩
  · simp [hopen] at ho
  · cases htt : tr.truthy <;>
      rc_eval [m_RendezvousConnector__tx, m_RendezvousConnector__debug, hws, htr, htt, hTm, hSide, hopen, hc]

/-- any other exception of `sendMessage` (e.g. autobahn's `PayloadExceededError`) is NOT swallowed -/
theorem rc_tx_other_exception (fuel : Nat) (h : Store) (s : RunSt) (R : RelRC h s.ctl) (cmd : Cmd)
    (kw : List (String × Val)) (hopen : s.ctl.wsOpen = true) (tr : Val) (htr : h.get "_trace" = some tr)
    (cls : String) (hcls : cls ≠ "Disconnected") :
    let k := if tr.truthy then 2 else 1
    let o := PyIR.exec (fuel + 2) (envRC (raiseAt k cls)) tbl_RendezvousConnector "_tx" [.str (cmdName cmd), .dict (encKw kw)] h
    o.heap = h ∧ o.exc = some cls := by
  obtain ⟨⟨wsv, hws, hwsc⟩, hever, hstopping, _, ⟨vUrl, hUrl⟩, ⟨vSide, hSide⟩, ⟨vAppid, hAppid⟩,
      ⟨vVer, hVer⟩, ⟨vTm, hTm⟩, ⟨vSt, hSt⟩, ⟨vCn, hCn⟩, ⟨vB, hB⟩, ⟨vN, hN⟩, ⟨vM, hM⟩, ⟨vL, hL⟩, ⟨vA, hA⟩, ⟨vT, hT⟩⟩ := R
  rcases hwsc with ⟨rfl, ho⟩ | ⟨c2, fs, rfl, _⟩
  · simp [hopen] at ho
  · cases htt : tr.truthy <;>
      rc_eval [m_RendezvousConnector__tx, m_RendezvousConnector__debug, hws, htr, htt, hTm, hSide, hopen, hcls]

/-! ## `stop()` = the item `.rcStop` -/

/-- `stop()`: `_stopping = True` FIRST, then `stopService()` is called, and on its Deferred exactly `addErrback(log.err)`
    then `addBoth(self._stopped)`: nothing between the Deferred firing and `_stopped`.  The model: `stopping := true`,
    `.stopService` observable; when the Deferred fires (`stopPending` / at once — the environment's business) the
    continuation `_stopped` is `T.stoppedRC()`. -/
theorem rc_stop (fuel : Nat) (h : Store) (s : RunSt) (R : RelRC h s.ctl) (a : Arg) :
    let o := PyIR.exec (fuel + 1) (envRC noRaise) tbl_RendezvousConnector "stop" [] h
    o.calls = stopChain 0 "addBoth" stoppedMethod ∧ o.exc = none ∧
    (match Client.exec s .rcStop a with
     | .cont s' push => RelRC o.heap s'.ctl ∧ s'.ctl.stopping = true ∧ s'.obs = .stopService :: s.obs ∧
         (push = [] ∧ s'.ctl.stopPending = true ∨ push = [(.T .stoppedRC, a)])
     | .fail _ _ => False) ∧
    -- the continuation, when the Deferred fires
    RcCallsAre (fire (fuel + 1) (envRC noRaise) o.heap stoppedMethod).calls [(.T .stoppedRC, a)] := by
  have R' := R
  openRC R
  refine ⟨?_, ?_, ?_, ?_⟩
  · rc_eval [m_RendezvousConnector_stop, hCn]
  · rc_eval [m_RendezvousConnector_stop, hCn]
  · cases hc : (s.ctl.wsOpen || s.ctl.halfOpen) <;>
    · rc_eval [m_RendezvousConnector_stop, hCn, hc, emit]
      exact relRC_frame R' ⟨wsv, by simp [get_set, hws], hwsc⟩ (by simp [get_set, hever]) (by simp [get_set]) (by rc_frame)
  · rc_eval [m_RendezvousConnector_stop, m_RendezvousConnector__stopped, hCn, hT, Terminator.Input.name]

/-- `_stopping` is already set when `stopService()` runs: if it raises synchronously, the flag stays (what
    `_initial_connection_failed` reads) — a swapped order is visible here -/
theorem rc_stop_flag_before_call (fuel : Nat) (h : Store) (c : Ctl) (R : RelRC h c) (cls : String) :
    let o := PyIR.exec (fuel + 1) (envRC (raiseAt 0 cls)) tbl_RendezvousConnector "stop" [] h
    o.heap.get "_stopping" = some (.bool true) ∧ o.exc = some cls := by
  openRC R
  rc_eval [m_RendezvousConnector_stop, hCn]

/-! ## `ws_open(proto)` = the event `.wsOpen` -/

theorem step_wsOpen (c : Ctl) : step c .wsOpen =
    guarded { c with wsOpen := true, halfOpen := false, wsClosing := false, everConnected := true } wsOpenAgenda := rfl

/-- `ws_open`: the two flags are set BEFORE the guarded block; inside it `bind` is sent first (with appid, side,
    client_version), then `N`, `M`, `L`, `A` are told `connected()` in this order — the agenda of `step c .wsOpen` -/
theorem rc_ws_open (fuel : Nat) (h : Store) (c : Ctl) (R : RelRC h c) (pc : String) (pf : List Val) (ap sd ver : Val)
    (hap : h.get "_appid" = some ap) (hsd : h.get "_side" = some sd) (hver : h.get "_client_version" = some ver) :
    let o := PyIR.exec (fuel + 2) (envRC noRaise) tbl_RendezvousConnector "ws_open" [.obj pc pf] h
    RelRC o.heap { c with wsOpen := true, halfOpen := false, wsClosing := false, everConnected := true } ∧
    ctlCalls o = wsOpenCalls ap sd ver ∧ RcCallsAre (wsOpenCalls ap sd ver) wsOpenAgenda ∧ o.exc = none := by
  have R' := R
  openRC R
  refine ⟨?_, ?_, ?_, ?_⟩
  · cases htt : tr.truthy <;>
    · rc_eval [m_RendezvousConnector_ws_open, m_RendezvousConnector__debug, htr, htt, hSt, hUrl, hap, hsd, hver, hN, hM, hL, hA]
      exact relRC_frame R' ⟨_, by simp [get_set], Or.inr ⟨pc, pf, rfl, rfl⟩⟩ (by simp [get_set]) (by simp [get_set, hstopping])
        (by rc_frame)
  · cases htt : tr.truthy <;>
      rc_eval [m_RendezvousConnector_ws_open, m_RendezvousConnector__debug, htr, htt, hSt, hUrl, hap, hsd, hver, hN, hM, hL, hA, wsOpenCalls]
  · rc_eval [wsOpenCalls, wsOpenAgenda, Nameplate.Input.name, Mailbox.Input.name, Lister.Input.name, Allocator.Input.name]
  · cases htt : tr.truthy <;>
      rc_eval [m_RendezvousConnector_ws_open, m_RendezvousConnector__debug, htr, htt, hSt, hUrl, hap, hsd, hver, hN, hM, hL, hA]

/-- `ws_open`, the guarded block (`except Exception as e: self._B.error(e); raise`): when the `k`-th of the five calls
    raises `cls`, the calls after it are NOT made, the Boss is told `error(e)` with that exception, and the same
    exception leaves `ws_open` — `Client.guarded`: the rest of the agenda is dropped, `B.error` runs, `.internal e`.
    The flags set before the block stay. -/
theorem rc_ws_open_guarded (fuel : Nat) (h : Store) (c : Ctl) (R : RelRC h c) (pc : String) (pf : List Val) (ap sd ver : Val)
    (hap : h.get "_appid" = some ap) (hsd : h.get "_side" = some sd) (hver : h.get "_client_version" = some ver)
    (tr : Val) (htr : h.get "_trace" = some tr) (k : Nat) (hk : k < 5) (cls : String) (hcls : isPseudoExc cls = false) :
    let base := if tr.truthy then 2 else 1
    let o := PyIR.exec (fuel + 2) (envRC (raiseAt (base + k) cls)) tbl_RendezvousConnector "ws_open" [.obj pc pf] h
    RelRC o.heap { c with wsOpen := true, halfOpen := false, wsClosing := false, everConnected := true } ∧
    ctlCalls o = (wsOpenCalls ap sd ver).take (k + 1) ++ [⟨"_B", "error", [.obj cls []]⟩] ∧ o.exc = some cls ∧
    itemName (.B .k_error) = some "_B.error" := by
  have R' := R
  obtain ⟨⟨wsv, hws, hwsc⟩, hever, hstopping, _, ⟨vUrl, hUrl⟩, ⟨vSide, hSide⟩, ⟨vAppid, hAppid⟩,
      ⟨vVer, hVer⟩, ⟨vTm, hTm⟩, ⟨vSt, hSt⟩, ⟨vCn, hCn⟩, ⟨vB, hB⟩, ⟨vN, hN⟩, ⟨vM, hM⟩, ⟨vL, hL⟩, ⟨vA, hA⟩, ⟨vT, hT⟩⟩ := R
  have hk' : k = 0 ∨ k = 1 ∨ k = 2 ∨ k = 3 ∨ k = 4 := by omega
  refine ⟨?_, ?_, ?_, ?_⟩
  · rcases hk' with rfl | rfl | rfl | rfl | rfl <;> cases htt : tr.truthy <;>
    · rc_eval [m_RendezvousConnector_ws_open, m_RendezvousConnector__debug, htr, htt, hSt, hUrl, hap, hsd, hver, hN, hM, hL, hA, hB, hcls]
      exact relRC_frame R' ⟨_, by simp [get_set], Or.inr ⟨pc, pf, rfl, rfl⟩⟩ (by simp [get_set]) (by simp [get_set, hstopping])
        (by rc_frame)
  · rcases hk' with rfl | rfl | rfl | rfl | rfl <;> cases htt : tr.truthy <;>
      rc_eval [m_RendezvousConnector_ws_open, m_RendezvousConnector__debug, htr, htt, hSt, hUrl, hap, hsd, hver, hN, hM, hL, hA, hB, hcls, wsOpenCalls]
  · rcases hk' with rfl | rfl | rfl | rfl | rfl <;> cases htt : tr.truthy <;>
      rc_eval [m_RendezvousConnector_ws_open, m_RendezvousConnector__debug, htr, htt, hSt, hUrl, hap, hsd, hver, hN, hM, hL, hA, hB, hcls]
  · rc_eval [Boss.Input.name]

/-! ## `ws_close(wasClean, code, reason)` = the events `.wsClose` / `.wsFail` -/

/-- `ws_close`, every combination of the two flags it reads: `_ws = None`; the four machines are told `lost()` in the
    order N, M, L, A iff there was an open websocket; iff there has NEVER been a successful connection the service is
    stopped and `B.error(ServerConnectionError(url, reason))` is chained on the Deferred of that `stopService()` —
    after `addErrback(log.err)`, with nothing else in between.  `k` is the index of the `stopService` call. -/
theorem rc_ws_close (fuel : Nat) (h : Store) (c : Ctl) (R : RelRC h c) (wc code reason url tr : Val)
    (hurl : h.get "_url" = some url) (htr : h.get "_trace" = some tr) :
    let k := (if tr.truthy then 1 else 0) + (if c.wsOpen then 4 else 0)
    let o := PyIR.exec (fuel + 2) (envRC noRaise) tbl_RendezvousConnector "ws_close" [wc, code, reason] h
    RelRC o.heap { c with wsOpen := false, wsClosing := false } ∧ o.exc = none ∧
    ctlCalls o = (if c.wsOpen then lostCalls else []) ++
      (if c.everConnected then []
       else stopChain k "addCallback" (errorCallback (.obj "ServerConnectionError" [url, reason]))) := by
  have R' := R
  obtain ⟨⟨wsv, hws, hwsc⟩, hever, hstopping, _, _, ⟨vSide, hSide⟩, ⟨vAppid, hAppid⟩,
      ⟨vVer, hVer⟩, ⟨vTm, hTm⟩, ⟨vSt, hSt⟩, ⟨vCn, hCn⟩, ⟨vB, hB⟩, ⟨vN, hN⟩, ⟨vM, hM⟩, ⟨vL, hL⟩, ⟨vA, hA⟩, ⟨vT, hT⟩⟩ := R
  refine ⟨?_, ?_, ?_⟩
  · rcases hwsc with ⟨rfl, ho⟩ | ⟨wcl, wfs, rfl, ho⟩ <;> cases hev : c.everConnected <;> cases htt : tr.truthy <;>
    · rw [hev] at hever
      rc_eval [m_RendezvousConnector_ws_close, m_RendezvousConnector__debug, htr, htt, hws, hever, ho, hev, hurl, hCn, hN, hM, hL, hA]
      exact relRC_frame R' ⟨_, by simp [get_set], Or.inl ⟨rfl, rfl⟩⟩ (by simp [get_set, hever, hev]) (by simp [get_set, hstopping])
        (by rc_frame)
  · rcases hwsc with ⟨rfl, ho⟩ | ⟨wcl, wfs, rfl, ho⟩ <;> cases hev : c.everConnected <;> cases htt : tr.truthy <;>
    · rw [hev] at hever
      rc_eval [m_RendezvousConnector_ws_close, m_RendezvousConnector__debug, htr, htt, hws, hever, ho, hev, hurl, hCn, hN, hM, hL, hA]
  · rcases hwsc with ⟨rfl, ho⟩ | ⟨wcl, wfs, rfl, ho⟩ <;> cases hev : c.everConnected <;> cases htt : tr.truthy <;>
    · rw [hev] at hever
      rc_eval [m_RendezvousConnector_ws_close, m_RendezvousConnector__debug, htr, htt, hws, hever, ho, hev, hurl, hCn, hN, hM, hL, hA, lostCalls]

/-- the model's arms for a lost / failed connection, and the naming of the calls -/
theorem step_wsClose (c : Ctl) (ho : c.wsOpen = true) : step c .wsClose =
    (match api { c with wsOpen := false, wsClosing := false } wsLostAgenda with
     | (c2, obs, .apiError e) => (c2, obs, .internal e)
     | r => r) := by
  simp [step, ho, wsLostAgenda] <;> rfl

theorem step_wsClose_not_open (c : Ctl) (ho : c.wsOpen = false) : step c .wsClose = (c, [], .ok) := by
  simp [step, ho]

theorem step_wsFail (c : Ctl) (ho : c.wsOpen = false) :
    step c .wsFail =
      if c.everConnected then ({ c with halfOpen := false }, [], .ok)
      else match api { c with halfOpen := false } connErrorAgenda with
        | (c2, obs, .apiError e) => (c2, .stopService :: obs, .internal e)
        | (c2, obs, oc) => (c2, .stopService :: obs, oc) := by
  cases he : c.everConnected <;> simp [step, ho, he, connErrorAgenda] <;> rfl

theorem lostCalls_are : RcCallsAre lostCalls wsLostAgenda := by
  rc_eval [lostCalls, wsLostAgenda, Nameplate.Input.name, Mailbox.Input.name, Lister.Input.name, Allocator.Input.name]

/-- the continuation chained on the Deferred: when it fires, the Boss gets `error(ServerConnectionError(…))`, the
    model's `B.error` with verdict `connectionError` -/
theorem errorCallback_fires (fuel : Nat) (env : Env) (h : Store) (x y : Val) :
    let sce := Val.obj "ServerConnectionError" [x, y]
    RcCallsAre (fire fuel env h (errorCallback sce)).calls connErrorAgenda ∧ verdictOf sce = some .connectionError ∧
      (fire fuel env h (errorCallback sce)).calls.map (·.args) = [[sce]] := by
  rc_eval [connErrorAgenda, Boss.Input.name, verdictOf]

/-! ## `_initial_connection_failed(f)` = the event `.failInitial` -/

theorem step_failInitial (c : Ctl) :
    step c .failInitial =
      if c.stopping then (c, [], .ok)
      else match api c connErrorAgenda with
        | (c2, obs, .apiError e) => (c2, .stopService :: obs, .internal e)
        | (c2, obs, oc) => (c2, .stopService :: obs, oc) := by
  cases he : c.stopping <;> simp [step, he, connErrorAgenda] <;> rfl

/-- `_initial_connection_failed(f)`: nothing at all once `stop()` has set `_stopping`; otherwise `stopService()` and
    `B.error(ServerConnectionError(url, f.value))` chained on its Deferred; no attribute changes -/
theorem rc_initial_connection_failed (fuel : Nat) (h : Store) (c : Ctl) (R : RelRC h c) (f url : Val)
    (hurl : h.get "_url" = some url) :
    let o := PyIR.exec (fuel + 1) (envRC noRaise) tbl_RendezvousConnector "_initial_connection_failed" [f] h
    o.heap = h ∧ o.exc = none ∧
    o.calls = (if c.stopping then []
      else stopChain 0 "addCallback"
        (errorCallback (.obj "ServerConnectionError" [url, .obj "getattr" [f, .str "value"]]))) := by
  openRC R
  cases hs : c.stopping <;>
  · rw [hs] at hstopping
    rc_eval [m_RendezvousConnector__initial_connection_failed, hstopping, hs, hurl, hCn]

/-! ## `_response_handle_nameplates(msg)` = the event `.nameplates` -/

theorem step_nameplates (c : Ctl) : step c .nameplates = guarded c [(.L .rx_nameplates, {})] := rfl

/-- a well-formed `nameplates` frame, EVERY length of the list (duplicates and extra attributes allowed): the Lister
    gets exactly one `rx_nameplates` with the set of the ids; nothing else happens.  Loop by induction
    (`forLoop_nids`); the `for` needs no fuel. -/
theorem rc_response_handle_nameplates (fuel : Nat) (h : Store) (vL : Val) (hL : h.get "_L" = some vL) (ids : List String)
    (extra : String → List (Val × Val)) (more : List (Val × Val)) :
    let msg := Val.dict ((.str "nameplates", .list (ids.map (npEntry extra))) :: more)
    let o := PyIR.exec (fuel + 1) (envRC noRaise) tbl_RendezvousConnector "_response_handle_nameplates" [msg] h
    o.heap = h ∧ o.exc = none ∧ o.calls = [⟨"_L", "rx_nameplates", [.set ((nidsOf ids).map Val.str)]⟩] ∧
      RcCallsAre o.calls [(.L .rx_nameplates, {})] ∧ (∀ i, i ∈ nidsOf ids ↔ i ∈ ids) := by
  rc_eval [m_RendezvousConnector__response_handle_nameplates, dictGet, hL, mem_nidsOf]
  generalize hw : forLoop _ _ _ _ = w
  refine forLoop_nids_k (nv := "nids") hw (npEntry extra) ids rfl [] ?hL0 ?hstep ?cont
  case hL0 => simp [Store.get, Store.set]
  case hstep =>
    intro L acc i hLn
    rc_eval [npEntry, dictGet, hLn, memKeys_str, addNew_map]
  case cont =>
    intro L' hw' hn
    subst hw'
    rc_eval [hn, hL, nidsOf, Lister.Input.name]

/-- a malformed entry (not an object, or its `id` is not a string) anywhere in the list: `AssertionError`, the Lister
    is told nothing — in `ws_message` that is the `except Exception: … self._B.error(e); raise` path, `Client.guarded` -/
theorem rc_response_handle_nameplates_malformed (fuel : Nat) (h : Store) (vL : Val) (hL : h.get "_L" = some vL)
    (pre : List String) (bad : Val) (post : List Val) (extra : String → List (Val × Val)) (more : List (Val × Val))
    (hbad : (∃ s, bad = .str s) ∨ bad = .none ∨ (∃ n ex, bad = .dict ((.str "id", .int n) :: ex)) ∨
      (∃ ex, bad = .dict ((.str "id", .none) :: ex))) :
    let msg := Val.dict ((.str "nameplates", .list (pre.map (npEntry extra) ++ bad :: post)) :: more)
    let o := PyIR.exec (fuel + 1) (envRC noRaise) tbl_RendezvousConnector "_response_handle_nameplates" [msg] h
    o.heap = h ∧ o.exc = some "AssertionError" ∧ o.calls = [] := by
  rc_eval [m_RendezvousConnector__response_handle_nameplates, dictGet, hL]
  generalize hw : forLoop _ _ _ _ = w
  refine forLoop_nids_abort_k (nv := "nids") hw (npEntry extra) pre bad post rfl "AssertionError" [] ?hL0 ?hstep ?hbad ?cont
  case hL0 => simp [Store.get, Store.set]
  case hstep =>
    intro L acc i hLn
    rc_eval [npEntry, dictGet, hLn, memKeys_str, addNew_map]
  case hbad =>
    intro L
    rcases hbad with ⟨s, rfl⟩ | rfl | ⟨n, ex, rfl⟩ | ⟨ex, rfl⟩ <;> rc_eval [dictGet]
  case cont =>
    intro L' hw'
    subst hw'
    rc_eval []

/-- the frame's `nameplates` field is not a list: `AssertionError` before the loop -/
theorem rc_response_handle_nameplates_not_a_list (fuel : Nat) (h : Store) (s : String) (more : List (Val × Val)) :
    let o := PyIR.exec (fuel + 1) (envRC noRaise) tbl_RendezvousConnector "_response_handle_nameplates"
      [.dict ((.str "nameplates", .str s) :: more)] h
    o.heap = h ∧ o.exc = some "AssertionError" ∧ o.calls = [] := by
  rc_eval [m_RendezvousConnector__response_handle_nameplates, dictGet]

/-! ## Input: the three outputs `WV.Gen.PyIR` could not translate -/

abbrev envI : Env := envU noBad noRaise noRets

/-- `record_wordlist(wordlist)`: the attribute is set; no control call (the model: `.cont s []`) -/
theorem input_record_wordlist (fuel : Nat) (h : Store) (s : RunSt) (R : RelI h s.ctl) (a : Arg) (wl : Val) :
    let o := PyIR.exec (fuel + 1) envI tbl_Input "record_wordlist" [wl] h
    AgreeStep RelI o (Client.exec s (.oI .record_wordlist) a) ∧ o.heap.get "_wordlist" = some wl := by
  obtain ⟨⟨vC, hC⟩, ⟨vL, hL⟩, ⟨vTm, hTm⟩⟩ := R
  refine ⟨?_, ?_⟩
  · rc_eval [m_Input_record_wordlist]
    exact ⟨⟨vC, by simp [get_set, hC]⟩, ⟨vL, by simp [get_set, hL]⟩, ⟨vTm, by simp [get_set, hTm]⟩⟩
  · rc_eval [m_Input_record_wordlist]

/-- `_get_nameplate_completions(prefix)`: for EVERY set of known nameplates (any size, any iteration order) the value
    returned is the set of `nameplate + "-"` for the nameplates that start with the prefix; no call, no state change,
    no exception (the model: `.cont s []`).  Loop by induction (`forLoop_acc`). -/
theorem input_get_nameplate_completions (fuel : Nat) (h : Store) (s : RunSt) (R : RelI h s.ctl) (a : Arg) (p : String)
    (nps : List String) (hnp : h.get "_all_nameplates" = some (.set (nps.map Val.str))) :
    let o := PyIR.exec (fuel + 1) envI tbl_Input "_get_nameplate_completions" [.str p] h
    AgreeStep RelI o (Client.exec s (.oI .u_get_nameplate_completions) a) ∧ o.heap = h ∧ o.calls = [] ∧
      o.ret = .set ((complOf p nps).map Val.str) := by
  have R' := R
  rc_eval [m_Input__get_nameplate_completions, tbl_Input, hnp]
  generalize hw : forLoop _ _ _ _ = w
  refine forLoop_acc_k (nv := "completions") hw (fun L => L.get "prefix" = some (.str p)) (complStep p) nps rfl []
    ?hP0 ?hL0 ?hstep ?cont
  case hP0 => simp [Store.get, Store.set]
  case hL0 => simp [Store.get, Store.set]
  case hstep =>
    intro L acc i hP hLn
    by_cases hpre : p.toList.isPrefixOf i.toList <;>
      rc_eval [hLn, hP, memKeys_str, complStep_map, hpre]
  case cont =>
    intro L' hw' hn
    subst hw'
    rc_eval [hn, complOf]
    exact R'

/-- `notify_wordlist_waiters(wordlist)`: every Deferred parked by `when_wordlist_is_available()` is fired with `None`
    exactly once, last parked first, and the list is empty afterwards — any number of waiters; fuel `≥ length + 1` is
    part of the statement.  No control call, no exception (the model: `.cont s []`). -/
theorem input_notify_wordlist_waiters (fuel : Nat) (h : Store) (s : RunSt) (R : RelI h s.ctl) (a : Arg) (wl : Val)
    (ks : List Nat) (hws : h.get "_wordlist_waiters" = some (.list (ks.map deferredOf))) (hf : ks.length + 1 ≤ fuel) :
    let o := PyIR.exec fuel envI tbl_Input "notify_wordlist_waiters" [wl] h
    RelI o.heap s.ctl ∧ o.exc = none ∧
      o.calls = (ks.map deferredOf).reverse.map (fun w => ⟨"$v", "callback", [w, .none]⟩) ∧
      o.heap.get "_wordlist_waiters" = some (.list []) ∧
      Client.exec s (.oI .notify_wordlist_waiters) a = .cont s [] := by
  obtain ⟨⟨vC, hC⟩, ⟨vL, hL⟩, ⟨vTm, hTm⟩⟩ := R
  obtain ⟨f, rfl⟩ : ∃ f, fuel = f + 1 := ⟨fuel - 1, by omega⟩
  rc_eval [m_Input_notify_wordlist_waiters, tbl_Input]
  generalize hw : whileLoop _ _ _ _ = w
  refine whileLoop_waiters_k hw (fun w => ∃ k, w = deferredOf k) (fun w => ⟨"$v", "callback", [w, .none]⟩)
    "_wordlist_waiters" (ks.map deferredOf) ?hQ ?hcond ?hbody (by simpa using hf) (by simpa using hws) ?cont
  case hQ =>
    intro w hw'
    obtain ⟨k, _, rfl⟩ := List.mem_map.mp hw'
    exact ⟨k, rfl⟩
  case hcond =>
    intro h' L cs ws hh
    rc_eval [hh]
  case hbody =>
    intro h' L cs ws w hQ hh
    obtain ⟨k, rfl⟩ := hQ
    rc_eval [hh]
  case cont =>
    intro h' L' hw' hg hfr
    subst hw'
    rc_eval [hg]
    exact ⟨⟨vC, by rw [hfr _ (by decide)]; exact hC⟩, ⟨vL, by rw [hfr _ (by decide)]; exact hL⟩,
      ⟨vTm, by rw [hfr _ (by decide)]; exact hTm⟩⟩

/-! ## non-vacuity: concrete heaps in the relation, decided runs of the generated bodies -/

/-- a connector as `__attrs_post_init__` + `wire` leave it: never connected -/
def demoHeap : Store :=
  [("_ws", .none), ("_have_made_a_successful_connection", .bool false), ("_stopping", .bool false), ("_trace", .none),
   ("_url", .str "ws://relay.example/v1"), ("_side", .str "a1b2"), ("_appid", .str "example.org/app"),
   ("_client_version", .tuple [.str "python", .str "0.1"]), ("_timing", .obj "DebugTiming" []),
   ("_evolve_status", .obj "callable" []), ("_connector", .obj "ClientService" []), ("_B", .obj "Boss" []),
   ("_N", .obj "Nameplate" []), ("_M", .obj "Mailbox" []), ("_L", .obj "Lister" []), ("_A", .obj "Allocator" []),
   ("_T", .obj "Terminator" [])]

/-- the same connector with an open websocket -/
def demoOpenHeap : Store :=
  (demoHeap.set "_ws" (.obj "WSClient" [])).set "_have_made_a_successful_connection" (.bool true)

example : RelRC demoHeap {} := by
  constructor <;> simp [demoHeap, Store.get]

example : RelRC demoOpenHeap { wsOpen := true, everConnected := true } := by
  constructor <;> simp [demoOpenHeap, demoHeap, Store.get, Store.set]

/-- `_tx("claim", nameplate="4")` on the open connector writes one frame whose dict has nameplate, id, type in that order -/
example : (ctlCalls (PyIR.exec 2 (envRC noRaise) tbl_RendezvousConnector "_tx" [.str "claim", .dict (encKw [("nameplate", .str "4")])] demoOpenHeap)).map
      (fun c => (c.obj, c.meth)) = [("_ws", "sendMessage")] := by decide
example : (dset (dset [("nameplate", Val.str "4")] "id" msgId) "type" (.str "claim")).map (·.1) = ["nameplate", "id", "type"] := by
  decide
/-- … `Disconnected` from `sendMessage` is swallowed, `ValueError` is not; without a websocket: AssertionError -/
example : (PyIR.exec 2 (envRC (raiseAt 1 "Disconnected")) tbl_RendezvousConnector "_tx" [.str "claim", .dict (encKw [("nameplate", .str "4")])]
    demoOpenHeap).exc = none := by decide
example : (PyIR.exec 2 (envRC (raiseAt 1 "ValueError")) tbl_RendezvousConnector "_tx" [.str "claim", .dict (encKw [("nameplate", .str "4")])]
    demoOpenHeap).exc = some "ValueError" := by decide
example : (PyIR.exec 2 (envRC noRaise) tbl_RendezvousConnector "_tx" [.str "claim", .dict (encKw [("nameplate", .str "4")])] demoHeap).exc
    = some "AssertionError" := by decide
/-- `ws_open` on the fresh connector: bind, then N, M, L, A; when `M.connected()` raises, L and A are not told, the Boss is -/
example : (ctlCalls (PyIR.exec 2 (envRC noRaise) tbl_RendezvousConnector "ws_open" [.obj "WSClient" []] demoHeap)).map rcCallName
    = ["_RC.tx_bind", "_N.connected", "_M.connected", "_L.connected", "_A.connected"] := by decide
example : (ctlCalls (PyIR.exec 2 (envRC (raiseAt 3 "KeyError")) tbl_RendezvousConnector "ws_open" [.obj "WSClient" []] demoHeap)).map rcCallName
    = ["_RC.tx_bind", "_N.connected", "_M.connected", "_B.error"] := by decide
/-- `ws_close` without a preceding open on the very first connection: the service is stopped and the error chained -/
example : (ctlCalls (PyIR.exec 2 (envRC noRaise) tbl_RendezvousConnector "ws_close" [.bool false, .int 1006, .str "gone"] demoHeap)).map
      (fun c => (c.obj, c.meth)) = [("_connector", "stopService"), ("$v", "addErrback"), ("$v", "addCallback")] := by decide
/-- `ws_close` of the open connector: the four `lost()`, no stop -/
example : (ctlCalls (PyIR.exec 2 (envRC noRaise) tbl_RendezvousConnector "ws_close" [.bool true, .int 1000, .str ""] demoOpenHeap)).map callName
    = ["_N.lost", "_M.lost", "_L.lost", "_A.lost"] := by decide
example : (PyIR.exec 1 (envRC noRaise) tbl_RendezvousConnector "stop" [] demoOpenHeap).calls.map (·.meth) = ["stopService", "addErrback", "addBoth"] := by
  decide

/-- a `nameplates` frame with a duplicate: the Lister gets the set {"4", "17"}; a malformed entry: AssertionError -/
example : (PyIR.exec 1 (envRC noRaise) tbl_RendezvousConnector "_response_handle_nameplates"
      [.dict [(.str "type", .str "nameplates"),
              (.str "nameplates", .list [.dict [(.str "id", .str "4")], .dict [(.str "id", .str "17")], .dict [(.str "id", .str "4")]])]]
      demoOpenHeap).calls.map (fun c => (callName c, c.args.map fun v => match v with | .set vs => vs.length | _ => 99))
    = [("_L.rx_nameplates", [2])] := by decide
example : (PyIR.exec 1 (envRC noRaise) tbl_RendezvousConnector "_response_handle_nameplates"
      [.dict [(.str "nameplates", .list [.dict [(.str "id", .str "4")], .dict [(.str "id", .int 17)]])]] demoOpenHeap).exc
    = some "AssertionError" := by decide
example : nidsOf ["4", "17", "4"] = ["4", "17"] := by decide

/-- an Input after `do_start` with three nameplates known and two waiters parked -/
def demoInputHeap : Store :=
  [("_all_nameplates", .set [.str "4", .str "41", .str "7"]), ("_nameplate", .none), ("_wordlist", .none),
   ("_wordlist_waiters", .list [deferredOf 0, deferredOf 1]), ("_trace", .none), ("_C", .obj "Code" []),
   ("_L", .obj "Lister" []), ("_timing", .obj "DebugTiming" [])]

example : RelI demoInputHeap {} := by
  constructor <;> simp [demoInputHeap, Store.get]
example : complOf "4" ["4", "41", "7"] = ["4-", "41-"] := by decide
example : (match (PyIR.exec 1 envI tbl_Input "_get_nameplate_completions" [.str "4"] demoInputHeap).ret with
    | .set vs => vs.length | _ => 99) = 2 := by decide
example : (PyIR.exec 3 envI tbl_Input "notify_wordlist_waiters" [.none] demoInputHeap).calls.map
      (fun c => (c.meth, c.args.length)) = [("callback", 2), ("callback", 2)] := by decide
/-- one unit of fuel less than the bound of the theorem is not enough (the bound is tight) -/
example : (PyIR.exec 2 envI tbl_Input "notify_wordlist_waiters" [.none] demoInputHeap).exc = some "OutOfFuel" := by decide

#print axioms all_translated
#print axioms step_nameplates
#print axioms rc_response_handle_nameplates
#print axioms rc_response_handle_nameplates_malformed
#print axioms rc_response_handle_nameplates_not_a_list
#print axioms input_record_wordlist
#print axioms input_get_nameplate_completions
#print axioms input_notify_wordlist_waiters
#print axioms rc_ws_open
#print axioms rc_ws_open_guarded
#print axioms rc_ws_close
#print axioms step_wsOpen
#print axioms step_wsClose
#print axioms step_wsClose_not_open
#print axioms step_wsFail
#print axioms lostCalls_are
#print axioms errorCallback_fires
#print axioms step_failInitial
#print axioms rc_initial_connection_failed
#print axioms rc_tx_not_open
#print axioms rc_tx_sends
#print axioms rc_tx_closing
#print axioms rc_tx_other_exception
#print axioms rc_stop
#print axioms rc_stop_flag_before_call

end WV.Props.PyIRRC
