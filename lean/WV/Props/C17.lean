import WV.Gen.Skel
import WV.Proofs.C17_Live
import WV.Proofs.C17_Old
import WV.Proofs.C17_Late

/-!
C17 — Dilation never blocks shutdown; an incapable peer is reported, not awaited.

All theorems are about `WV.C17` (lean/WV/Model/C17.lean), the model the driver executes; the
Manager / Connector / Terminator / DilatedConnectionProtocol tables in it are the generated
`WV.Gen.*.table`s and the pending-versions guard of `Dilator.dilate` is the generated
`WV.Gen.Flags.pending_versions_guard_is_not_none`.

Environment of the liveness theorems (`okRun`): the peer is *conformant* — its dilation side `ps`
differs from ours, `please` carries `ps`, it sends `reconnect` only when it is the Leader — and
Boss hands the key to the Dilator before any dilate-N message.  Everything else (order and number
of API calls, network events, eventual turns, Terminator inputs, late and duplicate callbacks) is
arbitrary.  What happens outside that environment is stated too (`*_blocks_shutdown`).
-/
namespace WV.Props.C17
open WV WV.Gen WV.C17 WV.Proofs.C17

/-! ## 1. the `stop` rows, decided on the generated tables -/

def countOut (o : Manager.Output) (l : List Manager.Output) : Nat := (l.filter (· == o)).length

/-- Manager: from every state but STOPPING/STOPPED `stop` has a row; it enters STOPPED with exactly
    one `notify_stopped` (after `stop_connecting` when CONNECTING), or STOPPING — only from
    CONNECTED (with `abandon_connection`) and ABANDONING (already abandoned) — with none -/
def stopRowOk (s : Manager.State) : Bool :=
  match Manager.table s .k_stop with
  | none => s == .STOPPING || s == .STOPPED
  | some (.STOPPED, outs) =>
    countOut .notify_stopped outs == 1 && !(outs.contains .abandon_connection) &&
    (if s == .CONNECTING then outs.head? == some .stop_connecting else !(outs.contains .stop_connecting)) &&
    s != .CONNECTED && s != .ABANDONING
  | some (.STOPPING, outs) =>
    countOut .notify_stopped outs == 0 &&
    ((s == .CONNECTED && outs == [.abandon_connection]) || (s == .ABANDONING && outs == []))
  | some _ => false

/-- Manager: a row enters STOPPED iff it fires `notify_stopped`, and then exactly once; STOPPED has
    no rows; STOPPING leaves only by `connection_lost_*`, to STOPPED -/
def notifyRowOk (s : Manager.State) (i : Manager.Input) : Bool :=
  match Manager.table s i with
  | none => true
  | some (s', outs) =>
    s != .STOPPED &&
    (if s' == .STOPPED then countOut .notify_stopped outs == 1 else countOut .notify_stopped outs == 0) &&
    (if s == .STOPPING then (s' == .STOPPING && outs == []) || (s' == .STOPPED && (i == .connection_lost_leader || i == .connection_lost_follower)) else true)

theorem manager_stop_rows : Manager.State.all.all stopRowOk = true := by decide

theorem manager_notify_rows :
    (Manager.State.all.all fun s => Manager.Input.all.all fun i => notifyRowOk s i) = true := by decide

theorem manager_stopping_rows :
    (Manager.table .STOPPING .connection_lost_leader).map (·.1) = some .STOPPED ∧
    (Manager.table .STOPPING .connection_lost_follower).map (·.1) = some .STOPPED := by decide

/-- Connector: `stop` runs `stop_everything` from both live states; `stopped` has no rows; nothing
    re-enters `connecting` -/
theorem connector_stop_rows :
    Connector.table .connecting .k_stop = some (.stopped, [.stop_everything]) ∧
    Connector.table .connected .k_stop = some (.stopped, [.stop_everything]) ∧
    (Connector.Input.all.all fun i => (Connector.table .stopped i).isNone) = true ∧
    (Connector.State.all.all fun s => Connector.Input.all.all fun i =>
      match Connector.table s i with
      | some (.connecting, _) => s == .connecting
      | _ => true) = true := by decide

/-- Terminator: `stop_dilator` exactly on `S_stoppingRC --stoppedRC--> S_stoppingD`, `B_closed`
    exactly on `S_stoppingD --stoppedD--> S_stopped`, `S_stopped` is terminal -/
theorem terminator_rows :
    (Terminator.State.all.all fun s => Terminator.Input.all.all fun i =>
      match Terminator.table s i with
      | none => true
      | some (s', outs) =>
        s != .S_stopped &&
        (outs.contains .stop_dilator == (s == .S_stoppingRC && i == .stoppedRC)) &&
        (outs.contains .B_closed == (s == .S_stoppingD && i == .stoppedD)) &&
        ((s' == .S_stoppingD) == (s == .S_stoppingRC && i == .stoppedRC)) &&
        ((s' == .S_stopped) == (s == .S_stoppingD && i == .stoppedD))) = true := by decide

/-! ## 2. the hand-written output bodies have the call skeleton of the working tree -/

theorem skeletons_agree_connector :
    Skel.skeleton "Connector.stop_everything" =
      [("-", "self.stop_listeners"), ("-", "self.stop_pending_connectors"), ("-", "self.stop_pending_connections"),
       ("-", "self.break_cycles")] ∧
    Skel.skeleton "Connector.stop_listeners" = [("-", "sub.stopListening"), ("-", "DeferredList"), ("-", "_listeners.clear")] ∧
    Skel.skeleton "Connector.stop_pending_connectors" = [("for", "d.cancel")] ∧
    Skel.skeleton "Connector.stop_pending_connections" = [("-", "_pending_connections.when_next_empty"), ("-", "c.disconnect")] ∧
    Skel.skeleton "Connector.break_cycles" =
      [("-", "_listeners.clear"), ("-", "_pending_connectors.clear"), ("-", "_pending_connections.clear")] ∧
    Skel.skeleton "Connector.select_and_stop_remaining" =
      [("-", "_contenders.clear"), ("-", "self.stop_listeners"), ("-", "self.stop_pending_connectors"),
       ("-", "self.stop_pending_connections"), ("-", "c.select"), ("if", "KCM"), ("if", "c.send_record"),
       ("-", "_manager.connector_connection_made")] ∧
    Skel.skeleton "Connector.consider" = [("if", "_eventual_queue.eventually"), ("else", "_eventual_queue.eventually")] := by
  decide +kernel

theorem skeletons_agree_manager :
    Skel.skeleton "Manager.abandon_connection" = [("if", "_timer.cancel"), ("-", "_connection.disconnect")] ∧
    Skel.skeleton "Manager.notify_stopped" = [("-", "_stopped.fire")] ∧
    Skel.skeleton "Manager.when_stopped" = [("-", "_stopped.when_fired")] ∧
    Skel.skeleton "Manager.stop_connecting" = [("-", "_connector.stop")] ∧
    Skel.skeleton "Manager.fail" = [("-", "_main_channel.error")] ∧
    Skel.skeleton "Manager.got_wormhole_versions" =
      [("-", "_find_shared_versions"), ("if", "OldPeerCannotDilateError"), ("if", "failure.Failure"), ("if", "self.fail"),
       ("-", "self.start")] ∧
    Skel.skeleton "Manager.connector_connection_lost" =
      [("if", "_traffic.lost_connection"), ("-", "self._stop_using_connection"), ("if", "self.connection_lost_leader"),
       ("else", "self.connection_lost_follower")] ∧
    Skel.skeleton "Manager.connector_connection_made" =
      [("if/if", "TrafficTimer"), ("if", "_traffic.got_connection"), ("-", "self.connection_made"),
       ("-", "_inbound.use_connection"), ("-", "_outbound.use_connection"), ("if", "_main_channel.fire")] ∧
    Skel.skeleton "Manager._stop_using_connection" =
      [("if", "_timer.cancel"), ("-", "_inbound.stop_using_connection"), ("-", "_outbound.stop_using_connection")] := by
  decide +kernel

theorem skeletons_agree_dilator :
    Skel.skeleton "Dilator.stop" =
      [("if", "_manager.stop"), ("if", "_manager.when_stopped"), ("if", "?.addCallback"), ("else", "_T.stoppedD")] ∧
    Skel.skeleton "Dilator.dilate" =
      [("-", "self._did_dilate"), ("if", "make_side"), ("if", "Manager"), ("if/if", "m.got_dilation_key"),
       ("if/if", "m.got_wormhole_versions"), ("if/while", "m.received_dilation_message")] ∧
    Skel.skeleton "Dilator.got_key" = [("-", "derive_key"), ("if", "_manager.got_dilation_key")] ∧
    Skel.skeleton "Dilator.got_wormhole_versions" = [("if", "_manager.got_wormhole_versions")] ∧
    Skel.skeleton "Dilator.received_dilate" = [("else", "_manager.received_dilation_message")] ∧
    Skel.skeleton "Terminator.stop_dilator" = [("-", "_D.stop")] ∧
    Skel.skeleton "Terminator.B_closed" = [("-", "_B.closed")] ∧
    Skel.skeleton "DilatedConnectionProtocol.connectionLost" = [("-", "_disconnected.fire")] ∧
    Skel.skeleton "DilatedConnectionProtocol.disconnect" = [("-", "transport.loseConnection")] ∧
    Skel.skeleton "DilatedConnectionProtocol.set_manager" = [("-", "self.when_disconnected"), ("-", "?.addCallback")] := by
  decide +kernel

/-! ## 3. stop from every state -/

/-- every world a conformant run can reach from a fresh wormhole -/
def Reachable (ps : String) (w : World) : Prop :=
  ∃ nl al my es, (ps < my ∨ my < ps) ∧ okRun ps (World.init nl al my) es ∧ w = run (World.init nl al my) es

theorem reachable_inv {ps : String} {w : World} (h : Reachable ps w) :
    (ps < w.mySide ∨ w.mySide < ps) ∧ Inv ps [] w ∧ TimerOk w := by
  obtain ⟨nl, al, my, es, hps, hok, rfl⟩ := h
  refine ⟨by rw [run_mySide]; exact hps, run_inv es _ hps (init_inv nl al my) (init_timerOk nl al my) hok⟩

/-- **stop_from_every_state.**  In every reachable world — whatever the Manager and its Connectors
    are doing — if the Terminator is waiting for the RendezvousConnector, then `stoppedRC`
    (= `Dilator.stop()`) never raises, and cooperative completion (`settle`: the network reports
    the connections the code asked to close as lost, the eventual queue runs) ends in `S_stopped`
    with `B.closed()` called exactly once. -/
theorem stop_from_every_state {ps : String} {w : World} (h : Reachable ps w) (hts : w.ts = .S_stoppingRC) :
    (step w (.term .stoppedRC)).2 = .done ∧
    (settle (step w (.term .stoppedRC)).1).ts = .S_stopped ∧
    (settle (step w (.term .stoppedRC)).1).closed = 1 := by
  obtain ⟨hps, hinv, htm⟩ := reachable_inv h
  obtain ⟨hdone, hts'⟩ := stoppedRC_done hinv htm hts
  have hinv' : Inv ps [] (step w (.term .stoppedRC)).1 := step_inv hps hinv htm _ trivial
  have htm' : TimerOk (step w (.term .stoppedRC)).1 := (mm_step w _).2 htm
  have hps' : ps < (step w (.term .stoppedRC)).1.mySide ∨ (step w (.term .stoppedRC)).1.mySide < ps := by
    rw [step_mySide]; exact hps
  refine ⟨hdone, ?_⟩
  rcases hts' with e | e
  · exact settle_closes hps' hinv' htm' e
  · exact settle_stays_closed hps' hinv' htm' e

/-- the same at any later moment: whatever else happens after `Dilator.stop()` (further events in
    any order), completing cooperatively afterwards still ends in `S_stopped` / closed exactly once -/
theorem stop_completes_after_any_interleaving {ps : String} {w : World} (h : Reachable ps w)
    (hts : w.ts = .S_stoppingD ∨ w.ts = .S_stopped) : (settle w).ts = .S_stopped ∧ (settle w).closed = 1 := by
  obtain ⟨hps, hinv, htm⟩ := reachable_inv h
  rcases hts with e | e
  · exact settle_closes hps hinv htm e
  · exact settle_stays_closed hps hinv htm e

/-- `notify_stopped` has fired iff the Manager is STOPPED; `B.closed()` was called once iff the
    Terminator is `S_stopped`, and never more than once — at every point of every conformant run -/
theorem notified_and_closed_exactly_once {ps : String} {w : World} (h : Reachable ps w) :
    (w.fired = true ↔ w.ms = .STOPPED) ∧ w.closed = (if w.ts = .S_stopped then 1 else 0) ∧ w.closed ≤ 1 := by
  obtain ⟨_, hinv, _⟩ := reachable_inv h
  refine ⟨hinv.fired.symm, hinv.tsC, ?_⟩
  have := hinv.tsC
  simp only [core] at this
  rw [this]
  by_cases hh : w.ts = .S_stopped <;> simp [hh]

/-- in the connected states the Manager really owns a connection whose loss will be reported to it:
    either the `connector_connection_lost` callback is registered on a live connection, or it is
    already in the eventual queue; once told to stop (STOPPING) or to abandon, that connection has
    been told to close -/
theorem active_connection_armed {ps : String} {w : World} (h : Reachable ps w)
    (hs : w.ms = .CONNECTED ∨ w.ms = .ABANDONING ∨ w.ms = .STOPPING) :
    ∃ c x, w.conn = some c ∧ w.conns[c]? = some x ∧
      ((x.lost = false ∧ x.obsMgr = true) ∨ Thunk.mgrLost ∈ w.queue) ∧
      (w.ms ≠ .CONNECTED → x.closing = true ∨ x.lost = true) := by
  obtain ⟨_, hinv, _⟩ := reachable_inv h
  obtain ⟨c, x, a, b, d, e⟩ := hinv.armed hs
  exact ⟨c, x, a, b, by simpa [core] using d, e⟩

/-! ## 4. what `stop` tells the network -/

/-- `Connector.stop()` on a live Connector `g`: every listening port it tracks is told
    `stopListening()`, every outbound attempt it tracks is finished (cancelled unless it had
    completed), every pending outbound connection is told `loseConnection()`; afterwards it
    tracks nothing -/
theorem stop_tells_everything (g : Nat) (w : World) (st : Connector.State) (hst : w.ctors[g]? = some st)
    (hne : st ≠ .stopped) :
    let w' := (cInput noMade g .k_stop 0 w).1
    (cInput noMade g .k_stop 0 w).2 = none ∧ w'.ctors[g]? = some .stopped ∧
    (∀ (i : Nat) (l : Listener), w.listeners[i]? = some l → l.gen = g → ∃ l' : Listener, w'.listeners[i]? = some l' ∧ l'.tracked = false ∧
        (l.tracked = true → l'.stopped = true)) ∧
    (∀ (i : Nat) (a : Attempt), w.attempts[i]? = some a → a.gen = g → ∃ a' : Attempt, w'.attempts[i]? = some a' ∧ a'.inSet = false ∧
        (a.inSet = true → a'.phase = .done)) ∧
    (∀ (i : Nat) (c : Conn), w.conns[i]? = some c → c.gen = g → ∃ c' : Conn, w'.conns[i]? = some c' ∧ c'.tracked = false ∧
        (c.tracked = true → c'.closing = true)) := by
  have hlt : g < w.ctors.length := (List.getElem?_eq_some_iff.mp hst).1
  have hrow : Connector.table st .k_stop = some (.stopped, [.stop_everything]) := by
    cases st
    · exact connector_stop_rows.2.1
    · exact connector_stop_rows.1
    · exact absurd rfl hne
  simp only [cInput, hst, hrow, cOuts, cOut, andThen, stopEverything, breakCycles, stopPendingConnections,
    stopPendingConnectors, stopListeners]
  refine ⟨trivial, by simp [hlt], ?_, ?_, ?_⟩
  · intro i l hl hg
    simp only [List.getElem?_map, hl, Option.map_some]
    by_cases ht : l.tracked = true <;> simp [hg, ht]
  · intro i a ha hg
    simp only [List.getElem?_map, ha, Option.map_some]
    by_cases ht : a.inSet = true <;> by_cases hp : a.phase = .done <;> simp [hg, ht, hp]
  · intro i c hc hg
    simp only [List.getElem?_map, hc, Option.map_some]
    by_cases ht : c.tracked = true <;> simp [hg, ht]

/-- `abandon_connection` (the `stop` row of CONNECTED): the active connection is told to close and
    the ping timer is cancelled -/
theorem abandon_drops_active (w : World) (c : Nat) (x : Conn) (hc : w.conn = some c) (hx : w.conns[c]? = some x)
    (htm : TimerOk w) :
    (mOut "" 0 .abandon_connection w).2 = none ∧ (mOut "" 0 .abandon_connection w).1.timer = .none ∧
    ∃ y, (mOut "" 0 .abandon_connection w).1.conns[c]? = some y ∧ y.closing = true := by
  rw [abandon_eval "" 0 w htm c hc]
  exact ⟨rfl, rfl, { x with closing := true }, by simp [disconnect, List.getElem?_modify, hx], rfl⟩

/-- the ping-timer handle is never left fired-but-not-cleared in a reachable world — unless the
    expiry callback of the working tree does not clear it, in which case (`abandonSafe`,
    `stopUsingSafe`, `pingSafe`, decided on the generated flags) every user of the handle asks
    `.active()` first.  This is what `stop_from_every_state` needs in CONNECTED after the Leader's
    second silent ping interval (`signal_reconnect`: the connection is only *asked* to close). -/
theorem timer_handle_safe {ps : String} {w : World} (h : Reachable ps w) :
    (w.timer = .fired → Flags.timer_expiry_clears_handle = false) ∧
    (Flags.timer_expiry_clears_handle || Flags.abandon_checks_active) = true ∧
    (Flags.timer_expiry_clears_handle || Flags.stop_using_checks_active) = true ∧
    (Flags.timer_expiry_clears_handle || Flags.ping_timer_checks_active) = true :=
  ⟨(reachable_inv h).2.2.1, abandonSafe, stopUsingSafe, pingSafe⟩

/-- the wormhole's Cooperator — which drives every pull producer an application protocol registered
    on a subchannel (`PullToPush`) — is running in every reachable world: `Dilator.stop()` of the
    working tree does not stop it (`coopSafe`, decided on the generated flag).  Hence pausing the
    producers in `Outbound.stop_using_connection` (and resuming them in `use_connection`) never
    raises SchedulerStopped, `connector_connection_lost` always reaches the machine, and
    `stop_from_every_state` covers close() in the middle of a transfer. -/
theorem cooperator_never_stopped {ps : String} {w : World} (h : Reachable ps w) :
    w.coopStopped = false ∧ Flags.dilator_stop_stops_cooperator = false ∧
    (pauseAll w).2 = none ∧ (resumeAll w).2 = none :=
  have hc := (reachable_inv h).2.2.coopRunning
  ⟨hc, coopSafe, pauseAll_ok w hc, resumeAll_ok w hc⟩

/-! ## 5. late callbacks are harmless -/

/-- **late_callbacks_harmless.**  Once a conformant run has brought the Manager to STOPPED, *any*
    further events (conformant or not: late `accept` / `add_candidate` / `listener_ready`, stray
    `connector_connection_lost`, messages, API calls, Terminator inputs, turns) leave the Manager
    STOPPED and every Connector as it is, open no listener and no outbound attempt, send nothing,
    and do not fire `notify_stopped` again.  (Such callbacks raise `NoTransition`, which the
    eventual queue logs — or, for `add_candidate`, `dataReceived` raises to the transport.) -/
theorem late_callbacks_harmless {ps : String} {w : World} (h : Reachable ps w) (hs : w.ms = .STOPPED) (es : List Ev) :
    let w' := run w es
    w'.ms = .STOPPED ∧ w'.ctors = w.ctors ∧ w'.listeners.length = w.listeners.length ∧
    w'.attempts.length = w.attempts.length ∧ w'.nextGen = w.nextGen ∧ w'.fired = true := by
  obtain ⟨_, hinv, _⟩ := reachable_inv h
  have hh : Halted w := ⟨hs, fun g hg => by have := (hinv.ctorB g hg).2; simp [core, hs] at this⟩
  have q := quiet_run es w hh
  have hf : w.fired = true := hinv.fired.mp hs
  exact ⟨q.ms.trans hs, q.ctors, q.listeners, q.attempts, q.nextGen, q.fired.trans hf⟩

/-- a late `accept` (the `consider` thunk of a Connector that was stopped in the meantime) and a
    late `add_candidate` are refused with NoTransition and change nothing -/
theorem late_accept_refused (w : World) (g c : Nat) (hst : w.ctors[g]? = some .stopped) :
    cInput connectionMade g .accept c w = (w, some .noTransition) ∧
    cInput connectionMade g .add_candidate c w = (w, some .noTransition) ∧
    cInput noMade g .listener_ready 0 w = (w, some .noTransition) := by
  simp [cInput, hst, Connector.table]

/-! ## 6. an incapable peer is reported -/

/-- the peer names one of our dilation versions: its versions body is a dict whose `can-dilate` is
    a list holding that string -/
def offersOurs (v : Vers) : Bool :=
  match v with
  | .obj kvs =>
    match lookupKey "can-dilate" kvs with
    | some (.arr xs) => Consts.DILATION_VERSIONS.any fun m => xs.any (·.isStr m)
    | _ => false
  | _ => false

/-- **the incapable peer, as the property means it**: its versions body is a dict (Boss lets nothing
    else through) and — whatever JSON sits under `can-dilate`: nothing, a list of foreign strings,
    numbers, booleans, nulls, nested lists or dicts, or no list at all (a string, a number, a dict,
    null) — it does not name a version of ours -/
def Incapable (v : Vers) : Prop := (∃ kvs, v = .obj kvs) ∧ offersOurs v = false

theorem find_none_of_any_false {α : Type} (l : List α) (p : α → Bool) (h : l.any p = false) : l.find? p = none := by
  induction l with
  | nil => rfl
  | cons x xs ih =>
    simp only [List.any_cons, Bool.or_eq_false_iff] at h
    simp [List.find?, h.1, ih h.2]

/-- for EVERY such body `_find_shared_versions` returns None and raises nothing (this is the theorem
    that needs both guards of the working tree: non-lists count as `[]`, only str entries are kept) -/
theorem incapable_shared {v : Vers} (h : Incapable v) : sharedVersion v = .ok none := by
  obtain ⟨⟨kvs, rfl⟩, ho⟩ := h
  have hnil : Consts.DILATION_VERSIONS.find? (fun m => ([] : List J).any (·.isStr m)) = none :=
    find_none_of_any_false _ _ (by simp)
  simp only [sharedVersion]
  simp only [offersOurs] at ho
  cases hc : lookupKey "can-dilate" kvs with
  | none =>
    simp [findShared, Flags.shared_versions_requires_list, Flags.shared_versions_filters_strings, hnil]
  | some c =>
    rw [hc] at ho
    cases c with
    | arr xs =>
      simp only at ho
      simp [findShared, Flags.shared_versions_requires_list, Flags.shared_versions_filters_strings,
        find_none_of_any_false _ _ ho]
    | _ => simp [findShared, Flags.shared_versions_requires_list, Flags.shared_versions_filters_strings, hnil]

theorem Incapable.notNull {v : Vers} (h : Incapable v) : v.isNull = false := by
  obtain ⟨⟨kvs, rfl⟩, _⟩ := h
  rfl

example : Incapable (.obj []) ∧ Incapable (.obj [("app_versions", .obj [])]) ∧
    Incapable (.obj [("can-dilate", .arr [])]) ∧ Incapable (.obj [("can-dilate", .arr [.str "vetch"])]) ∧
    Incapable (.obj [("can-dilate", .arr [.num false, .num true, .bool true, .null, .str "x"])]) ∧
    Incapable (.obj [("can-dilate", .str "ged")]) ∧ Incapable (.obj [("can-dilate", .obj [("ged", .num false)])]) ∧
    Incapable (.obj [("can-dilate", .arr [.arr [.num false]])]) ∧ Incapable (.obj [("can-dilate", .arr [.str "x", .obj []])]) ∧
    Incapable (.obj [("can-dilate", .num false)]) ∧ Incapable (.obj [("can-dilate", .null)]) ∧
    Incapable (.obj [("can-dilate", .bool true)]) :=
  ⟨⟨⟨_, rfl⟩, rfl⟩, ⟨⟨_, rfl⟩, rfl⟩, ⟨⟨_, rfl⟩, rfl⟩, ⟨⟨_, rfl⟩, rfl⟩, ⟨⟨_, rfl⟩, rfl⟩, ⟨⟨_, rfl⟩, rfl⟩, ⟨⟨_, rfl⟩, rfl⟩,
   ⟨⟨_, rfl⟩, rfl⟩, ⟨⟨_, rfl⟩, rfl⟩, ⟨⟨_, rfl⟩, rfl⟩, ⟨⟨_, rfl⟩, rfl⟩, ⟨⟨_, rfl⟩, rfl⟩⟩

/-- a capable peer is not `Incapable`, even with junk around the version it names -/
example : ¬ Incapable (.obj [("can-dilate", .arr [.arr [], .str "vetch", .num true, .str "ged"])]) := by
  rintro ⟨_, h⟩
  simp [offersOurs, lookupKey, Consts.DILATION_VERSIONS, J.isStr] at h

/-- versions arriving after `dilate()`: `_main_channel` holds the Failure, nobody is left waiting
    on it, and every connect() that was waiting has its errback queued -/
theorem old_peer_reported_live (w : World) (v : Vers) (hm : w.hasMgr = true) (hv : Incapable v) :
    let w' := (step w (.versions v)).1
    w'.main = .failed ∧ w'.mainObs = [] ∧ ∀ id ∈ w.mainObs, Thunk.waiter id false ∈ w'.queue := by
  have := incapable_fails v w none (incapable_shared hv) rfl
  simp only [step, gotVersions, hm, ↓reduceIte]
  rcases hr : mgrGotVersions v w with ⟨u, e⟩
  rw [hr] at this
  cases e <;> exact this

/-- versions arriving before `dilate()`: the replay in `Dilator.dilate` delivers them (this is the
    theorem that needs the guard `is not None`: with a truthiness test it fails for `{}`) -/
theorem old_peer_reported_replay (w : World) (v : Vers) (hc : w.called = false) (hm : w.hasMgr = false)
    (hp : w.pVers = some v) (hv : Incapable v) : (step w .dilate).1.main = .failed := by
  have hrv : replayVersions? (some v) = some v := by
    simp [replayVersions?, Flags.pending_versions_guard_is_not_none]
  simp only [step, dilate, hc, hm, Bool.false_eq_true, ↓reduceIte]
  have hk : (replayKey { w with called := true, hasMgr := true }).pVers = some v := by
    unfold replayKey; split <;> exact hp
  generalize replayKey { w with called := true, hasMgr := true } = u at hk
  have h1 : (replayVersions u).1.main = .failed := by
    unfold replayVersions
    rw [hk, hrv]
    exact (incapable_fails v u none (incapable_shared hv) rfl).1
  rcases hr : replayVersions u with ⟨u', e⟩
  rw [hr] at h1
  cases e with
  | some e => exact h1
  | none =>
    simp only [andThen]
    have := (mm_drainMsgs u'.pMsgs u').1 h1
    rcases hr2 : drainMsgs u'.pMsgs u' with ⟨u'', e2⟩
    rw [hr2] at this
    cases e2 <;> exact this

/-- the Failure stays: no later event (a connection that is made nevertheless, further versions
    that do list a common version, …) can replace it -/
theorem old_peer_report_is_final (w : World) (h : w.main = .failed) (es : List Ev) : (run w es).main = .failed :=
  failed_sticky es w h

/-- every future `connect()` / `listen()` — on a fresh endpoint or on one the application has been
    holding, whatever that endpoint was used for before — gets the Failure at the next turn -/
theorem old_peer_future_call_fails (w : World) (nm : Option String) (h : w.main = .failed) :
    (connectAs nm w).waiters = w.waiters ++ [.pending] ∧
    (connectAs nm w).queue = w.queue ++ [.waiter w.waiters.length false] ∧
    (runThunk (.waiter w.waiters.length false) (connectAs nm w)).waiters[w.waiters.length]? = some .failed := by
  simp [connectAs, h, runThunk, resolveWaiter]

theorem old_peer_future_connect_fails (w : World) (hm : w.hasMgr = true) (h : w.main = .failed) :
    let w' := (step w .connect).1
    w'.waiters = w.waiters ++ [.pending] ∧ w'.queue = w.queue ++ [.waiter w.waiters.length false] ∧
    (runThunk (.waiter w.waiters.length false) w').waiters[w.waiters.length]? = some .failed := by
  simp only [step, hm, ↓reduceIte, connect]
  exact old_peer_future_call_fails w none h

/-- the endpoint object has no memory: `connect()` / `listen()` on held endpoint `k` is exactly a
    fresh wait on `_main_channel`, however often that endpoint has been used (and has failed) before -/
theorem held_endpoint_is_stateless (w : World) (k : Nat) (l : Bool) (name : String) (he : w.eps[k]? = some (l, name)) :
    (l = false → step w (.econnect k) = (connectAs none w, .done)) ∧
    (l = true → step w (.elisten k) = (connectAs (some name) w, .done)) := by
  constructor <;> intro hl <;> subst hl <;> simp [step, he]

/-- so on a held endpoint too, once the Failure is stored every call fails at the next turn -/
theorem old_peer_held_endpoint_fails (w : World) (k : Nat) (l : Bool) (name : String) (he : w.eps[k]? = some (l, name))
    (h : w.main = .failed) :
    let e : Ev := if l then .elisten k else .econnect k
    (step w e).1.queue = w.queue ++ [.waiter w.waiters.length false] ∧
    (runThunk (.waiter w.waiters.length false) (step w e).1).waiters[w.waiters.length]? = some .failed := by
  obtain ⟨h1, h2⟩ := held_endpoint_is_stateless w k l name he
  cases l
  · simp only [Bool.false_eq_true, ↓reduceIte, h1 rfl]
    exact (old_peer_future_call_fails w none h).2
  · simp only [↓reduceIte, h2 rfl]
    exact (old_peer_future_call_fails w (some name) h).2

/-- **old_peer_reported**, end to end, for every incapable `versions` value and both orders: every
    connect() issued before or after the versions arrived has failed with OldPeerCannotDilateError
    after the next eventual turn; none succeeds, none is left pending -/
theorem old_peer_reported (v : Vers) (hv : Incapable v) (nl al : Bool) (my : String) :
    (run (World.init nl al my) [.dilate, .connect, .versions v, .connect, .turn]).waiters = [.failed, .failed] ∧
    (run (World.init nl al my) [.versions v, .dilate, .connect, .turn, .connect, .turn]).waiters = [.failed, .failed] ∧
    (run (World.init nl al my) [.key, .versions v, .dilate, .connect, .turn]).waiters = [.failed] ∧
    -- endpoints obtained right after dilate(), used before and after the versions arrive, and retried after a failure
    (run (World.init nl al my) [.dilate, .ep false "a", .ep true "b", .econnect 0, .elisten 1, .versions v, .turn,
      .econnect 0, .elisten 1, .turn, .econnect 0, .elisten 1, .turn]).waiters =
      [.failed, .failed, .failed, .failed, .failed, .failed] := by
  have hrv : replayVersions? (some v) = some v := by
    simp [replayVersions?, Flags.pending_versions_guard_is_not_none]
  have hnn := hv.notNull
  have hs := incapable_shared hv
  have hv' : falsy none = true := rfl
  have hrn : replayVersions? none = none := by simp [replayVersions?]
  refine ⟨?_, ?_, ?_, ?_⟩ <;>
    simp [run, step, hrn, Terminator.init, World.init, dilate, replayKey, replayVersions, hrv, drainMsgs, andThen, connect, connectAs,
      resolveWaiter, gotVersions, hnn,
      mgrGotVersions, mgrGotVersionsWith, hs, hv', mainError, mInput, Manager.init, Manager.table, mOuts, mOut, sendGen, emit, turn, runThunks,
      runThunk, ofRes, gotKey]

/-! ## 7. outside the environment: what a non-conformant peer can do -/

def closeSeq : List Ev := [.term .close, .term .nameplate_done, .term .mailbox_done, .term .stoppedRC]

def fresh : World := World.init false false "8000000000000000"

/-- a peer that sends RECONNECT although *we* are the Leader: the connection is abandoned, its loss
    is reported as `connection_lost_leader`, ABANDONING has no such row, the Manager stays
    ABANDONING for ever and a later close() never completes.  (Replayed on the real code by the
    harness: signature `closed-never-fires:reconnect-to-leader`.) -/
theorem reconnect_to_leader_blocks_shutdown :
    let w := run fresh ([.dilate, .key, .versions (canDilate ["ged"]), .msg (.please "1000000000000000"), .inbound 0, .kcm 0,
      .turn, .msg .reconnect, .lost 0, .turn] ++ closeSeq)
    w.ts = .S_stoppingD ∧ w.ms = .STOPPING ∧ (settle w).ts = .S_stoppingD ∧ (settle w).closed = 0 := by decide

/-- a peer that reflects our own dilation side in its `please`: `choose_role` raises ValueError
    after the state was already set to CONNECTING, no Connector exists, `stop_connecting` raises
    AttributeError inside `Dilator.stop()` and `closed` never fires.  (Signature
    `closed-never-fires:reflected-please`.) -/
theorem reflected_please_blocks_shutdown :
    let w := run fresh ([.dilate, .key, .versions (canDilate ["ged"]), .msg (.please "8000000000000000")] ++ closeSeq)
    w.ts = .S_stoppingD ∧ w.ms = .STOPPED ∧ w.fired = false ∧ (settle w).ts = .S_stoppingD ∧ (settle w).closed = 0 := by
  decide

/-! ## non-vacuity: the hypotheses are met by concrete non-trivial runs -/

def standardRun (side : String) : List Ev :=
  [.dilate, .key, .versions (canDilate ["ged"]), .connect, .msg (.please side), .msg (.hints 2), .dial 0, .dialok 0,
   .inbound 0, .kcm 0, .kcm 1, .turn, .turn, .term .close, .term .nameplate_done, .term .mailbox_done]

theorem standardRun_ok : okRun "1000000000000000" fresh (standardRun "1000000000000000") := by
  simp [standardRun, okRun, okEv, okMsg, fresh, World.init, step, dilate, replayKey, replayVersions, replayVersions?,
    drainMsgs, andThen, ofRes, gotKey]
  decide

example : Reachable "1000000000000000" (run fresh (standardRun "1000000000000000")) :=
  ⟨false, false, "8000000000000000", _, by decide, standardRun_ok, rfl⟩

/-- the standard run is CONNECTED as leader, with a selected connection, a losing inbound
    connection and a cancelled attempt, and the Terminator waits for the RendezvousConnector -/
example : (run fresh (standardRun "1000000000000000")).ms = .CONNECTED ∧
    (run fresh (standardRun "1000000000000000")).ts = .S_stoppingRC ∧
    (run fresh (standardRun "1000000000000000")).role = some true ∧
    (run fresh (standardRun "1000000000000000")).conns.length = 2 := by decide

/-- and closing it does end in `closed` after cooperative completion -/
example : (settle (step (run fresh (standardRun "1000000000000000")) (.term .stoppedRC)).1).closed = 1 := by decide

/-- the Leader's peer stays silent for two ping intervals: after the second expiry the TrafficTimer
    has fired `signal_reconnect` (the connection is only *asked* to close, the Manager is still
    CONNECTED), and the application closes before the transport reports the loss -/
def silentPeerRun : List Ev :=
  [.dilate, .key, .versions (canDilate ["ged"]), .msg (.please "1000000000000000"), .inbound 0, .kcm 0, .turn,
   .expire, .expire, .term .close, .term .nameplate_done, .term .mailbox_done]

theorem silentPeerRun_ok : okRun "1000000000000000" fresh silentPeerRun := by
  simp [silentPeerRun, okRun, okEv, okMsg, fresh, World.init, step, dilate, replayKey, replayVersions, replayVersions?,
    drainMsgs, andThen, ofRes, gotKey]
  decide

example : Reachable "1000000000000000" (run fresh silentPeerRun) :=
  ⟨false, false, "8000000000000000", _, by decide, silentPeerRun_ok, rfl⟩

example : (run fresh silentPeerRun).ms = .CONNECTED ∧ (run fresh silentPeerRun).ts = .S_stoppingRC ∧
    (run fresh silentPeerRun).tt = some .connected ∧ (run fresh silentPeerRun).timer ≠ .pending ∧
    ((run fresh silentPeerRun).conns[0]?.map (·.closing)) = some true ∧
    ((run fresh silentPeerRun).conns[0]?.map (·.lost)) = some false := by decide

example : (step (run fresh silentPeerRun) (.term .stoppedRC)).2 = .done ∧
    (settle (step (run fresh silentPeerRun) (.term .stoppedRC)).1).closed = 1 := by decide

/-- close() in the middle of a transfer: CONNECTED, a subchannel is open and its protocol has a pull
    producer registered (and a second one a push producer) that is still producing -/
def midTransferRun (side : String) : List Ev :=
  [.dilate, .key, .versions (canDilate ["ged"]), .connect, .connect, .msg (.please side), .inbound 0, .kcm 0, .turn, .turn,
   .producer true 0, .producer false 1, .turn, .term .close, .term .nameplate_done, .term .mailbox_done]

theorem midTransferRun_ok : okRun "1000000000000000" fresh (midTransferRun "1000000000000000") ∧
    okRun "f000000000000000" fresh (midTransferRun "f000000000000000") := by
  constructor <;>
  · simp [midTransferRun, okRun, okEv, okMsg, fresh, World.init, step, dilate, replayKey, replayVersions, replayVersions?,
      drainMsgs, andThen, ofRes, gotKey]
    decide

example : Reachable "f000000000000000" (run fresh (midTransferRun "f000000000000000")) :=
  ⟨false, false, "8000000000000000", _, by decide, midTransferRun_ok.2, rfl⟩

example : (run fresh (midTransferRun "f000000000000000")).ms = .CONNECTED ∧
    (run fresh (midTransferRun "f000000000000000")).prods =
      [{ waiter := 0, pull := true, paused := false }, { waiter := 1, pull := false, paused := false }] ∧
    (run fresh (midTransferRun "f000000000000000")).ts = .S_stoppingRC := by decide

example : (settle (step (run fresh (midTransferRun "f000000000000000")) (.term .stoppedRC)).1).closed = 1 ∧
    (settle (step (run fresh (midTransferRun "1000000000000000")) (.term .stoppedRC)).1).closed = 1 ∧
    (settle (step (run fresh (midTransferRun "f000000000000000")) (.term .stoppedRC)).1).prods.all (·.paused) = true := by
  decide

end WV.Props.C17
