import WV.Model.Client
import Std.Data.HashSet

/-!
# Environment of the mailbox client and the closed system that is certified (`WV.ClientEnv`)

`Sys` = control state of the client (`Client.Ctl`, stepping with `Client.step` over the generated
tables) × an abstract **conformant environment** (application, network, server, peer) × monitors.
`enabled` says which events the environment may produce in a state; `sysStep` applies one.

The environment (DESIGN §6 C14, "Environment, fixed precisely"):
* application: at most the documented calls — code entry (any of the three, repeatedly: the
  repeats raise `OnlyOneCodeError`), helper calls in any order once `input_code()` returned,
  `send`, `close` at any time and repeatedly; **no code entry or helper call after `close()`**;
* network: a connection can come up whenever none exists and the service was not stopped — in one step
  (`wsOpen`) or in two (`tcpUp`: the TCP connection exists and the WebSocket negotiation is pending, then
  `wsOpen` or `wsFail`); it can drop at any time, abruptly or after the server began the WebSocket closing
  handshake (`wsClosing`: nothing more is read and autobahn refuses to send until the loss is reported); the very first attempt can fail; after `stopService()`
  nothing more is read, and a connection that was still negotiating then goes away without ever opening;
* server: `welcome` (with or without `error`) is the first frame of every connection; `claimed`,
  `released`, `closed`, `allocated` answer the matching command of *this* connection in FIFO
  order; `nameplates` answers `list`; an `error` frame may replace any answer; stored mailbox
  messages are delivered to a connection that opened the mailbox at any time, in any order, any
  number of times (duplication, reordering, replay on re-open);
* peer and third participants: the mailbox relays whatever any participant posts.  `matchKey` says
  whether a participant holding our code exists at all.  A message is *good* when it opens under the
  key that participant computes: such a `version` exists only after our PAKE reached the server, such
  numbered / dilation phases only after our `version` did, and none once the client has accepted
  somebody else's PAKE (`peerKey = some false`).  Everything else may arrive at any time: a stranger's
  well-formed PAKE (key mismatch), a PAKE body that is unusable (`noField`: not JSON / no `pake_v1` /
  not hex; `invalid`: an element SPAKE2 rejects, or our own reflected), and bytes under any phase —
  `version`, numbered, `dilate-N`, unknown names — that open under no key, before or after any PAKE.
  Bound of the explored environment: at most two messages overtake the first PAKE (Order's queue).
-/
namespace WV.ClientEnv
open WV.Client

inductive Resp where
  | claimed | released | closed | allocated
  deriving DecidableEq, Repr, Inhabited, Hashable

structure Env where
  matchKey : Bool := true          -- a participant holding our code exists
  peerKey : Option Bool := none    -- the PAKE the client accepted came from that participant (none: no PAKE accepted yet)
  welcomed : Bool := false         -- this connection's welcome was delivered
  singles : List Resp := []        -- answers owed on this connection, FIFO
  lists : Nat := 0                 -- `nameplates` answers owed (saturating at 2)
  opened : Bool := false           -- the mailbox is open (subscribed) on this connection
  svcStopped : Bool := false       -- stopService() was called: no new connections
  appClosed : Bool := false        -- the application called close()
  initialFailed : Bool := false
  -- what the client has handed to Mailbox.add_message / what reached the server, per class
  pendPake : Bool := false
  pendVersion : Bool := false
  pendNum : Bool := false
  srvPake : Bool := false
  srvVersion : Bool := false
  srvNum : Bool := false
  -- resources the client holds at the server (cleared by the *answer*, which proves processing)
  claimOut : Bool := false
  openOut : Bool := false
  /-- `allocate` was sent: the server allocates AND claims a nameplate for this side; the client
      takes that claim over only when `allocated` reaches it (it then claims the same nameplate) -/
  allocOut : Bool := false
  deriving DecidableEq, Repr, Inhabited, Hashable

/-- monitors for C08 / C14 / C18 -/
structure Mon where
  closedCount : Nat := 0           -- closed notifications (saturating at 2)
  afterClosed : Bool := false      -- an application event after `closed`
  seenCode : Bool := false
  seenKey : Bool := false
  seenVerifier : Bool := false
  seenVersions : Bool := false
  seenReceived : Bool := false
  recvBeforeVersions : Bool := false  -- an application message was delivered before the peer's versions
  dup : Bool := false              -- code / key / verifier / versions notified twice
  order : Bool := false            -- causal order violated
  goodPeerMsg : Bool := false      -- a peer message decrypted (Receive.got_message_good ran)
  badPeerMsg : Bool := false       -- an undecryptable peer message reached Receive
  serverErr : Bool := false        -- an `error` frame was delivered before closing began
  welcomeErr : Bool := false       -- a welcome with `error` was delivered before closing began
  verdictBad : Bool := false       -- closed(v) with v not justified by the history (C08)
  cause : Verdict := .empty        -- what made the Boss leave S0/S1/S2: the verdict it must report
  verdictWrong : Bool := false     -- closed(v) with v different from `cause`
  resourceBad : Bool := false      -- closed notified while a claim/open is outstanding or connected
  allocLeak : Bool := false        -- closed notified while the server still holds the claim made by `allocate`
  internal : Bool := false         -- an internal failure (NoTransition, assertion, fuel, …) happened
  deriving DecidableEq, Repr, Inhabited, Hashable

instance : Hashable Ctl where
  hash c := mixHash (hash (c.b, c.n, c.m, c.t, c.c, c.a, c.l))
    (mixHash (hash (c.i, c.k, c.sk, c.o, c.r, c.s))
      (mixHash (hash (c.wsOpen, c.halfOpen, c.wsClosing, c.everConnected, c.stopping, c.stopPending, c.didStartCode, c.helper, c.pakeProcessed))
        (mixHash (hash (c.versionProcessed, c.orderQ, c.sendQ, c.haveNameplate, c.haveMailbox, c.mood))
          (hash (c.rKey, c.sKey, c.spStarted, c.stashedPake, c.result)))))

structure Sys where
  ctl : Ctl := {}
  env : Env := {}
  mon : Mon := {}
  deriving DecidableEq, Repr, Inhabited, Hashable

/-- may the environment produce `e` now? -/
def enabled (s : Sys) (e : Event) : Bool :=
  let c := s.ctl
  let v := s.env
  let reading := c.wsOpen && !c.stopPending && !c.wsClosing   -- frames are being delivered
  let frames := reading && v.welcomed                -- … and the welcome came first
  match e with
  | .setCode _ | .allocateCode | .inputCode => !v.appClosed
  | .hRefresh | .hNameplateCompletions | .hChooseNameplate _ | .hWordCompletions | .hChooseWords =>
    c.helper && !v.appClosed
  | .send | .close => true
  | .tcpUp => !c.wsOpen && !c.halfOpen && !v.svcStopped
  | .wsClosing => c.wsOpen && !c.wsClosing && !c.stopPending   -- the server starts the closing handshake
  | .wsOpen => !c.wsOpen && !v.svcStopped
  | .wsClose => c.wsOpen && !c.stopPending
  | .wsFail => !c.wsOpen && !v.svcStopped          -- a connection attempt whose WebSocket negotiation fails
  | .failInitial => !c.everConnected && !c.wsOpen && !c.halfOpen && !v.svcStopped && !v.initialFailed
  | .svcStopped => c.stopPending
  | .welcome _ => reading && !v.welcomed
  | .claimed => frames && v.singles.head? = some .claimed
  | .released => frames && v.singles.head? = some .released
  | .closedResp => frames && v.singles.head? = some .closed
  | .allocated => frames && v.singles.head? = some .allocated
  | .nameplates => frames && v.lists > 0
  | .ack => false                                     -- no-op for the client; not explored
  | .serverError => frames && !v.singles.isEmpty      -- an error may replace any owed answer
  | .message .ours ph new good pake =>
    frames && v.opened && new && good && pake = .good &&
      (match ph with | .pake => v.srvPake | .version => v.srvVersion | .num => v.srvNum | _ => false)
  | .message .theirs ph new good pake =>
    frames && v.opened &&
      (match ph with
       | .pake =>
         new && (match pake with
                 | .good => !good || v.matchKey      -- from the holder of our code, or a stranger's well-formed one
                 | _ => !good)                       -- an unusable PAKE body
       | _ =>
         pake = .good && (ph != .version || new) &&
         (c.o != .S0_no_pake || c.orderQ.length < 2) &&
         (!good ||
           (v.matchKey && v.peerKey != some false &&
             (match ph with
              | .version => v.srvPake
              | _ => v.srvVersion))))

/-- the same environment with an **order-preserving** server: the peer's numbered / dilation
    phases are delivered only after its `version` message (the order in which the peer submitted
    them, `Send` queues data until a verified key exists) -/
def enabledFifo (s : Sys) (e : Event) : Bool :=
  enabled s e &&
  (match e with
   | .message .theirs .num _ _ _ | .message .theirs .dilate _ _ _ => s.ctl.versionProcessed
   | _ => true)

def sat2 (n : Nat) : Nat := if n ≥ 2 then 2 else n

/-- environment bookkeeping for what the client did in this step -/
def envObs (v : Env) : Obs → Env
  | .tx .claim => { v with singles := v.singles ++ [.claimed], claimOut := true, allocOut := false }
  | .tx .release => { v with singles := v.singles ++ [.released] }
  | .tx .open_ => { v with opened := true, openOut := true }
  | .tx (.close _) => { v with singles := v.singles ++ [.closed], opened := false }
  | .tx .allocate => { v with singles := v.singles ++ [.allocated], allocOut := true }
  | .tx .list => { v with lists := sat2 (v.lists + 1) }
  | .tx (.add .pake) => { v with srvPake := true }
  | .tx (.add .version) => { v with srvVersion := true }
  | .tx (.add _) => { v with srvNum := true }
  | .drainAdds =>
    { v with srvPake := (v.srvPake || v.pendPake), srvVersion := (v.srvVersion || v.pendVersion),
             srvNum := (v.srvNum || v.pendNum) }
  | .mQueue .pake => { v with pendPake := true }
  | .mQueue .version => { v with pendVersion := true }
  | .mQueue _ => { v with pendNum := true }
  | .stopService => { v with svcStopped := true }
  | _ => v

/-- environment's own change when it produces `e` (before the client reacts) -/
def envEvent (v : Env) (c : Ctl) : Event → Env
  | .wsOpen => { v with welcomed := false, singles := [], lists := 0, opened := false }
  | .wsClose | .svcStopped => { v with welcomed := false, singles := [], lists := 0, opened := false }
  | .failInitial => { v with initialFailed := true }
  | .welcome _ => { v with welcomed := true }
  | .claimed => { v with singles := v.singles.tail }
  | .released => { v with singles := v.singles.tail, claimOut := false }
  | .closedResp => { v with singles := v.singles.tail, openOut := false }
  | .allocated => { v with singles := v.singles.tail }
  | .nameplates => { v with lists := v.lists - 1 }
  | .serverError => { v with singles := v.singles.tail }
  | .close => { v with appClosed := true }
  | .message .ours .pake _ _ _ => { v with pendPake := if c.m = .S2B then false else v.pendPake }
  | .message .ours .version _ _ _ => { v with pendVersion := if c.m = .S2B then false else v.pendVersion }
  | _ => v

def verdictOK (m : Mon) (c : Ctl) (v : Verdict) : Bool :=
  match v with
  | .happy => m.goodPeerMsg && !m.badPeerMsg
  | .lonely => !m.goodPeerMsg && !m.badPeerMsg
  | .wrongPassword => m.badPeerMsg || c.sk = .S3_scared
  | .serverError => m.serverErr
  | .welcomeError => m.welcomeErr
  | .connectionError => !c.everConnected
  | .internalError => m.internal
  | .empty => false

def monObs (before : Ctl) (after : Ctl) (v : Env) (m : Mon) : Obs → Mon
  | .ev e =>
    let m := if m.closedCount > 0 then { m with afterClosed := true } else m
    match e with
    | .welcome => m
    | .code => { m with seenCode := true, dup := (m.dup || m.seenCode),
                        order := (m.order || m.seenKey || m.seenVerifier || m.seenVersions || m.seenReceived) }
    | .key => { m with seenKey := true, dup := (m.dup || m.seenKey),
                       order := (m.order || !m.seenCode || m.seenVerifier || m.seenVersions || m.seenReceived) }
    | .verifier => { m with seenVerifier := true, dup := (m.dup || m.seenVerifier),
                            order := (m.order || !m.seenKey || m.seenVersions || m.seenReceived) }
    | .versions => { m with seenVersions := true, dup := (m.dup || m.seenVersions), order := (m.order || !m.seenVerifier) }
    | .received => { m with seenReceived := true, order := (m.order || !m.seenVerifier),
                            recvBeforeVersions := (m.recvBeforeVersions || !m.seenVersions) }
    | .closed vd =>
      { m with closedCount := sat2 (m.closedCount + 1),
               verdictBad := (m.verdictBad || !verdictOK m after vd),
               verdictWrong := (m.verdictWrong || decide (vd ≠ m.cause)),
               allocLeak := (m.allocLeak || (after.t = .S_stopped && v.allocOut)),
               resourceBad := (m.resourceBad ||
                 -- through the Terminator (not Boss.error): everything must have been given back
                 (after.t = .S_stopped && (v.claimOut || v.openOut || after.wsOpen ||
                    after.mood.isSome && after.mood != some (match vd with
                      | .happy => Mood.happy | .lonely => .lonely | .wrongPassword => .scary
                      | .serverError => .errory | .welcomeError => .unwelcome | _ => .lonely)))) }
  | _ => m

def sysStep (s : Sys) (e : Event) : Sys × Outcome :=
  let v0 := envEvent s.env s.ctl e
  let closing := s.ctl.b = .S3_closing || s.ctl.b = .S4_closed
  let rBefore := s.ctl.r
  let (c', obs, oc) := Client.step s.ctl e
  let v1 := obs.foldl envObs v0
  let m0 := s.mon
  let m1 := match e with
    | .serverError => if closing then m0 else { m0 with serverErr := true }
    | .welcome true => if closing then m0 else { m0 with welcomeErr := true }
    | _ => m0
  -- Receive saw a good / bad message in this step iff its state moved accordingly
  let m2 := { m1 with
      goodPeerMsg := (m1.goodPeerMsg || (rBefore != .S2_verified_key && c'.r = .S2_verified_key)),
      badPeerMsg := (m1.badPeerMsg || (rBefore != .S3_scared && c'.r = .S3_scared)),
      internal := (m1.internal || (match oc with | .internal _ => true | _ => false)) }
  -- something a participant posted was found unusable in this step (it may have been stashed or queued
  -- earlier, so the event that triggers it can be an API call): an undecryptable message reached Receive,
  -- a PAKE without a usable `pake_v1`, or an element SPAKE2 rejected (`compute_key` left no key behind)
  let scaredNow := (s.ctl.sk != .S3_scared && c'.sk == .S3_scared) || (rBefore != .S3_scared && c'.r == .S3_scared) ||
    (s.ctl.sk != .S2_know_key && c'.sk == .S2_know_key && !c'.rKey)
  -- the first thing that makes the Boss start closing fixes the verdict (later causes are ignored)
  let wasOpen := s.ctl.b = .S0_empty || s.ctl.b = .S1_lonely || s.ctl.b = .S2_happy
  let nowClosing := c'.b = .S3_closing || c'.b = .S4_closed
  let m2 := if wasOpen && nowClosing then
      { m2 with cause := match e with
          | .welcome true => .welcomeError
          | .serverError => .serverError
          | .close => if s.ctl.b = .S2_happy then .happy else .lonely
          | .failInitial => .connectionError
          | .wsFail => .connectionError
          | _ => if scaredNow then .wrongPassword else .internalError }
    else m2
  -- … an unusable PAKE counts, for the verdict, as an undecryptable peer message
  let m2 := if scaredNow then { m2 with badPeerMsg := true } else m2
  -- whose PAKE the client accepted
  let v1 := match e with
    | .message .theirs .pake _ good pk =>
      if !s.ctl.pakeProcessed && c'.pakeProcessed then { v1 with peerKey := some (good && pk == .good) } else v1
    | _ => v1
  let m3 := obs.foldl (monObs s.ctl c' v1) m2
  ({ ctl := c', env := v1, mon := m3 }, oc)

/-- the finite event alphabet explored -/
def allEvents : List Event :=
  [.setCode true, .setCode false, .allocateCode, .inputCode,
   .hRefresh, .hNameplateCompletions, .hChooseNameplate true, .hChooseNameplate false, .hWordCompletions, .hChooseWords,
   .send, .close, .tcpUp, .wsOpen, .wsClosing, .wsClose, .wsFail, .failInitial, .svcStopped,
   .welcome false, .welcome true, .claimed, .released, .closedResp, .allocated, .nameplates, .serverError,
   .message .ours .pake true true .good, .message .ours .version true true .good, .message .ours .num true true .good,
   .message .theirs .pake true true .good, .message .theirs .pake true false .good,
   .message .theirs .pake true false .noField, .message .theirs .pake true false .invalid,
   .message .theirs .version true true .good, .message .theirs .version true false .good,
   .message .theirs .num true true .good, .message .theirs .num false true .good, .message .theirs .num true false .good,
   .message .theirs .dilate true true .good, .message .theirs .dilate false true .good, .message .theirs .dilate true false .good,
   .message .theirs .num false false .good, .message .theirs .dilate false false .good,
   .message .theirs .other true true .good, .message .theirs .other true false .good,
   .message .theirs .other false true .good, .message .theirs .other false false .good]

def inits : List Sys := [{ env := { matchKey := true } }, { env := { matchKey := false } }]

/-- the safety predicate certified for every reachable state and enabled event -/
def safeStep (s : Sys) (e : Event) : Bool :=
  let (s', oc) := sysStep s e
  (match oc with | .internal _ => false | _ => true) &&
  s'.mon.closedCount ≤ 1 && !s'.mon.afterClosed && !s'.mon.dup && !s'.mon.order &&
  !s'.mon.verdictBad && !s'.mon.verdictWrong && !s'.mon.resourceBad

/-- additionally, under an order-preserving server: versions precede every application message -/
def safeStepFifo (s : Sys) (e : Event) : Bool :=
  safeStep s e && !(sysStep s e).1.mon.recvBeforeVersions

def succs (en : Sys → Event → Bool) (s : Sys) : List Sys :=
  allEvents.filterMap (fun e => if en s e then some (sysStep s e).1 else none)

/-- breadth-first closure with fuel; returns the visited set and whether it is complete -/
def bfs (en : Sys → Event → Bool) : Nat → List Sys → Std.HashSet Sys → Std.HashSet Sys × Bool
  | 0, frontier, seen => (seen, frontier.isEmpty)
  | _ + 1, [], seen => (seen, true)
  | fuel + 1, frontier, seen =>
    let (next, seen') := frontier.foldl (fun (acc : List Sys × Std.HashSet Sys) s =>
      (succs en s).foldl (fun (acc : List Sys × Std.HashSet Sys) t =>
        if acc.2.contains t then acc else (t :: acc.1, acc.2.insert t)) acc) ([], seen)
    bfs en fuel next seen'

def reachable (en : Sys → Event → Bool) (fuel : Nat) : Std.HashSet Sys × Bool :=
  bfs en fuel inits (inits.foldl (fun h s => h.insert s) {})

end WV.ClientEnv
