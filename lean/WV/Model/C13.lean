import WV.Model.Basic
import WV.Gen.T_SubChannel
import WV.Gen.Flags

/-!
C13 — subchannels open once, close once, honour the subprotocol contract.

Model of `src/wormhole/_dilation/subchannel.py` (`SubChannel` outputs and helper methods,
`SubchannelDemultiplex`, the two endpoints), `inbound.py` (`handle_open/handle_data/handle_close/
subchannel_closed/subchannel_local_open`) and the parts of `manager.py` they use
(`choose_role`, `allocate_subchannel_id`, `send_open/send_data/send_close`, `got_record`'s
ack/old-record filter, and the constructor wiring of `expected_subprotocols`).

The SubChannel transition table is the *generated* `WV.Gen.SubChannel.table`; whether the set
given to `dilate(expected_subprotocols=…)` reaches the demultiplexer is the *generated*
`WV.Gen.Flags.demux_gets_expected_subprotocols` (∧ `manager_gets_expected_subprotocols`).

One `Side` is one Manager with its Inbound, demultiplexer and all SubChannel objects ever
created (`subs`, indexed by creation order = `uid`).  Application protocols are numbered by the
order of `buildProtocol` calls on that side (`pid`) — this is what the application can observe.
Everything the side does that is visible outside goes, in order, to `log`: protocol callbacks,
records handed to the connection, acks, `log.err` reports.
-/
namespace WV.C13
open WV WV.Gen

/-- does the application's protocol provide `IHalfCloseableProtocol`? -/
inductive PKind where
  | full | half
  deriving DecidableEq, Repr

inductive Err where
  | noTransition          -- automat: no row
  | alreadyClosed         -- AlreadyClosedError
  | assertion             -- AssertionError
  | keyError
  | typeError             -- `IHalfCloseableProtocol(p)` cannot adapt
  | attributeError        -- attribute already `del`eted
  | valueError            -- empty subprotocol / already listening
  | normalCloseOnHalf     -- NormalCloseUsedOnHalfCloseable
  | halfCloseOnNonHalf    -- HalfCloseUsedOnNonHalfCloseable
  | unexpectedSubprotocol -- UnexpectedSubprotocol (always caught by handle_open)
  | noProtocol            -- the driver was asked about a protocol that does not exist
  | internal              -- a uid outside the store (never produced by the functions below)
  deriving DecidableEq, Repr

def Err.name : Err → String
  | .noTransition => "NoTransition" | .alreadyClosed => "AlreadyClosedError"
  | .assertion => "AssertionError" | .keyError => "KeyError" | .typeError => "TypeError"
  | .attributeError => "AttributeError" | .valueError => "ValueError"
  | .normalCloseOnHalf => "NormalCloseUsedOnHalfCloseable"
  | .halfCloseOnNonHalf => "HalfCloseUsedOnNonHalfCloseable"
  | .unexpectedSubprotocol => "UnexpectedSubprotocol" | .noProtocol => "no-such-protocol"
  | .internal => "model-internal"

/-- externally visible effects of one side, in the order they happen -/
inductive Eff where
  | build (pid : Nat) (name : String)     -- factory.buildProtocol(SubchannelAddress(name)) → protocol #pid
  | made (pid : Nat)                      -- protocol.makeConnection(sc) → connectionMade
  | data (pid : Nat) (d : Bytes)          -- protocol.dataReceived(d)
  | lost (pid : Nat)                      -- protocol.connectionLost(ConnectionDone)
  | readLost (pid : Nat)                  -- protocol.readConnectionLost()
  | writeLost (pid : Nat)                 -- protocol.writeConnectionLost()
  | txOpen (seq scid : Nat) (name : String)   -- Open record queued + sent
  | txData (seq scid : Nat) (d : Bytes)
  | txClose (seq scid : Nat)
  | ack (seq : Nat)                       -- Ack(seq) sent
  | logErr (cls : String)                 -- log.err(cls(...)) and carry on
  deriving DecidableEq, Repr

/-- one `SubChannel` object -/
structure SC where
  scid : Nat
  name : String                           -- `_peer_addr.subprotocol`
  st : SubChannel.State
  proto : Option (Nat × PKind)            -- `_protocol` (its pid and kind)
  pendingData : Option (List Bytes)       -- `_pending_remote_data`; `none` after `del`
  pendingClose : Bool                     -- `_pending_remote_close`
  deriving DecidableEq, Repr

def SC.new (scid : Nat) (name : String) : SC :=
  { scid := scid, name := name, st := SubChannel.init, proto := none, pendingData := some [], pendingClose := false }

/-- a sequenced record as the L2 connection hands it to `Manager.got_record` -/
inductive Rx where
  | opn (seq scid : Nat) (name : String)
  | data (seq scid : Nat) (d : Bytes)
  | close (seq scid : Nat)
  deriving DecidableEq, Repr

structure Side where
  leader : Bool
  expected : Option (List String)         -- `dilate(expected_subprotocols=…)`; `none` = not given
  nextScid : Nat                          -- `Manager._next_subchannel_id`
  nextSeq : Nat                           -- `Outbound._next_outbound_seqnum`
  highestAcked : Option Nat               -- `Inbound._highest_inbound_acked`; `none` = -1
  subs : List SC                          -- every SubChannel ever created here, by uid
  open_ : List (Nat × Nat)                -- `Inbound._open_subchannels`: scid → uid, insertion order
  factories : List (String × PKind)       -- `SubchannelDemultiplex._factories`
  pendingOpens : List (String × List Nat) -- `_pending_opens`: name → deque of uids
  protoCount : Nat                        -- protocols built so far
  log : List Eff
  parked : List Rx := []                  -- `DilatedConnectionProtocol._inbound_record_queue` of the current
                                          -- connection: records that arrived between the KCM and `select()`
  deriving Repr

abbrev Res := Side × Option Err

@[inline] def andThen (r : Res) (f : Side → Res) : Res :=
  match r with
  | (s, none) => f s
  | (s, some e) => (s, some e)

/-! ## roles and ids (`Manager.choose_role`, `allocate_subchannel_id`) -/

/-- `choose_role`: `(is_leader, first subchannel id)`; `none` = `ValueError` (reflection) -/
def chooseRole (mySide theirSide : String) : Option (Bool × Nat) :=
  if theirSide < mySide then some (true, 1)
  else if mySide < theirSide then some (false, 2)
  else none

/-- the set the demultiplexer really holds, given the constructor wiring in the working tree -/
def wired (expected : Option (List String)) : Option (List String) :=
  if Flags.manager_gets_expected_subprotocols && Flags.demux_gets_expected_subprotocols then expected else none

def Side.demuxExpected (s : Side) : Option (List String) := wired s.expected

def Side.init (leader : Bool) (firstId : Nat) (expected : Option (List String)) : Side :=
  { leader := leader, expected := expected, nextScid := firstId, nextSeq := 0, highestAcked := none,
    subs := [], open_ := [], factories := [], pendingOpens := [], protoCount := 0, log := [] }

/-! ## small dict helpers (insertion-ordered, like Python dicts) -/

def lookup {α β : Type} [DecidableEq α] (k : α) : List (α × β) → Option β
  | [] => none
  | (k', v) :: r => if k' = k then some v else lookup k r

def eraseKey {α β : Type} [DecidableEq α] (k : α) : List (α × β) → List (α × β)
  | [] => []
  | (k', v) :: r => if k' = k then r else (k', v) :: eraseKey k r

/-- `d[k].append(v)` on a `defaultdict(deque)` -/
def appendAt (k : String) (v : Nat) : List (String × List Nat) → List (String × List Nat)
  | [] => [(k, [v])]
  | (k', l) :: r => if k' = k then (k', l ++ [v]) :: r else (k', l) :: appendAt k v r

def modifyAt {α : Type} (f : α → α) : Nat → List α → List α
  | _, [] => []
  | 0, x :: r => f x :: r
  | n + 1, x :: r => x :: modifyAt f n r

def emit (e : Eff) (s : Side) : Side := { s with log := s.log ++ [e] }

def updSC (uid : Nat) (f : SC → SC) (s : Side) : Side := { s with subs := modifyAt f uid s.subs }

/-- `Manager._queue_and_send(record_type, …)`: `Outbound.build_record` numbers it, then it is
    queued and sent -/
def sendRec (mk : Nat → Eff) (s : Side) : Side :=
  emit (mk s.nextSeq) { s with nextSeq := s.nextSeq + 1 }

/-! ## SubChannel: output bodies and Automat dispatch over the generated table -/

/-- one `@m.output` of SubChannel `uid`, with the input's argument -/
def runOut (uid : Nat) (arg : Bytes) (o : SubChannel.Output) (s : Side) : Res :=
  match s.subs[uid]? with
  | none => (s, some .internal)
  | some sc =>
    match o with
    | .queue_remote_data =>
      match sc.pendingData with
      | some l => (updSC uid (fun c => { c with pendingData := some (l ++ [arg]) }) s, none)
      | none => (s, some .attributeError)
    | .queue_remote_close => (updSC uid (fun c => { c with pendingClose := true }) s, none)
    | .send_data => (sendRec (fun q => .txData q sc.scid arg) s, none)
    | .send_close => (sendRec (fun q => .txClose q sc.scid) s, none)
    | .signal_dataReceived =>
      match sc.proto with
      | some (pid, _) => (emit (.data pid arg) s, none)
      | none => (s, some .assertion)
    | .signal_readConnectionLost =>
      match sc.proto with
      | some (pid, .half) => (emit (.readLost pid) s, none)
      | _ => (s, some .typeError)
    | .signal_writeConnectionLost =>
      match sc.proto with
      | some (pid, .half) => (emit (.writeLost pid) s, none)
      | _ => (s, some .typeError)
    | .signal_connectionLost =>
      match sc.proto with
      | some (pid, _) => (emit (.lost pid) s, none)
      | none => (s, some .assertion)
    | .close_subchannel =>
      -- Manager.subchannel_closed → Inbound.subchannel_closed: `assert open[scid] is sc; del open[scid]`
      match lookup sc.scid s.open_ with
      | none => (s, some .keyError)
      | some u => if u = uid then ({ s with open_ := eraseKey sc.scid s.open_ }, none) else (s, some .assertion)
    | .error_closed_write => (s, some .alreadyClosed)
    | .error_closed_close => (s, some .alreadyClosed)

/-- outputs of a row, in order; an exception skips the rest -/
def runOuts (uid : Nat) (arg : Bytes) : List SubChannel.Output → Side → Res
  | [], s => (s, none)
  | o :: os, s => andThen (runOut uid arg o s) (runOuts uid arg os)

/-- Automat: look the row up (absent → `NoTransition`, nothing changes), set the new state
    first, then run the outputs -/
def scInput (uid : Nat) (i : SubChannel.Input) (arg : Bytes) (s : Side) : Res :=
  match s.subs[uid]? with
  | none => (s, some .internal)
  | some sc =>
    match SubChannel.table sc.st i with
    | none => (s, some .noTransition)
    | some (st', outs) => runOuts uid arg outs (updSC uid (fun c => { c with st := st' }) s)

/-- `factory.buildProtocol(peer_addr)` -/
def buildProtocol (name : String) (s : Side) : Side :=
  emit (.build s.protoCount name) { s with protoCount := s.protoCount + 1 }

/-- `SubChannel._set_protocol(p)` -/
def setProtocol (uid pid : Nat) (k : PKind) (s : Side) : Res :=
  match s.subs[uid]? with
  | none => (s, some .internal)
  | some sc =>
    if sc.proto.isSome then (s, some .assertion) else
    scInput uid (if k = .half then .connect_protocol_half else .connect_protocol_full) []
      (updSC uid (fun c => { c with proto := some (pid, k) }) s)

/-- `for data in self._pending_remote_data: self.remote_data(data)` -/
def feedData (uid : Nat) : List Bytes → Side → Res
  | [], s => (s, none)
  | d :: ds, s => andThen (scInput uid .remote_data d s) (feedData uid ds)

/-- `SubChannel._deliver_queued_data()` -/
def deliverQueued (uid : Nat) (s : Side) : Res :=
  match s.subs[uid]? with
  | none => (s, some .internal)
  | some sc =>
    match sc.pendingData with
    | none => (s, some .attributeError)
    | some l =>
      andThen (feedData uid l s) fun s1 =>
        let s2 := updSC uid (fun c => { c with pendingData := none }) s1
        match s2.subs[uid]? with
        | none => (s2, some .internal)
        | some sc2 =>
          if sc2.pendingClose then
            andThen (scInput uid .remote_close [] s2) fun s3 =>
              (updSC uid (fun c => { c with pendingClose := false }) s3, none)
          else (s2, none)

/-- `SubchannelDemultiplex._connect(factory, t, peer_addr)` -/
def connectSC (k : PKind) (uid : Nat) (s : Side) : Res :=
  match s.subs[uid]? with
  | none => (s, some .internal)
  | some sc =>
    let pid := s.protoCount
    andThen (setProtocol uid pid k (buildProtocol sc.name s)) fun s2 =>
      deliverQueued uid (emit (.made pid) s2)

/-- `SubchannelDemultiplex._got_open(t, peer_addr)` -/
def gotOpen (uid : Nat) (name : String) (s : Side) : Res :=
  match lookup name s.factories with
  | some k => connectSC k uid s
  | none =>
    match s.demuxExpected with
    | some ex =>
      if ex.contains name then ({ s with pendingOpens := appendAt name uid s.pendingOpens }, none)
      else (s, some .unexpectedSubprotocol)
    | none => ({ s with pendingOpens := appendAt name uid s.pendingOpens }, none)

/-- `Inbound.handle_open(scid, subprotocol)` -/
def handleOpen (scid : Nat) (name : String) (s : Side) : Res :=
  if (lookup scid s.open_).isSome then (emit (.logErr "DuplicateOpenError") s, none) else
  let uid := s.subs.length
  let s1 := { s with subs := s.subs ++ [SC.new scid name], open_ := s.open_ ++ [(scid, uid)] }
  match gotOpen uid name s1 with
  | (s2, some .unexpectedSubprotocol) =>
    let s3 := sendRec (fun q => .txClose q scid) s2
    if (lookup scid s3.open_).isSome then ({ s3 with open_ := eraseKey scid s3.open_ }, none)
    else (s3, some .keyError)
  | r => r

/-- `Inbound.handle_data(scid, data)` -/
def handleData (scid : Nat) (d : Bytes) (s : Side) : Res :=
  match lookup scid s.open_ with
  | none => (emit (.logErr "DataForMissingSubchannelError") s, none)
  | some uid => scInput uid .remote_data d s

/-- `Inbound.handle_close(scid)` -/
def handleClose (scid : Nat) (s : Side) : Res :=
  match lookup scid s.open_ with
  | none => (emit (.logErr "CloseForMissingSubchannelError") s, none)
  | some uid => scInput uid .remote_close [] s

/-- `Manager.got_record(r)` for the three sequenced record types: always ack, drop old ones -/
def gotRecord (seq : Nat) (handle : Side → Res) (s : Side) : Res :=
  let s1 := emit (.ack seq) s
  let old := match s1.highestAcked with
    | some h => decide (seq ≤ h)
    | none => false
  if old then (s1, none)
  else
    let h' := match s1.highestAcked with
      | some h => max h seq
      | none => seq
    handle { s1 with highestAcked := some h' }

/-- the same while `Outbound` has no connection yet (records drained by `select()` before
    `connector_connection_made` → `use_connection`): `send_ack` → `send_if_connected` sends nothing -/
def gotRecordNoAck (seq : Nat) (handle : Side → Res) (s : Side) : Res :=
  let old := match s.highestAcked with
    | some h => decide (seq ≤ h)
    | none => false
  if old then (s, none)
  else
    let h' := match s.highestAcked with
      | some h => max h seq
      | none => seq
    handle { s with highestAcked := some h' }

/-- `while pending: (t, addr) = pending.popleft(); self._connect(factory, t, addr)` -/
def connectAll (k : PKind) : List Nat → Side → Res
  | [], s => (s, none)
  | u :: us, s => andThen (connectSC k u s) (connectAll k us)

/-- `SubchannelDemultiplex.register(name, factory)` -/
def register (name : String) (k : PKind) (s : Side) : Res :=
  if (lookup name s.factories).isSome then (s, some .valueError) else
  let pending := match lookup name s.pendingOpens with
    | some l => l
    | none => []          -- `except KeyError: pending = deque()`
  connectAll k pending
    { s with factories := s.factories ++ [(name, k)], pendingOpens := eraseKey name s.pendingOpens }

/-- the end of `SubchannelConnectorEndpoint.connect`: `p = factory.buildProtocol(addr);
    sc._set_protocol(p); p.makeConnection(sc)` -/
def connectTail (name : String) (k : PKind) (uid : Nat) (s : Side) : Res :=
  let pid := s.protoCount
  andThen (setProtocol uid pid k (buildProtocol name s)) fun s4 => (emit (.made pid) s4, none)

/-- `DilatedWormhole.connector_for(name)` + `SubchannelConnectorEndpoint.connect(factory)`
    (the part after `yield when_fired()`) -/
def connect (name : String) (k : PKind) (s : Side) : Res :=
  if name = "" then (s, some .valueError) else
  let scid := s.nextScid                                   -- allocate_subchannel_id
  let s1 := sendRec (fun q => .txOpen q scid name) { s with nextScid := scid + 2 }
  let uid := s1.subs.length
  let s2 := { s1 with subs := s1.subs ++ [SC.new scid name] }
  if (lookup scid s2.open_).isSome then (s2, some .assertion) else   -- subchannel_local_open
  connectTail name k uid { s2 with open_ := s2.open_ ++ [(scid, uid)] }

/-- the SubChannel that protocol #pid has as its transport -/
def findProto (pid : Nat) : List SC → Nat → Option (Nat × PKind)
  | [], _ => none
  | c :: r, i =>
    match c.proto with
    | some (p, k) => if p = pid then some (i, k) else findProto pid r (i + 1)
    | none => findProto pid r (i + 1)

inductive Op where
  | connect (name : String) (k : PKind)
  | listen (name : String) (k : PKind)
  | write (pid : Nat) (d : Bytes)         -- protocol #pid: self.transport.write(d)
  | lose (pid : Nat)                      -- self.transport.loseConnection()
  | loseWrite (pid : Nat)                 -- self.transport.loseWriteConnection()
  | rxOpen (seq scid : Nat) (name : String)
  | rxData (seq scid : Nat) (d : Bytes)
  | rxClose (seq scid : Nat)
  | park (r : Rx)                         -- a record arrives while the connection is still `selecting`
  | select                                -- `DilatedConnectionProtocol.select(manager)`: drain the parked records
  | lost                                  -- the L2 connection is gone (`Manager._stop_using_connection`)
  deriving DecidableEq, Repr

def Rx.seq : Rx → Nat
  | .opn q _ _ => q
  | .data q _ _ => q
  | .close q _ => q

def Rx.handler : Rx → Side → Res
  | .opn _ scid name => handleOpen scid name
  | .data _ scid d => handleData scid d
  | .close _ scid => handleClose scid

/-- `process_inbound_queue`: `while q: r = q.pop(0); manager.got_record(r)` — oldest first; an
    exception leaves the rest parked -/
def selectRun : List Rx → Side → Res
  | [], s => (s, none)
  | r :: rs, s =>
    match gotRecordNoAck r.seq r.handler s with
    | (s', none) => selectRun rs s'
    | (s', some e) => ({ s' with parked := rs }, some e)

def step (s : Side) : Op → Res
  | .connect name k => connect name k s
  | .listen name k => register name k s
  | .write pid d =>
    match findProto pid s.subs 0 with
    | none => (s, some .noProtocol)
    | some (uid, _) => scInput uid .local_data d s
  | .lose pid =>
    match findProto pid s.subs 0 with
    | none => (s, some .noProtocol)
    | some (uid, k) => if k = .half then (s, some .normalCloseOnHalf) else scInput uid .local_close [] s
  | .loseWrite pid =>
    match findProto pid s.subs 0 with
    | none => (s, some .noProtocol)
    | some (uid, k) => if k = .half then scInput uid .local_close [] s else (s, some .halfCloseOnNonHalf)
  | .rxOpen seq scid name => gotRecord seq (handleOpen scid name) s
  | .rxData seq scid d => gotRecord seq (handleData scid d) s
  | .rxClose seq scid => gotRecord seq (handleClose scid) s
  | .park r => ({ s with parked := s.parked ++ [r] }, none)
  | .select => selectRun s.parked { s with parked := [] }
  -- `Inbound.stop_using_connection` forgets the connection only: `_highest_inbound_acked` survives, so
  -- what the peer re-sends is recognised as old; the dead protocol object takes its parked records along
  | .lost => ({ s with parked := [] }, none)

/-- run a whole history; exceptions are reported to the caller of that one operation and the
    side carries on with whatever the operation had already changed (as the real objects do) -/
def run (s : Side) : List Op → Side
  | [] => s
  | o :: os => run (step s o).1 os

/-! ## two sides joined by the reliable in-order record pipe that L4 (C10) provides -/

/-- the sequenced records a side has put on the wire, as the operations that deliver them -/
def wireOp : Eff → Option Op
  | .txOpen q c n => some (.rxOpen q c n)
  | .txData q c d => some (.rxData q c d)
  | .txClose q c => some (.rxClose q c)
  | _ => none

def wire (log : List Eff) : List Op := log.filterMap wireOp

def wireRx : Eff → Option Rx
  | .txOpen q c n => some (.opn q c n)
  | .txData q c d => some (.data q c d)
  | .txClose q c => some (.close q c)
  | _ => none

def wireR (log : List Eff) : List Rx := log.filterMap wireRx

structure World where
  a : Side
  b : Side
  dAB : Nat        -- how many of A's records B has received
  dBA : Nat

inductive WOp where
  | onA (o : Op) | onB (o : Op)     -- application call or injected record on one side
  | deliverAB | deliverBA           -- the next record in flight arrives
  | parkAB | parkBA                 -- … while the receiver's connection is still `selecting`: it is parked
  | lostA | lostB                   -- A|B loses its L2 connection (or abandons the one it was about to accept)
  deriving Repr

/-- how many of the peer's records this side has processed (handed to `Manager.got_record` and not
    dropped as old): its ack watermark + 1 -/
def Side.processed (s : Side) : Nat :=
  match s.highestAcked with
  | none => 0
  | some h => h + 1

def wstep (w : World) : WOp → World × Option Err
  | .onA o => let r := step w.a o; ({ w with a := r.1 }, r.2)
  | .onB o => let r := step w.b o; ({ w with b := r.1 }, r.2)
  | .deliverAB =>
    match (wire w.a.log)[w.dAB]? with
    | none => (w, none)
    | some o => let r := step w.b o; ({ w with b := r.1, dAB := w.dAB + 1 }, r.2)
  | .deliverBA =>
    match (wire w.b.log)[w.dBA]? with
    | none => (w, none)
    | some o => let r := step w.a o; ({ w with a := r.1, dBA := w.dBA + 1 }, r.2)

  | .parkAB =>
    match (wireR w.a.log)[w.dAB]? with
    | none => (w, none)
    | some r => let x := step w.b (.park r); ({ w with b := x.1, dAB := w.dAB + 1 }, x.2)
  | .parkBA =>
    match (wireR w.b.log)[w.dBA]? with
    | none => (w, none)
    | some r => let x := step w.a (.park r); ({ w with a := x.1, dBA := w.dBA + 1 }, x.2)
  -- The connection goes away, as seen by the receiving side.  Records that were parked on it and not yet handed
  -- over by `select()` go with it (`step … .lost`): they count as never delivered.  The peer has no ACK for them
  -- (an ACK is only ever sent for a record that was processed), so its `Outbound` still holds them and
  -- `use_connection` sends everything un-acked again on the next connection: the delivery cursor falls back to the
  -- first record this side has not processed.  What comes again from *before* that point (processed, but the
  -- ACK was lost) is an explicit re-sent record (`rx …` / `parkrx …`) and is dropped by the watermark.
  | .lostA => let r := step w.a .lost; ({ w with a := r.1, dBA := min w.dBA r.1.processed }, r.2)
  | .lostB => let r := step w.b .lost; ({ w with b := r.1, dAB := min w.dAB r.1.processed }, r.2)

def wrun (w : World) : List WOp → World
  | [] => w
  | o :: os => wrun (wstep w o).1 os

/-- the world after both `rx_PLEASE`: roles and first ids from `choose_role` on each side -/
def World.init (sideA sideB : String) (expA expB : Option (List String)) : Option World :=
  match chooseRole sideA sideB, chooseRole sideB sideA with
  | some (la, fa), some (lb, fb) =>
    some { a := Side.init la fa expA, b := Side.init lb fb expB, dAB := 0, dBA := 0 }
  | _, _ => none

/-! ## the 4-byte wire field, and what `allocate_subchannel_id` does next to it

`Open/Data/Close` carry the subchannel id as `to_be4(scid)` (`encode.py`: `if not 0 <= value < 2**32: raise
ValueError`).  `allocate_subchannel_id` itself knows no limit: `scid_num = self._next_subchannel_id;
self._next_subchannel_id += 2; return scid_num` — the counter keeps its parity for ever and simply outgrows the
field.  `SubchannelConnectorEndpoint.connect` then does `send_open(scid, …)`: `Outbound.build_record` takes the
next sequence number, the record is appended to `_outbound_queue`, and `send_record → encode_record → to_be4`
raises `ValueError` out of `connect()` *before* a `SubChannel` object exists: nothing is put on the wire, nothing is
registered, the application's Deferred fails.  `connect`/`step`/`wstep` above are the functions without the
limit (all their theorems are about them); `connectW`/`stepW`/`wstepW` below are what the driver runs: the same
functions with that error branch.  They coincide as long as the counters are inside the field
(`WV.Props.C13.bounded_is_unbounded_within_wire`), so every theorem above is a theorem about the driven model on
those runs, and the id theorems are re-proved for *all* runs of the driven model (`ids_disjoint_wire`,
`ids_never_wrap`).  (The sequence number travels in the same kind of field; the model does not bound it.) -/

/-- `to_be4`'s exclusive upper bound (`WV.Props.C13.wire_limit_is_be4` ties it to the source) -/
def wireLimit : Nat := 4294967296

/-- `Manager.allocate_subchannel_id()`: the id, and the Manager afterwards -/
def allocate (s : Side) : Nat × Side := (s.nextScid, { s with nextScid := s.nextScid + 2 })

/-- `connect()` next to the wire limit: an id that does not fit is still taken from the counter
    (`allocate`), `build_record` still consumes a sequence number, then `to_be4` raises `ValueError` -/
def connectW (name : String) (k : PKind) (s : Side) : Res :=
  if name = "" then (s, some .valueError) else
  if s.nextScid < wireLimit then connect name k s else
  let s1 := (allocate s).2
  ({ s1 with nextSeq := s1.nextSeq + 1 }, some .valueError)

def stepW (s : Side) (o : Op) : Res :=
  match o with
  | .connect name k => connectW name k s
  | _ => step s o

/-- `n` successful `connect()`s, each later closed from both ends, leave one trace in what this model keeps of a
    Manager: the id counter (2 per allocation).  The harness fast-forwards the real Manager the same way
    (`_next_subchannel_id += 2 * n`): the stand-in for the 2**31 opens nobody can wait for.
    (`WV.Props.C13.ffwd_is_n_allocations`) -/
def ffwd (n : Nat) (s : Side) : Side := { s with nextScid := s.nextScid + 2 * n }

inductive WOpW where
  | w (o : WOp)
  | ffwdA (n : Nat) | ffwdB (n : Nat)
  deriving Repr

def wstepW (w : World) : WOpW → World × Option Err
  | .w (.onA o) => let r := stepW w.a o; ({ w with a := r.1 }, r.2)
  | .w (.onB o) => let r := stepW w.b o; ({ w with b := r.1 }, r.2)
  | .w .deliverAB => wstep w .deliverAB
  | .w .deliverBA => wstep w .deliverBA
  | .w .parkAB => wstep w .parkAB
  | .w .parkBA => wstep w .parkBA
  | .w .lostA => wstep w .lostA
  | .w .lostB => wstep w .lostB
  | .ffwdA n => ({ w with a := ffwd n w.a }, none)
  | .ffwdB n => ({ w with b := ffwd n w.b }, none)

def wrunW (w : World) : List WOpW → World
  | [] => w
  | o :: os => wrunW (wstepW w o).1 os

/-! ## driver (line protocol)

```
new <sideA> <sideB> <expA> <expB>     exp: `none` | `-` (empty set) | hexname,hexname,…     -> ok | ValueError
A|B connect <hexname> full|half
A|B listen <hexname> full|half
A|B write <pid> <hex>
A|B lose <pid>
A|B losew <pid>
A|B rx open|data|close <seq> <scid> [<hex>]      (a record injected from outside)
deliver A|B                                        (next record sent by A|B arrives at the other side)
park A|B                                           (… while the receiver is still `selecting`: parked)
A|B parkrx open|data|close <seq> <scid> [<hex>]    (an explicit record is parked: a re-sent one)
A|B select                                         (select(): the parked records are drained, oldest first, no acks)
A|B lost                                           (the L2 connection is gone: its parked records are dropped and the
                                                    peer's cursor falls back to the first record not processed here)
A|B ffwd <n>                                       (the id counter after n more allocations: `ffwd`)
A|B turn                                           (an eventual-queue turn of that side that ran after the I/O following an
                                                    API call or a delivery: the model defers nothing — `listen` hands queued
                                                    data over inside the call, a record is handled when it is read — so a
                                                    later turn has nothing left to do: no effect, state unchanged)
```
`connect` lines run `connectW` (the 4-byte limit of the wire field included).
Output: the effects of that operation on the side it ran on, the exception class if one was
raised, then `| open=[scid:state …] pend=[hexname:n …]`.
-/

def showEff : Eff → String
  | .build p n => s!"build {p} {hexOfStr n}"
  | .made p => s!"made {p}"
  | .data p d => s!"data {p} {toHex d}"
  | .lost p => s!"lost {p}"
  | .readLost p => s!"rlost {p}"
  | .writeLost p => s!"wlost {p}"
  | .txOpen q c n => s!"tx-open {q} {c} {hexOfStr n}"
  | .txData q c d => s!"tx-data {q} {c} {toHex d}"
  | .txClose q c => s!"tx-close {q} {c}"
  | .ack q => s!"ack {q}"
  | .logErr c => s!"log {c}"

def showSide (s : Side) : String :=
  let opens := s.open_.map fun (scid, uid) =>
    match s.subs[uid]? with
    | some sc => s!"{scid}:{SubChannel.State.name sc.st}"
    | none => s!"{scid}:?"
  let pend := s.pendingOpens.map fun (n, l) => s!"{hexOfStr n}:{l.length}"
  s!"open=[{" ".intercalate opens}] pend=[{" ".intercalate pend}] park={s.parked.length}"

def showStep (before : Side) (r : Res) : String :=
  let effs := (r.1.log.drop before.log.length).map showEff
  let err := match r.2 with
    | some e => [e.name]
    | none => []
  "; ".intercalate (effs ++ err) ++ " | " ++ showSide r.1

def readKind? : String → Option PKind
  | "full" => some .full
  | "half" => some .half
  | _ => none

def readExp? (t : String) : Option (Option (List String)) :=
  if t == "none" then some none
  else if t == "-" then some (some [])
  else ((t.splitOn ",").mapM strOfHex?).map some

def readOp? : List String → Option Op
  | ["connect", n, k] => do pure (.connect (← strOfHex? n) (← readKind? k))
  | ["listen", n, k] => do pure (.listen (← strOfHex? n) (← readKind? k))
  | ["write", p, d] => do pure (.write (← p.toNat?) (← fromHex? d))
  | ["lose", p] => do pure (.lose (← p.toNat?))
  | ["losew", p] => do pure (.loseWrite (← p.toNat?))
  | ["rx", "open", q, c, n] => do pure (.rxOpen (← q.toNat?) (← c.toNat?) (← strOfHex? n))
  | ["rx", "data", q, c, d] => do pure (.rxData (← q.toNat?) (← c.toNat?) (← fromHex? d))
  | ["rx", "close", q, c] => do pure (.rxClose (← q.toNat?) (← c.toNat?))
  | ["parkrx", "open", q, c, n] => do pure (.park (.opn (← q.toNat?) (← c.toNat?) (← strOfHex? n)))
  | ["parkrx", "data", q, c, d] => do pure (.park (.data (← q.toNat?) (← c.toNat?) (← fromHex? d)))
  | ["parkrx", "close", q, c] => do pure (.park (.close (← q.toNat?) (← c.toNat?)))
  | ["select"] => some .select
  | ["lost"] => some .lost
  | _ => none

def drvInit : World :=
  { a := Side.init true 1 none, b := Side.init false 2 none, dAB := 0, dBA := 0 }

def dstep (w : World) (line : String) : World × String :=
  match tokens line with
  | ["reset"] => (drvInit, "ok")
  | ["new", sa, sb, ea, eb] =>
    match readExp? ea, readExp? eb with
    | some xa, some xb =>
      match World.init sa sb xa xb with
      | some w' => (w', s!"ok {w'.a.leader} {w'.b.leader}")
      | none => (w, "ValueError")
    | _, _ => (w, "bad-op")
  | ["deliver", "A"] =>
    match (wire w.a.log)[w.dAB]? with
    | none => (w, "empty")
    | some _ => let r := wstep w .deliverAB; (r.1, showStep w.b (r.1.b, r.2))
  | ["deliver", "B"] =>
    match (wire w.b.log)[w.dBA]? with
    | none => (w, "empty")
    | some _ => let r := wstep w .deliverBA; (r.1, showStep w.a (r.1.a, r.2))
  | ["park", "A"] =>
    match (wireR w.a.log)[w.dAB]? with
    | none => (w, "empty")
    | some _ => let r := wstep w .parkAB; (r.1, showStep w.b (r.1.b, r.2))
  | ["park", "B"] =>
    match (wireR w.b.log)[w.dBA]? with
    | none => (w, "empty")
    | some _ => let r := wstep w .parkBA; (r.1, showStep w.a (r.1.a, r.2))
  | ["A", "lost"] => let r := wstep w .lostA; (r.1, showStep w.a (r.1.a, r.2))
  | ["B", "lost"] => let r := wstep w .lostB; (r.1, showStep w.b (r.1.b, r.2))
  | ["A", "turn"] => (w, showStep w.a (w.a, none))
  | ["B", "turn"] => (w, showStep w.b (w.b, none))
  | ["A", "ffwd", n] =>
    match n.toNat? with
    | some k => let r := wstepW w (.ffwdA k); (r.1, showStep w.a (r.1.a, r.2))
    | none => (w, "bad-op")
  | ["B", "ffwd", n] =>
    match n.toNat? with
    | some k => let r := wstepW w (.ffwdB k); (r.1, showStep w.b (r.1.b, r.2))
    | none => (w, "bad-op")
  | "A" :: rest =>
    match readOp? rest with
    | some o => let r := wstepW w (.w (.onA o)); (r.1, showStep w.a (r.1.a, r.2))
    | none => (w, "bad-op")
  | "B" :: rest =>
    match readOp? rest with
    | some o => let r := wstepW w (.w (.onB o)); (r.1, showStep w.b (r.1.b, r.2))
    | none => (w, "bad-op")
  | _ => (w, "bad-op")

def driver (lines : List String) : List String := runLines dstep drvInit lines

end WV.C13
