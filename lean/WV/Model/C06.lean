import WV.Model.Basic
import WV.Gen.C06

/-!
C06 — Transit record layer.

Model of `src/wormhole/transit.py`, class `Connection`, from the moment `_negotiationSuccessful`
has run (state `"records"`): `send_record`, `dataReceived` (its catch-all), `dataReceivedRECORDS`,
`_decrypt_record`, `recordReceived`, `receive_record`, `_deliverRecords`, `connectConsumer`,
`_writeToConsumer`, `disconnectConsumer`, `close`, `connectionLost`; and of the four record-key
derivations of `Common` (`_sender_record_key` / `_receiver_record_key` for `is_sender` true/false),
whose `CTXinfo` strings are the *generated* ones (`WV.Gen.C06`).

Application callbacks are part of the model: a read callback or a consumer-Deferred callback is a
finite script (`Act`) of further API calls — `receive_record`, `connectConsumer` / `writeToFile`,
`disconnectConsumer`, `close` — executed *re-entrantly*, on an explicit call stack (`Frame`,
`appStep`, `runAgenda`): inside `_deliverRecords`' loop when the Deferred already has its callback,
or when `receive_record()` / `connectConsumer()` returns and the callback is attached to a Deferred
that fired meanwhile.  `recordReceived` and every application call run that stack to completion.

XSalsa20-Poly1305 and HKDF are interfaces (`Box`, `Env.hkdf`); their ideal properties are
hypotheses of the theorems (`WV.Props.C06`), never axioms.  The driver instantiates `Box` with the
*ideal AEAD functionality*: a table of the sealings that were actually made (given in the operation
lines by the harness, which makes them with real NaCl); everything else fails to open.
-/
namespace WV.C06
open WV

/-! ## integers on the wire -/

/-- `unhexlify("%0{2w}x" % n)` for `n < 256^w`: `w` bytes, big-endian -/
def beFixed : Nat → Nat → Bytes
  | 0, _ => []
  | w + 1, n => beFixed w (n / 256) ++ [n % 256]

/-- `int(hexlify(b), 16)` for non-empty `b` -/
def beDecode (b : Bytes) : Nat := b.foldl (fun acc x => acc * 256 + x) 0

/-! ## crypto interfaces -/

/-- `crypto_secretbox` / `crypto_secretbox_open` as functions of (key, nonce, message):
    `enc` returns MAC‖ciphertext, `dec` the plaintext or `none` -/
structure Box where
  enc : Bytes → Bytes → Bytes → Bytes
  dec : Bytes → Bytes → Bytes → Option Bytes

structure Env where
  box : Box
  /-- `HKDF(key, length, CTXinfo=…)` -/
  hkdf : Bytes → Nat → Bytes → Bytes
  transitKey : Bytes

inductive Err where
  | badNonce | cryptoError | valueError | typeError | assertion | binascii | runtimeError | attributeError
  deriving DecidableEq, Repr

def Err.name : Err → String
  | .badNonce => "BadNonce" | .cryptoError => "CryptoError" | .valueError => "ValueError"
  | .typeError => "TypeError" | .assertion => "AssertionError" | .binascii => "Error"
  | .runtimeError => "RuntimeError" | .attributeError => "AttributeError"

/-- PyNaCl's `SecretBox.decrypt(encrypted)` with the nonce prepended: the wrapper's own length
    checks, then `crypto_secretbox_open` -/
def secretBoxDecrypt (B : Box) (key encrypted : Bytes) : Except Err Bytes :=
  let nonce := encrypted.take Gen.C06.NONCE_SIZE
  let ct := encrypted.drop Gen.C06.NONCE_SIZE
  if nonce.length ≠ Gen.C06.NONCE_SIZE then .error .valueError      -- "The nonce must be exactly 24 bytes long"
  else if ct.length < Gen.C06.MACBYTES then .error .typeError       -- "Input ciphertext must be at least 16 long"
  else match B.dec key nonce ct with
    | some p => .ok p
    | none => .error .cryptoError

/-- `Common._sender_record_key()` (the key this side *sends* with) -/
def senderRecordKey (E : Env) (isSender : Bool) : Bytes :=
  if isSender then E.hkdf E.transitKey Gen.C06.len_sender_sendkey Gen.C06.ctx_sender_sendkey
  else E.hkdf E.transitKey Gen.C06.len_receiver_sendkey Gen.C06.ctx_receiver_sendkey

/-- `Common._receiver_record_key()` (the key this side *receives* with) -/
def receiverRecordKey (E : Env) (isSender : Bool) : Bytes :=
  if isSender then E.hkdf E.transitKey Gen.C06.len_sender_recvkey Gen.C06.ctx_sender_recvkey
  else E.hkdf E.transitKey Gen.C06.len_receiver_recvkey Gen.C06.ctx_receiver_recvkey

/-! ## connection state -/

inductive St where
  | records | hungUp
  deriving DecidableEq, Repr

/-- What application code does when one of its callbacks runs — *re-entrantly*, from inside
    `d.callback(…)` inside the connection's own loops.  Scripts are finite trees: every finite run
    of any application (also of a "keep reading forever" loop) is the run of its finite unfolding,
    so nothing is lost for the delivery / order theorems, and every run terminates. -/
inductive Act where
  /-- `d = receive_record(); d.addCallback(cb)` where `cb` runs `onFire` -/
  | read (onFire : List Act)
  /-- `d = connectConsumer(c, expected)` / `writeToFile(f, expected)`; `d.addCallback(cb)` where
      `cb` runs `onDone` (no Deferred when `expected` is `None`) -/
  | consume (expected : Option Nat) (onDone : List Act)
  /-- the application calls `disconnectConsumer()` -/
  | detach
  /-- the application calls `close()` -/
  | close
  /-- `pauseProducing()` / `resumeProducing()` on the connection (flow control by the application) -/
  | pause
  | resume
  /-- `connectConsumer` with a flow-controlled consumer: its `write()` calls `producer.pauseProducing()` every
      time (somebody resumes later) -/
  | consumeFC (expected : Option Nat) (onDone : List Act)

mutual
/-- size of a script (a termination measure: `Props.C06.agenda_fuel_sufficient`) -/
def Act.sz : Act → Nat
  | .read s => 4 + szList s
  | .consume _ s => 5 + szList s
  | .detach => 2
  | .close => 2
  | .pause => 2
  | .resume => 2
  | .consumeFC _ s => 5 + szList s
def szList : List Act → Nat
  | [] => 0
  | a :: as => a.sz + szList as
end

/-- a Deferred handed out by `receive_record()` and still in `_waiting_reads`.  `cb = none`: the
    application has not attached its callback yet (we are still inside that `receive_record()`
    call); `some s`: the callback is attached and will run script `s` -/
structure Reader where
  id : Nat
  cb : Option (List Act)

/-- `_consumer` attached: `_consumer_bytes_written`, `_consumer_bytes_expected`; `cid` names the
    Deferred returned by this `connectConsumer` call (it exists iff `expected` is not `None`), `cb`
    its callback, if attached already -/
structure Consumer where
  cid : Nat
  written : Nat
  expected : Option Nat
  cb : Option (List Act)

/-- everything the application / transport / consumer sees, in order -/
inductive Ev where
  | assigned (id : Nat) (r : Bytes) -- `d.callback(r)` executed by `_deliverRecords` (the record leaves the queue)
  | fired (id : Nat) (r : Bytes)   -- the application's read callback runs with `r`
  | failed (id : Nat)              -- the application's read errback runs (`ConnectionClosed`)
  | cwrite (r : Bytes)             -- `consumer.write(record)`
  | ckick                          -- `consumer.write(b"")` of `connectConsumer(expected=0)`
  | cdone (n : Nat)                -- the consumer Deferred's callback runs with the byte count
  | cfail                          -- consumer Deferred errbacked with `ConnectionClosed`
  | reg | unreg                    -- `consumer.registerProducer(self, True)` / `unregisterProducer()`
  | lose                           -- `transport.loseConnection()`
  | tx (b : Bytes)                 -- `transport.write(b)`
  | raised (e : Err)               -- an exception left an API call made by application code
  | tpause | tresume               -- `transport.pauseProducing()` / `transport.resumeProducing()`
  deriving DecidableEq, Repr

/-- one activation record of the connection's code that application callbacks can re-enter -/
inductive Frame where
  | deliver                               -- inside the `while` of `_deliverRecords()`
  | drain                                 -- inside the `while` of `connectConsumer()`
  | script (acts : List Act)              -- the rest of an application callback
  | attachRead (id : Nat) (s : List Act)  -- `receive_record()` has returned: `d.addCallbacks(…)`
  | attachCons (cid : Nat) (s : List Act) -- `connectConsumer()` has returned: `d.addCallbacks(…)`

/-- the part of `Connection` that `recordReceived` and the read/consumer API work on -/
structure App where
  inbound : List Bytes        -- `_inbound_records`
  waiting : List Reader       -- `_waiting_reads`
  consumer : Option Consumer  -- `_consumer` (+ written/expected/deferred)
  nextId : Nat                -- numbering of the read Deferreds handed out (first-occurrence index)
  nextCid : Nat               -- numbering of the `connectConsumer` calls
  /-- read Deferreds that were fired (`some r`) / failed (`none`) before a callback was attached -/
  storedReads : List (Nat × Option Bytes)
  /-- consumer Deferreds that were fired before a callback was attached: `cid ↦ written` -/
  storedDone : List (Nat × Nat)
  /-- the attached consumer is flow-controlled: every `write()` ends with `producer.pauseProducing()` -/
  fcConsumer : Bool
  log : List Ev

structure Conn where
  isSender : Bool             -- `owner.is_sender`
  state : St
  buf : Bytes
  sendNonce : Nat
  nextReceiveNonce : Nat
  error : Option Err          -- `_error`
  app : App

def App.init : App :=
  { inbound := [], waiting := [], consumer := none, nextId := 0, nextCid := 0, storedReads := [], storedDone := [],
    fcConsumer := false, log := [] }

/-- the connection as `_negotiationSuccessful` leaves it; `leftover` = bytes that arrived behind
    the handshake in the same `dataReceived` call -/
def Conn.init (isSender : Bool) (leftover : Bytes := []) : Conn :=
  { isSender := isSender, state := .records, buf := leftover, sendNonce := 0, nextReceiveNonce := 0,
    error := none, app := App.init }

def App.emit (a : App) (evs : List Ev) : App := { a with log := a.log ++ evs }

/-! ## `send_record` -/

/-- `send_record(record)`: the new state and the exception, if any.  The asserts come before any
    state change; `unhexlify("%08x" % len(encrypted))` fails (odd-length hex) *after*
    `send_nonce` was advanced when `len(encrypted) ≥ 2^32`. -/
def sendRecord (E : Env) (c : Conn) (record : Bytes) : Conn × Option Err :=
  if ¬ (c.sendNonce < 256 ^ 24) then (c, some .assertion)
  else if ¬ (record.length < 256 ^ 4) then (c, some .assertion)
  else
    let nonce := beFixed 24 c.sendNonce
    let c1 := { c with sendNonce := c.sendNonce + 1 }
    let encrypted := nonce ++ E.box.enc (senderRecordKey E c.isSender) nonce record
    if ¬ (encrypted.length < 256 ^ 4) then (c1, some .binascii)
    else ({ c1 with app := c1.app.emit [.tx (beFixed 4 encrypted.length), .tx encrypted] }, none)

/-! ## receiving -/

/-- `_decrypt_record(encrypted)`; the state is returned also on failure (`next_receive_nonce` is
    advanced before `decrypt`) -/
def decryptRecord (E : Env) (c : Conn) (encrypted : Bytes) : Conn × Except Err Bytes :=
  let nonceBuf := encrypted.take Gen.C06.NONCE_SIZE
  if nonceBuf.isEmpty then (c, .error .valueError)                  -- `int(b"", 16)`
  else
    let nonce := beDecode nonceBuf
    if nonce ≠ c.nextReceiveNonce then (c, .error .badNonce)
    else
      ({ c with nextReceiveNonce := c.nextReceiveNonce + 1 },
       secretBoxDecrypt E.box (receiverRecordKey E c.isSender) encrypted)

/-- `disconnectConsumer()` -/
def disconnectConsumer (a : App) : App := { a with consumer := none, log := a.log ++ [.unreg] }

/-- `d.callback(written)` on the consumer's Deferred (after `disconnectConsumer()`): the callback
    runs now if it is attached, else the result waits in the Deferred -/
def consumerDone (a : App) (k : Consumer) (w : Nat) : App × List Frame :=
  match k.cb with
  | some s => (a.emit [.cdone w], [.script s])
  | none => ({ a with storedDone := a.storedDone ++ [(k.cid, w)] }, [])

/-- `self._consumer.write(record)`; a flow-controlled consumer pauses us from inside `write()`:
    `pauseProducing()` only forwards to the transport, parsing is not affected -/
def writeEvents (a : App) (record : Bytes) (kick : Bool) : List Ev :=
  (if kick then Ev.ckick else Ev.cwrite record) :: (if a.fcConsumer then [Ev.tpause] else [])

/-- `_writeToConsumer(record)` with `_consumer` = `k` attached; `kick` marks the empty write of
    `connectConsumer(expected=0)`.  Result: the frames pushed by a callback that starts running. -/
def writeToConsumer (a : App) (k : Consumer) (record : Bytes) (kick : Bool) : App × List Frame :=
  let w := k.written + record.length
  let a1 := { a with consumer := some { k with written := w }, log := a.log ++ writeEvents a record kick }
  match k.expected with
  | some n => if w ≥ n then consumerDone (disconnectConsumer a1) k w else (a1, [])
  | none => (a1, [])

/-- `d.callback(r)` on a read Deferred popped from `_waiting_reads` -/
def fireRead (a : App) (d : Reader) (r : Bytes) : App × List Frame :=
  let a1 := a.emit [.assigned d.id r]
  match d.cb with
  | some s => (a1.emit [.fired d.id r], [.script s])
  | none => ({ a1 with storedReads := a1.storedReads ++ [(d.id, some r)] }, [])

/-- `d.errback(error.ConnectionClosed())` on a read Deferred (errbacks are passive) -/
def failRead (a : App) (d : Reader) : App :=
  match d.cb with
  | some _ => a.emit [.failed d.id]
  | none => { a with storedReads := a.storedReads ++ [(d.id, none)] }

/-- `close()` -/
def close (a : App) : App :=
  a.waiting.foldl failRead ({ a with waiting := [] }.emit [.lose])

/-- `connectionLost(reason)` after negotiation (`_negotiation_d` is `None`) -/
def connectionLost (a : App) : App :=
  let a1 := a.waiting.foldl failRead { a with waiting := [] }
  match a1.consumer with
  | some ⟨_, _, some _, _⟩ => a1.emit [.cfail]
  | _ => a1

/-- `d.addCallbacks(cb, eb)` on the read Deferred `id`, still waiting -/
def attachFirst (id : Nat) (s : List Act) : List Reader → List Reader
  | [] => []
  | d :: ds => if d.id = id then { d with cb := some s } :: ds else d :: attachFirst id s ds

/-- what Twisted passes to `connectionLost(reason)`: `Failure(ConnectionDone())` for an orderly close
    (FIN), `Failure(ConnectionLost())` for a reset, or nothing (`None`, as callers in tests do) -/
inductive LossReason where
  | done | reset | none
  deriving DecidableEq, Repr

/-- `connectionLost(reason)` with its argument: the method never looks at `reason` (pinned against the
    regenerated call skeleton by `Props.C06.connectionLost_ignores_reason`), so an orderly close cut into the
    stream by someone without the key is a loss like any other: pending reads and the consumer's Deferred fail -/
def connectionLostR (a : App) (_reason : LossReason) : App := connectionLost a

def lookupRead (l : List (Nat × Option Bytes)) (id : Nat) : Option (Option Bytes) :=
  (l.find? (fun p => p.1 == id)).map (·.2)

def lookupDone (l : List (Nat × Nat)) (cid : Nat) : Option Nat :=
  (l.find? (fun p => p.1 == cid)).map (·.2)

/-- `connectConsumer` from `self._consumer = consumer` on (the producer has been registered): counters, the
    Deferred, the kick for `expected == 0`, then the drain loop and the caller attaching its callback -/
def finishAttach (a : App) (ex : Option Nat) (fc : Bool) (s rest : List Act) : App × List Frame :=
  let k : Consumer := { cid := a.nextCid, written := 0, expected := ex, cb := none }
  let a1 := { a with consumer := some k, nextCid := a.nextCid + 1, fcConsumer := fc }
  match (if ex = some 0 then writeToConsumer a1 k [] true else (a1, [])) with
  | (a2, fs) => (a2, fs ++ [.drain, .attachCons k.cid s, .script rest])

/-- `connectConsumer(consumer, expected)` called from a script; `fc`: the consumer is flow-controlled.
    `consumer.registerProducer(self, True)` comes *before* `self._consumer` is set. -/
def attachConsumer (a : App) (ex : Option Nat) (fc : Bool) (s rest : List Act) : App × List Frame :=
  match a.consumer with
  | some _ => (a.emit [.raised .runtimeError], [])
  | none => finishAttach { a with log := a.log ++ [.reg] } ex fc s rest

/-- One step of the top activation record.  Result: the new state and the frames that replace the
    popped one (first = innermost).  Python's control flow, frame by frame:
    * `deliver`: `while self._inbound_records and self._waiting_reads: … d.callback(r)` — an attached
      callback runs *inside* the loop, which then re-tests its condition on whatever the callback left;
    * `drain`: `while self._consumer and self._inbound_records: … self._writeToConsumer(r)`;
    * `script`: the next API call of an application callback; an exception leaving the call ends the
      callback (the Deferred swallows it);
    * `attachRead` / `attachCons`: the API call has returned its Deferred and the application adds
      its callback — which runs at once if the Deferred has fired meanwhile. -/
def appStep (a : App) : Frame → App × List Frame
  | .deliver =>
    match a.inbound, a.waiting with
    | r :: rs, d :: ds =>
      match fireRead { a with inbound := rs, waiting := ds } d r with
      | (a', fs) => (a', fs ++ [.deliver])
    | _, _ => (a, [])
  | .drain =>
    match a.consumer, a.inbound with
    | some k, r :: rs =>
      match writeToConsumer { a with inbound := rs } k r false with
      | (a', fs) => (a', fs ++ [.drain])
    | _, _ => (a, [])
  | .script [] => (a, [])
  | .script (.read s :: rest) =>
    -- receive_record(): d = Deferred(); self._waiting_reads.append(d); self._deliverRecords(); return d
    ({ a with waiting := a.waiting ++ [⟨a.nextId, none⟩], nextId := a.nextId + 1 },
     [.deliver, .attachRead a.nextId s, .script rest])
  | .script (.consume ex s :: rest) => attachConsumer a ex false s rest
  | .script (.consumeFC ex s :: rest) => attachConsumer a ex true s rest
  -- `pauseProducing()` / `resumeProducing()`: `self.transport.pauseProducing()` / `.resumeProducing()`, nothing else
  | .script (.pause :: rest) => (a.emit [.tpause], [.script rest])
  | .script (.resume :: rest) => (a.emit [.tresume], [.script rest])
  | .script (.detach :: rest) =>
    match a.consumer with
    | none => (a.emit [.raised .attributeError], [])     -- `None.unregisterProducer()`
    | some _ => (disconnectConsumer a, [.script rest])
  | .script (.close :: rest) => (close a, [.script rest])
  | .attachRead id s =>
    match lookupRead a.storedReads id with
    | some (some r) =>
      ({ a with storedReads := a.storedReads.filter (fun p => p.1 != id) }.emit [.fired id r], [.script s])
    | some none =>
      ({ a with storedReads := a.storedReads.filter (fun p => p.1 != id) }.emit [.failed id], [])
    | none => ({ a with waiting := attachFirst id s a.waiting }, [])
  | .attachCons cid s =>
    match lookupDone a.storedDone cid with
    | some w =>
      ({ a with storedDone := a.storedDone.filter (fun p => p.1 != cid) }.emit [.cdone w], [.script s])
    | none =>
      match a.consumer with
      | some k => if k.cid = cid then ({ a with consumer := some { k with cb := some s } }, []) else (a, [])
      | none => (a, [])

/-- run the call stack (`agenda`, innermost frame first) until it is empty, at most `fuel` steps -/
def runAgenda : Nat → App → List Frame → App × List Frame
  | 0, a, ag => (a, ag)
  | _ + 1, a, [] => (a, [])
  | fuel + 1, a, fr :: ag =>
    match appStep a fr with
    | (a', fs) => runAgenda fuel a' (fs ++ ag)

def szOpt : Option (List Act) → Nat
  | none => 0
  | some s => szList s

def Frame.weight : Frame → Nat
  | .deliver => 1
  | .drain => 1
  | .script acts => 1 + szList acts
  | .attachRead _ s => 2 + szList s
  | .attachCons _ s => 2 + szList s

def agendaWeight (ag : List Frame) : Nat := (ag.map Frame.weight).sum

def consumerWeight : Option Consumer → Nat
  | some k => szOpt k.cb
  | none => 0

/-- what is left to do: every step of `runAgenda` makes it smaller (`Proofs.C06.appStep_decreases`) -/
def potential (a : App) (ag : List Frame) : Nat :=
  2 * a.inbound.length + (a.waiting.map (fun d => szOpt d.cb)).sum + consumerWeight a.consumer + agendaWeight ag

/-- run the call stack to completion; `potential` steps always suffice
    (`Props.C06.agenda_fuel_sufficient`) -/
def settle (a : App) (ag : List Frame) : App := (runAgenda (potential a ag) a ag).1

/-- `recordReceived(record)` -/
def recordReceived (a : App) (record : Bytes) : App :=
  match a.consumer with
  | some k =>
    match writeToConsumer a k record false with
    | (a1, fs) => settle a1 fs
  | none => settle { a with inbound := a.inbound ++ [record] } [.deliver]

/-- application code calling the API from outside any callback (top level) -/
def appCall (a : App) (acts : List Act) : App := settle a [.script acts]

/-- one frame off the front of the buffer: `(encrypted, rest)`; `none` = `return` (wait for more) -/
def parseFrame (buf : Bytes) : Option (Bytes × Bytes) :=
  if buf.length < 4 then none
  else
    let length := beDecode (buf.take 4)
    if buf.length < 4 + length then none
    else some ((buf.drop 4).take length, buf.drop (4 + length))

/-- `dataReceivedRECORDS()`: the `while True` loop; every turn that goes on removes ≥ 4 bytes from
    `buf`, so `buf.length + 1` turns suffice (`Props.C06.fuel_sufficient`).  Result: state and the
    exception that left the loop, if any. -/
def dataReceivedRECORDS (E : Env) : Nat → Conn → Conn × Option Err
  | 0, c => (c, none)
  | fuel + 1, c =>
    match parseFrame c.buf with
    | none => (c, none)
    | some (encrypted, rest) =>
      let c1 := { c with buf := rest }
      match decryptRecord E c1 encrypted with
      | (c2, .error e) => (c2, some e)
      | (c2, .ok record) => dataReceivedRECORDS E fuel { c2 with app := recordReceived c2.app record }

/-- the `except Exception as e` arm of `dataReceived` (none of these is `BadHandshake`, so the
    exception is re-raised to Twisted after this) -/
def hangUp (c : Conn) (e : Err) : Conn :=
  { c with error := some e, app := c.app.emit [.lose], state := .hungUp }

/-- `dataReceived(data)` in the states `"records"` / `"hung up"` -/
def dataReceived (E : Env) (c : Conn) (data : Bytes) : Conn × Option Err :=
  let c1 := { c with buf := c.buf ++ data }
  match c1.state with
  | .hungUp => (c1, none)
  | .records =>
    match dataReceivedRECORDS E (c1.buf.length + 1) c1 with
    | (c2, none) => (c2, none)
    | (c2, some e) => (hangUp c2 e, some e)

/-! ## runs -/

inductive Op where
  | data (b : Bytes)
  /-- application code (not inside a callback) makes these API calls -/
  | call (acts : List Act)
  | lost

def step (E : Env) (c : Conn) : Op → Conn
  | .data b => (dataReceived E c b).1
  | .call acts => { c with app := appCall c.app acts }
  | .lost => { c with app := connectionLost c.app }

def run (E : Env) (c : Conn) (ops : List Op) : Conn := ops.foldl (step E) c

/-- a byte stream arriving in chunks -/
def feed (E : Env) (c : Conn) (chunks : List Bytes) : Conn := run E c (chunks.map .data)

/-! ## a transport that really holds data back while paused

`pauseProducing()` makes the transport keep what arrives; `transport.resumeProducing()` hands the held chunks to
`dataReceived` *synchronously* (in-memory / loopback transports do; an exception leaving `dataReceived` is logged by
the transport and the next chunk follows).  That re-enters the connection from wherever the resume came from.
Modelled for the two places where the connection is not in the middle of anything else: the application resuming
at top level, and `connectConsumer` (at top level) with a consumer that says "ready" by calling
`producer.resumeProducing()` from its `registerProducer()` — at which point `_consumer` is not yet set, so what
the held bytes yield is queued (or read) *before* the consumer gets the older queued records. -/

structure HConn where
  c : Conn
  held : List Bytes

inductive HOp where
  | op (o : Op)
  | hold (b : Bytes)                                   -- bytes arrive while the transport is paused
  | resume                                             -- the application calls `resumeProducing()` (top level)
  | attachReady (ex : Option Nat) (s : List Act)       -- `connectConsumer` with a consumer that resumes in `registerProducer`

/-- the transport delivers what it held, chunk by chunk -/
def deliverHeld (E : Env) (c : Conn) (held : List Bytes) : Conn :=
  held.foldl (fun c b =>
    match dataReceived E c b with
    | (c', none) => c'
    | (c', some e) => { c' with app := c'.app.emit [.raised e] }) c

def hstep (E : Env) (h : HConn) : HOp → HConn
  | .op o => { h with c := step E h.c o }
  | .hold b => { h with held := h.held ++ [b] }
  | .resume => { c := deliverHeld E { h.c with app := h.c.app.emit [.tresume] } h.held, held := [] }
  | .attachReady ex s =>
    match h.c.app.consumer with
    | some _ => { h with c := { h.c with app := h.c.app.emit [.raised .runtimeError] } }
    | none =>
      -- consumer.registerProducer(self, True) -> producer.resumeProducing() -> the held bytes, *then* self._consumer = …
      let c2 := deliverHeld E { h.c with app := h.c.app.emit [.reg, .tresume] } h.held
      match finishAttach c2.app ex false s [] with
      | (a3, fs) => { c := { c2 with app := settle a3 fs }, held := [] }

def hrun (E : Env) (h : HConn) (ops : List HOp) : HConn := ops.foldl (hstep E) h

/-! ## several `Connection` objects in one process

Every `Connection` object has its own buffer, counters, queues and consumer: `__init__` builds them, nothing lives on
the class or the module.  A process with several live connections — both ends of one link, several links with
different transit keys at once, a new session after an earlier one has ended with unread records still queued — is
therefore the *product* of the per-connection models: an event on connection `i` is `hstep` on component `i`, under
that link's own environment `Es i` (its transit key), and every other component stays as it was
(`Props.C06.links_independent`).  A new connection starts as `Conn.init`, whatever the process has seen before. -/

/-- apply `f` to the `i`-th object of the process; all the others are untouched -/
def updAt {α : Type} : List α → Nat → (α → α) → List α
  | [], _, _ => []
  | x :: xs, 0, f => f x :: xs
  | x :: xs, i + 1, f => x :: updAt xs i f

inductive POp where
  /-- a new `Connection` object finishes its negotiation (`leftover` rode behind the handshake) -/
  | start (isSender : Bool) (leftover : Bytes)
  /-- something happens to connection `i`: bytes, an application call, a loss report, the transport holding / releasing -/
  | on (i : Nat) (o : HOp)

/-- one event in a process with the connections `p` (in order of creation); `Es i` is the environment of connection `i` -/
def pstep (Es : Nat → Env) (p : List HConn) : POp → List HConn
  | .start b left => p ++ [{ c := (dataReceived (Es p.length) (Conn.init b) left).1, held := [] }]
  | .on i o => updAt p i (fun h => hstep (Es i) h o)

def prun (Es : Nat → Env) (p : List HConn) (ops : List POp) : List HConn := ops.foldl (pstep Es) p

/-- the events of a process schedule that concern connection `i` -/
def opsOf (i : Nat) : List POp → List HOp
  | [] => []
  | .on j o :: rest => if j = i then o :: opsOf i rest else opsOf i rest
  | .start _ _ :: rest => opsOf i rest

/-- `send_record` for each record in turn (stops at the first exception) -/
def sendMany (E : Env) : Conn → List Bytes → Conn × Option Err
  | c, [] => (c, none)
  | c, r :: rs =>
    match sendRecord E c r with
    | (c1, none) => sendMany E c1 rs
    | (c1, some e) => (c1, some e)

/-! ## observations -/

def Ev.payload : Ev → Option Bytes
  | .assigned _ r => some r
  | .cwrite r => some r
  | _ => none

/-- records handed to the application (to a read Deferred or to the consumer), in the order in which
    they left the connection -/
def App.delivered (a : App) : List Bytes := a.log.filterMap Ev.payload

/-- records accepted from the wire: delivered ones, then the ones still queued -/
def App.surfaced (a : App) : List Bytes := a.delivered ++ a.inbound

def Ev.txBytes : Ev → Bytes
  | .tx b => b
  | _ => []

/-- everything written to the transport, concatenated -/
def App.wire (a : App) : Bytes := (a.log.map Ev.txBytes).flatten

def Ev.cw : Ev → Option Bytes
  | .cwrite r => some r
  | _ => none

/-- what the consumer was given -/
def App.consumerWrites (a : App) : List Bytes := a.log.filterMap Ev.cw

def Ev.doneVal : Ev → Option Nat
  | .cdone n => some n
  | _ => none

def App.dones (a : App) : List Nat := a.log.filterMap Ev.doneVal

/-- the honest wire image of one record: 4-byte length, 24-byte nonce, sealed box -/
def blob (E : Env) (key : Bytes) (i : Nat) (r : Bytes) : Bytes :=
  beFixed 24 i ++ E.box.enc key (beFixed 24 i) r

def frame (b : Bytes) : Bytes := beFixed 4 b.length ++ b

def wireOf (E : Env) (key : Bytes) : Nat → List Bytes → Bytes
  | _, [] => []
  | i, r :: rs => frame (blob E key i r) ++ wireOf E key (i + 1) rs

/-! ## ideal properties of the primitives (hypotheses of the theorems, never axioms) -/

/-- The ideal AEAD functionality for one direction: under the record key `k`, the boxes the honest
    sender made — record `i` of `rs` under nonce `i` — open, and nothing else does.  (`only` is what
    "the adversary does not hold the key" means; real XSalsa20-Poly1305 satisfies it up to forgery
    probability, which is what stays trusted.) -/
structure IdealFor (B : Box) (k : Bytes) (rs : List Bytes) : Prop where
  len_enc : ∀ n m, (B.enc k n m).length = m.length + Gen.C06.MACBYTES
  opens : ∀ i (h : i < rs.length), B.dec k (beFixed 24 i) (B.enc k (beFixed 24 i) rs[i]) = some rs[i]
  only : ∀ n c m, B.dec k n c = some m →
    ∃ i, ∃ h : i < rs.length, n = beFixed 24 i ∧ m = rs[i] ∧ c = B.enc k n m

/-- HKDF is injective in `CTXinfo` (for a fixed key and length) -/
def HkdfInjective (hkdf : Bytes → Nat → Bytes → Bytes) : Prop :=
  ∀ key len i i', hkdf key len i = hkdf key len i' → i = i'

/-! ## call skeleton of the model (what `WV.Gen.C06.skeleton` must agree with) -/

def modelSkeleton : String → List (String × String)
  | "dataReceived" => [("try", "self._dataReceived"), ("except", "self.setTimeout"), ("except", "transport.loseConnection")]
  | "dataReceivedRECORDS" => [("while", "self._decrypt_record"), ("while", "self.recordReceived")]
  | "_decrypt_record" => [("if", "BadNonce"), ("-", "receive_box.decrypt")]
  | "send_record" => [("-", "send_box.encrypt"), ("-", "transport.write"), ("-", "transport.write")]
  | "recordReceived" => [("if", "self._writeToConsumer"), ("-", "self._deliverRecords")]
  | "receive_record" => [("-", "defer.Deferred"), ("-", "self._deliverRecords")]
  | "_deliverRecords" => [("while", "d.callback")]
  | "close" => [("-", "transport.loseConnection"), ("while", "error.ConnectionClosed"), ("while", "d.errback")]
  | "connectionLost" => [("-", "self.setTimeout"), ("while", "error.ConnectionClosed"), ("while", "d.errback"),
                         ("if", "BadHandshake"), ("if", "d.errback"), ("if", "error.ConnectionClosed"),
                         ("if", "_consumer_deferred.errback")]
  | "connectConsumer" => [("if", "RuntimeError"), ("-", "consumer.registerProducer"), ("if", "defer.Deferred"),
                          ("if", "self._writeToConsumer"), ("while", "self._writeToConsumer")]
  | "_writeToConsumer" => [("-", "_consumer.write"), ("if/if", "self.disconnectConsumer"), ("if/if", "d.callback")]
  | "disconnectConsumer" => [("-", "_consumer.unregisterProducer")]
  | "writeToFile" => [("-", "FileConsumer"), ("-", "self.connectConsumer")]
  | "_negotiationSuccessful" => [("-", "self.setTimeout"), ("-", "owner._sender_record_key"), ("-", "SecretBox"),
                                 ("-", "owner._receiver_record_key"), ("-", "SecretBox"), ("-", "d.callback")]
  | _ => []

def skeletonMethods : List String :=
  ["dataReceived", "dataReceivedRECORDS", "_decrypt_record", "send_record", "recordReceived", "receive_record",
   "_deliverRecords", "close", "connectionLost", "connectConsumer", "_writeToConsumer", "disconnectConsumer",
   "writeToFile", "_negotiationSuccessful"]

/-! ## driver (line protocol)

A process of model connections, named `S` / `R` (the two ends of the first link; `is_sender` = the name starts with
`S`), `S1` / `R1`, `S2` / `R2`, … (further links, each with its own transit key), and one table of sealings
`(key, nonce, sealed, plaintext)`: the ideal AEAD functionality.  Keys are named by link and `CTXinfo` (the driver's
`hkdf` returns `transit key ++ CTXinfo`; the transit key of link `k` is the digits of `k`, of the first link empty).
Every line acts on the one connection it names (`updAt`), the others are untouched.

```
start <name> <hex leftover>                 -> summary      (a NEW connection object, as _negotiationSuccessful leaves it)
seal <hex ctxinfo> <hex nonce> <hex pt> <hex sealed>  -> ok   (register a sealing made by a key holder)
send <S|R> <hex pt> <hex sealed>            -> summary      (send_record; registers the sealing under the
                                                             model's own send key and nonce first)
data <S|R> <hex>                            -> summary      (dataReceived)
call <S|R> <script>                         -> summary      (application code, outside any callback, makes
                                                             these API calls; a callback's own script is nested)
hold <S|R> <hex>                            -> summary      (bytes the paused transport keeps back)
resume <S|R>                                -> summary      (top-level resumeProducing(): held chunks are delivered)
attachready <S|R> <E|n> <script>            -> summary      (connectConsumer with a consumer that resumes in registerProducer)
lost <S|R> <done|reset|none>                -> summary      (connectionLost(reason): FIN / reset / no argument)
```
summary = `<ok|ExceptionName> st=… buf=<len> sn=… rn=… q=<queued> wait=<ids> cons=<written/expected|-> ev=[new events]`

script = `-` (nothing) or postfix tokens joined by `.`: `d` = disconnectConsumer(), `x` = close(), `p` / `u` =
pauseProducing() / resumeProducing(), `f<E>:<N>` = like `c` with a consumer that pauses its producer in every write(),
`r<N>` = receive_record() whose callback runs the N actions before it, `c<E>:<N>` = connectConsumer(expected
= E, `n` for None) whose Deferred's callback runs the N actions before it.  E.g. `r0.r1` = a read whose
callback reads again; `r0.c5:1` = attach a consumer for 5 bytes and, when it is done, read one record.
-/

structure Sealing where
  key : Bytes
  nonce : Bytes
  sealed : Bytes
  pt : Bytes

/-- newest sealing first; the lookups compare the most discriminating field first (speed only) -/
def tableBox (t : List Sealing) : Box :=
  { enc := fun k n m =>
      match t.find? (fun s => s.nonce == n && s.pt == m && s.key == k) with
      | some s => s.sealed
      | none => [],
    dec := fun k n c =>
      match t.find? (fun s => s.sealed == c && s.nonce == n && s.key == k) with
      | some s => some s.pt
      | none => none }

/-- the link a connection name belongs to: `S` / `R` are the two ends of the first link, `S1` / `R1`, `S2` / `R2`, …
    those of further links, each with its own transit key -/
def linkOf (w : String) : Bytes := (w.toList.drop 1).map Char.toNat

def validName (w : String) : Bool := (w.startsWith "S" || w.startsWith "R") && (w.toList.drop 1).all Char.isDigit

/-- keys are named by transit key (= link) and `CTXinfo`: the driver's `hkdf` returns `key ++ CTXinfo`; the first
    link's transit key is empty -/
def drvEnv (t : List Sealing) (w : String) : Env :=
  { box := tableBox t, hkdf := fun key _ info => key ++ info, transitKey := linkOf w }

/-- the process: every connection object made so far, in order of creation, each with what its transport holds -/
structure DrvSt where
  table : List Sealing
  names : List String
  proc : List HConn

def drvInit : DrvSt := { table := [], names := [], proc := [] }

def nameIdx : List String → String → Option Nat
  | [], _ => none
  | n :: ns, w => if n == w then some 0 else (nameIdx ns w).map (· + 1)

def showEv : Ev → Option String
  | .assigned _ _ => none          -- not visible from outside at the time it happens
  | .fired id r => some s!"r{id}={toHex r}"
  | .failed id => some s!"x{id}"
  | .cwrite r => some s!"w={toHex r}"
  | .ckick => some "w=-"
  | .cdone n => some s!"cd={n}"
  | .cfail => some "cx"
  | .reg => some "reg"
  | .unreg => some "unreg"
  | .lose => some "lose"
  | .tx b => some s!"tx={toHex b}"
  | .raised e => some ("!" ++ e.name)
  | .tpause => some "pause"
  | .tresume => some "resume"

def showConn (old : Nat) (c : Conn) (exc : Option Err) : String :=
  let st := match c.state with | .records => "records" | .hungUp => "hung-up"
  let cons := match c.app.consumer with
    | none => "-"
    | some k => s!"{k.written}/" ++ (match k.expected with | some n => toString n | none => "none")
  let e := match exc with | none => "ok" | some x => x.name
  let err := match c.error with | none => "-" | some x => x.name
  s!"{e} st={st} err={err} buf={c.buf.length} sn={c.sendNonce} rn={c.nextReceiveNonce} q={c.app.inbound.length} wait=[{showNats (c.app.waiting.map (·.id))}] cons={cons} ev=[{" ".intercalate ((c.app.log.drop old).filterMap showEv)}]"

def popN (n : Nat) (stack : List Act) : Option (List Act × List Act) :=
  if stack.length < n then none else some ((stack.take n).reverse, stack.drop n)

/-- one postfix token applied to the stack (top first) -/
def scriptToken (stack : List Act) (t : String) : Option (List Act) :=
  if t == "d" then some (.detach :: stack)
  else if t == "x" then some (.close :: stack)
  else if t == "p" then some (.pause :: stack)
  else if t == "u" then some (.resume :: stack)
  else if t.startsWith "r" then do
    let n ← (String.ofList (t.toList.drop 1)).toNat?
    let (kids, rest) ← popN n stack
    pure (.read kids :: rest)
  else if t.startsWith "c" || t.startsWith "f" then
    match (String.ofList (t.toList.drop 1)).splitOn ":" with
    | [e, n] => do
      let ex ← if e == "n" then some none else e.toNat?.map some
      let n ← n.toNat?
      let (kids, rest) ← popN n stack
      pure ((if t.startsWith "f" then Act.consumeFC ex kids else Act.consume ex kids) :: rest)
    | _ => none
  else none

def parseScript (tok : String) : Option (List Act) :=
  if tok == "-" then some []
  else ((tok.splitOn ".").foldlM scriptToken []).map List.reverse

def getConn (s : DrvSt) (w : String) : Option (Nat × HConn) :=
  match nameIdx s.names w with
  | none => none
  | some i => (s.proc[i]?).map (fun h => (i, h))

/-- apply `f` to the named connection (and to nothing else: `updAt`) and print the summary with the events it added -/
def onConn (s : DrvSt) (w : String) (f : HConn → HConn × Option Err) : DrvSt × String :=
  match getConn s w with
  | none => (s, "bad-op")
  | some (i, h) =>
    let (h', e) := f h
    ({ s with proc := updAt s.proc i (fun _ => h') }, showConn h.c.app.log.length h'.c e)

def stepLine (s : DrvSt) (line : String) : DrvSt × String :=
  match tokens line with
  | ["reset"] => (drvInit, "ok")
  | ["start", w, h] =>
    match fromHex? h with
    | some left =>
      if validName w then
        -- a new Connection object: `_negotiationSuccessful()`, then `_dataReceived` falls through to the records branch
        let (c1, e) := dataReceived (drvEnv s.table w) (Conn.init (w.startsWith "S")) left
        let h1 : HConn := { c := c1, held := [] }
        match nameIdx s.names w with
        | some i => ({ s with proc := updAt s.proc i (fun _ => h1) }, showConn 0 c1 e)
        | none => ({ s with names := s.names ++ [w], proc := s.proc ++ [h1] }, showConn 0 c1 e)
      else (s, "bad-op")
    | none => (s, "bad-op")
  | ["seal", ctx, n, p, sl] =>
    match fromHex? ctx, fromHex? n, fromHex? p, fromHex? sl with
    | some ctx, some n, some p, some sl =>
      ({ s with table := { key := ctx, nonce := n, sealed := sl, pt := p } :: s.table }, "ok")
    | _, _, _, _ => (s, "bad-op")
  | ["send", w, p, sl] =>
    match fromHex? p, fromHex? sl, getConn s w with
    | some p, some sl, some (_, h) =>
      let E0 := drvEnv s.table w
      let t := { key := senderRecordKey E0 h.c.isSender, nonce := beFixed 24 h.c.sendNonce, sealed := sl, pt := p } :: s.table
      let s1 := { s with table := t }
      onConn s1 w (fun h => let (c', e) := sendRecord (drvEnv t w) h.c p; ({ h with c := c' }, e))
    | _, _, _ => (s, "bad-op")
  | ["data", w, h] =>
    match fromHex? h with
    | some b => onConn s w (fun h => let (c', e) := dataReceived (drvEnv s.table w) h.c b; ({ h with c := c' }, e))
    | none => (s, "bad-op")
  | ["call", w, sc] =>
    match parseScript sc with
    | some acts => onConn s w (fun h => (hstep (drvEnv s.table w) h (.op (.call acts)), none))
    | none => (s, "bad-op")
  | ["hold", w, h] =>
    match fromHex? h with
    | some b => onConn s w (fun h => (hstep (drvEnv s.table w) h (.hold b), none))
    | none => (s, "bad-op")
  | ["resume", w] => onConn s w (fun h => (hstep (drvEnv s.table w) h .resume, none))
  | ["attachready", w, e, sc] =>
    let ex? : Option (Option Nat) := if e == "n" then some none else e.toNat?.map some
    match ex?, parseScript sc with
    | some ex, some acts => onConn s w (fun h => (hstep (drvEnv s.table w) h (.attachReady ex acts), none))
    | _, _ => (s, "bad-op")
  | ["lost", w, why] =>
    let r? : Option LossReason :=
      if why == "done" then some .done else if why == "reset" then some .reset else if why == "none" then some .none
      else none
    match r? with
    | some r => onConn s w (fun h => ({ h with c := { h.c with app := connectionLostR h.c.app r } }, none))
    | none => (s, "bad-op")
  | _ => (s, "bad-op")

def driver (lines : List String) : List String := runLines stepLine drvInit lines

end WV.C06
