import WV.Model.Basic
import WV.Gen.Tables
import WV.Gen.Flags

/-!
# The composed mailbox client, control level (`WV.Client`)

One `wormhole.create()` client: the thirteen Automat machines wired by `Boss._build_workers`
(tables *generated* from /repo), the `RendezvousConnector` glue, the Dilator stub (no `dilate()`),
and the application façade seen as the sequence of `W.*` calls.  Payload-free: phases are classes,
bodies are "decrypts / does not decrypt", so that the reachable control space is finite and can be
certified; the data the code keeps (phase numbers, reorder buffer, pending list) lives in
`WV.ClientData` on top and never influences the control step except through `classify`.

Automat semantics (automat/_methodical.py): look up `(state, input)`; absent → `NoTransition`
*before any change*; else set the new state first, then run the outputs in order, each a normal
Python call that may re-enter any machine depth-first.  That is the agenda interpreter `run`.
A Python exception unwinds every frame: the agenda is discarded; state changes made so far stay.
-/
namespace WV.Client
open WV.Gen

/-- phase classes (what `Order.got_message`, `Boss.got_message` branch on) -/
inductive PhaseC where
  | pake | version | num | dilate | other
  deriving DecidableEq, Repr, Inhabited, Hashable

inductive Mood where
  | happy | lonely | scary | errory | unwelcome
  deriving DecidableEq, Repr, Inhabited, Hashable

/-- `Boss._result` -/
inductive Verdict where
  | empty | happy | lonely | wrongPassword | serverError | welcomeError | internalError | connectionError
  deriving DecidableEq, Repr, Inhabited, Hashable

/-- peer PAKE body classes -/
inductive PakeKind where
  | good        -- has pake_v1 and SPAKE2 accepts the element
  | noField     -- not JSON / not an object / no pake_v1 / not hex  → got_pake_bad → scared
  | invalid     -- SPAKE2 raises (reflection, malformed element) → compute_key tells the Boss `scared`
  deriving DecidableEq, Repr, Inhabited, Hashable

/-- exceptions -/
inductive Exn where
  | noTransition (machine : String) (state : String) (input : String)
  | assertion (what : String)
  | fuel
  | onlyOneCode | keyFormat | mustChooseNameplateFirst | alreadyChoseNameplate | alreadyChoseWords
  | spake                      -- SPAKE2 rejected the peer element
  | attribute (what : String)  -- AttributeError
  deriving DecidableEq, Repr, Inhabited

def Exn.name : Exn → String
  | .noTransition m s i => s!"NoTransition({m}.{s}.{i})"
  | .assertion _ => "AssertionError"
  | .fuel => "Fuel"
  | .onlyOneCode => "OnlyOneCodeError"
  | .keyFormat => "KeyFormatError"
  | .mustChooseNameplateFirst => "MustChooseNameplateFirstError"
  | .alreadyChoseNameplate => "AlreadyChoseNameplateError"
  | .alreadyChoseWords => "AlreadyChoseWordsError"
  | .spake => "SPAKEError"
  | .attribute _ => "AttributeError"

/-- documented errors raised *to the application* by API calls; everything else is internal -/
def Exn.documented : Exn → Bool
  | .onlyOneCode | .keyFormat | .mustChooseNameplateFirst | .alreadyChoseNameplate | .alreadyChoseWords => true
  | _ => false

/-- commands to the server -/
inductive Cmd where
  | bind | claim | release | open_ | add (ph : PhaseC) | close (mood : Mood) | list | allocate
  deriving DecidableEq, Repr, Inhabited

/-- application-visible events (`W.*` calls) -/
inductive AppEv where
  | welcome | code | key | verifier | versions | received | closed (v : Verdict)
  deriving DecidableEq, Repr, Inhabited

/-- what one step lets the outside observe -/
inductive Obs where
  | tx (c : Cmd)
  | drainAdds            -- `Mailbox._drain`: one `add` per entry of `_pending_outbound` (expanded by the data layer)
  | sendDrain            -- `Send.drain`: one encrypted `add_message` per queued plaintext (expanded by the data layer)
  | numAlloc             -- `Boss.S_send` took the next tx phase number
  | sQueue               -- `Send.queue` kept it
  | mQueue (ph : PhaseC) -- `Mailbox.queue`: `_pending_outbound[phase] = body`
  | mDequeue             -- `Mailbox.dequeue`: `_pending_outbound.pop(phase, None)`
  | accepted             -- `Mailbox._processed.add(phase)`
  | ev (e : AppEv)
  | stopService          -- `ClientService.stopService()` called
  deriving DecidableEq, Repr, Inhabited

structure Ctl where
  b : Boss.State := Boss.init
  n : Nameplate.State := Nameplate.init
  m : Mailbox.State := Mailbox.init
  t : Terminator.State := Terminator.init
  c : Code.State := Code.init
  a : Allocator.State := Allocator.init
  l : Lister.State := Lister.init
  i : Input.State := Input.init
  k : Key.State := Key.init
  sk : SortedKey.State := SortedKey.init
  o : Order.State := Order.init
  r : Receive.State := Receive.init
  s : Send.State := Send.init
  -- RendezvousConnector
  wsOpen : Bool := false           -- `_ws` is set
  halfOpen : Bool := false       -- a TCP connection exists, its WebSocket handshake has not finished
  wsClosing : Bool := false      -- the websocket has left the OPEN state (closing handshake begun): sendMessage refuses
  everConnected : Bool := false    -- `_have_made_a_successful_connection`
  stopping : Bool := false         -- `_stopping`
  stopPending : Bool := false      -- stopService() called, its Deferred not fired yet
  -- data bits that steer control
  didStartCode : Bool := false     -- `Boss._did_start_code`
  helper : Bool := false           -- `input_code()` returned a helper
  pakeProcessed : Bool := false    -- "pake" ∈ Mailbox._processed
  versionProcessed : Bool := false -- "version" ∈ Mailbox._processed
  orderQ : List (PhaseC × Bool) := []  -- Order._queue (phase class, decrypts)
  sendQ : Bool := false            -- Send._queue non-empty
  haveNameplate : Bool := false    -- Nameplate._nameplate
  haveMailbox : Bool := false      -- Mailbox._mailbox
  mood : Option Mood := none       -- Mailbox._mood
  rKey : Bool := false             -- Receive._key
  sKey : Bool := false             -- Send._key
  spStarted : Bool := false        -- _SortedKey._sp exists
  stashedPake : PakeKind := .good  -- Key._pake (meaningful in S01)
  result : Verdict := .empty       -- Boss._result
  deriving DecidableEq, Repr, Inhabited

/-- arguments travelling with calls (one record for all, fields used as needed) -/
structure Arg where
  ph : PhaseC := .other
  new : Bool := true        -- phase ∉ Mailbox._processed (for num/dilate/other; pake/version use the Ctl flags)
  good : Bool := true       -- the body decrypts under derive_phase_key(key, side, phase)
  mood : Mood := .lonely
  pake : PakeKind := .good
  valid : Bool := true      -- validate_code / validate_nameplate accept
  verdict : Verdict := .empty
  deriving DecidableEq, Repr, Inhabited

/-- agenda items -/
inductive Item where
  | B (i : Boss.Input) | N (i : Nameplate.Input) | M (i : Mailbox.Input) | T (i : Terminator.Input)
  | C (i : Code.Input) | A (i : Allocator.Input) | L (i : Lister.Input) | I (i : Input.Input)
  | K (i : Key.Input) | SK (i : SortedKey.Input) | O (i : Order.Input) | R (i : Receive.Input) | S (i : Send.Input)
  | oB (o : Boss.Output) | oN (o : Nameplate.Output) | oM (o : Mailbox.Output) | oT (o : Terminator.Output)
  | oC (o : Code.Output) | oA (o : Allocator.Output) | oL (o : Lister.Output) | oI (o : Input.Output)
  | oK (o : Key.Output) | oSK (o : SortedKey.Output) | oO (o : Order.Output) | oR (o : Receive.Output) | oS (o : Send.Output)
  -- plain (non-Automat) methods and glue
  | tx (c : Cmd)                 -- RendezvousConnector._tx: `assert self._ws`
  | rcStop                       -- RendezvousConnector.stop
  | dStop                        -- Dilator.stop (no manager): T.stoppedD()
  | w (e : AppEv)                -- a call on the façade
  | setNameplate                 -- Nameplate.set_nameplate: validate, then _set_nameplate
  | acceptTail                   -- second half of N_release_and_accept (after N.release() returned)
  | orderGot                     -- Order.got_message: pake vs non-pake
  | orderDrainTail               -- loop of Order.drain
  | orderClear                   -- `self._queue[:] = []` after the loop
  | drainPending                 -- Mailbox._drain: RC.tx_add for every pending entry (`assert self._ws` each)
  | receiveGot                   -- Receive.got_message: assert key, decrypt, good/bad
  | skGotPake                    -- _SortedKey.got_pake: pake_v1 present?
  | bossGotMessage               -- Boss.got_message: phase dispatch
  | raise (e : Exn)
  | obs (o : Obs)                -- make something observable at this point of the call order
  deriving DecidableEq, Repr, Inhabited

abbrev Agenda := List (Item × Arg)

structure RunSt where
  ctl : Ctl
  obs : List Obs := []     -- newest first
  deriving Repr

inductive StepR where
  | cont (s : RunSt) (push : Agenda)
  | fail (s : RunSt) (e : Exn)

def noTrans (s : RunSt) (mach st inp : String) : StepR := .fail s (.noTransition mach st inp)

def emit (s : RunSt) (o : Obs) : RunSt := { s with obs := o :: s.obs }

/-- push the outputs of a row, all carrying the input's argument -/
def outs {α} (mk : α → Item) (os : List α) (a : Arg) : Agenda := os.map (fun o => (mk o, a))

/-- one agenda item -/
def exec (s : RunSt) (it : Item) (a : Arg) : StepR :=
  let c := s.ctl
  match it with
  -- ---- Automat dispatch: state first, then outputs in order
  | .B i => match Boss.table c.b i with
    | some (st, os) => .cont { s with ctl := { c with b := st } } (outs .oB os a)
    | none => noTrans s "Boss" c.b.name i.name
  | .N i => match Nameplate.table c.n i with
    | some (st, os) => .cont { s with ctl := { c with n := st } } (outs .oN os a)
    | none => noTrans s "Nameplate" c.n.name i.name
  | .M i => match Mailbox.table c.m i with
    | some (st, os) => .cont { s with ctl := { c with m := st } } (outs .oM os a)
    | none => noTrans s "Mailbox" c.m.name i.name
  | .T i => match Terminator.table c.t i with
    | some (st, os) => .cont { s with ctl := { c with t := st } } (outs .oT os a)
    | none => noTrans s "Terminator" c.t.name i.name
  | .C i => match Code.table c.c i with
    | some (st, os) => .cont { s with ctl := { c with c := st } } (outs .oC os a)
    | none => noTrans s "Code" c.c.name i.name
  | .A i => match Allocator.table c.a i with
    | some (st, os) => .cont { s with ctl := { c with a := st } } (outs .oA os a)
    | none => noTrans s "Allocator" c.a.name i.name
  | .L i => match Lister.table c.l i with
    | some (st, os) => .cont { s with ctl := { c with l := st } } (outs .oL os a)
    | none => noTrans s "Lister" c.l.name i.name
  | .I i => match Input.table c.i i with
    | some (st, os) => .cont { s with ctl := { c with i := st } } (outs .oI os a)
    | none => noTrans s "Input" c.i.name i.name
  | .K i => match Key.table c.k i with
    | some (st, os) => .cont { s with ctl := { c with k := st } } (outs .oK os a)
    | none => noTrans s "Key" c.k.name i.name
  | .SK i => match SortedKey.table c.sk i with
    | some (st, os) => .cont { s with ctl := { c with sk := st } } (outs .oSK os a)
    | none => noTrans s "_SortedKey" c.sk.name i.name
  | .O i => match Order.table c.o i with
    | some (st, os) => .cont { s with ctl := { c with o := st } } (outs .oO os a)
    | none => noTrans s "Order" c.o.name i.name
  | .R i => match Receive.table c.r i with
    | some (st, os) => .cont { s with ctl := { c with r := st } } (outs .oR os a)
    | none => noTrans s "Receive" c.r.name i.name
  | .S i => match Send.table c.s i with
    | some (st, os) => .cont { s with ctl := { c with s := st } } (outs .oS os a)
    | none => noTrans s "Send" c.s.name i.name
  -- ---- Boss outputs
  | .oB o => match o with
    | .do_got_code => .cont s [(.w .code, a)]
    | .process_version => .cont s [(.w .versions, a)]      -- D.got_wormhole_versions: Dilator stub
    | .S_send => .cont (emit s .numAlloc) [(.S .send, a)]
    | .close_unwelcome => .cont { s with ctl := { c with result := .welcomeError } } [(.T .close, { a with mood := .unwelcome })]
    | .close_error => .cont { s with ctl := { c with result := .serverError } } [(.T .close, { a with mood := .errory })]
    | .close_scared => .cont { s with ctl := { c with result := .wrongPassword } } [(.T .close, { a with mood := .scary })]
    | .close_lonely => .cont { s with ctl := { c with result := .lonely } } [(.T .close, { a with mood := .lonely })]
    | .close_happy => .cont { s with ctl := { c with result := .happy } } [(.T .close, { a with mood := .happy })]
    | .W_got_key => .cont s [(.w .key, a)]
    | .D_got_key => .cont s []
    | .D_received_dilate => .cont s []                        -- Dilator stub buffers it
    | .send_status_peer_key | .send_status_confirmed_key | .send_status_closed => .cont s []
    | .W_got_verifier => .cont s [(.w .verifier, a)]
    | .W_received => .cont s [(.w .received, a)]
    | .W_close_with_error => .cont { s with ctl := { c with result := a.verdict } } [(.w (.closed a.verdict), a)]
    | .W_closed => .cont s [(.w (.closed c.result), a)]
  -- ---- Nameplate outputs
  | .oN o => match o with
    | .record_nameplate => .cont { s with ctl := { c with haveNameplate := true } } []
    | .record_nameplate_and_RC_tx_claim => .cont { s with ctl := { c with haveNameplate := true } } [(.tx .claim, a)]
    | .RC_tx_claim => .cont s [(.tx .claim, a)]
    | .I_got_wordlist => .cont s [(.I .got_wordlist, a)]
    | .M_got_mailbox => .cont s [(.M .got_mailbox, a)]
    | .RC_tx_release => if c.haveNameplate then .cont s [(.tx .release, a)] else .fail s (.assertion "self._nameplate")
    | .T_nameplate_done => .cont s [(.T .nameplate_done, a)]
    | .send_status_code_allocated | .send_status_code_consumed => .cont s []
  -- ---- Mailbox outputs
  | .oM o => match o with
    | .record_mailbox => .cont { s with ctl := { c with haveMailbox := true } } []
    | .RC_tx_open => if c.haveMailbox then .cont s [(.tx .open_, a)] else .fail s (.assertion "self._mailbox")
    | .queue => .cont (emit s (.mQueue a.ph)) []
    | .record_mailbox_and_RC_tx_open_and_drain =>
      .cont { s with ctl := { c with haveMailbox := true } } [(.tx .open_, a), (.drainPending, a)]
    | .drain => .cont s [(.drainPending, a)]
    | .RC_tx_add => .cont s [(.tx (.add a.ph), a)]
    | .N_release_and_accept => .cont s [(.N .release, a), (.acceptTail, a)]
    | .RC_tx_close => match c.mood with
      | some md => .cont s [(.tx (.close md), a)]
      | none => .fail s (.attribute "_mood")
    | .dequeue => .cont (emit s .mDequeue) []
    | .record_mood => .cont { s with ctl := { c with mood := some a.mood } } []
    | .record_mood_and_RC_tx_close => .cont { s with ctl := { c with mood := some a.mood } } [(.tx (.close a.mood), a)]
    | .ignore_mood_and_T_mailbox_done | .T_mailbox_done => .cont s [(.T .mailbox_done, a)]
  -- ---- Terminator outputs
  | .oT o => match o with
    | .close_nameplate => .cont s [(.N .close, a)]
    | .close_mailbox => .cont s [(.M .close, a)]
    | .ignore_mood_and_RC_stop | .RC_stop => .cont s [(.rcStop, a)]
    | .stop_dilator => .cont s [(.dStop, a)]
    | .B_closed => .cont s [(.B .closed, a)]
  -- ---- Code outputs
  | .oC o => match o with
    | .do_set_code => .cont s [(.setNameplate, a), (.B .got_code, a), (.K .got_code, a)]
    | .do_start_input => .cont s [(.I .start, a)]
    | .do_middle_input => .cont s [(.setNameplate, a)]
    | .do_finish_input => .cont s [(.B .got_code, a), (.K .got_code, a)]
    | .do_start_allocate => .cont s [(.A .allocate, a)]
    | .do_finish_allocate => .cont s [(.setNameplate, a), (.B .got_code, a), (.K .got_code, a)]
  -- ---- Allocator outputs
  | .oA o => match o with
    | .stash => .cont s []
    | .stash_and_RC_rx_allocate | .RC_tx_allocate => .cont s [(.tx .allocate, a)]
    | .build_and_notify => .cont s [(.C .allocated, a)]
  -- ---- Lister outputs
  | .oL o => match o with
    | .RC_tx_list => .cont s [(.tx .list, a)]
    | .I_got_nameplates => .cont s [(.I .got_nameplates, a)]
  -- ---- Input outputs
  | .oI o => match o with
    | .do_start => .cont { s with ctl := { c with helper := true } } [(.L .refresh, a)]
    | .do_refresh => .cont s [(.L .refresh, a)]
    | .record_nameplates | .u_get_nameplate_completions | .record_wordlist | .notify_wordlist_waiters
    | .no_word_completions => .cont s []
    | .u_get_word_completions => .cont s []                    -- `assert self._wordlist`: set by record_wordlist on the way into S3
    | .record_all_nameplates => .cont s [(.C .got_nameplate, a)]
    | .raise_must_choose_nameplate1 | .raise_must_choose_nameplate2 => .fail s .mustChooseNameplateFirst
    | .raise_already_chose_nameplate1 | .raise_already_chose_nameplate2 | .raise_already_chose_nameplate3 =>
      .fail s .alreadyChoseNameplate
    | .raise_already_chose_words1 | .raise_already_chose_words2 => .fail s .alreadyChoseWords
    | .do_words => .cont s [(.C .finished_input, a)]
  -- ---- Key outputs
  | .oK o => match o with
    | .stash_pake => .cont { s with ctl := { c with stashedPake := a.pake } } []
    | .deliver_code => .cont s [(.SK .got_code, a)]
    | .deliver_pake => .cont s [(.skGotPake, a)]
    | .deliver_code_and_stashed_pake => .cont s [(.SK .got_code, a), (.skGotPake, { a with pake := c.stashedPake })]
  -- ---- _SortedKey outputs
  | .oSK o => match o with
    | .build_pake => .cont { s with ctl := { c with spStarted := true } } [(.M .add_message, { a with ph := .pake })]
    | .scared => .cont s [(.B .scared, a)]
    | .compute_key =>
      -- `self._sp.finish(msg2)` raising (malformed or reflected element) is caught: `self._B.scared(); return`
      if a.pake = .invalid then .cont s [(.B .scared, a)]
      else .cont s [(.B .got_key, a), (.M .add_message, { a with ph := .version }), (.R .got_key, a)]
  -- ---- Order outputs
  | .oO o => match o with
    | .queue => .cont { s with ctl := { c with orderQ := c.orderQ ++ [(a.ph, a.good)] } } []
    | .notify_key => .cont s [(.K .got_pake, a)]
    | .drain => .cont s [(.orderDrainTail, a)]
    | .deliver => .cont s [(.receiveGot, a)]
  -- ---- Receive outputs
  | .oR o => match o with
    | .record_key => .cont { s with ctl := { c with rKey := true } } []
    | .S_got_verified_key => if c.rKey then .cont s [(.S .got_verified_key, a)] else .fail s (.assertion "self._key")
    | .W_happy => .cont s [(.B .happy, a)]
    | .W_got_verifier => .cont s [(.B .got_verifier, a)]
    | .W_got_message => .cont s [(.bossGotMessage, a)]
    | .W_scared => .cont s [(.B .scared, a)]
  -- ---- Send outputs
  | .oS o => match o with
    | .queue => .cont (emit { s with ctl := { c with sendQ := true } } .sQueue) []
    | .record_key => .cont { s with ctl := { c with sKey := true } } []
    | .drain =>
      if c.sendQ then
        if c.sKey then .cont (emit { s with ctl := { c with sendQ := false } } .sendDrain) [(.M .add_message, { a with ph := .num })]
        else .fail s (.assertion "self._key")
      else .cont s []
    | .deliver => if c.sKey then .cont s [(.M .add_message, { a with ph := .num })] else .fail s (.assertion "self._key")
  -- ---- glue
  | .tx cmd =>
    -- `assert self._ws`; then `try: self._ws.sendMessage(...) except Disconnected: pass` — a websocket that is
    -- already closing refuses the frame, which is simply not sent (the machines re-send what was not answered)
    if !c.wsOpen then .fail s (.assertion "self._ws")
    else if c.wsClosing then .cont s []
    else .cont (emit s (.tx cmd)) []
  | .rcStop =>
    -- RendezvousConnector.stop: _stopping = True; d = stopService(); d.addBoth(self._stopped).
    -- ClientService.stopService() fires at once when there is no connection, otherwise after the
    -- connection has been closed (`svcStopped` event).
    if c.wsOpen || c.halfOpen then .cont (emit { s with ctl := { c with stopping := true, stopPending := true } } .stopService) []
    else .cont (emit { s with ctl := { c with stopping := true } } .stopService) [(.T .stoppedRC, a)]
  | .dStop => .cont s [(.T .stoppedD, a)]
  | .w e => .cont (emit s (.ev e)) []
  | .setNameplate => if a.valid then .cont s [(.N .u_set_nameplate, a)] else .fail s .keyFormat
  | .acceptTail =>
    let isNew := match a.ph with
      | .pake => !c.pakeProcessed
      | .version => !c.versionProcessed
      | _ => a.new
    if isNew then
      let c' := match a.ph with
        | .pake => { c with pakeProcessed := true }
        | .version => { c with versionProcessed := true }
        | _ => c
      .cont (emit { s with ctl := c' } .accepted) [(.orderGot, a)]
    else .cont s []
  | .orderGot => if a.ph = .pake then .cont s [(.O .got_pake, a)] else .cont s [(.O .got_non_pake, a)]
  | .orderDrainTail =>
    -- for (side, phase, body) in self._queue: self._deliver(...) ; then self._queue[:] = []
    -- an exception in a delivery leaves the queue as it was (the clear is never reached)
    -- whether a queued body decrypts is only decided now, under the key just computed: the PAKE
    -- event's `good` flag says whether it came from the holder of our code; a queued message opens
    -- under the new key iff it was sealed by that participant (its own flag) and the PAKE is theirs
    .cont s (c.orderQ.map (fun (ph, g) => (Item.receiveGot, { a with ph := ph, good := g && a.good })) ++ [(.orderClear, a)])
  | .drainPending => .cont (emit s .drainAdds) []
  | .orderClear => .cont { s with ctl := { c with orderQ := [] } } []
  | .raise e => .fail s e
  | .obs o => .cont (emit s o) []
  | .receiveGot =>
    if !c.rKey then .cont s [(.R .got_message_bad, a)]   -- `if self._key is None: self.got_message_bad()`
    else if a.good then .cont s [(.R .got_message_good, a)] else .cont s [(.R .got_message_bad, a)]
  | .skGotPake =>
    match a.pake with
    | .noField => .cont s [(.SK .got_pake_bad, a)]
    | _ => .cont s [(.SK .got_pake_good, a)]
  | .bossGotMessage =>
    match a.ph with
    | .version => .cont s [(.B .u_got_version, a)]
    | .dilate => .cont s [(.B .u_got_dilate, a)]
    | .num => .cont s [(.B .u_got_phase, a)]
    | _ => .cont s []        -- unknown phase: log.err(_UnknownPhaseError), ignored

/-- depth-first agenda run.  Result: final state, and the exception that unwound the stack -/
def run : Nat → RunSt → Agenda → RunSt × Option Exn
  | 0, s, [] => (s, none)
  | 0, s, _ => (s, some .fuel)
  | _ + 1, s, [] => (s, none)
  | fuel + 1, s, (it, a) :: rest =>
    match exec s it a with
    | .cont s' push => run fuel s' (push ++ rest)
    | .fail s' e => (s', some e)

def FUEL : Nat := 400

/-! ## events -/

inductive Side where | ours | theirs
  deriving DecidableEq, Repr, Inhabited, Hashable

inductive Event where
  -- application
  | setCode (valid : Bool) | allocateCode | inputCode
  | hRefresh | hNameplateCompletions | hChooseNameplate (valid : Bool) | hWordCompletions | hChooseWords
  | send | close
  -- connection
  | tcpUp | wsOpen | wsClosing | wsClose | wsFail | failInitial | svcStopped
  -- server → client frames
  | welcome (err : Bool) | claimed | released | closedResp | allocated | nameplates | ack | serverError
  | message (side : Side) (ph : PhaseC) (new : Bool) (good : Bool) (pake : PakeKind)
  deriving DecidableEq, Repr, Inhabited

/-- who sees an exception: the application (API call) or nobody (callback from the reactor) -/
inductive Outcome where
  | ok
  | apiError (e : Exn)      -- documented error raised to the caller
  | internal (e : Exn)      -- NoTransition / assertion / anything undocumented
  deriving DecidableEq, Repr, Inhabited

def classifyExn (e : Exn) : Outcome := if e.documented then .apiError e else .internal e

/-- API entry points: exceptions go to the caller -/
def api (c : Ctl) (ag : Agenda) : Ctl × List Obs × Outcome :=
  match run FUEL { ctl := c } ag with
  | (s, none) => (s.ctl, s.obs.reverse, .ok)
  | (s, some e) => (s.ctl, s.obs.reverse, classifyExn e)

/-- `ws_open` / `ws_message` handlers: `except Exception as e: self._B.error(e); raise` -/
def guarded (c : Ctl) (ag : Agenda) : Ctl × List Obs × Outcome :=
  match run FUEL { ctl := c } ag with
  | (s, none) => (s.ctl, s.obs.reverse, .ok)
  | (s, some e) =>
    match run FUEL s [(.B .k_error, { verdict := .internalError })] with
    | (s2, _) => (s2.ctl, s2.obs.reverse, .internal e)

def step (c : Ctl) : Event → Ctl × List Obs × Outcome
  | .setCode valid =>
    -- Boss.set_code: validate_code, then the latch, then C.set_code (validates again)
    if !valid then (c, [], .apiError .keyFormat)
    else if c.didStartCode then (c, [], .apiError .onlyOneCode)
    else api { c with didStartCode := true } [(.C .u_set_code, {})]
  | .allocateCode =>
    if c.didStartCode then (c, [], .apiError .onlyOneCode)
    else api { c with didStartCode := true } [(.C .allocate_code, {})]
  | .inputCode =>
    if c.didStartCode then (c, [], .apiError .onlyOneCode)
    else api { c with didStartCode := true } [(.C .input_code, {})]
  | .hRefresh => api c [(.I .refresh_nameplates, {})]
  | .hNameplateCompletions => api c [(.I .get_nameplate_completions, {})]
  | .hChooseNameplate valid =>
    if !valid then (c, [], .apiError .keyFormat) else api c [(.I .u_choose_nameplate, {})]
  | .hWordCompletions => api c [(.I .get_word_completions, {})]
  | .hChooseWords => api c [(.I .choose_words, {})]
  | .send => api c [(.B .send, {})]
  | .close => api c [(.B .close, {})]
  | .tcpUp =>
    -- the ClientService has a TCP connection, the WebSocket negotiation is under way: nothing is told to anybody
    -- (whenConnected's Deferred fires, RendezvousConnector only hangs an errback on it)
    if c.wsOpen || c.halfOpen then (c, [], .ok) else ({ c with halfOpen := true }, [], .ok)
  | .wsClosing =>
    -- the server begins the closing handshake: nothing is told to anybody yet (onClose comes with the loss)
    if c.wsOpen then ({ c with wsClosing := true }, [], .ok) else (c, [], .ok)
  | .wsOpen =>
    -- ws_open: _have_made_a_successful_connection, _ws, then try: bind; N/M/L/A.connected()
    guarded { c with wsOpen := true, halfOpen := false, wsClosing := false, everConnected := true }
      [(.tx .bind, {}), (.N .connected, {}), (.M .connected, {}), (.L .connected, {}), (.A .connected, {})]
  | .wsClose =>
    -- ws_close: was_open = bool(_ws); _ws = None; if was_open: N/M/L/A.lost()   (no handler: an
    -- exception here escapes to Twisted).  A close without any prior open is the event `wsFail`.
    if !c.wsOpen then (c, [], .ok)
    else match api { c with wsOpen := false, wsClosing := false } [(.N .lost, {}), (.M .lost, {}), (.L .lost, {}), (.A .lost, {})] with
      | (c2, obs, .apiError e) => (c2, obs, .internal e)
      | r => r
  | .wsFail =>
    -- ws_close without a preceding ws_open (the TCP connection came up but the WebSocket
    -- negotiation failed): was_open is False, so the machines are not told; only if there has
    -- NEVER been a successful connection is it treated as a failed initial connection:
    -- stopService (immediate: the fake/real service has no established connection), then
    -- B.error(ServerConnectionError) — note: no `_stopping` check on this path
    if c.wsOpen then (c, [], .ok)
    else if c.everConnected then ({ c with halfOpen := false }, [], .ok)
    else match api { c with halfOpen := false } [(.B .k_error, { verdict := .connectionError })] with
      | (c2, obs, .apiError e) => (c2, .stopService :: obs, .internal e)
      | (c2, obs, oc) => (c2, .stopService :: obs, oc)
  | .failInitial =>
    -- _initial_connection_failed: if not self._stopping: stopService (immediate: no connection);
    -- B.error(ServerConnectionError)
    if c.stopping then (c, [], .ok)
    else match api c [(.B .k_error, { verdict := .connectionError })] with
      | (c2, obs, .apiError e) => (c2, .stopService :: obs, .internal e)
      | (c2, obs, oc) => (c2, .stopService :: obs, oc)
  | .svcStopped =>
    -- the connection closed by stopService() is gone (ws_close), then its Deferred fires:
    -- _stopped → T.stoppedRC()
    if !c.stopPending then (c, [], .ok)
    else
      -- a connection that was still negotiating goes away without ever having been open: ws_close with
      -- was_open = False; on the very first connection that counts as a failed initial connection:
      -- stopService() again — the service is already stopping, so this Deferred fires after the one
      -- RendezvousConnector.stop() is waiting on — and then B.error(ServerConnectionError)
      let ag : Agenda := (if c.wsOpen then [(.N .lost, {}), (.M .lost, {}), (.L .lost, {}), (.A .lost, {})] else [])
                          ++ [(.T .stoppedRC, {})]
                          ++ (if c.halfOpen && !c.wsOpen && !c.everConnected then [(.B .k_error, { verdict := .connectionError })] else [])
      let pre : List Obs := if c.halfOpen && !c.wsOpen && !c.everConnected then [.stopService] else []
      match api { c with stopPending := false, wsOpen := false, halfOpen := false, wsClosing := false } ag with
      | (c2, obs, .apiError e) => (c2, pre ++ obs, .internal e)
      | (c2, obs, oc) => (c2, pre ++ obs, oc)
  | .welcome err =>
    -- Boss.rx_welcome: error → rx_unwelcome(WelcomeError) else W.got_welcome
    if err then guarded c [(.B .rx_unwelcome, {})] else guarded c [(.w .welcome, {})]
  | .claimed => guarded c [(.N .rx_claimed, {})]
  | .released => guarded c [(.N .rx_released, {})]
  | .closedResp => guarded c [(.M .rx_closed, {})]
  | .allocated => guarded c [(.A .rx_allocated, {})]
  | .nameplates => guarded c [(.L .rx_nameplates, {})]
  | .ack => (c, [], .ok)
  | .serverError => guarded c [(.B .rx_error, {})]
  | .message side ph new good pake =>
    match side with
    | .ours => guarded c [(.M .rx_message_ours, { ph := ph })]
    | .theirs => guarded c [(.M .rx_message_theirs, { ph := ph, new := new, good := good, pake := pake })]

end WV.Client
