import WV.Model.Basic
import WV.Gen.Transit

/-!
C07 — transit picks exactly one connection, chosen by the sender, key holders only.

Model of `src/wormhole/transit.py`:
`Connection` (handshake part: `startNegotiation`, `dataReceived`, `_check_and_remove`,
`_dataReceived`, `_negotiationSuccessful`, `_cancel`, `timeoutConnection`, `connectionLost`,
the `TimeoutMixin` timer), `Common.connection_ready`, `InboundConnectionFactory`,
`_ThereCanBeOnlyOne`, `Common._connect` / `_not_forever` / `_start_connector`, and the
`task.Clock` that drives the timers.  The order of the `if self.state == …` arms of
`_dataReceived`, the wire literals and the three time constants are *generated*
(`WV.Gen.Transit`).  The handshake strings depend on the transit key through HKDF; here they
are parameters of the configuration (`Cfg`), the harness passes the real ones.

Two environments: `run`/`drun` (inbound connections exactly while the listening port is open) and the
wider `runL`/`drunL`, which add LATE contenders — connections the port hands to the factory after the
selection was made (`evAccept`, `lateLinkS`).  Theorems about the former: `WV.Props.C07`; about the
latter: `WV.Props.C07_Late`.
-/
namespace WV.C07
open WV

/-! ## `Connection` -/

inductive CState where
  | tooEarly | relay | start | handshake | waitForDecision | go | nevermind | records | hungUp
  deriving DecidableEq, Repr

def CState.name : CState → String
  | .tooEarly => "too-early" | .relay => "relay" | .start => "start" | .handshake => "handshake"
  | .waitForDecision => "wait-for-decision" | .go => "go" | .nevermind => "nevermind"
  | .records => "records" | .hungUp => "hung-up"

/-- exception classes that occur -/
inductive Err where
  | badHandshake | cancelled | assertion | valueError | attributeError | recordError
  | connectError | transitError | unmodelled
  | other (name : String)            -- any other exception class an endpoint's connect() can fail with
  deriving DecidableEq, Repr

def Err.name : Err → String
  | .badHandshake => "BadHandshake" | .cancelled => "CancelledError" | .assertion => "AssertionError"
  | .valueError => "ValueError" | .attributeError => "AttributeError" | .recordError => "RecordError"
  | .connectError => "ConnectionRefusedError" | .transitError => "TransitError" | .unmodelled => "UNMODELLED"
  | .other n => n

/-- `Connection._negotiation_d` -/
inductive NegD where
  | pending | ok | fail (e : Err)
  deriving DecidableEq, Repr

/-- a `DelayedCall`: (absolute time in seconds, creation sequence number) -/
abbrev Timer := Nat × Nat

structure Conn where
  state : CState
  buf : Bytes
  relayHs : Option Bytes       -- `relay_handshake`
  out : List Bytes             -- arguments of `transport.write`, in order
  lost : Nat                   -- number of `transport.loseConnection()` calls
  err : Option Err             -- `_error`
  negD : NegD
  timer : Option Timer         -- `TimeoutMixin`'s delayed call, if active
  gone : Bool                  -- `connectionLost` has been delivered
  owner : Option Nat           -- contender index of the outbound connector; `none` = inbound
  rx : Bytes                   -- history variable: every byte ever given to `dataReceived`
  deriving Repr

/-- what the connection's owner (`Common`) knows; the strings are functions of the transit key -/
structure Cfg where
  isSender : Bool
  sendThis : Bytes             -- `_send_this()`
  expectThis : Bytes           -- `_expect_this()`
  relayHs : Bytes              -- `_build_relay_handshake()`
  /-- `dataReceivedRECORDS` on the buffer (C06's subject): `none` = it raised, `some rest` = the
      unconsumed rest of the buffer.  Arbitrary in all theorems. -/
  recLayer : Bytes → Option Bytes
  /-- the buffer `dataReceivedRECORDS` leaves behind when it raises (the record it choked on has
      already been sliced off).  Arbitrary in all theorems. -/
  recRest : Bytes → Bytes
  /-- the *description* (`"->tcp:host:port"`, `"->relay:tcp:host:port"`) of outbound contender `k`,
      as a number: equal keys = the peer's hints name the same host:port twice.  Arbitrary in all
      theorems; only the variant `_connect` that keeps its contenders in a dict looks at it. -/
  hintKey : Nat → Nat := id
  /-- does building the endpoint of outbound contender `k` (`endpoint_from_hint_obj`) raise?
      Observed by the harness on the real function; arbitrary in all theorems. -/
  hintRaises : Nat → Bool := fun _ => false
  /-- is the transit key known before the listener is started (`wormhole receive`), or only later
      (`wormhole send`: `get_connection_hints()` before `set_transit_key()`)?  Arbitrary in all theorems. -/
  keyAtStart : Bool := true

/-- `_check_and_remove`: `none` = `BadHandshake`; `(false, _)` = keep waiting -/
def checkAndRemove (buf expected : Bytes) : Option (Bool × Bytes) :=
  if !((expected.take buf.length).isPrefixOf buf) then none
  else if buf.length < expected.length then some (false, buf)
  else some (true, buf.drop expected.length)

/-- `Common.connection_ready(p)`: new `_winner` and the state string returned -/
def connectionReady (cfg : Cfg) (winner : Option Nat) (i : Nat) : Option Nat × CState :=
  if !cfg.isSender then (winner, .waitForDecision)
  else if Gen.Transit.connection_ready_checks_winner && winner.isSome then (winner, .nevermind)
  else (some i, .go)

inductive Arm where
  | relay | start | handshake | wait | go | nevermind | records | hungUp
  deriving DecidableEq, Repr

def Arm.ofName? : String → Option Arm
  | "relay" => some .relay | "start" => some .start | "handshake" => some .handshake
  | "wait-for-decision" => some .wait | "go" => some .go | "nevermind" => some .nevermind
  | "records" => some .records | "hung up" => some .hungUp | _ => none

/-- the dispatch order of `_dataReceived`, from the source -/
def arms : List (Option Arm) := Gen.Transit.arms.map Arm.ofName?

/-- the part of the world one `dataReceived` call can touch -/
structure Ctx where
  winner : Option Nat                 -- `owner._winner`
  c : Conn
  fired : Option (Option Err)         -- `_negotiation_d` fired in this call: `some none` = callback(self)
  deriving Repr

inductive Flow where
  | next (x : Ctx)                    -- fall through to the next `if`
  | ret (x : Ctx)                     -- `return`
  | raise (e : Err) (x : Ctx)

/-- `_negotiationSuccessful` -/
def negotiationSuccessful (x : Ctx) : Flow :=
  let c := { x.c with state := .records, timer := none }
  match c.negD with
  | .pending => .next { x with c := { c with negD := .ok }, fired := some none }
  | _ => .raise .attributeError { x with c := c }      -- `None.callback`

def runArm (cfg : Cfg) (i : Nat) (a : Arm) (x : Ctx) : Flow :=
  match a with
  | .relay =>
    if x.c.state = .relay then
      match checkAndRemove x.c.buf Gen.Transit.RELAY_OK with
      | none => .raise .badHandshake x
      | some (false, _) => .ret x
      | some (true, rest) => .next { x with c := { x.c with buf := rest, state := .start } }
    else .next x
  | .start =>
    if x.c.state = .start then
      .next { x with c := { x.c with out := x.c.out ++ [cfg.sendThis], state := .handshake } }
    else .next x
  | .handshake =>
    if x.c.state = .handshake then
      match checkAndRemove x.c.buf cfg.expectThis with
      | none => .raise .badHandshake x
      | some (false, _) => .ret x
      | some (true, rest) =>
        let (w', st) := connectionReady cfg x.winner i
        .next { x with winner := w', c := { x.c with buf := rest, state := st } }
    else .next x
  | .wait =>
    if x.c.state = .waitForDecision then
      match checkAndRemove x.c.buf Gen.Transit.GO_EXPECTED with
      | none => .raise .badHandshake x
      | some (false, _) => .ret x
      | some (true, rest) => negotiationSuccessful { x with c := { x.c with buf := rest } }
    else .next x
  | .go =>
    if x.c.state = .go then
      negotiationSuccessful { x with c := { x.c with out := x.c.out ++ [Gen.Transit.GO] } }
    else .next x
  | .nevermind =>
    if x.c.state = .nevermind then
      .raise .badHandshake { x with c := { x.c with out := x.c.out ++ [Gen.Transit.NEVERMIND] } }
    else .next x
  | .records =>
    if x.c.state = .records then
      match cfg.recLayer x.c.buf with
      | none => .raise .recordError { x with c := { x.c with buf := cfg.recRest x.c.buf } }
      | some rest => .ret { x with c := { x.c with buf := rest } }
    else .next x
  | .hungUp =>
    if x.c.state = .hungUp then .ret x else .next x

/-- the body of `_dataReceived` after `self.buf += data`: the arms in source order; falling off
    the end is `raise ValueError("internal error: unknown state")` -/
def runArms (cfg : Cfg) (i : Nat) : List (Option Arm) → Ctx → Flow
  | [], x => .raise .valueError x
  | none :: _, x => .raise .unmodelled x
  | some a :: rest, x =>
    match runArm cfg i a x with
    | .next x' => runArms cfg i rest x'
    | f => f

/-- `dataReceived(data)` on connection `i`.  Second component: the exception that propagates to
    the caller (everything but `BadHandshake`). -/
def dataRecv (cfg : Cfg) (winner : Option Nat) (i : Nat) (c : Conn) (data : Bytes) : Ctx × Option Err :=
  let c1 := { c with buf := c.buf ++ data, rx := c.rx ++ data }
  let x0 : Ctx := { winner := winner, c := c1, fired := none }
  let fl := if c1.state = .tooEarly then Flow.raise .assertion x0 else runArms cfg i arms x0
  match fl with
  | .next x => (x, none)
  | .ret x => (x, none)
  | .raise e x =>
    ({ x with c := { x.c with timer := none, err := some e, lost := x.c.lost + 1, state := .hungUp } },
     if e = .badHandshake then none else some e)

/-- `startNegotiation()` -/
def startNegotiation (cfg : Cfg) (winner : Option Nat) (i : Nat) (c : Conn) : Ctx × Option Err :=
  let c1 := match c.relayHs with
    | some r => { c with out := c.out ++ [r], state := .relay }
    | none => { c with state := .start }
  dataRecv cfg winner i c1 []

/-- `_negotiation_d.cancel()` while it is pending: `_cancel`, then Deferred.cancel errbacks it -/
def cancelConn (c : Conn) : Conn :=
  { c with state := .hungUp, err := some .cancelled, lost := c.lost + 1, negD := .fail .cancelled }

/-- `timeoutConnection()` (the timer has just fired) -/
def timeoutConn (c : Conn) : Conn :=
  { c with timer := none, err := some .badHandshake, lost := c.lost + 1 }

/-- `connectionLost()`: new connection, and the failure `_negotiation_d` is errbacked with -/
def connLost (c : Conn) : Conn × Option Err :=
  let c1 := { c with timer := none, gone := true }
  match c1.negD with
  | .pending =>
    let e := match c1.err with | some e => e | none => .badHandshake
    ({ c1 with negD := .fail e }, some e)
  | _ => (c1, none)

def newConn (relayHs : Option Bytes) (owner : Option Nat) (timer : Timer) : Conn :=
  { state := .tooEarly, buf := [], relayHs := relayHs, out := [], lost := 0, err := none,
    negD := .pending, timer := some timer, gone := false, owner := owner, rx := [] }

/-! ## the supervisor: `InboundConnectionFactory`, `_ThereCanBeOnlyOne`, `_connect`, `_not_forever` -/

inductive Kind where
  | listener | direct | relay (priority : Nat)
  deriving DecidableEq, Repr

inductive Phase where
  | idle                         -- `connect()` not called yet
  | listening                    -- the listener's `_inbound_d`, not fired
  | delayed (t : Timer)          -- `task.deferLater` pending
  | connecting                   -- `ep.connect(f)` pending
  | negotiating (i : Nat)        -- chained to connection `i`'s `_negotiation_d`
  | done (r : Option Err) (w : Nat)   -- fired: `none` = success with connection `w`
  deriving DecidableEq, Repr

structure Contender where
  kind : Kind
  phase : Phase
  attached : Bool                -- `_ThereCanBeOnlyOne.run` has added its callbacks
  deriving DecidableEq, Repr

inductive Res where
  | pending | ok (i : Nat) | fail (e : Err)
  deriving DecidableEq, Repr

structure World where
  cfg : Cfg
  now : Nat
  seq : Nat                         -- DelayedCall creation counter
  winner : Option Nat               -- `Common._winner`
  conns : Nat → Option Conn
  n : Nat                           -- connections created so far
  fPending : List Nat               -- `InboundConnectionFactory._pending_connections`
  portOpen : Bool                   -- the listening port exists and `stopListening()` has not been called
  hasKey : Bool                     -- `set_transit_key()` has been called
  cont : List Contender             -- listener first (if any), then direct hints, then relay hints
  started : Bool                    -- `connect()` called
  t0 : Nat                          -- … at this time
  remaining : List Nat              -- `_ThereCanBeOnlyOne._remaining`
  haveWinner : Bool
  firstSuccess : Option Nat
  firstFailure : Option Err
  fired : Bool                      -- `_fired`
  deadline : Option Timer           -- `_not_forever`'s delayed call, if active
  result : Res                      -- what `connect()`'s Deferred fired with
  firedCount : Nat                  -- history variable: times `_winner_d` was callback'd/errback'd

def World.setConn (w : World) (i : Nat) (c : Conn) : World :=
  { w with conns := fun j => if j = i then some c else w.conns j }

def setPhase (cont : List Contender) (k : Nat) (p : Phase) : List Contender :=
  cont.modify k (fun c => { c with phase := p })

def phaseOf (w : World) (k : Nat) : Option Phase := (w.cont[k]?).map (·.phase)

/-- `_maybe_done` followed by the callbacks on `_winner_d` (`_not_forever._done`, then
    `connect()`'s inlineCallbacks returns the result) -/
def maybeDone (w : World) : World :=
  if !w.remaining.isEmpty then w
  else if w.fired then w
  else
    let r : Res := if w.haveWinner then
        (match w.firstSuccess with | some i => .ok i | none => .fail .unmodelled)
      else (match w.firstFailure with | some e => .fail e | none => .fail .unmodelled)
    { w with fired := true, firedCount := w.firedCount + 1, deadline := none, result := r }

/-- is contender `k` the listener's `_listener_d` ?  Its first callback (added by `_listening` in
    `_get_direct_hints`, before `connect()` can add any other) is the one that stops the port; the
    generated flags say whether it runs on callback and on errback (`addBoth` = both). -/
def isListener (cont : List Contender) (k : Nat) : Bool :=
  match cont[k]? with
  | some c => decide (c.kind = .listener)
  | none => false

/-- the only-one callbacks of contender `k` after it failed: `_remove`, `_failed`, `_maybe_done` -/
def failCallbacks (w : World) (k : Nat) (e : Err) : World :=
  let w1 := { w with remaining := w.remaining.erase k,
                     firstFailure := match w.firstFailure with | some f => some f | none => some e }
  maybeDone w1

/-- contender `k`'s Deferred errbacks with `e` -/
def fireFail (w : World) (k : Nat) (e : Err) : World :=
  let att := match w.cont[k]? with | some c => c.attached | none => false
  let w1 := { w with cont := setPhase w.cont k (.done (some e) 0),
                     portOpen := w.portOpen && !(isListener w.cont k && Gen.Transit.listener_stop_on_errback) }
  if att then failCallbacks w1 k e else w1

/-- cancel connection `i`'s pending `_negotiation_d` (no callbacks run here) -/
def cancelConnAt (w : World) (i : Nat) : World :=
  match w.conns i with
  | some c => if c.negD = .pending then w.setConn i (cancelConn c) else w
  | none => w

/-- `InboundConnectionFactory._shutdown()`: cancel every pending inbound negotiation; each
    errback runs `_remove` (and `_proto_failed`, which traps `CancelledError`) -/
def shutdown (w : World) : World :=
  let w1 := w.fPending.foldl cancelConnAt w
  { w1 with fPending := [] }

/-- `d.cancel()` on contender `k` -/
def cancelContender (w : World) (k : Nat) : World :=
  match phaseOf w k with
  | some .listening => fireFail (shutdown w) k .cancelled
  | some (.delayed _) => fireFail w k .cancelled
  | some .connecting => fireFail w k .cancelled
  | some (.negotiating i) => fireFail (cancelConnAt w i) k .cancelled
  | _ => w            -- already fired (or not created): `cancel()` is a no-op

/-- the only-one callbacks of contender `k` after it succeeded with connection `i`:
    `_remove`, `_succeeded` (cancel a snapshot of the rest), `_maybe_done` -/
def okCallbacks (w : World) (k i : Nat) : World :=
  let w1 := { w with remaining := w.remaining.erase k, haveWinner := true, firstSuccess := some i }
  let w2 := w1.remaining.foldl cancelContender w1
  maybeDone w2

/-- contender `k`'s Deferred fires with connection `i` -/
def fireOk (w : World) (k i : Nat) : World :=
  let att := match w.cont[k]? with | some c => c.attached | none => false
  let w1 := { w with cont := setPhase w.cont k (.done none i),
                     portOpen := w.portOpen && !(isListener w.cont k && Gen.Transit.listener_stop_on_callback) }
  if att then okCallbacks w1 k i else w1

def listenerIdx (w : World) : Option Nat :=
  match w.cont with
  | c :: _ => if c.kind = .listener then some 0 else none
  | [] => none

/-- connection `i`'s `_negotiation_d` fired with `r`: run whoever is waiting on it -/
def negFired (w : World) (i : Nat) (r : Option Err) : World :=
  match w.conns i with
  | none => w
  | some c =>
    match c.owner with
    | none =>
      -- InboundConnectionFactory: `_remove`, then `_proto_succeeded` / `_proto_failed`
      let w1 := { w with fPending := w.fPending.erase i }
      match r with
      | some _ => w1
      | none =>
        let w2 := shutdown w1
        match listenerIdx w2 with
        | some k => if phaseOf w2 k = some .listening then fireOk w2 k i else w2   -- else AlreadyCalledError, swallowed by the Deferred
        | none => w2
    | some k =>
      match r with
      | none => fireOk w k i
      | some e => fireFail w k e

/-- apply what a `dataReceived`/`startNegotiation` call did to connection `i` -/
def applyCtx (w : World) (i : Nat) (x : Ctx) : World :=
  let w1 := { (w.setConn i x.c) with winner := x.winner }
  match x.fired with
  | some r => negFired w1 i r
  | none => w1

/-! ### events -/

/-- bytes arrive on connection `i` -/
def evData (w : World) (i : Nat) (data : Bytes) : World × Option Err :=
  match w.conns i with
  | none => (w, none)
  | some c =>
    let (x, raised) := dataRecv w.cfg w.winner i c data
    (applyCtx w i x, raised)

/-- the transport of connection `i` reports `connectionLost` -/
def evLost (w : World) (i : Nat) : World :=
  match w.conns i with
  | none => w
  | some c =>
    let (c', f) := connLost c
    let w1 := w.setConn i c'
    match f with
    | some e => negFired w1 i (some e)
    | none => w1

/-- a new connection is built and `makeConnection` is called: `connectionMade` (timer), then
    `startNegotiation` — by `InboundConnectionFactory.connectionWasMade` for inbound ones, by the
    `lambda p: p.startNegotiation()` of `_start_connector` for outbound ones -/
def addConn (w : World) (relayHs : Option Bytes) (owner : Option Nat) : World × Option Err :=
  let i := w.n
  let c := newConn relayHs owner (w.now + Gen.Transit.TIMEOUT_s, w.seq)
  let w1 := { w with n := w.n + 1, seq := w.seq + 1 }
  let (x, raised) := startNegotiation w.cfg w.winner i c
  let w2 := match owner with
    | none => { w1 with fPending := w1.fPending ++ [i] }
    | some k => { w1 with cont := setPhase w1.cont k (.negotiating i) }
  (applyCtx w2 i x, raised)

/-- an inbound connection while the transit key is not known yet: `connectionMade` sets the timer,
    `InboundConnectionFactory.connectionWasMade` calls `startNegotiation()`, whose `dataReceived(b"")`
    reaches `owner._send_this()` and trips `assert self._transit_key`; `dataReceived` cancels the
    timer, records the error, calls `loseConnection()`, goes to `hung up` and re-raises: the
    exception leaves `connectionWasMade` BEFORE the negotiation Deferred is put into
    `_pending_connections`: nobody will ever subscribe to it, and the value it will errback with when
    `connectionLost` comes is already fixed (`_error`).  The model therefore records it as failed
    from the start (`negD := .fail .assertion`; the harness reports such an orphan the same way).
    The connection is dropped. -/
def addOrphan (w : World) : World × Option Err :=
  -- this is what the source does iff `connectionWasMade` starts the negotiation at once and `dataReceived`
  -- has no state in which it swallows bytes (generated flags); otherwise: not modelled
  let e : Err := if Gen.Transit.inbound_negotiates_at_once && Gen.Transit.data_received_is_wrapper_only
    then .assertion else .unmodelled
  let c : Conn := { newConn none none (w.now + Gen.Transit.TIMEOUT_s, w.seq) with
    state := .hungUp, timer := none, err := some e, lost := 1, negD := .fail e }
  ({ (w.setConn w.n c) with n := w.n + 1, seq := w.seq + 1 }, some e)

/-- a peer (or a stranger) connects to the advertised port: possible exactly while the port is
    listening, whatever has become of `_listener_d` -/
def evInbound (w : World) : Option (World × Option Err) :=
  if w.portOpen then (if w.hasKey then some (addConn w none none) else some (addOrphan w)) else none

/-- has this side made its selection?  The Sender: `_winner` is set (it has written `go`); the Receiver: the
    negotiation of one of its connections has succeeded (it has seen the sender handshake and `go`). -/
def selected (w : World) : Bool :=
  if w.cfg.isSender then w.winner.isSome
  else (List.range w.n).any (fun i => match w.conns i with | some c => decide (c.negD = .ok) | none => false)

/-- a LATE contender: the listening port hands the `InboundConnectionFactory` one more connection after this
    side has made its selection — although `stopListening()` has been called by then (`listener_lifetime`).
    `IListeningPort.stopListening()` only promises a Deferred that fires when the port is really closed; what a
    port still delivers until then (an accept that raced with the stop, a backlog, a listener that is not a
    `tcp.Port`) is the environment's choice, so it is an event of its own here, possible whenever there is a
    factory and a selection.  The factory treats it like every inbound connection: `connectionWasMade` starts the
    negotiation and adds it to `_pending_connections` — nobody is left who would cancel it: `_shutdown()` ran when
    the selection was made, and `_listener_d` has fired.  What keeps the Sender from confirming it is
    `connection_ready`'s test of `_winner` alone.  (Late arrivals after a FAILED `connect()` are not part of this
    event: there the closed port is the only defence — `port_closed_once_fired`.) -/
def evAccept (w : World) : Option (World × Option Err) :=
  if (listenerIdx w).isSome && selected w then
    (if w.hasKey then some (addConn w none none) else some (addOrphan w))
  else none

def evConnected (w : World) (k : Nat) : Option (World × Option Err) :=
  match w.cont[k]? with
  | some c =>
    if c.phase = .connecting then
      some (addConn w (match c.kind with | .relay _ => some w.cfg.relayHs | _ => none) (some k))
    else none
  | none => none

/-- the endpoint's `connect()` Deferred of contender `k` errbacks with `e` (refused, timed out, DNS failure, an
    illegal hostname, a Tor stream error, …).  `_start_connector` adds nothing but the
    `lambda p: p.startNegotiation()` callback to it (generated flag), so the failure IS the contender's failure,
    whatever its class. -/
def evConnFail (w : World) (k : Nat) (e : Err) : Option World :=
  if phaseOf w k = some .connecting then
    some (fireFail w k (if Gen.Transit.start_connector_has_no_errback then e else .unmodelled))
  else none

/-- number of distinct relay priorities strictly above `p` -/
def higherPriorities (cont : List Contender) (p : Nat) : Nat :=
  ((cont.filterMap (fun c => match c.kind with | .relay q => if p < q then some q else none | _ => none)).eraseDups).length

/-- `_connect`, first half: start the connectors -/
def startContenders (now seq : Nat) (hasDirect : Bool) (all : List Contender) :
    List Contender → List Contender × Nat
  | [] => ([], seq)
  | c :: rest =>
    match c.kind, c.phase with
    | .direct, .idle =>
      let (r, s) := startContenders now seq hasDirect all rest
      ({ c with phase := .connecting } :: r, s)
    | .relay p, .idle =>
      let base := if hasDirect then Gen.Transit.RELAY_DELAY_s else 0
      let delay := base + Gen.Transit.RELAY_DELAY_s * higherPriorities all p
      let (r, s) := startContenders now (seq + 1) hasDirect all rest
      ({ c with phase := .delayed (now + delay, seq) } :: r, s)
    | _, _ =>
      let (r, s) := startContenders now seq hasDirect all rest
      (c :: r, s)

/-- `_ThereCanBeOnlyOne.run`: attach the callbacks to contender `k`; if it has fired already they
    run at once -/
def attach (w : World) (k : Nat) : World :=
  match w.cont[k]? with
  | none => w
  | some c =>
    let w1 := { w with cont := w.cont.modify k (fun c => { c with attached := true }) }
    match c.phase with
    | .done none i => okCallbacks w1 k i
    | .done (some e) _ => failCallbacks w1 k e
    | _ => w1

/-- `connect()` (the transit key is set) as `Common._connect` is written: every started attempt
    is appended to the list `contenders`, building an endpoint never raises, all of the list goes
    to `there_can_be_only_one` and under `_not_forever`. -/
def evConnectHead (w : World) : Option World :=
  if w.started then none else
  let hasDirect := w.cont.any (fun c => c.kind = .direct)
  let (cont', seq') := startContenders w.now w.seq hasDirect w.cont w.cont
  let w1 := { w with cont := cont', seq := seq', started := true, t0 := w.now }
  if w1.cont.isEmpty then
    some { w1 with result := .fail .transitError }
  else
    let ks := List.range w1.cont.length
    let w2 := { w1 with remaining := ks }
    let w3 := ks.foldl attach w2
    -- `_not_forever`: callLater, then addBoth(_done) — which cancels the timer at once if fired
    if w3.fired then some { w3 with seq := w3.seq + 1 }
    else some { w3 with deadline := some (w3.now + Gen.Transit.CONNECT_DEADLINE_s, w3.seq), seq := w3.seq + 1 }

def isListenerKind (w : World) (k : Nat) : Bool :=
  match w.cont[k]? with
  | some c => decide (c.kind = .listener)
  | none => false

/-- the same for a `_connect` whose source does NOT have the two generated properties
    (`connect_contenders_is_list`, `connect_endpoint_errors_contained`): an endpoint that cannot be
    built makes `_connect` raise on the spot — the attempts started before it keep running, wrapped
    by nothing; contenders kept in a dict keyed by description lose all but the last attempt of a
    description.  No theorem is about this variant; it keeps the model next to such a source. -/
def evConnectAlt (w : World) : Option World :=
  if w.started then none else
  let n := w.cont.length
  let hasDirect := w.cont.any (fun c => c.kind = .direct)
  let (cont', seq') := startContenders w.now w.seq hasDirect w.cont w.cont
  let bad := if Gen.Transit.connect_endpoint_errors_contained then none
             else (List.range n).find? (fun k => !isListenerKind w k && w.cfg.hintRaises k)
  match bad with
  | some j =>
    let contJ := (List.range n).filterMap (fun k => if k < j then cont'[k]? else w.cont[k]?)
    some { w with cont := contJ, seq := seq', started := true, t0 := w.now, result := .fail .valueError }
  | none =>
    let w1 := { w with cont := cont', seq := seq', started := true, t0 := w.now }
    if w1.cont.isEmpty then
      some { w1 with result := .fail .transitError }
    else
      let all := List.range n
      let ks := if Gen.Transit.connect_contenders_is_list then all
                else all.filter (fun k => isListenerKind w k ||
                  !(all.any (fun k' => k < k' && !isListenerKind w k' && w.cfg.hintKey k' == w.cfg.hintKey k)))
      let w2 := { w1 with remaining := ks }
      let w3 := ks.foldl attach w2
      if w3.fired then some { w3 with seq := w3.seq + 1 }
      else some { w3 with deadline := some (w3.now + Gen.Transit.CONNECT_DEADLINE_s, w3.seq), seq := w3.seq + 1 }

/-- `connect()`: which of the two it is is read off the source (generated flags) -/
def evConnect (w : World) : Option World :=
  if Gen.Transit.connect_contenders_is_list && Gen.Transit.connect_endpoint_errors_contained then evConnectHead w
  else evConnectAlt w

/-! ### the clock -/

inductive TimerId where
  | conn (i : Nat) | relay (k : Nat) | deadline
  deriving DecidableEq, Repr

def connTimers (w : World) : Nat → List (Timer × TimerId)
  | 0 => []
  | i + 1 =>
    (match w.conns i with
     | some c => (match c.timer with | some t => [(t, TimerId.conn i)] | none => [])
     | none => []) ++ connTimers w i

def relayTimers : List Contender → Nat → List (Timer × TimerId)
  | [], _ => []
  | c :: rest, k =>
    (match c.phase with | .delayed t => [(t, TimerId.relay k)] | _ => []) ++ relayTimers rest (k + 1)

def activeTimers (w : World) : List (Timer × TimerId) :=
  connTimers w w.n ++ relayTimers w.cont 0 ++
    (match w.deadline with | some t => [(t, TimerId.deadline)] | none => [])

def timerLe (a b : Timer × TimerId) : Bool :=
  a.1.1 < b.1.1 || (a.1.1 = b.1.1 && a.1.2 ≤ b.1.2)

def insertSorted (a : Timer × TimerId) : List (Timer × TimerId) → List (Timer × TimerId)
  | [] => [a]
  | b :: rest => if timerLe a b then a :: b :: rest else b :: insertSorted a rest

def sortTimers : List (Timer × TimerId) → List (Timer × TimerId)
  | [] => []
  | a :: rest => insertSorted a (sortTimers rest)

/-- `_winner_d.cancel()` from the `_not_forever` timer -/
def fireDeadline (w : World) : World :=
  let w1 := { w with deadline := none }
  if w1.fired then w1 else
  let w2 := w1.remaining.foldl cancelContender w1          -- `_ThereCanBeOnlyOne._cancel`
  if w2.fired then w2
  else { w2 with fired := true, firedCount := w2.firedCount + 1, result := .fail .cancelled }

/-- run one delayed call, if it is still active -/
def fireTimer (w : World) (t : Timer × TimerId) : World :=
  match t.2 with
  | .conn i =>
    match w.conns i with
    | some c => if c.timer = some t.1 then w.setConn i (timeoutConn c) else w
    | none => w
  | .relay k =>
    if phaseOf w k = some (.delayed t.1) then { w with cont := setPhase w.cont k .connecting } else w
  | .deadline =>
    if w.deadline = some t.1 then fireDeadline w else w

/-- `Clock.advance(dt)`: the due calls in (time, creation) order; no call creates another one -/
def evAdvance (w : World) (dt : Nat) : World :=
  let w1 := { w with now := w.now + dt }
  let due := sortTimers ((activeTimers w1).filter (fun t => t.1.1 ≤ w1.now))
  due.foldl fireTimer w1

/-! ### initial world and the event type -/

def initWorld (cfg : Cfg) (listener : Bool) (directs : Nat) (relays : List Nat) : World :=
  { cfg := cfg, now := 0, seq := 0, winner := none, conns := fun _ => none, n := 0, fPending := [],
    portOpen := listener, hasKey := cfg.keyAtStart,
    cont := (if listener then [{ kind := .listener, phase := .listening, attached := false }] else [])
      ++ List.replicate directs { kind := .direct, phase := .idle, attached := false }
      ++ relays.map (fun p => { kind := .relay p, phase := .idle, attached := false }),
    started := false, t0 := 0, remaining := [], haveWinner := false, firstSuccess := none,
    firstFailure := none, fired := false, deadline := none, result := .pending, firedCount := 0 }

inductive Event where
  | inbound | connect | connected (k : Nat) | connFail (k : Nat) (e : Err)
  | data (i : Nat) (d : Bytes) | lost (i : Nat) | advance (dt : Nat)
  | setKey                          -- `set_transit_key()`
  deriving Repr

/-- one event; an event that cannot happen in the current world (the harness skips it) leaves
    the world unchanged -/
def step (w : World) : Event → World
  | .inbound => match evInbound w with | some (w', _) => w' | none => w
  | .connect => if w.hasKey then (match evConnect w with | some w' => w' | none => w) else w
  | .connected k => match evConnected w k with | some (w', _) => w' | none => w
  | .connFail k e => match evConnFail w k e with | some w' => w' | none => w
  | .data i d => (evData w i d).1
  | .lost i => evLost w i
  | .advance dt => evAdvance w dt
  | .setKey => { w with hasKey := true }

def run (w : World) (evs : List Event) : World := evs.foldl step w

/-- the events of `Event` plus late contenders -/
inductive LEvent where
  | ev (e : Event)
  | accept                          -- `evAccept`
  deriving Repr

def stepL (w : World) : LEvent → World
  | .ev e => step w e
  | .accept => match evAccept w with | some (w', _) => w' | none => w

def runL (w : World) (evs : List LEvent) : World := evs.foldl stepL w

/-! ## two sides: a Sender world and a Receiver world sharing links

Environment (explicit): a *link* is one TCP connection (or one pairing made by the transit relay)
between a connection of the Sender's world and a connection of the Receiver's world.  Each end
receives, in order and in arbitrary pieces, a prefix of what the other end wrote (`fwdSR`/`fwdRS`);
through a relay each end first receives the relay's `ok\n` and the relay keeps the request line.
Connections that are not an end of a link belong to *strangers* (anybody who can reach the port or
answers a dialled address, including holders of a different key): they may send any bytes
(`.s (.data i d)` / `.r (.data i d)`).  Connection loss, connect failures, timers and `connect()` of
each side happen independently, in any order. -/

structure Link where
  sEnd : Nat            -- connection index in the Sender's world
  rEnd : Nat            -- connection index in the Receiver's world
  relay : Bool          -- both ends dialled the relay
  deriving DecidableEq, Repr

structure Duo where
  s : World
  r : World
  links : List Link

/-- what the peer end of a link receives from a connection that has written `out` -/
def streamOf (relay : Bool) (out : List Bytes) : Bytes :=
  if relay then Gen.Transit.RELAY_OK ++ (out.drop 1).flatten else out.flatten

def sLinked (d : Duo) (i : Nat) : Bool := d.links.any (fun l => l.sEnd == i)
def rLinked (d : Duo) (i : Nat) : Bool := d.links.any (fun l => l.rEnd == i)

def kindAt (w : World) (k : Nat) : Option Kind := (w.cont[k]?).map (·.kind)
def isRelayKind : Option Kind → Bool
  | some (.relay _) => true
  | _ => false

inductive LinkHow where
  | sListens (k : Nat)          -- the Receiver's direct connector `k` reaches the Sender's listening port
  | rListens (k : Nat)          -- the Sender's direct connector `k` reaches the Receiver's listening port
  | viaRelay (ks kr : Nat)      -- both sides' relay connectors are paired by the relay
  deriving Repr

inductive DEvent where
  | s (e : Event) | r (e : Event)
  | link (h : LinkHow)
  | fwdSR (l n : Nat) | fwdRS (l n : Nat)
  deriving Repr

def mkLink (d : Duo) (ps pr : Option (World × Option Err)) (relay : Bool) : Duo :=
  match ps, pr with
  | some (s', _), some (r', _) =>
    { s := s', r := r', links := d.links ++ [{ sEnd := d.s.n, rEnd := d.r.n, relay := relay }] }
  | _, _ => d

def dstep (d : Duo) : DEvent → Duo
  | .s (.data i b) => if sLinked d i then d else { d with s := step d.s (.data i b) }
  | .s e => { d with s := step d.s e }
  | .r (.data i b) => if rLinked d i then d else { d with r := step d.r (.data i b) }
  | .r e => { d with r := step d.r e }
  | .link (.sListens k) =>
    if kindAt d.r k = some .direct then mkLink d (evInbound d.s) (evConnected d.r k) false else d
  | .link (.rListens k) =>
    if kindAt d.s k = some .direct then mkLink d (evConnected d.s k) (evInbound d.r) false else d
  | .link (.viaRelay ks kr) =>
    if isRelayKind (kindAt d.s ks) && isRelayKind (kindAt d.r kr) then
      mkLink d (evConnected d.s ks) (evConnected d.r kr) true
    else d
  | .fwdSR l n =>
    match d.links[l]? with
    | some L =>
      (match d.s.conns L.sEnd, d.r.conns L.rEnd with
       | some a, some b =>
         { d with r := step d.r (.data L.rEnd (((streamOf L.relay a.out).drop b.rx.length).take n)) }
       | _, _ => d)
    | none => d
  | .fwdRS l n =>
    match d.links[l]? with
    | some L =>
      (match d.s.conns L.sEnd, d.r.conns L.rEnd with
       | some a, some b =>
         { d with s := step d.s (.data L.sEnd (((streamOf L.relay b.out).drop a.rx.length).take n)) }
       | _, _ => d)
    | none => d

def drun (d : Duo) (evs : List DEvent) : Duo := evs.foldl dstep d

def initDuo (cfgS cfgR : Cfg) (ls : Bool) (ds : Nat) (rs : List Nat) (lr : Bool) (dr : Nat) (rr : List Nat) : Duo :=
  { s := initWorld cfgS ls ds rs, r := initWorld cfgR lr dr rr, links := [] }

/-- the two-sided events plus late contenders: a stranger's late arrival at either side's port (`sAccept`,
    `rAccept`), and the Receiver's direct connector `k` reaching the Sender's port after the Sender has made
    its selection (`lateLinkS k`: a second address of the Receiver, a slow route) — a link like any other. -/
inductive LDEvent where
  | d (e : DEvent)
  | sAccept | rAccept
  | lateLinkS (k : Nat)
  deriving Repr

def dstepL (d : Duo) : LDEvent → Duo
  | .d e => dstep d e
  | .sAccept => match evAccept d.s with | some (s', _) => { d with s := s' } | none => d
  | .rAccept => match evAccept d.r with | some (r', _) => { d with r := r' } | none => d
  | .lateLinkS k =>
    if kindAt d.r k = some .direct then mkLink d (evAccept d.s) (evConnected d.r k) false else d

def drunL (d : Duo) (evs : List LDEvent) : Duo := evs.foldl dstepL d

/-! ## driver (line protocol)

```
new <S|R> <listener 0/1> <ndirect> <relay priorities a,b,…|-> <sendThis> <expectThis> <relayHs>   -> ok
inbound | accept | connect | connected k | connfail k | data i hex | lost i | advance secs       -> world summary
```
An operation that is not possible in the current state answers `skip`.
-/

def showOut (cfg : Cfg) (c : Conn) : String :=
  if c.out.isEmpty then "-" else
  String.join (c.out.map fun b =>
    if b == cfg.sendThis then "S" else if b == Gen.Transit.GO then "G"
    else if b == Gen.Transit.NEVERMIND then "N" else if b == cfg.relayHs then "Y" else "<" ++ toHex b ++ ">")

def showNeg : NegD → String
  | .pending => "pending" | .ok => "ok" | .fail e => "fail:" ++ e.name

def showConn (cfg : Cfg) (i : Nat) (c : Conn) : String :=
  s!"{i}:{c.state.name}:{c.buf.length}:{showOut cfg c}:{c.lost}:{showNeg c.negD}:{match c.err with | some e => e.name | none => "-"}:{if c.timer.isSome then "t" else "-"}"

def showRes : Res → String
  | .pending => "pending" | .ok i => s!"ok:{i}" | .fail e => "fail:" ++ e.name

def showListener (w : World) : String :=
  match listenerIdx w with
  | none => "none"
  | some k =>
    match phaseOf w k with
    | some .listening => "pending"
    | some (.done none i) => s!"ok:{i}"
    | some (.done (some e) _) => "fail:" ++ e.name
    | _ => "?"

def showWorld (w : World) : String :=
  let cs := (List.range w.n).filterMap (fun i => (w.conns i).map (showConn w.cfg i))
  s!"W={match w.winner with | some i => toString i | none => "-"} R={showRes w.result} L={showListener w} O={if w.portOpen then "open" else "closed"} K={if w.hasKey then "1" else "0"} P={w.fPending.length} T={(activeTimers w).length} | {" ".intercalate cs}"

def drvInit : World :=
  initWorld { isSender := true, sendThis := [], expectThis := [], relayHs := [], recLayer := fun b => some b, recRest := fun b => b }
    false 0 []

/-- The record-layer boundary of `dataReceivedRECORDS`, as far as C07 needs it: fewer than four
    bytes, or a 4-byte big-endian length prefix whose record is not complete yet, just *wait* (the
    buffer is kept); a COMPLETE record is handed to `_decrypt_record`.  In the harness no peer ever
    holds the record keys, so a complete record never authenticates (empty record: `ValueError`,
    wrong nonce: `BadNonce`, otherwise the SecretBox rejects it) — the call raises.  What happens to
    authentic records is C06's subject; every C07 theorem holds for an arbitrary `recLayer`. -/
def drvRecLayer (b : Bytes) : Option Bytes :=
  if b.length < 4 then some b
  else
    let len := ((b.take 4).foldl (fun acc x => acc * 256 + x) 0)
    if b.length < 4 + len then some b else none

/-- `encrypted, self.buf = self.buf[4:4 + length], self.buf[4 + length:]` precedes the raise -/
def drvRecRest (b : Bytes) : Bytes :=
  b.drop (4 + ((b.take 4).foldl (fun acc x => acc * 256 + x) 0))

def errOfName (n : String) : Err := if n == "ConnectionRefusedError" then .connectError else .other n

def withRaised (p : World × Option Err) : World × String :=
  match p.2 with
  | some e => (p.1, "raised=" ++ e.name ++ " " ++ showWorld p.1)
  | none => (p.1, showWorld p.1)

/-- per-contender hint data of a `new`/`duo` line: `-` or a comma list indexed by contender -/
def specList (t : String) : Option (List Nat) := if t == "-" then some [] else natList? (t.splitOn ",")

def drvCfg (sender : Bool) (s e y : Bytes) (keys raises : List Nat) (late : Bool := false) : Cfg :=
  { isSender := sender, sendThis := s, expectThis := e, relayHs := y, recLayer := drvRecLayer, recRest := drvRecRest,
    keyAtStart := !late,
    hintKey := fun k => match keys[k]? with | some x => x | none => 1000 + k,
    hintRaises := fun k => match raises[k]? with | some x => x != 0 | none => false }

def drvNew (w : World) (role l nd rel s e y keys raises : String) (late : Bool := false) : World × String :=
  match nd.toNat?, fromHex? s, fromHex? e, fromHex? y, specList rel, specList keys, specList raises with
  | some nd, some s, some e, some y, some rel, some keys, some raises =>
    (initWorld (drvCfg (role == "S") s e y keys raises late) (l == "1") nd rel, "ok")
  | _, _, _, _, _, _, _ => (w, "bad-op")

def drvStep (w : World) (line : String) : World × String :=
  match tokens line with
  | ["reset"] => (drvInit, "ok")
  | ["new", role, l, nd, rel, s, e, y] => drvNew w role l nd rel s e y "-" "-"
  | ["new", role, l, nd, rel, s, e, y, keys, raises] => drvNew w role l nd rel s e y keys raises
  | ["new", role, l, nd, rel, s, e, y, keys, raises, late] => drvNew w role l nd rel s e y keys raises (late == "1")
  | ["inbound"] => match evInbound w with | some p => withRaised p | none => (w, "skip")
  | ["accept"] => match evAccept w with | some p => withRaised p | none => (w, "skip")
  | ["connect"] =>
    if w.hasKey then (match evConnect w with | some w' => (w', showWorld w') | none => (w, "skip")) else (w, "skip")
  | ["setkey"] => if w.hasKey then (w, "skip") else (let w' := step w .setKey; (w', showWorld w'))
  | ["connected", k] =>
    match k.toNat? with
    | some k => (match evConnected w k with | some p => withRaised p | none => (w, "skip"))
    | none => (w, "bad-op")
  | ["connfail", k] =>
    match k.toNat? with
    | some k => (match evConnFail w k .connectError with | some w' => (w', showWorld w') | none => (w, "skip"))
    | none => (w, "bad-op")
  | ["connfail", k, cls] =>
    match k.toNat? with
    | some k => (match evConnFail w k (errOfName cls) with | some w' => (w', showWorld w') | none => (w, "skip"))
    | none => (w, "bad-op")
  | ["portclosed"] => (w, showWorld w)      -- the port's own close completing: `_stop_listening` does not wait for it
  | ["data", i, h] =>
    match i.toNat?, fromHex? h with
    | some i, some d =>
      (match w.conns i with
       | some c => if c.lost = 0 && !c.gone then withRaised (evData w i d) else (w, "skip")
       | none => (w, "skip"))
    | _, _ => (w, "bad-op")
  | ["lost", i] =>
    match i.toNat? with
    | some i =>
      (match w.conns i with
       | some c => if !c.gone then (let w' := evLost w i; (w', showWorld w')) else (w, "skip")
       | none => (w, "skip"))
    | none => (w, "bad-op")
  | ["advance", dt] =>
    match dt.toNat? with
    | some dt => let w' := evAdvance w dt; (w', showWorld w')
    | none => (w, "bad-op")
  | _ => (w, "bad-op")

/-! ### two-sided lines

```
duo <lS> <ndS> <relS> <lR> <ndR> <relR> <S.sendThis> <S.expectThis> <S.relayHs> <R.relayHs>   -> ok
S <op…> | R <op…>            one-sided operation of that side (`data` only to unlinked connections)
link s k | link r k | link y ks kr | link sl k (late: `lateLinkS`)   |   S accept | R accept
fwd SR l n | fwd RS l n      -> summary of both sides and the links, or `skip`
```
-/

structure DrvSt where
  w : World
  duo : Option Duo

def showLinks (d : Duo) : String :=
  " ".intercalate (d.links.map fun l => s!"{l.sEnd}-{l.rEnd}{if l.relay then "y" else ""}")

def showDuo (d : Duo) : String := s!"{showWorld d.s} || {showWorld d.r} || {showLinks d}"

/-- parse a one-sided operation; the Boolean says whether it is possible now (the harness skips
    impossible ones), the `Option Err` is the exception the real call lets escape -/
def sideEvent (w : World) (linked : Nat → Bool) : List String → Option (Event × Option Err)
  | ["inbound"] => (evInbound w).map fun p => (.inbound, p.2)
  | ["connect"] => if w.hasKey then (evConnect w).map fun _ => (.connect, none) else none
  | ["setkey"] => if w.hasKey then none else some (.setKey, none)
  | ["connected", k] => k.toNat?.bind fun k => (evConnected w k).map fun p => (.connected k, p.2)
  | ["connfail", k] => k.toNat?.bind fun k => (evConnFail w k .connectError).map fun _ => (.connFail k .connectError, none)
  | ["connfail", k, cls] =>
    k.toNat?.bind fun k => (evConnFail w k (errOfName cls)).map fun _ => (.connFail k (errOfName cls), none)
  | ["data", i, h] =>
    match i.toNat?, fromHex? h with
    | some i, some d =>
      (match w.conns i with
       | some c => if c.lost = 0 && !c.gone && !linked i then some (.data i d, (evData w i d).2) else none
       | none => none)
    | _, _ => none
  | ["lost", i] =>
    i.toNat?.bind fun i =>
      (match w.conns i with
       | some c => if !c.gone then some (.lost i, none) else none
       | none => none)
  | ["advance", dt] => dt.toNat?.map fun dt => (.advance dt, none)
  | _ => none

def duoOut (d : Duo) (raised : Option Err) : String :=
  match raised with
  | some e => "raised=" ++ e.name ++ " " ++ showDuo d
  | none => showDuo d

def duoStep (d : Duo) : List String → Duo × String
  | ["S", "portclosed"] => (d, showDuo d)
  | ["R", "portclosed"] => (d, showDuo d)
  | ["S", "accept"] =>
    (match evAccept d.s with
     | some p => let d' := dstepL d .sAccept; (d', duoOut d' p.2)
     | none => (d, "skip"))
  | ["R", "accept"] =>
    (match evAccept d.r with
     | some p => let d' := dstepL d .rAccept; (d', duoOut d' p.2)
     | none => (d, "skip"))
  | "S" :: rest =>
    (match sideEvent d.s (fun i => sLinked d i) rest with
     | some (e, raised) => let d' := dstep d (.s e); (d', duoOut d' raised)
     | none => (d, "skip"))
  | "R" :: rest =>
    (match sideEvent d.r (fun i => rLinked d i) rest with
     | some (e, raised) => let d' := dstep d (.r e); (d', duoOut d' raised)
     | none => (d, "skip"))
  | ["link", "sl", k] =>
    (match k.toNat? with
     | some k =>
       let d' := dstepL d (.lateLinkS k)
       if d'.links.length = d.links.length then (d, "skip") else (d', showDuo d')
     | none => (d, "bad-op"))
  | ["link", how, k] =>
    (match k.toNat? with
     | some k =>
       let ev := if how == "s" then DEvent.link (.sListens k) else DEvent.link (.rListens k)
       let d' := dstep d ev
       if d'.links.length = d.links.length then (d, "skip") else (d', showDuo d')
     | none => (d, "bad-op"))
  | ["link", "y", ks, kr] =>
    (match ks.toNat?, kr.toNat? with
     | some ks, some kr =>
       let d' := dstep d (.link (.viaRelay ks kr))
       if d'.links.length = d.links.length then (d, "skip") else (d', showDuo d')
     | _, _ => (d, "bad-op"))
  | ["fwd", dir, l, n] =>
    (match l.toNat?, n.toNat? with
     | some l, some n =>
       (match d.links[l]? with
        | some L =>
          (match d.s.conns L.sEnd, d.r.conns L.rEnd with
           | some a, some b =>
             if dir == "SR" then
               let chunk := ((streamOf L.relay a.out).drop b.rx.length).take n
               if chunk.isEmpty || b.lost != 0 || b.gone then (d, "skip")
               else let d' := dstep d (.fwdSR l n); (d', duoOut d' (evData d.r L.rEnd chunk).2)
             else
               let chunk := ((streamOf L.relay b.out).drop a.rx.length).take n
               if chunk.isEmpty || a.lost != 0 || a.gone then (d, "skip")
               else let d' := dstep d (.fwdRS l n); (d', duoOut d' (evData d.s L.sEnd chunk).2)
           | _, _ => (d, "skip"))
        | none => (d, "skip"))
     | _, _ => (d, "bad-op"))
  | _ => (d, "bad-op")

def drvDuo (st : DrvSt) (lS ndS relS lR ndR relR s e yS yR kS xS kR xR : String)
    (lateS : Bool := false) (lateR : Bool := false) : DrvSt × String :=
  match ndS.toNat?, ndR.toNat?, fromHex? s, fromHex? e, fromHex? yS, fromHex? yR, specList relS, specList relR,
        specList kS, specList xS, specList kR, specList xR with
  | some ndS, some ndR, some s, some e, some yS, some yR, some relS, some relR, some kS, some xS, some kR, some xR =>
    ({ st with duo := some (initDuo (drvCfg true s e yS kS xS lateS) (drvCfg false e s yR kR xR lateR)
        (lS == "1") ndS relS (lR == "1") ndR relR) }, "ok")
  | _, _, _, _, _, _, _, _, _, _, _, _ => (st, "bad-op")

def drvStep2 (st : DrvSt) (line : String) : DrvSt × String :=
  match tokens line with
  | ["reset"] => ({ w := drvInit, duo := none }, "ok")
  | ["duo", lS, ndS, relS, lR, ndR, relR, s, e, yS, yR] => drvDuo st lS ndS relS lR ndR relR s e yS yR "-" "-" "-" "-"
  | ["duo", lS, ndS, relS, lR, ndR, relR, s, e, yS, yR, kS, xS, kR, xR] =>
    drvDuo st lS ndS relS lR ndR relR s e yS yR kS xS kR xR
  | ["duo", lS, ndS, relS, lR, ndR, relR, s, e, yS, yR, kS, xS, kR, xR, lateS, lateR] =>
    drvDuo st lS ndS relS lR ndR relR s e yS yR kS xS kR xR (lateS == "1") (lateR == "1")
  | toks =>
    match toks with
    | t :: _ =>
      if t == "S" || t == "R" || t == "link" || t == "fwd" then
        (match st.duo with
         | some d => let (d', out) := duoStep d toks; ({ st with duo := some d' }, out)
         | none => (st, "bad-op"))
      else let (w', out) := drvStep st.w line; ({ st with w := w' }, out)
    | [] => (st, "bad-op")

def driver (lines : List String) : List String := runLines drvStep2 { w := drvInit, duo := none } lines


end WV.C07
